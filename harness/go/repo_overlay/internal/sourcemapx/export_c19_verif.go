//go:build verif

package sourcemapx

import "go/token"

// VerifSetGoCallback installs a Go-mapping callback (the field is unexported).
func (f *Filter) VerifSetGoCallback(cb func(generatedLine, generatedColumn int, originalPos token.Position, originalName string)) {
	f.goMappingCallback = cb
}
