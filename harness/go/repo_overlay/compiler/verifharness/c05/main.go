//go:build verif

// Harness for C05 (dead-code elimination).
//
//	h_c05 select         stdin: JSON list of decl graphs -> the REAL dce.Selector's selection per graph
//	h_c05 link OUTDIR    (env VERIF_REPO_DIR = the gopherjs checkout) cwd = a Go program: compile it with the real build.Session, link the SAME
//	                     archives twice (normally, then with Dce().SetAsAlive() on every Decl), write
//	                     OUTDIR/out.js, OUTDIR/out_all.js and OUTDIR/decls.json (every Decl's DCE info + code)
//	h_c05 hse            stdin: Go source of one package; prints analysis.HasSideEffect for every
//	                     package-level `var vN = <expr>` initialiser, in source order
package main

import (
	"bytes"
	"encoding/json"
	"fmt"
	"go/ast"
	"go/importer"
	"go/parser"
	"go/token"
	"go/types"
	"net/http"
	"os"
	"path/filepath"
	"sort"

	gbuild "github.com/gopherjs/gopherjs/build"
	"github.com/gopherjs/gopherjs/compiler"
	"github.com/gopherjs/gopherjs/compiler/gopherjspkg"
	"github.com/gopherjs/gopherjs/compiler/internal/analysis"
	"github.com/gopherjs/gopherjs/compiler/internal/dce"
	"github.com/gopherjs/gopherjs/compiler/linkname"
)

// ---------------------------------------------------------------- select

type gdecl struct {
	ID    int      `json:"id"`
	Alive bool     `json:"alive"`
	Obj   string   `json:"obj"`
	Meth  string   `json:"meth"`
	Deps  []string `json:"deps"`
	Link  bool     `json:"link"`
}

type graph struct {
	Decls []gdecl `json:"decls"`
	// Order lists indexes into Decls in the order Include is called (an index may repeat:
	// the same pointer included twice). Empty = 0..n-1.
	Order []int `json:"order"`
}

type vdecl struct {
	id   int
	info *dce.Info
}

func (v *vdecl) Dce() *dce.Info { return v.info }

func runSelect(g graph) (res []int, panicMsg string) {
	defer func() {
		if r := recover(); r != nil {
			panicMsg = fmt.Sprint(r)
		}
	}()
	ds := make([]*vdecl, len(g.Decls))
	for i, d := range g.Decls {
		ds[i] = &vdecl{id: d.ID, info: dce.VerifNewInfo(d.Alive, d.Obj, d.Meth, d.Deps)}
	}
	order := g.Order
	if len(order) == 0 {
		for i := range ds {
			order = append(order, i)
		}
	}
	sel := &dce.Selector[*vdecl]{}
	for _, i := range order {
		sel.Include(ds[i], g.Decls[i].Link)
	}
	res = []int{}
	for d := range sel.AliveDecls() {
		res = append(res, d.id)
	}
	sort.Ints(res)
	return res, ""
}

func cmdSelect() {
	var gs []graph
	if err := json.NewDecoder(os.Stdin).Decode(&gs); err != nil {
		fail("bad input: %v", err)
	}
	type out struct {
		Selected []int  `json:"selected"`
		Panic    string `json:"panic"`
	}
	res := make([]out, len(gs))
	for i, g := range gs {
		s, p := runSelect(g)
		res[i] = out{s, p}
	}
	json.NewEncoder(os.Stdout).Encode(res)
}

// ---------------------------------------------------------------- link

type declDump struct {
	FullName string   `json:"full_name"`
	Linking  string   `json:"linking"`
	Vars     []string `json:"vars"`
	Alive    bool     `json:"alive"`    // Info.alive
	IsAlive  bool     `json:"is_alive"` // alive || unnamed
	Obj      string   `json:"obj"`
	Meth     string   `json:"meth"`
	Deps     []string `json:"deps"`
	Link     bool     `json:"link"`     // gls.IsImplementation(LinkingName)
	Selected bool     `json:"selected"` // replica of the selection loop of WriteProgramCode
	Code     string   `json:"code"`     // all JS of the decl (every *Code field)
	Init     string   `json:"init"`     // InitCode only
}

type pkgDump struct {
	Path  string     `json:"path"`
	Decls []declDump `json:"decls"`
}

func link(deps []*compiler.Archive, goVersion, path string) error {
	buf := &bytes.Buffer{}
	if err := compiler.WriteProgramCode(deps, compiler.DefaultFilter(buf), goVersion); err != nil {
		return err
	}
	return os.WriteFile(path, buf.Bytes(), 0o666)
}

func cmdLink(outdir string) {
	cwd, err := os.Getwd()
	if err != nil {
		fail("%v", err)
	}
	// the gopherjs command embeds js/ and nosync/ (embed.go in package main); here they are served from the checkout
	repo := os.Getenv("VERIF_REPO_DIR")
	if repo == "" {
		fail("VERIF_REPO_DIR not set")
	}
	gopherjspkg.RegisterFS(http.Dir(repo))
	options := &gbuild.Options{Quiet: true}
	s, err := gbuild.NewSession(options)
	if err != nil {
		fail("session: %v", err)
	}
	xctx := gbuild.NewBuildContext(s.InstallSuffix(), options.BuildTags)
	// same steps as `gopherjs build .` (tool.go)
	pkgs, err := xctx.Match([]string{"."})
	if err != nil || len(pkgs) != 1 {
		fail("match: %v %v", pkgs, err)
	}
	pkg, err := xctx.Import(pkgs[0], cwd, 0)
	if err != nil {
		fail("import: %v", err)
	}
	archive, err := s.BuildProject(pkg)
	if err != nil {
		fail("build: %v", err)
	}
	deps, err := compiler.ImportDependencies(archive, s.ImportResolverFor(""))
	if err != nil {
		fail("deps: %v", err)
	}
	// 1. the normal link, by the real WriteProgramCode
	if err := link(deps, s.GoRelease(), filepath.Join(outdir, "out.js")); err != nil {
		fail("link: %v", err)
	}
	// dump of the decl graph + a replica of the selection loop (compared with out.js by the check)
	gls := linkname.GoLinknameSet{}
	for _, p := range deps {
		gls.Add(p.GoLinknames)
	}
	sel := &dce.Selector[*compiler.Decl]{}
	for _, p := range deps {
		for _, d := range p.Declarations {
			sel.Include(d, gls.IsImplementation(d.LinkingName))
		}
	}
	selection := sel.AliveDecls()
	dump := []pkgDump{}
	for _, p := range deps {
		pd := pkgDump{Path: p.ImportPath, Decls: []declDump{}}
		for _, d := range p.Declarations {
			alive, isAlive, obj, meth, dd := dce.VerifFields(d.Dce())
			_, selected := selection[d]
			code := bytes.Join([][]byte{d.ImportCode, d.TypeDeclCode, d.ExportTypeCode, d.AnonTypeDeclCode, d.FuncDeclCode,
				d.ExportFuncCode, d.MethodListCode, d.TypeInitCode, d.InitCode}, []byte("\n"))
			vars := d.Vars
			if vars == nil {
				vars = []string{}
			}
			pd.Decls = append(pd.Decls, declDump{FullName: d.FullName, Linking: d.LinkingName.String(), Vars: vars, Alive: alive, IsAlive: isAlive,
				Obj: obj, Meth: meth, Deps: dd, Link: gls.IsImplementation(d.LinkingName), Selected: selected,
				Code: string(code), Init: string(d.InitCode)})
		}
		dump = append(dump, pd)
	}
	f, err := os.Create(filepath.Join(outdir, "decls.json"))
	if err != nil {
		fail("%v", err)
	}
	if err := json.NewEncoder(f).Encode(dump); err != nil {
		fail("%v", err)
	}
	f.Close()
	// 2. the same archives, every declaration forced alive
	for _, p := range deps {
		for _, d := range p.Declarations {
			d.Dce().SetAsAlive()
		}
	}
	if err := link(deps, s.GoRelease(), filepath.Join(outdir, "out_all.js")); err != nil {
		fail("link(all alive): %v", err)
	}
}

// ---------------------------------------------------------------- hse

func cmdHSE() {
	fset := token.NewFileSet()
	file, err := parser.ParseFile(fset, "hse.go", os.Stdin, 0)
	if err != nil {
		fail("parse: %v", err)
	}
	info := &types.Info{Types: map[ast.Expr]types.TypeAndValue{}, Defs: map[*ast.Ident]types.Object{}, Uses: map[*ast.Ident]types.Object{},
		Selections: map[*ast.SelectorExpr]*types.Selection{}, Implicits: map[ast.Node]types.Object{}, Scopes: map[ast.Node]*types.Scope{},
		Instances: map[*ast.Ident]types.Instance{}}
	conf := types.Config{Importer: importer.Default()}
	if _, err := conf.Check("hse", fset, []*ast.File{file}, info); err != nil {
		fail("typecheck: %v", err)
	}
	type out struct {
		Name string `json:"name"`
		HSE  bool   `json:"hse"`
	}
	res := []out{}
	for _, decl := range file.Decls {
		gd, ok := decl.(*ast.GenDecl)
		if !ok || gd.Tok != token.VAR {
			continue
		}
		for _, spec := range gd.Specs {
			vs := spec.(*ast.ValueSpec)
			if len(vs.Values) != 1 {
				continue
			}
			res = append(res, out{vs.Names[0].Name, analysis.HasSideEffect(vs.Values[0], info)})
		}
	}
	json.NewEncoder(os.Stdout).Encode(res)
}

func fail(format string, a ...any) {
	fmt.Fprintf(os.Stderr, format+"\n", a...)
	os.Exit(3)
}

func main() {
	if len(os.Args) < 2 {
		fail("usage: h_c05 select|link OUTDIR|hse")
	}
	switch os.Args[1] {
	case "select":
		cmdSelect()
	case "link":
		cmdLink(os.Args[2])
	case "hse":
		cmdHSE()
	default:
		fail("unknown mode %s", os.Args[1])
	}
}
