//go:build verif

// Harness for C16 (minification).
//
//	h_c16 rw        stdin: JSON list of hex blobs -> the REAL removeWhitespace(b, true) per blob: [{"out":hex,"panic":msg}]
//	h_c16 alloc     stdin: JSON list of {"minify":bool,"ops":[{"op":"enter","name":..}|{"op":"leave"}|{"op":"alloc","name":..,"pkg":bool}]}
//	                (also {"op":"enterg","name":..}: instance of a generic function; {"op":"ptr","id":..,"name":..}: the REAL varPtrName)
//	                -> per case the list of results, one per op: enter -> funcRef name, alloc -> returned name, leave -> localVars joined by ","
//	                (contexts are built by the REAL newRootCtx / nestedFunctionContext, names by the REAL newVariable)
//	h_c16 decls     (env VERIF_REPO_DIR) cwd = a Go program: compile it un-minified with the real build.Session and print, for every
//	                Decl code blob of every package, the blob and the result of the REAL Decl.minify on it
//	h_c16 keywords  the reservedKeywords table as seen at run time
package main

import (
	"encoding/hex"
	"encoding/json"
	"fmt"
	"io"
	"net/http"
	"os"
	"strings"

	gbuild "github.com/gopherjs/gopherjs/build"
	"github.com/gopherjs/gopherjs/compiler"
	"github.com/gopherjs/gopherjs/compiler/gopherjspkg"
)

func fail(format string, a ...any) {
	fmt.Fprintf(os.Stderr, format+"\n", a...)
	os.Exit(1)
}

type rwRes struct {
	Out   string `json:"out"`
	Panic string `json:"panic"`
}

func cmdRW() {
	var blobs []string
	data, _ := io.ReadAll(os.Stdin)
	if err := json.Unmarshal(data, &blobs); err != nil {
		fail("bad input: %v", err)
	}
	res := make([]rwRes, len(blobs))
	for i, h := range blobs {
		b, err := hex.DecodeString(h)
		if err != nil {
			fail("bad hex: %v", err)
		}
		out, p := compiler.VerifC16RemoveWhitespace(b, true)
		// the non-minify path must be the identity
		same, p2 := compiler.VerifC16RemoveWhitespace(b, false)
		if p2 != "" || string(same) != string(b) {
			p = "NOT-IDENTITY-WITHOUT-MINIFY " + p2
		}
		res[i] = rwRes{Out: hex.EncodeToString(out), Panic: p}
	}
	json.NewEncoder(os.Stdout).Encode(res)
}

type op struct {
	Op   string `json:"op"`
	Name string `json:"name"`
	Pkg  bool   `json:"pkg"`
	ID   string `json:"id"`
}

type allocCase struct {
	Minify bool `json:"minify"`
	Ops    []op `json:"ops"`
}

func runAlloc(tc allocCase) []string {
	stack := []*compiler.VerifC16Ctx{compiler.VerifC16Root(tc.Minify)}
	res := []string{}
	for _, o := range tc.Ops {
		cur := stack[len(stack)-1]
		switch o.Op {
		case "enter":
			child, ref := cur.Enter(o.Name)
			stack = append(stack, child)
			res = append(res, ref)
		case "enterg":
			child, ref, p := cur.EnterGeneric(o.Name)
			if p != "" {
				res = append(res, "!panic "+p)
				continue
			}
			stack = append(stack, child)
			res = append(res, ref)
		case "ptr":
			v, p := cur.VarPtrName(o.ID, o.Name)
			if p != "" {
				v = "!panic"
			}
			res = append(res, v)
		case "leave":
			if len(stack) == 1 {
				res = append(res, "!root")
				continue
			}
			res = append(res, strings.Join(cur.LocalVars(), ","))
			stack = stack[:len(stack)-1]
		case "alloc":
			v, p := cur.NewVariable(o.Name, o.Pkg)
			if p != "" {
				v = "!panic"
			}
			res = append(res, v)
		default:
			fail("bad op %q", o.Op)
		}
	}
	return res
}

func cmdAlloc() {
	var cases []allocCase
	data, _ := io.ReadAll(os.Stdin)
	if err := json.Unmarshal(data, &cases); err != nil {
		fail("bad input: %v", err)
	}
	res := make([][]string, len(cases))
	for i, tc := range cases {
		res[i] = runAlloc(tc)
	}
	json.NewEncoder(os.Stdout).Encode(res)
}

type blob struct {
	Pkg    string `json:"pkg"`
	Decl   string `json:"decl"`
	Field  int    `json:"field"`
	Before string `json:"before"`
	After  string `json:"after"`
}

func cmdDecls() {
	cwd, err := os.Getwd()
	if err != nil {
		fail("%v", err)
	}
	repo := os.Getenv("VERIF_REPO_DIR")
	if repo == "" {
		fail("VERIF_REPO_DIR not set")
	}
	gopherjspkg.RegisterFS(http.Dir(repo))
	options := &gbuild.Options{Quiet: true}
	s, err := gbuild.NewSession(options)
	if err != nil {
		fail("session: %v", err)
	}
	xctx := gbuild.NewBuildContext(s.InstallSuffix(), options.BuildTags)
	pkgs, err := xctx.Match([]string{"."})
	if err != nil || len(pkgs) != 1 {
		fail("match: %v %v", pkgs, err)
	}
	pkg, err := xctx.Import(pkgs[0], cwd, 0)
	if err != nil {
		fail("import: %v", err)
	}
	archive, err := s.BuildProject(pkg)
	if err != nil {
		fail("build: %v", err)
	}
	deps, err := compiler.ImportDependencies(archive, s.ImportResolverFor(""))
	if err != nil {
		fail("deps: %v", err)
	}
	only := os.Getenv("C16_ONLY_PKG")
	res := []blob{}
	for _, p := range deps {
		if only != "" && p.ImportPath != only {
			continue
		}
		for _, d := range p.Declarations {
			before := compiler.VerifC16DeclCode(d)
			m := compiler.VerifC16MinifyDecl(d)
			after := compiler.VerifC16DeclCode(&m)
			for k := range before {
				if len(before[k]) == 0 {
					continue
				}
				res = append(res, blob{Pkg: p.ImportPath, Decl: d.FullName, Field: k,
					Before: hex.EncodeToString(before[k]), After: hex.EncodeToString(after[k])})
			}
		}
	}
	json.NewEncoder(os.Stdout).Encode(res)
}

func main() {
	if len(os.Args) < 2 {
		fail("usage: h_c16 rw|alloc|decls|keywords")
	}
	switch os.Args[1] {
	case "rw":
		cmdRW()
	case "alloc":
		cmdAlloc()
	case "decls":
		cmdDecls()
	case "keywords":
		json.NewEncoder(os.Stdout).Encode(compiler.VerifC16Keywords())
	default:
		fail("unknown command %q", os.Args[1])
	}
}
