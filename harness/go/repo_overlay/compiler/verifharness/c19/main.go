//go:build verif

// Harness for C19: drives the real sourcemapx.Filter / Hint.Pack / ReadHint on
// streams described on stdin (JSON) and prints what it observed (JSON).
package main

import (
	"bytes"
	"encoding/hex"
	"encoding/json"
	"fmt"
	"go/token"
	"os"

	"github.com/gopherjs/gopherjs/internal/sourcemapx"
	"github.com/neelance/sourcemap"
)

// smapping is one sourcemap.Mapping in JSON form (strings as hex so that arbitrary bytes survive)
type smapping struct {
	GL   int    `json:"gl"`
	GC   int    `json:"gc"`
	File string `json:"file"`
	OL   int    `json:"ol"`
	OC   int    `json:"oc"`
	Name string `json:"name"`
}

func toS(ms []*sourcemap.Mapping) []smapping {
	out := make([]smapping, 0, len(ms))
	for _, m := range ms {
		out = append(out, smapping{m.GeneratedLine, m.GeneratedColumn, hex.EncodeToString([]byte(m.OriginalFile)), m.OriginalLine, m.OriginalColumn, hex.EncodeToString([]byte(m.OriginalName))})
	}
	return out
}

// decodeReal runs the REAL decoder (ReadFrom + DecodedMappings) on an encoded map
func decodeReal(js []byte) ([]smapping, string) {
	sm, err := sourcemap.ReadFrom(bytes.NewReader(js))
	if err != nil {
		return nil, err.Error()
	}
	return toS(sm.DecodedMappings()), ""
}

// runCodec drives the REAL encoder: AddMapping for every given mapping, WriteTo (= sort + EncodeMappings),
// then reports the slice as the sort left it and what the real decoder reads back from the written JSON.
func runCodec(in []smapping) (res result) {
	m := &sourcemap.Map{File: "out.js"}
	for _, x := range in {
		f, _ := hex.DecodeString(x.File)
		n, _ := hex.DecodeString(x.Name)
		m.AddMapping(&sourcemap.Mapping{GeneratedLine: x.GL, GeneratedColumn: x.GC, OriginalFile: string(f), OriginalLine: x.OL, OriginalColumn: x.OC, OriginalName: string(n)})
	}
	sm := &bytes.Buffer{}
	if err := m.WriteTo(sm); err != nil {
		res.Panic = "WriteTo: " + err.Error()
		return
	}
	res.SrcMap = sm.String()
	res.Sorted = toS(m.DecodedMappings())
	res.Decoded, res.DecErr = decodeReal(sm.Bytes())
	return
}

type item struct {
	Code  *string  `json:"code,omitempty"`  // hex
	Pos   *int     `json:"pos,omitempty"`   // token.Pos packed with the real Hint.Pack
	Ident []string `json:"ident,omitempty"` // name, original name (pos in Pos)
	Raw   *string  `json:"raw,omitempty"`   // raw payload, hex (only without callback)
}

type tcase struct {
	Items    []item `json:"items"`
	Chunks   []int  `json:"chunks"`
	Callback bool   `json:"callback"`
	Mapped   bool   `json:"mapped"` // use EnableMapping (the default callbacks) and return the encoded source map
	Codec    []smapping `json:"codec,omitempty"` // codec mode: feed these mappings to the real sourcemap.Map
	DecodeJS string     `json:"decode_js,omitempty"` // decode mode: run the real decoder on this encoded map (JSON text)
}

type mapping struct {
	Line   int    `json:"line"`
	Col    int    `json:"col"`
	Offset int    `json:"offset"`
	Name   string `json:"name"`
}

type result struct {
	Stream   string    `json:"stream"`
	Payloads []string  `json:"payloads"`
	Out      string    `json:"out"`
	Maps     []mapping `json:"maps"`
	Panic    string    `json:"panic"`
	N        []int     `json:"n"`
	EncErr   string    `json:"enc_err"`
	SrcMap   string    `json:"srcmap"`
	Sorted   []smapping `json:"sorted,omitempty"`
	Decoded  []smapping `json:"decoded,omitempty"`
	DecErr   string     `json:"dec_err,omitempty"`
}

func run(tc tcase) (res result) {
	if tc.Codec != nil {
		return runCodec(tc.Codec)
	}
	if tc.DecodeJS != "" {
		res.Decoded, res.DecErr = decodeReal([]byte(tc.DecodeJS))
		return
	}
	res.Payloads = []string{}
	res.Maps = []mapping{}
	res.N = []int{}
	stream := &bytes.Buffer{}
	func() {
		defer func() {
			if r := recover(); r != nil {
				res.EncErr = fmt.Sprint(r)
			}
		}()
		for _, it := range tc.Items {
			switch {
			case it.Code != nil:
				b, _ := hex.DecodeString(*it.Code)
				stream.Write(b)
			case it.Raw != nil:
				b, _ := hex.DecodeString(*it.Raw)
				h := sourcemapx.Hint{Payload: b}
				h.WriteTo(stream)
				res.Payloads = append(res.Payloads, hex.EncodeToString(h.Payload))
			case it.Ident != nil:
				h := sourcemapx.Hint{}
				if err := h.Pack(sourcemapx.Identifier{Name: it.Ident[0], OriginalName: it.Ident[1], OriginalPos: token.Pos(*it.Pos)}); err != nil {
					panic(err)
				}
				h.WriteTo(stream)
				res.Payloads = append(res.Payloads, hex.EncodeToString(h.Payload))
			case it.Pos != nil:
				h := sourcemapx.Hint{}
				if err := h.Pack(token.Pos(*it.Pos)); err != nil {
					panic(err)
				}
				h.WriteTo(stream)
				res.Payloads = append(res.Payloads, hex.EncodeToString(h.Payload))
			}
		}
	}()
	if res.EncErr != "" {
		return
	}
	res.Stream = hex.EncodeToString(stream.Bytes())

	out := &bytes.Buffer{}
	fset := token.NewFileSet()
	tf := fset.AddFile("verif.go", 1, 1<<24)
	lines := make([]int, 0, (1<<24)/64)
	for o := 0; o < 1<<24; o += 64 {
		lines = append(lines, o)
	}
	tf.SetLines(lines) // offset o is line o/64+1, column o%64+1
	f := &sourcemapx.Filter{Writer: out, FileSet: fset}
	if tc.Mapped {
		f.EnableMapping("out.js", "/goroot", "/gopath", true)
	} else if tc.Callback {
		f.VerifSetGoCallback(func(l, c int, p token.Position, name string) {
			res.Maps = append(res.Maps, mapping{Line: l, Col: c, Offset: p.Offset, Name: name})
		})
	}
	data := stream.Bytes()
	func() {
		defer func() {
			if r := recover(); r != nil {
				res.Panic = fmt.Sprint(r)
			}
		}()
		for _, sz := range tc.Chunks {
			if sz > len(data) {
				sz = len(data)
			}
			n, err := f.Write(data[:sz])
			if err != nil {
				panic(err)
			}
			res.N = append(res.N, n)
			data = data[sz:]
		}
		if len(data) > 0 {
			n, err := f.Write(data)
			if err != nil {
				panic(err)
			}
			res.N = append(res.N, n)
		}
	}()
	res.Out = hex.EncodeToString(out.Bytes())
	if tc.Mapped && res.Panic == "" {
		sm := &bytes.Buffer{}
		if err := f.WriteMappingTo(sm); err != nil {
			res.Panic = "WriteMappingTo: " + err.Error()
		}
		res.SrcMap = sm.String()
		res.Decoded, res.DecErr = decodeReal(sm.Bytes())
	}
	return
}

func main() {
	var cases []tcase
	if err := json.NewDecoder(os.Stdin).Decode(&cases); err != nil {
		fmt.Fprintln(os.Stderr, "bad input:", err)
		os.Exit(2)
	}
	results := make([]result, len(cases))
	for i, tc := range cases {
		results[i] = run(tc)
	}
	json.NewEncoder(os.Stdout).Encode(results)
}
