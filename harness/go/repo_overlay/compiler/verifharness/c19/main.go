//go:build verif

// Harness for C19: drives the real sourcemapx.Filter / Hint.Pack / ReadHint on
// streams described on stdin (JSON) and prints what it observed (JSON).
package main

import (
	"bytes"
	"encoding/hex"
	"encoding/json"
	"fmt"
	"go/token"
	"os"

	"github.com/gopherjs/gopherjs/internal/sourcemapx"
)

type item struct {
	Code  *string  `json:"code,omitempty"`  // hex
	Pos   *int     `json:"pos,omitempty"`   // token.Pos packed with the real Hint.Pack
	Ident []string `json:"ident,omitempty"` // name, original name (pos in Pos)
	Raw   *string  `json:"raw,omitempty"`   // raw payload, hex (only without callback)
}

type tcase struct {
	Items    []item `json:"items"`
	Chunks   []int  `json:"chunks"`
	Callback bool   `json:"callback"`
	Mapped   bool   `json:"mapped"` // use EnableMapping (the default callbacks) and return the encoded source map
}

type mapping struct {
	Line   int    `json:"line"`
	Col    int    `json:"col"`
	Offset int    `json:"offset"`
	Name   string `json:"name"`
}

type result struct {
	Stream   string    `json:"stream"`
	Payloads []string  `json:"payloads"`
	Out      string    `json:"out"`
	Maps     []mapping `json:"maps"`
	Panic    string    `json:"panic"`
	N        []int     `json:"n"`
	EncErr   string    `json:"enc_err"`
	SrcMap   string    `json:"srcmap"`
}

func run(tc tcase) (res result) {
	res.Payloads = []string{}
	res.Maps = []mapping{}
	res.N = []int{}
	stream := &bytes.Buffer{}
	func() {
		defer func() {
			if r := recover(); r != nil {
				res.EncErr = fmt.Sprint(r)
			}
		}()
		for _, it := range tc.Items {
			switch {
			case it.Code != nil:
				b, _ := hex.DecodeString(*it.Code)
				stream.Write(b)
			case it.Raw != nil:
				b, _ := hex.DecodeString(*it.Raw)
				h := sourcemapx.Hint{Payload: b}
				h.WriteTo(stream)
				res.Payloads = append(res.Payloads, hex.EncodeToString(h.Payload))
			case it.Ident != nil:
				h := sourcemapx.Hint{}
				if err := h.Pack(sourcemapx.Identifier{Name: it.Ident[0], OriginalName: it.Ident[1], OriginalPos: token.Pos(*it.Pos)}); err != nil {
					panic(err)
				}
				h.WriteTo(stream)
				res.Payloads = append(res.Payloads, hex.EncodeToString(h.Payload))
			case it.Pos != nil:
				h := sourcemapx.Hint{}
				if err := h.Pack(token.Pos(*it.Pos)); err != nil {
					panic(err)
				}
				h.WriteTo(stream)
				res.Payloads = append(res.Payloads, hex.EncodeToString(h.Payload))
			}
		}
	}()
	if res.EncErr != "" {
		return
	}
	res.Stream = hex.EncodeToString(stream.Bytes())

	out := &bytes.Buffer{}
	fset := token.NewFileSet()
	tf := fset.AddFile("verif.go", 1, 1<<24)
	lines := make([]int, 0, (1<<24)/64)
	for o := 0; o < 1<<24; o += 64 {
		lines = append(lines, o)
	}
	tf.SetLines(lines) // offset o is line o/64+1, column o%64+1
	f := &sourcemapx.Filter{Writer: out, FileSet: fset}
	if tc.Mapped {
		f.EnableMapping("out.js", "/goroot", "/gopath", true)
	} else if tc.Callback {
		f.VerifSetGoCallback(func(l, c int, p token.Position, name string) {
			res.Maps = append(res.Maps, mapping{Line: l, Col: c, Offset: p.Offset, Name: name})
		})
	}
	data := stream.Bytes()
	func() {
		defer func() {
			if r := recover(); r != nil {
				res.Panic = fmt.Sprint(r)
			}
		}()
		for _, sz := range tc.Chunks {
			if sz > len(data) {
				sz = len(data)
			}
			n, err := f.Write(data[:sz])
			if err != nil {
				panic(err)
			}
			res.N = append(res.N, n)
			data = data[sz:]
		}
		if len(data) > 0 {
			n, err := f.Write(data)
			if err != nil {
				panic(err)
			}
			res.N = append(res.N, n)
		}
	}()
	res.Out = hex.EncodeToString(out.Bytes())
	if tc.Mapped && res.Panic == "" {
		sm := &bytes.Buffer{}
		if err := f.WriteMappingTo(sm); err != nil {
			res.Panic = "WriteMappingTo: " + err.Error()
		}
		res.SrcMap = sm.String()
	}
	return
}

func main() {
	var cases []tcase
	if err := json.NewDecoder(os.Stdin).Decode(&cases); err != nil {
		fmt.Fprintln(os.Stderr, "bad input:", err)
		os.Exit(2)
	}
	results := make([]result, len(cases))
	for i, tc := range cases {
		results[i] = run(tc)
	}
	json.NewEncoder(os.Stdout).Encode(results)
}
