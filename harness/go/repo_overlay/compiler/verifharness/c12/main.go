//go:build verif

// Harness for C12: drives the real augmentOverlayFile / augmentOriginalImports /
// augmentOriginalFile / pruneImports / finalizeRemovals (and, in mode "real", the whole
// parseAndAugment) of package build on source texts given on stdin (JSON list of cases)
// and prints a structural projection of the resulting ASTs, the overrides map, and the
// go/types verdict + constant values of the original / merged / expected packages.
package main

import (
	"bytes"
	"encoding/json"
	"fmt"
	"go/ast"
	"go/constant"
	"go/parser"
	"go/printer"
	"go/token"
	"go/types"
	"os"
	"path"
	"sort"
	"strconv"
	"strings"

	gbuild "github.com/gopherjs/gopherjs/build"
)

type tcase struct {
	Mode       string   `json:"mode"` // merge | prune | real | postload
	ImportPath string   `json:"import_path"`
	Overlay    []string `json:"overlay"`
	Original   []string `json:"original"`
	Expected   []string `json:"expected"`
	Print      bool     `json:"print"`
	Dir        string   `json:"dir"`
	GoFiles    []string `json:"go_files"`
	TestFiles  []string `json:"test_files"`
	TypeCheck  bool     `json:"typecheck"`
}

type tcres struct {
	Errors []string          `json:"errors"`
	Consts map[string]string `json:"consts"`
}

type result struct {
	InOverlay   []any                       `json:"in_overlay"`
	InOriginal  []any                       `json:"in_original"`
	Overrides   []gbuild.VerifOverrideEntry `json:"overrides"`
	OutOverlay  []any                       `json:"out_overlay"`
	OutOriginal []any                       `json:"out_original"`
	ExpProj     []any                       `json:"expected_proj"`
	TcOriginal  *tcres                      `json:"tc_original"`
	TcMerged    *tcres                      `json:"tc_merged"`
	TcExpected  *tcres                      `json:"tc_expected"`
	Printed     []string                    `json:"printed"`
	GoFiles     []string                    `json:"go_files"`
	TestFiles   []string                    `json:"test_files"`
	Panic       string                      `json:"panic"`
}

type M = map[string]any

func comments(cg *ast.CommentGroup) []string {
	res := []string{}
	if cg != nil {
		for _, c := range cg.List {
			res = append(res, c.Text)
		}
	}
	return res
}

// unresolved selector bases, the criterion pruneImports documents
func uses(nodes ...ast.Node) []string {
	set := map[string]bool{}
	for _, n := range nodes {
		if n == nil || isNilNode(n) {
			continue
		}
		ast.Inspect(n, func(n ast.Node) bool {
			if sel, ok := n.(*ast.SelectorExpr); ok {
				if id, ok := sel.X.(*ast.Ident); ok && id.Obj == nil {
					set[id.Name] = true
				}
			}
			return true
		})
	}
	res := []string{}
	for k := range set {
		res = append(res, k)
	}
	sort.Strings(res)
	return res
}

func isNilNode(n ast.Node) bool {
	switch v := n.(type) {
	case *ast.FieldList:
		return v == nil
	case *ast.BlockStmt:
		return v == nil
	case *ast.FuncType:
		return v == nil
	}
	return false
}

func fl(x *ast.FieldList) ast.Node {
	if x == nil {
		return nil
	}
	return x
}

func firstName(fl *ast.FieldList) any {
	if fl == nil {
		return nil
	}
	if len(fl.List) == 0 || len(fl.List[0].Names) == 0 {
		return ""
	}
	return fl.List[0].Names[0].Name
}

func projValue(e ast.Expr) any {
	switch v := e.(type) {
	case *ast.BasicLit:
		return M{"lit": v.Value}
	case *ast.Ident:
		return M{"ident": v.Name}
	case *ast.BinaryExpr:
		if x, ok := v.X.(*ast.Ident); ok && x.Name == "iota" {
			if y, ok := v.Y.(*ast.BasicLit); ok {
				return M{"iota": y.Value}
			}
		}
	case *ast.SelectorExpr:
		if root, path, ok := chain(v); ok && path != "" {
			return M{"sel": root, "f": path}
		}
	case *ast.CallExpr:
		if root, path, ok := chain(v); ok && strings.HasSuffix(path, "()") {
			return M{"call": root, "f": strings.TrimSuffix(path, "()")}
		}
	}
	return M{"other": fmt.Sprintf("%T", e)}
}

// chain renders a selector / argument-less call chain rooted at an identifier:
// pkg.S.In.F -> ("pkg", "S.In.F"), pkg.G().M() -> ("pkg", "G().M()")
func chain(e ast.Expr) (root, path string, ok bool) {
	switch v := e.(type) {
	case *ast.Ident:
		return v.Name, "", true
	case *ast.SelectorExpr:
		r, p, ok := chain(v.X)
		if !ok {
			return "", "", false
		}
		if p != "" {
			p += "."
		}
		return r, p + v.Sel.Name, true
	case *ast.CallExpr:
		if len(v.Args) != 0 {
			return "", "", false
		}
		r, p, ok := chain(v.Fun)
		if !ok || p == "" {
			return "", "", false
		}
		return r, p + "()", true
	}
	return "", "", false
}

func projFile(f *ast.File) any {
	decls := []any{}
	for _, decl := range f.Decls {
		switch d := decl.(type) {
		case *ast.FuncDecl:
			m := M{"k": "func", "name": d.Name.Name, "doc": comments(d.Doc), "recv": nil}
			if d.Recv != nil && len(d.Recv.List) > 0 {
				r := M{"var": "", "ptr": false, "ntp": 0, "type": ""}
				if len(d.Recv.List[0].Names) > 0 {
					r["var"] = d.Recv.List[0].Names[0].Name
				}
				t := d.Recv.List[0].Type
				for t != nil {
					switch x := t.(type) {
					case *ast.StarExpr:
						r["ptr"] = true
						t = x.X
					case *ast.IndexExpr:
						r["ntp"] = 1
						t = x.X
					case *ast.IndexListExpr:
						r["ntp"] = len(x.Indices)
						t = x.X
					case *ast.Ident:
						r["type"] = x.Name
						t = nil
					default:
						r["type"] = fmt.Sprintf("?%T", t)
						t = nil
					}
				}
				m["recv"] = r
			}
			m["tps"] = firstName(d.Type.TypeParams)
			m["par"] = firstName(d.Type.Params)
			m["res"] = firstName(d.Type.Results)
			m["body"] = nil
			if d.Body != nil {
				m["body"] = ""
				if len(d.Body.List) > 0 {
					if as, ok := d.Body.List[0].(*ast.AssignStmt); ok && len(as.Rhs) == 1 {
						if bl, ok := as.Rhs[0].(*ast.BasicLit); ok {
							m["body"] = bl.Value
						}
					}
				}
			}
			var recv ast.Node
			if d.Recv != nil {
				recv = d.Recv
			}
			var body ast.Node
			if d.Body != nil {
				body = d.Body
			}
			m["sig_uses"] = uses(recv, d.Type)
			m["par_uses"] = uses(fl(d.Type.Params))
			m["res_uses"] = uses(fl(d.Type.Results))
			m["uses"] = uses(body)
			decls = append(decls, m)
		case *ast.GenDecl:
			g := M{"k": "gen", "tok": d.Tok.String(), "paren": d.Lparen.IsValid(), "doc": comments(d.Doc)}
			specs := []any{}
			for _, spec := range d.Specs {
				switch s := spec.(type) {
				case *ast.ImportSpec:
					p, _ := strconv.Unquote(s.Path.Value)
					m := M{"k": "import", "name": nil, "path": p, "doc": comments(s.Doc), "cmt": comments(s.Comment)}
					if s.Name != nil {
						m["name"] = s.Name.Name
					}
					specs = append(specs, m)
				case *ast.TypeSpec:
					m := M{"k": "type", "name": s.Name.Name, "doc": comments(s.Doc), "cmt": comments(s.Comment), "ntp": 0, "mark": "", "uses": uses(s.Type)}
					if s.TypeParams != nil {
						n := 0
						for _, f := range s.TypeParams.List {
							n += len(f.Names)
						}
						m["ntp"] = n
					}
					if st, ok := s.Type.(*ast.StructType); ok && st.Fields != nil && len(st.Fields.List) > 0 && len(st.Fields.List[0].Names) > 0 {
						m["mark"] = st.Fields.List[0].Names[0].Name
					}
					specs = append(specs, m)
				case *ast.ValueSpec:
					names := []string{}
					for _, n := range s.Names {
						names = append(names, n.Name)
					}
					vals := []any{}
					for _, v := range s.Values {
						vals = append(vals, projValue(v))
					}
					specs = append(specs, M{"k": "value", "names": names, "typ": s.Type != nil, "values": vals, "doc": comments(s.Doc), "cmt": comments(s.Comment)})
				}
			}
			g["specs"] = specs
			decls = append(decls, g)
		}
	}
	imps := []any{}
	for _, s := range f.Imports {
		p, _ := strconv.Unquote(s.Path.Value)
		m := M{"name": nil, "path": p}
		if s.Name != nil {
			m["name"] = s.Name.Name
		}
		imps = append(imps, m)
	}
	return M{"decls": decls, "imports": imps}
}

// ---- go/types with a synthetic importer

type fakeImporter struct{ pkgs map[string]*types.Package }

func (fi *fakeImporter) Import(p string) (*types.Package, error) {
	if p == "unsafe" {
		return types.Unsafe, nil
	}
	if pkg, ok := fi.pkgs[p]; ok {
		return pkg, nil
	}
	pkg := types.NewPackage(p, path.Base(p))
	if !strings.HasPrefix(p, "dot/") {
		sc := pkg.Scope()
		intT := types.Typ[types.Int]
		sc.Insert(types.NewConst(token.NoPos, pkg, "X", intT, constant.MakeInt64(7)))
		sc.Insert(types.NewVar(token.NoPos, pkg, "V", intT))
		for n := 1; n <= 3; n++ {
			vars := []*types.Var{}
			for i := 0; i < n; i++ {
				vars = append(vars, types.NewVar(token.NoPos, pkg, "", intT))
			}
			sig := types.NewSignatureType(nil, nil, nil, types.NewTuple(), types.NewTuple(vars...), false)
			sc.Insert(types.NewFunc(token.NoPos, pkg, fmt.Sprintf("F%d", n), sig))
		}
		tn := types.NewTypeName(token.NoPos, pkg, "T", nil)
		types.NewNamed(tn, types.NewStruct(nil, nil), nil)
		sc.Insert(tn)
		// type Inner struct{ F int }; type R struct{ F int; In Inner }; func (R) M() int; var S R; func G() R
		inner := types.NewNamed(types.NewTypeName(token.NoPos, pkg, "Inner", nil),
			types.NewStruct([]*types.Var{types.NewField(token.NoPos, pkg, "F", intT, false)}, nil), nil)
		sc.Insert(inner.Obj())
		rT := types.NewNamed(types.NewTypeName(token.NoPos, pkg, "R", nil),
			types.NewStruct([]*types.Var{types.NewField(token.NoPos, pkg, "F", intT, false), types.NewField(token.NoPos, pkg, "In", inner, false)}, nil), nil)
		recv := types.NewVar(token.NoPos, pkg, "", rT)
		rT.AddMethod(types.NewFunc(token.NoPos, pkg, "M", types.NewSignatureType(recv, nil, nil, types.NewTuple(),
			types.NewTuple(types.NewVar(token.NoPos, pkg, "", intT)), false)))
		sc.Insert(rT.Obj())
		sc.Insert(types.NewVar(token.NoPos, pkg, "S", rT))
		sc.Insert(types.NewFunc(token.NoPos, pkg, "G", types.NewSignatureType(nil, nil, nil, types.NewTuple(),
			types.NewTuple(types.NewVar(token.NoPos, pkg, "", rT)), false)))
	}
	pkg.MarkComplete()
	fi.pkgs[p] = pkg
	return pkg, nil
}

func typecheck(fset *token.FileSet, files []*ast.File) *tcres {
	res := &tcres{Errors: []string{}, Consts: map[string]string{}}
	live := []*ast.File{}
	for _, f := range files {
		if f != nil {
			live = append(live, f)
		}
	}
	conf := types.Config{
		Importer: &fakeImporter{pkgs: map[string]*types.Package{}},
		Error: func(err error) {
			msg := err.Error()
			if i := strings.Index(msg, ": "); i >= 0 {
				msg = msg[i+2:]
			}
			if strings.Contains(msg, "missing function body") {
				return
			}
			if strings.Contains(msg, "imported and not used") && strings.Contains(msg, "dot/") {
				return
			}
			if len(res.Errors) < 6 {
				res.Errors = append(res.Errors, msg)
			}
		},
	}
	func() {
		defer func() {
			if r := recover(); r != nil {
				res.Errors = append(res.Errors, fmt.Sprintf("go/types panic: %v", r))
			}
		}()
		pkg, _ := conf.Check("p", fset, live, nil)
		if pkg != nil {
			for _, n := range pkg.Scope().Names() {
				if c, ok := pkg.Scope().Lookup(n).(*types.Const); ok && c.Val() != nil && c.Val().Kind() != constant.Unknown {
					res.Consts[n] = c.Val().ExactString()
				}
			}
		}
	}()
	return res
}

func parseAll(fset *token.FileSet, prefix string, srcs []string) ([]*ast.File, error) {
	files := []*ast.File{}
	for i, s := range srcs {
		f, err := parser.ParseFile(fset, fmt.Sprintf("%s%d.go", prefix, i), s, parser.ParseComments)
		if err != nil {
			return nil, fmt.Errorf("parse %s%d: %v", prefix, i, err)
		}
		files = append(files, f)
	}
	return files, nil
}

func projAll(files []*ast.File) []any {
	res := []any{}
	for _, f := range files {
		res = append(res, projFile(f))
	}
	return res
}

func printAll(fset *token.FileSet, files []*ast.File) []string {
	res := []string{}
	for _, f := range files {
		var buf bytes.Buffer
		if err := printer.Fprint(&buf, fset, f); err != nil {
			buf.WriteString("\n// print error: " + err.Error())
		}
		res = append(res, buf.String())
	}
	return res
}

func run(tc tcase) (res result) {
	defer func() {
		if r := recover(); r != nil {
			res.Panic = fmt.Sprint(r)
		}
	}()
	fset := token.NewFileSet()
	switch tc.Mode {
	case "postload":
		res.GoFiles, res.TestFiles = gbuild.VerifPostload(tc.ImportPath, tc.GoFiles, tc.TestFiles)
		return
	case "real":
		files, err := gbuild.VerifParseAndAugment(tc.ImportPath, tc.Dir, tc.GoFiles, fset)
		if err != nil {
			res.Panic = "error: " + err.Error()
			return
		}
		res.Printed = printAll(fset, files)
		return
	case "prune":
		orig, err := parseAll(fset, "orig", tc.Original)
		if err != nil {
			res.Panic = err.Error()
			return
		}
		res.InOriginal = projAll(orig)
		for _, f := range orig {
			gbuild.VerifPruneImports(f)
		}
		res.OutOriginal = projAll(orig)
		if tc.Print {
			res.Printed = printAll(fset, orig)
		}
		return
	}
	ov, err := parseAll(fset, "gopherjs__ov", tc.Overlay)
	if err != nil {
		res.Panic = err.Error()
		return
	}
	orig, err := parseAll(fset, "orig", tc.Original)
	if err != nil {
		res.Panic = err.Error()
		return
	}
	res.InOverlay, res.InOriginal = projAll(ov), projAll(orig)
	if tc.TypeCheck {
		// the original package alone, from a fresh parse (the pipeline mutates the ASTs)
		fs2 := token.NewFileSet()
		o2, _ := parseAll(fs2, "orig", tc.Original)
		res.TcOriginal = typecheck(fs2, o2)
	}
	// the overrides map is local to parseAndAugment: observe it by running the real overlay scan
	// on a separate parse (the only restated line is the deletion of the key "init")
	{
		fs4 := token.NewFileSet()
		ov4, _ := parseAll(fs4, "gopherjs__ov", tc.Overlay)
		overrides := gbuild.VerifNewOverrides()
		for _, f := range ov4 {
			overrides.AugmentOverlayFile(f)
		}
		overrides.Delete("init")
		res.Overrides = overrides.Dump()
	}
	// the REAL parseAndAugment (glue included) on the same sources, overlay served through natives.FS
	files, nov, err := gbuild.VerifParseAndAugmentMem(tc.ImportPath, tc.Overlay, tc.Original, fset)
	if err != nil {
		res.Panic = "parseAndAugment: " + err.Error()
		return
	}
	if nov != len(tc.Overlay) {
		res.Panic = fmt.Sprintf("parseAndAugment returned %d overlay files for %d overlay sources", nov, len(tc.Overlay))
		return
	}
	ov, orig = files[:nov], files[nov:]
	res.OutOverlay, res.OutOriginal = projAll(ov), projAll(orig)
	if tc.Print {
		res.Printed = printAll(fset, files)
	}
	if tc.TypeCheck {
		res.TcMerged = typecheck(fset, files)
	}
	if tc.Expected != nil {
		fs3 := token.NewFileSet()
		exp, err := parseAll(fs3, "exp", tc.Expected)
		if err != nil {
			res.Panic = "expected: " + err.Error()
			return
		}
		res.ExpProj = projAll(exp)
		if tc.TypeCheck {
			res.TcExpected = typecheck(fs3, exp)
		}
	}
	return
}

func main() {
	var cases []tcase
	dec := json.NewDecoder(os.Stdin)
	if err := dec.Decode(&cases); err != nil {
		fmt.Fprintln(os.Stderr, "bad input:", err)
		os.Exit(2)
	}
	out := make([]result, len(cases))
	for i, tc := range cases {
		out[i] = run(tc)
	}
	enc := json.NewEncoder(os.Stdout)
	if err := enc.Encode(out); err != nil {
		fmt.Fprintln(os.Stderr, err)
		os.Exit(2)
	}
}
