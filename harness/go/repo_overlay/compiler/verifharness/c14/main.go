//go:build verif

// Harness for C14.  Reads one JSON request on stdin and prints one JSON reply:
//   - "lits": the REAL compiler.encodeString applied to every constant (hex in, hex out);
//   - everything else: the reference answers of native Go (the spec side of the check):
//     utf8 decoding at every position, []rune / []byte conversions, range loop, string(rune),
//     string(int64), slicing with all index forms (with the run-time panic observed).
package main

import (
	"encoding/hex"
	"encoding/json"
	"os"
	"unicode/utf8"

	"github.com/gopherjs/gopherjs/compiler"
)

type subReq struct {
	S  string `json:"s"` // hex
	Lo int    `json:"lo"`
	Hi *int   `json:"hi"`
}

type request struct {
	Strings []string  `json:"strings"` // hex
	Runes   []int64   `json:"runes"`
	I64     []int64   `json:"i64"`
	R2S     [][]int32 `json:"r2s"`
	Subs    []subReq  `json:"subs"`
	Lits    []string  `json:"lits"` // hex
}

type strRes struct {
	Decs  [][2]int `json:"decs"`  // utf8.DecodeRuneInString(s[pos:]) for pos < len
	Range [][2]int `json:"range"` // for i, r := range s
	Runes []int32  `json:"runes"` // []rune(s)
	Back  string   `json:"back"`  // string([]rune(s)), hex
	Bytes string   `json:"bytes"` // []byte(s), hex
	Valid bool     `json:"valid"`
}

type reply struct {
	Strings []strRes  `json:"strings"`
	Runes   []string  `json:"runes"` // string(rune(r)) resp. "�" outside int32, hex
	I64     []string  `json:"i64"`   // string(x), hex
	R2S     []string  `json:"r2s"`   // string([]rune{...}), hex
	Subs    []*string `json:"subs"`  // s[lo:hi] hex, null = run-time panic
	Lits    []string  `json:"lits"`  // encodeString(s), hex
}

func unhex(h string) string {
	b, err := hex.DecodeString(h)
	if err != nil {
		panic(err)
	}
	return string(b)
}

func slice(s string, lo int, hi *int) (res *string) {
	defer func() {
		if recover() != nil {
			res = nil
		}
	}()
	var r string
	if hi == nil {
		r = s[lo:]
	} else {
		r = s[lo:*hi]
	}
	h := hex.EncodeToString([]byte(r))
	return &h
}

func main() {
	var req request
	if err := json.NewDecoder(os.Stdin).Decode(&req); err != nil {
		panic(err)
	}
	var rep reply
	rep.Strings = make([]strRes, 0, len(req.Strings))
	for _, h := range req.Strings {
		s := unhex(h)
		var r strRes
		r.Decs = make([][2]int, 0, len(s))
		for pos := 0; pos < len(s); pos++ {
			c, w := utf8.DecodeRuneInString(s[pos:])
			r.Decs = append(r.Decs, [2]int{int(c), w})
		}
		r.Range = [][2]int{}
		for i, c := range s {
			r.Range = append(r.Range, [2]int{i, int(c)})
		}
		r.Runes = []rune(s)
		if r.Runes == nil {
			r.Runes = []rune{}
		}
		r.Back = hex.EncodeToString([]byte(string(r.Runes)))
		r.Bytes = hex.EncodeToString([]byte(s))
		r.Valid = utf8.ValidString(s)
		rep.Strings = append(rep.Strings, r)
	}
	rep.Runes = []string{}
	for _, x := range req.Runes {
		rep.Runes = append(rep.Runes, hex.EncodeToString([]byte(string(x))))
	}
	rep.I64 = []string{}
	for _, x := range req.I64 {
		rep.I64 = append(rep.I64, hex.EncodeToString([]byte(string(x))))
	}
	rep.R2S = []string{}
	for _, rs := range req.R2S {
		rep.R2S = append(rep.R2S, hex.EncodeToString([]byte(string(rs))))
	}
	rep.Subs = []*string{}
	for _, q := range req.Subs {
		rep.Subs = append(rep.Subs, slice(unhex(q.S), q.Lo, q.Hi))
	}
	rep.Lits = []string{}
	for _, h := range req.Lits {
		rep.Lits = append(rep.Lits, hex.EncodeToString([]byte(compiler.VerifEncodeString(unhex(h)))))
	}
	if err := json.NewEncoder(os.Stdout).Encode(&rep); err != nil {
		panic(err)
	}
}
