//go:build verif

// Harness for C04 phase 4: runs the REAL typeparams.Instance naming functions, the REAL InstanceMap and the
// REAL Resolver.Substitute on instances / histories / type expressions taken from a type-checked source.
// JSON in (list of cases) -> JSON out (list of results).
package main

import (
	"encoding/json"
	"fmt"
	"go/ast"
	"go/parser"
	"go/token"
	"go/types"
	"os"

	"github.com/gopherjs/gopherjs/compiler/internal/typeparams"
)

type instSpec struct {
	Obj   string `json:"obj"`   // package-level name, "Type.Method", or the name of a type declared inside Host
	TArgs []int  `json:"targs"` // indices into the fields of the package-level struct `Closed`
	TNest []int  `json:"tnest"`
}

type opSpec struct {
	Op   string `json:"op"` // set get has del len
	Inst int    `json:"inst"`
	Val  int    `json:"val"`
}

type substSpec struct {
	Root  int    `json:"root"`  // index into insts: the root instance of the Resolver
	Owner string `json:"owner"` // local struct type whose field is substituted
	Field int    `json:"field"`
}

type tcase struct {
	Src    string      `json:"src"`
	Insts  []instSpec  `json:"insts"`
	Ops    []opSpec    `json:"ops"`
	Substs []substSpec `json:"substs"`
}

type nameRes struct {
	String     string `json:"string"`
	TypeString string `json:"type_string"`
	Label      string `json:"label"`
	Trivial    bool   `json:"trivial"`
}

type substRes struct {
	Str      string `json:"str"`       // types.TypeString(result, nil)
	HasParam bool   `json:"has_param"` // a *types.TypeParam occurs in the result (walked independently)
	Error    string `json:"error"`
}

type result struct {
	Error     string     `json:"error"`
	Names     []nameRes  `json:"names"`
	OpRes     []int      `json:"op_res"` // set: old value; get: value; has/del: 0/1; len: length
	Keys      []int      `json:"keys"`   // indices (first matching inst) of Keys() at the end, sorted
	Buckets   [4]int     `json:"buckets"`
	MaxBucket int        `json:"max_bucket"` // longest bucket seen at any time
	SameBkt   int        `json:"same_bucket_pairs"`
	Substs    []substRes `json:"substs"`
}

func hasParam(t types.Type, seen map[types.Type]bool) bool {
	if seen[t] {
		return false
	}
	seen[t] = true
	switch t := t.(type) {
	case *types.TypeParam:
		return true
	case *types.Named:
		for i := 0; i < t.TypeArgs().Len(); i++ {
			if hasParam(t.TypeArgs().At(i), seen) {
				return true
			}
		}
		return false
	case *types.Pointer:
		return hasParam(t.Elem(), seen)
	case *types.Slice:
		return hasParam(t.Elem(), seen)
	case *types.Array:
		return hasParam(t.Elem(), seen)
	case *types.Chan:
		return hasParam(t.Elem(), seen)
	case *types.Map:
		return hasParam(t.Key(), seen) || hasParam(t.Elem(), seen)
	case *types.Signature:
		for i := 0; i < t.Params().Len(); i++ {
			if hasParam(t.Params().At(i).Type(), seen) {
				return true
			}
		}
		for i := 0; i < t.Results().Len(); i++ {
			if hasParam(t.Results().At(i).Type(), seen) {
				return true
			}
		}
		return false
	case *types.Struct:
		for i := 0; i < t.NumFields(); i++ {
			if hasParam(t.Field(i).Type(), seen) {
				return true
			}
		}
		return false
	}
	return false
}

func run(tc tcase) (res result) {
	defer func() {
		if r := recover(); r != nil {
			res.Error = "panic: " + fmt.Sprint(r)
		}
	}()
	fset := token.NewFileSet()
	f, err := parser.ParseFile(fset, "verifc04p4/main.go", tc.Src, 0)
	if err != nil {
		res.Error = "parse: " + err.Error()
		return
	}
	info := &types.Info{Defs: map[*ast.Ident]types.Object{}, Uses: map[*ast.Ident]types.Object{}, Instances: map[*ast.Ident]types.Instance{},
		Types: map[ast.Expr]types.TypeAndValue{}}
	tctx := types.NewContext()
	conf := types.Config{Context: tctx, Sizes: &types.StdSizes{WordSize: 4, MaxAlign: 8}}
	pkg, err := conf.Check("verifc04p4", fset, []*ast.File{f}, info)
	if err != nil {
		res.Error = "typecheck: " + err.Error()
		return
	}
	// every declared type name, including those inside function bodies (last declaration of a name wins only if
	// names repeat; the generator uses unique names except for the shadowing witness, addressed as name#k)
	defs := map[string]types.Object{}
	count := map[string]int{}
	ast.Inspect(f, func(n ast.Node) bool {
		if id, ok := n.(*ast.Ident); ok {
			if o, ok := info.Defs[id]; ok && o != nil {
				if _, isT := o.(*types.TypeName); isT {
					k := count[id.Name]
					count[id.Name]++
					defs[fmt.Sprintf("%s#%d", id.Name, k)] = o
					if k == 0 {
						defs[id.Name] = o
					}
				}
			}
		}
		return true
	})
	lookup := func(name string) types.Object {
		for i := 0; i < len(name); i++ {
			if name[i] == '.' {
				t := defs[name[:i]]
				if t == nil {
					panic("no type " + name[:i])
				}
				nt := t.Type().(*types.Named)
				for k := 0; k < nt.NumMethods(); k++ {
					if nt.Method(k).Name() == name[i+1:] {
						return nt.Method(k)
					}
				}
				panic("no method " + name)
			}
		}
		if o, ok := defs[name]; ok {
			return o
		}
		if o := pkg.Scope().Lookup(name); o != nil {
			return o
		}
		panic("no object " + name)
	}
	closed := lookup("Closed").Type().Underlying().(*types.Struct)
	tl := func(ix []int) []types.Type {
		if len(ix) == 0 {
			return nil
		}
		out := make([]types.Type, len(ix))
		for k, i := range ix {
			out[k] = closed.Field(i).Type()
		}
		return out
	}
	insts := make([]typeparams.Instance, len(tc.Insts))
	for k, s := range tc.Insts {
		insts[k] = typeparams.Instance{Object: lookup(s.Obj), TArgs: tl(s.TArgs), TNest: tl(s.TNest)}
		res.Names = append(res.Names, nameRes{String: insts[k].String(), TypeString: insts[k].TypeString(),
			Label: insts[k].TypeParamsString(" /* ", " */"), Trivial: insts[k].IsTrivial()})
	}
	// ---- the real InstanceMap under the history
	im := &typeparams.InstanceMap[int]{}
	for _, o := range tc.Ops {
		var r int
		switch o.Op {
		case "set":
			r = im.Set(insts[o.Inst], o.Val)
		case "get":
			r = im.Get(insts[o.Inst])
		case "has":
			if im.Has(insts[o.Inst]) {
				r = 1
			}
		case "del":
			if im.Delete(insts[o.Inst]) {
				r = 1
			}
		case "len":
			r = im.Len()
		default:
			panic("bad op " + o.Op)
		}
		res.OpRes = append(res.OpRes, r)
		if _, ml, _, _ := im.VerifBuckets(); ml > res.MaxBucket {
			res.MaxBucket = ml
		}
	}
	b, ml, h, l := im.VerifBuckets()
	res.Buckets = [4]int{b, ml, h, l}
	for a := range insts {
		for c := a + 1; c < len(insts); c++ {
			if im.VerifSameBucket(insts[a], insts[c]) && !(insts[a].TArgs.Equal(insts[c].TArgs) && insts[a].TNest.Equal(insts[c].TNest)) {
				res.SameBkt++
			}
		}
	}
	res.Keys = []int{}
	for _, key := range im.Keys() {
		found := -1
		for k, in := range insts {
			if in.Object == key.Object && in.TArgs.Equal(key.TArgs) && in.TNest.Equal(key.TNest) {
				found = k
				break
			}
		}
		res.Keys = append(res.Keys, found)
	}
	// ---- the real Resolver
	resolvers := map[int]*typeparams.Resolver{}
	for _, s := range tc.Substs {
		func() {
			var sr substRes
			defer func() {
				if r := recover(); r != nil {
					sr.Error = fmt.Sprint(r)
				}
				res.Substs = append(res.Substs, sr)
			}()
			r, ok := resolvers[s.Root]
			if !ok {
				r = typeparams.NewResolver(tctx, insts[s.Root])
				resolvers[s.Root] = r
			}
			st := lookup(s.Owner).Type().Underlying().(*types.Struct)
			out := r.Substitute(st.Field(s.Field).Type())
			sr.Str = types.TypeString(out, nil)
			sr.HasParam = hasParam(out, map[types.Type]bool{})
		}()
	}
	return
}

func main() {
	var cases []tcase
	if err := json.NewDecoder(os.Stdin).Decode(&cases); err != nil {
		fmt.Fprintln(os.Stderr, "bad input:", err)
		os.Exit(2)
	}
	results := make([]result, len(cases))
	for i, tc := range cases {
		results[i] = run(tc)
	}
	json.NewEncoder(os.Stdout).Encode(results)
}
