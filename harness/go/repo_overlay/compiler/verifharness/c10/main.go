//go:build verif

// Harness for C10: drives the real compiler.ImportDependencies (with a fake importPackage
// callback over a graph given on stdin), the real go:linkname directive parser and validator,
// the real GoLinknameSet and the real sources.Sort. JSON in, JSON out.
package main

import (
	"encoding/json"
	"fmt"
	"go/parser"
	"go/token"
	"io"
	"os"

	"github.com/gopherjs/gopherjs/compiler"
	"github.com/gopherjs/gopherjs/compiler/errlist"
	"github.com/gopherjs/gopherjs/compiler/internal/symbol"
	"github.com/gopherjs/gopherjs/compiler/linkname"
	"github.com/gopherjs/gopherjs/compiler/sources"
)

type depsCase struct {
	Graph       map[string][]string `json:"graph"`
	Root        string              `json:"root"`
	RootImports []string            `json:"root_imports"`
}
type depsRes struct {
	Order []string `json:"order"`
	Err   string   `json:"err"`
	Calls []string `json:"calls"` // paths handed to importPkg, in call order
}

type readCase struct {
	Pkg  string `json:"pkg"`
	Text string `json:"text"`
}
type link struct {
	RefPkg   string `json:"rp"`
	RefName  string `json:"rn"`
	ImplPkg  string `json:"ip"`
	ImplName string `json:"in"`
}
type readRes struct {
	Kind string `json:"kind"` // none | link | err
	Link *link  `json:"link,omitempty"`
	Err  string `json:"err,omitempty"`
}

type fileCase struct {
	Pkg string `json:"pkg"`
	Src string `json:"src"`
}
type fileRes struct {
	Links    []link   `json:"links"`
	Errs     []string `json:"errs"`
	ParseErr string   `json:"parse_err"`
}

type glsCase struct {
	Adds    [][]link `json:"adds"`
	Queries []link   `json:"queries"` // only rp/rn used
}
type glsRes struct {
	AddErr  []bool   `json:"add_err"`
	LinkErr string   `json:"link_err"` // error of the real WriteProgramCode over archives carrying these directives
	IsImpl  []bool   `json:"is_impl"`
	Found   []bool   `json:"found"`
	Impl    []string `json:"impl"` // "pkg\x00name"
	IsMeth  []string `json:"is_meth"`
}

type sortCase struct {
	Names []string `json:"names"`
}

type input struct {
	Deps  []depsCase `json:"deps"`
	Read  []readCase `json:"read"`
	Files []fileCase `json:"files"`
	Gls   []glsCase  `json:"gls"`
	Sort  []sortCase `json:"sort"`
	Mitig []link     `json:"mitig"`
}
type output struct {
	Deps  []depsRes  `json:"deps"`
	Read  []readRes  `json:"read"`
	Files []fileRes  `json:"files"`
	Gls   []glsRes   `json:"gls"`
	Sort  [][]string `json:"sort"`
	Mitig [][2]bool  `json:"mitig"`
}

func mkLink(l linkname.GoLinkname) link {
	return link{l.Reference.PkgPath, l.Reference.Name, l.Implementation.PkgPath, l.Implementation.Name}
}

func runDeps(c depsCase) (res depsRes) {
	res.Order, res.Calls = []string{}, []string{}
	importPkg := func(path string) (*compiler.Archive, error) {
		res.Calls = append(res.Calls, path)
		imps, ok := c.Graph[path]
		if !ok {
			return nil, fmt.Errorf("no such package %q", path)
		}
		return &compiler.Archive{ImportPath: path, Imports: imps}, nil
	}
	root := &compiler.Archive{ImportPath: c.Root, Imports: c.RootImports}
	deps, err := compiler.ImportDependencies(root, importPkg)
	if err != nil {
		res.Err = err.Error()
		return
	}
	for _, d := range deps {
		res.Order = append(res.Order, d.ImportPath)
	}
	return
}

func runRead(c readCase) (res readRes) {
	defer func() {
		if r := recover(); r != nil {
			res = readRes{Kind: "panic", Err: fmt.Sprint(r)}
		}
	}()
	l, err := linkname.VerifC10ReadLinkname(c.Pkg, c.Text)
	switch {
	case err != nil:
		return readRes{Kind: "err", Err: err.Error()}
	case l == nil:
		return readRes{Kind: "none"}
	}
	lk := mkLink(*l)
	return readRes{Kind: "link", Link: &lk}
}

func runFile(c fileCase) (res fileRes) {
	res.Links, res.Errs = []link{}, []string{}
	fset := token.NewFileSet()
	f, err := parser.ParseFile(fset, "f.go", c.Src, parser.ParseComments)
	if err != nil {
		res.ParseErr = err.Error()
		return
	}
	links, err := linkname.ParseGoLinknames(fset, c.Pkg, f)
	for _, l := range links {
		res.Links = append(res.Links, mkLink(l))
	}
	if err != nil {
		if el, ok := err.(errlist.ErrorList); ok {
			for _, e := range el {
				res.Errs = append(res.Errs, e.Error())
			}
		} else {
			res.Errs = append(res.Errs, err.Error())
		}
	}
	return
}

func runGls(c glsCase) (res glsRes) {
	res.AddErr, res.IsImpl, res.Found, res.Impl, res.IsMeth = []bool{}, []bool{}, []bool{}, []string{}, []string{}
	gls := linkname.GoLinknameSet{}
	for _, add := range c.Adds {
		entries := []linkname.GoLinkname{}
		for _, l := range add {
			entries = append(entries, linkname.GoLinkname{
				Reference:      symbol.Name{PkgPath: l.RefPkg, Name: l.RefName},
				Implementation: symbol.Name{PkgPath: l.ImplPkg, Name: l.ImplName},
			})
		}
		res.AddErr = append(res.AddErr, gls.Add(entries) != nil)
	}
	// the real aggregation loop: one archive per Add, no declarations, output discarded
	pkgs := []*compiler.Archive{}
	for i, add := range c.Adds {
		entries := []linkname.GoLinkname{}
		for _, l := range add {
			entries = append(entries, linkname.GoLinkname{
				Reference:      symbol.Name{PkgPath: l.RefPkg, Name: l.RefName},
				Implementation: symbol.Name{PkgPath: l.ImplPkg, Name: l.ImplName},
			})
		}
		pkgs = append(pkgs, &compiler.Archive{ImportPath: fmt.Sprintf("p%d", i), Name: "main", GoLinknames: entries})
	}
	if err := compiler.WriteProgramCode(pkgs, compiler.DefaultFilter(io.Discard), "go1.20"); err != nil {
		res.LinkErr = err.Error()
	}
	for _, q := range c.Queries {
		s := symbol.Name{PkgPath: q.RefPkg, Name: q.RefName}
		res.IsImpl = append(res.IsImpl, gls.IsImplementation(s))
		impl, found := gls.FindImplementation(s)
		res.Found = append(res.Found, found)
		res.Impl = append(res.Impl, impl.PkgPath+"\x00"+impl.Name)
		recv, meth, ok := s.IsMethod()
		if ok {
			res.IsMeth = append(res.IsMeth, recv+"\x00"+meth)
		} else {
			res.IsMeth = append(res.IsMeth, "")
		}
	}
	return
}

func runSort(c sortCase) []string {
	fset := token.NewFileSet()
	s := &sources.Sources{ImportPath: "p", FileSet: fset}
	for _, n := range c.Names {
		f, err := parser.ParseFile(fset, n, "package p\n", 0)
		if err != nil {
			panic(err)
		}
		s.Files = append(s.Files, f)
	}
	s.Sort()
	out := []string{}
	for _, f := range s.Files {
		out = append(out, fset.File(f.Pos()).Name())
	}
	return out
}

func main() {
	var in input
	dec := json.NewDecoder(os.Stdin)
	if err := dec.Decode(&in); err != nil {
		fmt.Fprintln(os.Stderr, "bad input:", err)
		os.Exit(2)
	}
	out := output{Deps: []depsRes{}, Read: []readRes{}, Files: []fileRes{}, Gls: []glsRes{}, Sort: [][]string{}, Mitig: [][2]bool{}}
	for _, c := range in.Deps {
		out.Deps = append(out.Deps, runDeps(c))
	}
	for _, c := range in.Read {
		out.Read = append(out.Read, runRead(c))
	}
	for _, c := range in.Files {
		out.Files = append(out.Files, runFile(c))
	}
	for _, c := range in.Gls {
		out.Gls = append(out.Gls, runGls(c))
	}
	for _, c := range in.Sort {
		out.Sort = append(out.Sort, runSort(c))
	}
	for _, c := range in.Mitig {
		a, b := linkname.VerifC10Mitigated(c.RefPkg, c.RefName)
		out.Mitig = append(out.Mitig, [2]bool{a, b})
	}
	enc := json.NewEncoder(os.Stdout)
	if err := enc.Encode(out); err != nil {
		fmt.Fprintln(os.Stderr, err)
		os.Exit(2)
	}
}
