//go:build verif

// Harness for C04: type-checks generated multi-package generic programs with go/types and
// runs the REAL typeparams.Collector on them (Scan of every package, then either the real
// Finish or the real propagate in an explicitly given package order). Prints the per-package
// discovery lists canonically (JSON on stdout).
package main

import (
	"encoding/json"
	"fmt"
	"go/ast"
	"go/parser"
	"go/token"
	"go/types"
	"os"
	"sort"
	"strconv"
	"strings"

	"github.com/gopherjs/gopherjs/compiler/internal/typeparams"
)

type pkgSrc struct {
	Path  string            `json:"path"`
	Files map[string]string `json:"files"`
}

type tcase struct {
	Pkgs  []pkgSrc `json:"pkgs"`  // in dependency (= scan) order
	Order []string `json:"order"` // package order used for every round of propagate
}

type result struct {
	Error   string              `json:"error"`
	Ordered map[string][]string `json:"ordered"` // explicit order, real propagate
	Rounds  int                 `json:"rounds"`
	Finish  map[string][]string `json:"finish"` // real Collector.Finish (Go map order)
	IDsOK   bool                `json:"ids_ok"` // InstanceSet.ID(values[i]) == i everywhere
	Sorted  map[string][]string `json:"sorted"` // real propagate, packages in ascending import path order
}

type mapImporter map[string]*types.Package

func (m mapImporter) Import(path string) (*types.Package, error) {
	if p, ok := m[path]; ok {
		return p, nil
	}
	return nil, fmt.Errorf("package %q not available", path)
}

type checked struct {
	pkg   *types.Package
	info  *types.Info
	files []*ast.File
}

func typeStr(t types.Type) string {
	switch t := t.(type) {
	case *types.Basic:
		return t.Name()
	case *types.Named:
		s := t.Obj().Name()
		if t.Obj().Pkg() != nil {
			s = t.Obj().Pkg().Path() + "." + s
		}
		if ta := t.TypeArgs(); ta.Len() > 0 {
			parts := make([]string, ta.Len())
			for i := range parts {
				parts[i] = typeStr(ta.At(i))
			}
			s += "[" + strings.Join(parts, ",") + "]"
		}
		return s
	case *types.Pointer:
		return "*" + typeStr(t.Elem())
	case *types.Slice:
		return "[]" + typeStr(t.Elem())
	case *types.Array:
		return "[" + strconv.FormatInt(t.Len(), 10) + "]" + typeStr(t.Elem())
	case *types.Map:
		return "map[" + typeStr(t.Key()) + "]" + typeStr(t.Elem())
	case *types.Chan:
		return "chan " + typeStr(t.Elem())
	case *types.Signature:
		ps := []string{}
		for i := 0; i < t.Params().Len(); i++ {
			ps = append(ps, typeStr(t.Params().At(i).Type()))
		}
		rs := []string{}
		for i := 0; i < t.Results().Len(); i++ {
			rs = append(rs, typeStr(t.Results().At(i).Type()))
		}
		return "func(" + strings.Join(ps, ",") + ")" + strings.Join(rs, ",")
	case *types.Struct:
		fs := []string{}
		for i := 0; i < t.NumFields(); i++ {
			fs = append(fs, t.Field(i).Name()+" "+typeStr(t.Field(i).Type()))
		}
		return "struct{" + strings.Join(fs, ";") + "}"
	case *types.TypeParam:
		return "$" + t.Obj().Name()
	case *types.Interface:
		if t.Empty() {
			return "any"
		}
		return "interface{...}"
	}
	return fmt.Sprintf("?%T", t)
}

func objStr(o types.Object) string {
	s := o.Name()
	if f, ok := o.(*types.Func); ok {
		if sig := f.Type().(*types.Signature); sig.Recv() != nil {
			rt := sig.Recv().Type()
			if p, ok := rt.(*types.Pointer); ok {
				rt = p.Elem()
			}
			if n, ok := rt.(*types.Named); ok {
				s = n.Obj().Name() + "." + s
			}
		}
	}
	if o.Pkg() != nil {
		s = o.Pkg().Path() + "." + s
	}
	return s
}

func instStr(i typeparams.Instance) string {
	a := make([]string, len(i.TArgs))
	for k, t := range i.TArgs {
		a[k] = typeStr(t)
	}
	n := make([]string, len(i.TNest))
	for k, t := range i.TNest {
		n[k] = typeStr(t)
	}
	return objStr(i.Object) + "<" + strings.Join(n, ",") + ";" + strings.Join(a, ",") + ">"
}

func dump(sets *typeparams.PackageInstanceSets) (map[string][]string, bool) {
	out := map[string][]string{}
	ok := true
	for path, iset := range *sets {
		vals := iset.Values()
		l := make([]string, len(vals))
		for k, v := range vals {
			l[k] = instStr(v)
			if iset.ID(v) != k {
				ok = false
			}
		}
		out[path] = l
	}
	return out, ok
}

func run(tc tcase) (res result) {
	defer func() {
		if r := recover(); r != nil {
			res.Error = "panic: " + fmt.Sprint(r)
		}
	}()
	fset := token.NewFileSet()
	imp := mapImporter{}
	var all []checked
	tctx := types.NewContext()
	for _, ps := range tc.Pkgs {
		names := make([]string, 0, len(ps.Files))
		for n := range ps.Files {
			names = append(names, n)
		}
		sort.Strings(names)
		var files []*ast.File
		for _, n := range names {
			f, err := parser.ParseFile(fset, ps.Path+"/"+n, ps.Files[n], 0)
			if err != nil {
				res.Error = "parse: " + err.Error()
				return
			}
			files = append(files, f)
		}
		info := &types.Info{
			Types:      map[ast.Expr]types.TypeAndValue{},
			Defs:       map[*ast.Ident]types.Object{},
			Uses:       map[*ast.Ident]types.Object{},
			Implicits:  map[ast.Node]types.Object{},
			Selections: map[*ast.SelectorExpr]*types.Selection{},
			Scopes:     map[ast.Node]*types.Scope{},
			Instances:  map[*ast.Ident]types.Instance{},
		}
		conf := types.Config{Importer: imp, Context: tctx, Sizes: &types.StdSizes{WordSize: 4, MaxAlign: 8}}
		pkg, err := conf.Check(ps.Path, fset, files, info)
		if err != nil {
			res.Error = "typecheck: " + err.Error()
			return
		}
		imp[ps.Path] = pkg
		all = append(all, checked{pkg, info, files})
	}
	mk := func() *typeparams.Collector {
		c := &typeparams.Collector{TContext: tctx, Instances: &typeparams.PackageInstanceSets{}}
		for _, ck := range all {
			c.Scan(ck.info, ck.pkg, ck.files...)
		}
		return c
	}
	// (a) the real propagate, packages visited in the given order, until allExhausted
	c1 := mk()
	for !c1.VerifAllExhausted() {
		res.Rounds++
		if res.Rounds > 10000 {
			res.Error = "no fixpoint after 10000 rounds"
			return
		}
		for _, p := range tc.Order {
			c1.VerifPropagate(p)
		}
	}
	var ok1, ok2 bool
	res.Ordered, ok1 = dump(c1.Instances)
	// (b) the real Finish
	c2 := mk()
	c2.Finish()
	res.Finish, ok2 = dump(c2.Instances)
	res.IDsOK = ok1 && ok2
	// (c) ascending import path order (informational: what a deterministic Finish would produce)
	c3 := mk()
	paths := append([]string{}, tc.Order...)
	sort.Strings(paths)
	for n := 0; !c3.VerifAllExhausted() && n < 10000; n++ {
		for _, p := range paths {
			c3.VerifPropagate(p)
		}
	}
	res.Sorted, _ = dump(c3.Instances)
	return
}

func main() {
	var cases []tcase
	if err := json.NewDecoder(os.Stdin).Decode(&cases); err != nil {
		fmt.Fprintln(os.Stderr, "bad input:", err)
		os.Exit(2)
	}
	results := make([]result, len(cases))
	for i, tc := range cases {
		results[i] = run(tc)
	}
	json.NewEncoder(os.Stdout).Encode(results)
}
