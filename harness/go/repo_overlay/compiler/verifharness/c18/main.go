//go:build verif

// Harness for C18: drives the real build.NewBuildContext(...).Import on package
// directories described on stdin (JSON) and prints which files were selected.
//
// The process must be started with
//
//	GOPHERJS_GOROOT=<root>/goroot GOPATH=<root>/gopath GO111MODULE=off
//
// (build.DefaultGOROOT and go/build.Default are computed at package init).
// kinds of cases:
//
//	user   files in <root>/user/<id>,               imported as (".", dir)
//	std    files in <root>/goroot/src/c18std/<id>,  imported as ("c18std/<id>", "")
//	gopath files in <root>/gopath/src/c18gp/<id>,   imported as ("c18gp/<id>", "")
//	stdlocal  like std, but imported as (".", dir);  gopathdot  like gopath under c18.dot/<id>
package main

import (
	"encoding/json"
	"fmt"
	gobuild "go/build"
	"go/build/constraint"
	"os"
	"path/filepath"
	"sort"
	"strings"

	"github.com/gopherjs/gopherjs/build"
	"github.com/gopherjs/gopherjs/compiler"
)

type file struct {
	Name    string `json:"name"`
	Content string `json:"content"`
	Dir     bool   `json:"dir"`
	Link    bool   `json:"link"` // the entry is a symbolic link to a regular file (or, with Dir, to a directory) kept outside the package
}

type tcase struct {
	ID     string   `json:"id"`
	Kind   string   `json:"kind"`
	Tags   []string `json:"tags"`
	Goos   string   `json:"goos"`   // value of the GOOS environment variable ("" = unset)
	Goarch string   `json:"goarch"` // value of the GOARCH environment variable ("" = unset)
	Files  []file   `json:"files"`
	Path   string   `json:"path"` // kinds stdpath / overlay: the import path (directory below src/)
}

type input struct {
	Root    string     `json:"root"`
	Cases   []tcase    `json:"cases"`
	Lines   []string   `json:"lines"`    // phase 4: constraint lines handed to go/build/constraint
	TagSets [][]string `json:"tag_sets"` // ... and the tag assignments they are evaluated under
}

// what go/build/constraint says about one line
type lineResult struct {
	IsGoBuild   bool     `json:"is_go_build"`
	IsPlusBuild bool     `json:"is_plus_build"`
	Err         string   `json:"err"`        // "" or the error text of constraint.Parse
	Str         string   `json:"str"`        // Expr.String()
	PlusErr     string   `json:"plus_err"`   // error of constraint.PlusBuildLines
	PlusLines   []string `json:"plus_lines"` // its result
	Evals       []bool   `json:"evals"`      // Expr.Eval under each tag set
}

type ctxDump struct {
	GOOS        string   `json:"goos"`
	GOARCH      string   `json:"goarch"`
	Compiler    string   `json:"compiler"`
	CgoEnabled  bool     `json:"cgo"`
	UseAllFiles bool     `json:"use_all_files"`
	BuildTags   []string `json:"build_tags"`
	ToolTags    []string `json:"tool_tags"`
	ReleaseTags []string `json:"release_tags"`
}

type result struct {
	ID        string   `json:"id"`
	Err       string   `json:"err"` // "", "nogo", or "other: ..."
	GoFiles   []string `json:"go"`
	TestGo    []string `json:"test"`
	XTestGo   []string `json:"xtest"`
	Ignored   []string `json:"ignored"`
	CgoFiles  []string `json:"cgo"`
	JSFiles   []string `json:"js"`
	Goroot    bool     `json:"goroot"`
	Imports   []string `json:"imports"`
	TestImps  []string `json:"test_imports"`
	XTestImps []string `json:"xtest_imports"`
	Primary   ctxDump  `json:"primary"`
	Secondary ctxDump  `json:"secondary"`
	Preload   ctxDump  `json:"preload"` // context after applyPreloadTweaks for this import
}

type output struct {
	GoVersion          int      `json:"go_version"`
	Version            string   `json:"version"`
	DefaultReleaseTags []string `json:"default_release_tags"` // go/build.Default.ReleaseTags as seen after versionhack
	DefaultToolTags    []string `json:"default_tool_tags"`
	Results            []result `json:"results"`
	Lines              []lineResult `json:"lines"`
}

func parseLine(line string, sets [][]string) (r lineResult) {
	r.IsGoBuild, r.IsPlusBuild = constraint.IsGoBuild(line), constraint.IsPlusBuild(line)
	x, err := constraint.Parse(line)
	if err != nil {
		r.Err = err.Error()
		return
	}
	r.Str = x.String()
	if ls, err := constraint.PlusBuildLines(x); err != nil {
		r.PlusErr = err.Error()
	} else {
		r.PlusLines = ls
	}
	for _, set := range sets {
		m := map[string]bool{}
		for _, t := range set {
			m[t] = true
		}
		r.Evals = append(r.Evals, x.Eval(func(tag string) bool { return m[tag] }))
	}
	return
}

func dump(c gobuild.Context) ctxDump {
	cp := func(x []string) []string { return append([]string{}, x...) }
	return ctxDump{GOOS: c.GOOS, GOARCH: c.GOARCH, Compiler: c.Compiler, CgoEnabled: c.CgoEnabled,
		UseAllFiles: c.UseAllFiles, BuildTags: cp(c.BuildTags), ToolTags: cp(c.ToolTags), ReleaseTags: cp(c.ReleaseTags)}
}

func sorted(x []string) []string {
	r := append([]string{}, x...)
	sort.Strings(r)
	return r
}

func setenv(k, v string) {
	if v == "" {
		os.Unsetenv(k)
	} else {
		os.Setenv(k, v)
	}
}

func run(root string, tc tcase) (res result) {
	res.ID = tc.ID
	var dir, importPath, srcDir string
	switch tc.Kind {
	case "user":
		dir = filepath.Join(root, "user", tc.ID)
		importPath, srcDir = ".", dir
	case "std":
		dir = filepath.Join(root, "goroot", "src", "c18std", tc.ID)
		importPath, srcDir = "c18std/"+tc.ID, ""
	case "stdlocal":
		dir = filepath.Join(root, "goroot", "src", "c18std", tc.ID)
		importPath, srcDir = ".", dir
	case "gopath":
		dir = filepath.Join(root, "gopath", "src", "c18gp", tc.ID)
		importPath, srcDir = "c18gp/"+tc.ID, ""
	case "gopathdot":
		dir = filepath.Join(root, "gopath", "src", "c18.dot", tc.ID)
		importPath, srcDir = "c18.dot/"+tc.ID, ""
	case "stdpath":
		// a package of the fake GOROOT under a GIVEN import path (runtime, sync, syscall/js ...): post-load tweaks
		dir = filepath.Join(root, "goroot", "src", filepath.FromSlash(tc.Path))
		importPath, srcDir = tc.Path, ""
		os.RemoveAll(dir)
	case "overlay":
		// a package served by the VIRTUAL context (what overlayCtx / gopherjsCtx use), from <root>/overlay/<id>/src/<path>
		dir = filepath.Join(root, "overlay", tc.ID, "src", filepath.FromSlash(tc.Path))
		importPath, srcDir = tc.Path, ""
	default:
		res.Err = "other: bad kind"
		return
	}
	if err := os.MkdirAll(dir, 0o755); err != nil {
		res.Err = "other: " + err.Error()
		return
	}
	for _, f := range tc.Files {
		p := filepath.Join(dir, f.Name)
		var err error
		if f.Link {
			target := filepath.Join(root, "targets", tc.Kind+"_"+tc.ID, f.Name)
			if err = os.MkdirAll(filepath.Dir(target), 0o755); err == nil {
				if f.Dir {
					err = os.MkdirAll(target, 0o755)
				} else {
					err = os.WriteFile(target, []byte(f.Content), 0o644)
				}
			}
			if err == nil {
				err = os.Symlink(target, p)
			}
		} else if f.Dir {
			err = os.MkdirAll(p, 0o755)
		} else {
			err = os.WriteFile(p, []byte(f.Content), 0o644)
		}
		if err != nil {
			res.Err = "other: " + err.Error()
			return
		}
	}
	setenv("GOOS", tc.Goos)
	setenv("GOARCH", tc.Goarch)
	defer func() {
		if r := recover(); r != nil {
			res.Err = fmt.Sprint("other: panic: ", r)
		}
	}()
	var x build.XContext
	if tc.Kind == "overlay" {
		x = build.VerifC18Embedded(filepath.Join(root, "overlay", tc.ID), tc.Tags)
	} else {
		x = build.NewBuildContext("", tc.Tags)
	}
	if p, s, ok := build.VerifC18Contexts(x); ok {
		res.Primary, res.Secondary = dump(p), dump(s)
	}
	if b, ok := build.VerifC18Preload(x, importPath, srcDir); ok {
		res.Preload = dump(b)
	}
	pkg, err := x.Import(importPath, srcDir, 0)
	if err != nil {
		if _, isNoGo := err.(*gobuild.NoGoError); isNoGo {
			res.Err = "nogo"
		} else if strings.Contains(err.Error(), "no buildable Go source files") || strings.Contains(err.Error(), "build constraints exclude all Go files") {
			res.Err = "nogo"
		} else {
			res.Err = "other: " + err.Error()
		}
		return
	}
	res.GoFiles = sorted(pkg.GoFiles)
	res.TestGo = sorted(pkg.TestGoFiles)
	res.XTestGo = sorted(pkg.XTestGoFiles)
	res.Ignored = sorted(pkg.IgnoredGoFiles)
	res.CgoFiles = sorted(pkg.CgoFiles)
	res.Goroot = pkg.Goroot
	res.Imports, res.TestImps, res.XTestImps = sorted(pkg.Imports), sorted(pkg.TestImports), sorted(pkg.XTestImports)
	js := []string{}
	for _, f := range pkg.JSFiles {
		js = append(js, filepath.Base(f.Path))
	}
	res.JSFiles = sorted(js)
	return
}

func main() {
	var in input
	if err := json.NewDecoder(os.Stdin).Decode(&in); err != nil {
		fmt.Fprintln(os.Stderr, "bad input:", err)
		os.Exit(2)
	}
	out := output{GoVersion: compiler.GoVersion, Version: compiler.Version,
		DefaultReleaseTags: append([]string{}, gobuild.Default.ReleaseTags...),
		DefaultToolTags:    append([]string{}, gobuild.Default.ToolTags...),
		Results:            []result{}}
	for _, tc := range in.Cases {
		out.Results = append(out.Results, run(in.Root, tc))
	}
	for _, l := range in.Lines {
		out.Lines = append(out.Lines, parseLine(l, in.TagSets))
	}
	if err := json.NewEncoder(os.Stdout).Encode(out); err != nil {
		fmt.Fprintln(os.Stderr, err)
		os.Exit(2)
	}
}
