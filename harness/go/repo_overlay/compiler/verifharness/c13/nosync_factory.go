package main

import "github.com/gopherjs/gopherjs/nosync"

func nosyncFactory() factory {
	return factory{
		mutex: func() locker { return &nosync.Mutex{} },
		rw:    func() rwlocker { return &nosync.RWMutex{} },
		wg:    func() waitgroup { return &nosync.WaitGroup{} },
		once:  func() oncer { return &nosync.Once{} },
		mp:    func() mapper { return &nosync.Map{} },
		pool:  func(newf func() any) pooler { return &nosync.Pool{New: newf} },
	}
}
