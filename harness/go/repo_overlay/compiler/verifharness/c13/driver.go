// C13 — history driver shared by the native harness (nosync and real sync on the host) and the
// GopherJS-compiled program (nosync under GopherJS).  No imports: it must build under GopherJS
// in this sandbox (fmt/strings/strconv do not).
//
// History syntax:  <kind>:<op>,<op>,...
//
//	M  Mutex      L U                    R  RWMutex   L U R(RLock) r(RUnlock)
//	W  WaitGroup  A<delta> D W           O  Once      O0 (plain f) O1 (f panics) O2 (f calls Do again)
//	K  Map        S<k>=<v> G<k> Q<k>=<v> X<k> N       P/p Pool with/without New:  P<v> (Put, 0 = nil) T (Get)
//
// Outcome per op: ok | ok=<value> | panic | block   (block only from the real-sync executor; the history stops there)
package main

type locker interface {
	Lock()
	Unlock()
}
type rwlocker interface {
	Lock()
	Unlock()
	RLock()
	RUnlock()
}
type waitgroup interface {
	Add(int)
	Done()
	Wait()
}
type oncer interface{ Do(func()) }
type mapper interface {
	Load(any) (any, bool)
	Store(any, any)
	LoadOrStore(any, any) (any, bool)
	Delete(any)
	Range(func(k, v any) bool)
}
type pooler interface {
	Get() any
	Put(any)
}

type factory struct {
	mutex func() locker
	rw    func() rwlocker
	wg    func() waitgroup
	once  func() oncer
	mp    func() mapper
	pool  func(newf func() any) pooler
}

func datoi(s string) int {
	neg := false
	i := 0
	if len(s) > 0 && s[0] == '-' {
		neg = true
		i = 1
	}
	n := 0
	for ; i < len(s); i++ {
		n = n*10 + int(s[i]-'0')
	}
	if neg {
		return -n
	}
	return n
}

func ditoa(n int) string {
	if n == 0 {
		return "0"
	}
	neg := n < 0
	if neg {
		n = -n
	}
	s := ""
	for n > 0 {
		s = string(rune('0'+n%10)) + s
		n /= 10
	}
	if neg {
		return "-" + s
	}
	return s
}

func split(s string, sep byte) []string {
	var out []string
	start := 0
	for i := 0; i < len(s); i++ {
		if s[i] == sep {
			out = append(out, s[start:i])
			start = i + 1
		}
	}
	return append(out, s[start:])
}

// keys: "i<n>" int, "s<text>" string; values are ints
func key(s string) any {
	if len(s) > 0 && s[0] == 's' {
		return s[1:]
	}
	return datoi(s[1:])
}
func showAny(v any) string {
	switch x := v.(type) {
	case nil:
		return "nil"
	case int:
		return ditoa(x)
	case string:
		return "s" + x
	}
	return "?"
}

// executor: runs op, returns "ok", "panic" or "block"
type executor func(op func()) string

func runHistory(f factory, h string, exec executor) string {
	kind := h[0]
	ops := split(h[2:], ',')
	if len(h) <= 2 {
		ops = nil
	}
	var mu locker
	var rw rwlocker
	var wg waitgroup
	var on oncer
	var mp mapper
	var pl pooler
	ran := 0     // how often a Once function ran
	created := 0 // how many values Pool.New made
	switch kind {
	case 'M':
		mu = f.mutex()
	case 'R':
		rw = f.rw()
	case 'W':
		wg = f.wg()
	case 'O':
		on = f.once()
	case 'K':
		mp = f.mp()
	case 'P':
		pl = f.pool(func() any { created++; return 1000 + created })
	case 'p':
		pl = f.pool(nil)
	}
	out := ""
	for i, op := range ops {
		val := ""
		var fnc func()
		switch kind {
		case 'M':
			if op == "L" {
				fnc = mu.Lock
			} else {
				fnc = mu.Unlock
			}
		case 'R':
			switch op {
			case "L":
				fnc = rw.Lock
			case "U":
				fnc = rw.Unlock
			case "R":
				fnc = rw.RLock
			default:
				fnc = rw.RUnlock
			}
		case 'W':
			switch op[0] {
			case 'A':
				d := datoi(op[1:])
				fnc = func() { wg.Add(d) }
			case 'D':
				fnc = wg.Done
			default:
				fnc = wg.Wait
			}
		case 'O':
			mode := op[1]
			fnc = func() {
				before := ran
				defer func() { val = ditoa(ran - before) }()
				on.Do(func() {
					ran++
					switch mode {
					case '1':
						panic("f panics")
					case '2':
						on.Do(func() { ran += 100 })
					}
				})
			}
		case 'K':
			switch op[0] {
			case 'S', 'Q':
				kv := split(op[1:], '=')
				k, v := key(kv[0]), datoi(kv[1])
				if op[0] == 'S' {
					fnc = func() { mp.Store(k, v) }
				} else {
					fnc = func() {
						a, l := mp.LoadOrStore(k, v)
						val = showAny(a)
						if l {
							val += "+"
						}
					}
				}
			case 'G':
				k := key(op[1:])
				fnc = func() {
					a, ok := mp.Load(k)
					val = showAny(a)
					if ok {
						val += "+"
					}
				}
			case 'X':
				k := key(op[1:])
				fnc = func() { mp.Delete(k) }
			default: // N: Range; report the sum of a commutative hash so that order does not matter, and the count
				fnc = func() {
					n, h := 0, 0
					mp.Range(func(k, v any) bool {
						n++
						s := showAny(k) + "=" + showAny(v)
						x := 7
						for j := 0; j < len(s); j++ {
							x = (x*31 + int(s[j])) % 1000003
						}
						h = (h + x) % 1000003
						return true
					})
					val = ditoa(n) + "/" + ditoa(h)
				}
			}
		default: // pool
			if op[0] == 'P' {
				v := datoi(op[1:])
				fnc = func() {
					if v == 0 {
						pl.Put(nil)
					} else {
						pl.Put(v)
					}
				}
			} else {
				fnc = func() { val = showAny(pl.Get()) }
			}
		}
		r := exec(fnc)
		if i > 0 {
			out += ","
		}
		out += r
		if val != "" && r != "block" {
			out += "=" + val
		}
		if r == "block" {
			break
		}
	}
	return out
}

// recoverExec: run in place, a panic is reported and swallowed (used for nosync)
func recoverExec(op func()) (r string) {
	defer func() {
		if e := recover(); e != nil {
			r = "panic"
		}
	}()
	op()
	return "ok"
}
