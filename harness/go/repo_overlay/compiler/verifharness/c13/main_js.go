//go:build js

// C13: the same driver compiled by GopherJS; the histories are in hist.go (generated).
package main

func main() {
	f := nosyncFactory()
	for _, h := range histories {
		println(runHistory(f, h, recoverExec))
	}
	println("DONE")
}
