//go:build verif && !js

// C13 native harness: runs histories (one per stdin line) on nosync (plain Go on the host) and on
// the real sync package.  For sync every operation runs in its own goroutine; an operation that
// is parked in a sync primitive (runtime stack dump) is reported as "block" and ends the history.
//
//	h_c13 nosync|sync            bulk mode, stdin lines -> stdout lines
//	h_c13 one "<history>"        real sync, outcomes printed op by op (the process may die with a
//	                              fatal error from the runtime: that is the observation)
package main

import (
	"bufio"
	"fmt"
	"os"
	"runtime"
	"strings"
	"sync"
	"time"
)

func syncFactory() factory {
	return factory{
		mutex: func() locker { return &sync.Mutex{} },
		rw:    func() rwlocker { return &sync.RWMutex{} },
		wg:    func() waitgroup { return &sync.WaitGroup{} },
		once:  func() oncer { return &sync.Once{} },
		mp:    func() mapper { return &sync.Map{} },
		pool:  func(newf func() any) pooler { return &sync.Pool{New: newf} },
	}
}

// goroutineExec runs op in its own goroutine.  "block" is reported only when the runtime itself says
// that this goroutine is parked in a sync primitive (state taken from a stack dump), never on elapsed
// time alone: the machine may be heavily loaded.
func goroutineExec(op func()) string {
	done := make(chan string, 1)
	idc := make(chan string, 1)
	go func() {
		var buf [64]byte
		n := runtime.Stack(buf[:], false) // "goroutine 41 [running]:..."
		f := strings.Fields(string(buf[:n]))
		idc <- f[1]
		defer func() {
			if e := recover(); e != nil {
				done <- "panic"
			}
		}()
		op()
		done <- "ok"
	}()
	id := <-idc
	wait := 5 * time.Millisecond
	for {
		select {
		case r := <-done:
			return r
		case <-time.After(wait):
		}
		if parked(id) {
			// give a just-released primitive one more chance, then re-check
			select {
			case r := <-done:
				return r
			case <-time.After(wait):
			}
			if parked(id) {
				return "block"
			}
		}
		if wait < 200*time.Millisecond {
			wait *= 2
		}
	}
}

var stackMu sync.Mutex
var stackBuf = make([]byte, 64<<20)

// parked: is goroutine id waiting inside a sync primitive?
func parked(id string) bool {
	stackMu.Lock()
	defer stackMu.Unlock()
	n := runtime.Stack(stackBuf, true)
	txt := string(stackBuf[:n])
	i := strings.Index(txt, "goroutine "+id+" [")
	if i < 0 {
		return false
	}
	rest := txt[i:]
	j := strings.Index(rest, "]")
	state := rest[:j]
	return strings.Contains(state, "sync.") || strings.Contains(state, "semacquire")
}

func main() {
	mode := os.Args[1]
	if mode == "one" {
		f := syncFactory()
		fmt.Println(runHistory(f, os.Args[2], func(op func()) string {
			r := goroutineExec(op)
			fmt.Println("op " + r)
			return r
		}))
		return
	}
	var lines []string
	sc := bufio.NewScanner(os.Stdin)
	sc.Buffer(make([]byte, 1<<20), 1<<26)
	for sc.Scan() {
		lines = append(lines, sc.Text())
	}
	out := make([]string, len(lines))
	if mode == "nosync" {
		f := nosyncFactory()
		for i, l := range lines {
			out[i] = runHistory(f, l, recoverExec)
		}
	} else {
		// histories are independent: run them concurrently so that the block timeouts overlap
		f := syncFactory()
		var wg sync.WaitGroup
		sem := make(chan struct{}, 48)
		for i, l := range lines {
			wg.Add(1)
			sem <- struct{}{}
			go func(i int, l string) {
				defer wg.Done()
				out[i] = runHistory(f, l, goroutineExec)
				<-sem
			}(i, l)
		}
		wg.Wait()
	}
	w := bufio.NewWriter(os.Stdout)
	for _, o := range out {
		fmt.Fprintln(w, o)
	}
	w.Flush()
}
