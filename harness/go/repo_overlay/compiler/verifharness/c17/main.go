//go:build verif

// Harness for C17 (reproducible builds): drives the real ordering code of the compiler.
//
//	sorts:      sources.Sources.Sort, sources.SortedSourcesSlice, Sources.UnresolvedImports,
//	            dce.Info.addDepName/getDeps, sort.Strings
//	collectors: type-checks small multi-package programs with the real sources.Sources pipeline
//	            (Sort, TypeCheck, Simplify, CollectInstances), then runs the real Collector.Finish
//	            several times and the real Collector.propagate in prescribed orders.
//
// JSON on stdin, JSON on stdout. Strings that are sort keys travel as hex (arbitrary bytes).
package main

import (
	"encoding/hex"
	"encoding/json"
	"fmt"
	"go/ast"
	"go/parser"
	"go/token"
	"go/types"
	"os"
	"sort"
	"strings"

	"bytes"
	"crypto/sha256"

	"github.com/gopherjs/gopherjs/compiler/internal/dce"
	"github.com/gopherjs/gopherjs/compiler/prelude"
	"github.com/gopherjs/gopherjs/internal/sourcemapx"
	"github.com/gopherjs/gopherjs/compiler/internal/typeparams"
	"github.com/gopherjs/gopherjs/compiler/sources"
)

type sortCase struct {
	Kind  string     `json:"kind"`
	Keys  []string   `json:"keys,omitempty"`  // hex
	Alias []string   `json:"alias,omitempty"` // hex; files only: name installed by a //line directive at the package clause ("" = none)
	Skip  []string   `json:"skip,omitempty"`  // hex
	Files [][]string `json:"files,omitempty"` // hex of ImportSpec.Path.Value
}

type sortResult struct {
	Perm  []int    `json:"perm,omitempty"`
	Out   []string `json:"out,omitempty"` // hex
	Panic string   `json:"panic,omitempty"`
}

func unhex(s string) string {
	b, err := hex.DecodeString(s)
	if err != nil {
		panic(err)
	}
	return string(b)
}

func hexAll(xs []string) []string {
	out := make([]string, len(xs))
	for i, x := range xs {
		out[i] = hex.EncodeToString([]byte(x))
	}
	return out
}

func runSort(c sortCase) (res sortResult) {
	defer func() {
		if r := recover(); r != nil {
			res.Panic = fmt.Sprint(r)
		}
	}()
	switch c.Kind {
	case "files":
		fset := token.NewFileSet()
		s := &sources.Sources{FileSet: fset}
		idx := map[*ast.File]int{}
		for i, k := range c.Keys {
			tf := fset.AddFile(unhex(k), -1, 16)
			if i < len(c.Alias) && c.Alias[i] != "" {
				// what go/parser does for `//line alias:1` above the package clause
				tf.AddLineColumnInfo(0, unhex(c.Alias[i]), 1, 1)
			}
			f := &ast.File{Package: tf.Pos(0), Name: ast.NewIdent("p")}
			idx[f] = i
			s.Files = append(s.Files, f)
		}
		s.Sort()
		for _, f := range s.Files {
			res.Perm = append(res.Perm, idx[f])
		}
	case "sources":
		sl := []*sources.Sources{}
		idx := map[*sources.Sources]int{}
		for i, k := range c.Keys {
			s := &sources.Sources{ImportPath: unhex(k)}
			idx[s] = i
			sl = append(sl, s)
		}
		sources.SortedSourcesSlice(sl)
		for _, s := range sl {
			res.Perm = append(res.Perm, idx[s])
		}
	case "unresolved":
		s := &sources.Sources{}
		for _, imps := range c.Files {
			f := &ast.File{Name: ast.NewIdent("p")}
			for _, v := range imps {
				f.Imports = append(f.Imports, &ast.ImportSpec{Path: &ast.BasicLit{Kind: token.STRING, Value: unhex(v)}})
			}
			s.Files = append(s.Files, f)
		}
		skip := []string{}
		for _, k := range c.Skip {
			skip = append(skip, unhex(k))
		}
		res.Out = hexAll(s.UnresolvedImports(skip...))
	case "deps":
		names := []string{}
		for _, k := range c.Keys {
			names = append(names, unhex(k))
		}
		res.Out = hexAll(dce.VerifC17GetDeps(names))
	case "strings":
		names := []string{}
		for _, k := range c.Keys {
			names = append(names, unhex(k))
		}
		sort.Strings(names)
		res.Out = hexAll(names)
	default:
		panic("unknown kind " + c.Kind)
	}
	return res
}

// ---------------------------------------------------------------- collector

type srcFile struct {
	Name string `json:"name"`
	Src  string `json:"src"`
}
type srcPkg struct {
	Path  string    `json:"path"`
	Files []srcFile `json:"files"`
}
type collCase struct {
	Pkgs      []srcPkg   `json:"pkgs"`
	Runs      int        `json:"runs"`      // how often to run the real Finish from the same seeds
	Schedules [][]string `json:"schedules"` // rounds of package paths for prescribed propagate orders
}
type instInfo struct {
	N   int    `json:"n"`
	Pkg int    `json:"pkg"`
	S   string `json:"s"`
}
type schedRun struct {
	Calls    []int         `json:"calls"` // package indices in the order propagate was called
	Result   map[int][]int `json:"result"`
	Complete bool          `json:"complete"`
}
type collResult struct {
	Err        string          `json:"err,omitempty"`
	Pkgs       []string        `json:"pkgs"` // sorted import paths; indices are used everywhere else
	FileOrder  map[int][]string `json:"file_order"`
	Insts      []instInfo      `json:"insts"`
	Seeds      map[int][]int   `json:"seeds"`
	Scan       map[int][][2]int `json:"scan"` // instance -> discovered (pkg, instance) in discovery order
	FinishRuns []map[int][]int `json:"finish_runs"`
	SchedRuns  []schedRun      `json:"sched_runs"`
}

type world struct {
	all    []*sources.Sources
	byPath map[string]*sources.Sources
	pkgIdx map[string]int
	num    typeparams.InstanceMap[int]
	insts  []typeparams.Instance
	info   []instInfo
}

func (w *world) number(inst typeparams.Instance) int {
	if w.num.Has(inst) {
		return w.num.Get(inst)
	}
	n := len(w.insts)
	w.num.Set(inst, n)
	w.insts = append(w.insts, inst)
	w.info = append(w.info, instInfo{N: n, Pkg: w.pkgIdx[inst.Object.Pkg().Path()], S: inst.String()})
	return n
}

func (w *world) snapshot(sets *typeparams.PackageInstanceSets) map[int][]int {
	out := map[int][]int{}
	paths := []string{}
	for path := range *sets {
		paths = append(paths, path)
	}
	sort.Strings(paths)
	for _, path := range paths {
		iset := (*sets)[path]
		vals := iset.Values()
		ids := make([]int, len(vals))
		for pos, inst := range vals {
			// the id handed out by the real code must be the position
			if got := iset.ID(inst); got != pos {
				panic(fmt.Sprintf("InstanceSet.ID(%v) = %d at position %d", inst, got, pos))
			}
			ids[pos] = w.number(inst)
		}
		out[w.pkgIdx[path]] = ids
	}
	return out
}

// fresh collector with the seeds of all packages (the part of PrepareAllSources before Finish)
func (w *world) seeded() *typeparams.Collector {
	tc := &typeparams.Collector{TContext: types.NewContext(), Instances: &typeparams.PackageInstanceSets{}}
	for _, s := range w.all {
		s.CollectInstances(tc)
	}
	return tc
}

func runCollector(c collCase) (res collResult) {
	defer func() {
		if r := recover(); r != nil {
			res.Err = fmt.Sprint("panic: ", r)
		}
	}()
	w := &world{byPath: map[string]*sources.Sources{}, pkgIdx: map[string]int{}}
	for _, p := range c.Pkgs {
		fset := token.NewFileSet()
		s := &sources.Sources{ImportPath: p.Path, Dir: "/" + p.Path, FileSet: fset}
		for _, f := range p.Files {
			af, err := parser.ParseFile(fset, f.Name, f.Src, parser.ParseComments)
			if err != nil {
				res.Err = "parse: " + err.Error()
				return
			}
			s.Files = append(s.Files, af)
		}
		w.all = append(w.all, s)
		w.byPath[p.Path] = s
	}
	sources.SortedSourcesSlice(w.all)
	for i, s := range w.all {
		w.pkgIdx[s.ImportPath] = i
		res.Pkgs = append(res.Pkgs, s.ImportPath)
	}
	importer := func(path, srcDir string) (*sources.Sources, error) {
		if s, ok := w.byPath[path]; ok {
			return s, nil
		}
		return nil, fmt.Errorf("package %q not found", path)
	}
	tContext := types.NewContext()
	sizes := &types.StdSizes{WordSize: 4, MaxAlign: 8}
	res.FileOrder = map[int][]string{}
	for _, s := range w.all {
		s.Sort()
	}
	for i, s := range w.all {
		for _, f := range s.Files {
			res.FileOrder[i] = append(res.FileOrder[i], s.FileSet.File(f.Pos()).Name())
		}
		if err := s.TypeCheck(importer, sizes, tContext); err != nil {
			res.Err = "typecheck: " + err.Error()
			return
		}
	}
	for _, s := range w.all {
		s.Simplify()
	}

	// seeds
	tc0 := w.seeded()
	res.Seeds = w.snapshot(tc0.Instances)

	// real Finish, several times from identical seeds
	res.FinishRuns = []map[int][]int{}
	for k := 0; k < c.Runs; k++ {
		tc := w.seeded()
		tc.Finish()
		res.FinishRuns = append(res.FinishRuns, w.snapshot(tc.Instances))
	}

	// real propagate in prescribed orders
	res.SchedRuns = []schedRun{}
	for _, rounds := range c.Schedules {
		tc := w.seeded()
		run := schedRun{Calls: []int{}}
		// rounds is a flat list of package paths, used cyclically until everything is exhausted
		for k := 0; k < 4096 && len(rounds) > 0 && !tc.VerifC17AllExhausted(); k++ {
			path := rounds[k%len(rounds)]
			tc.VerifC17Propagate(path)
			run.Calls = append(run.Calls, w.pkgIdx[path])
		}
		run.Complete = tc.VerifC17AllExhausted()
		run.Result = w.snapshot(tc.Instances)
		res.SchedRuns = append(res.SchedRuns, run)
	}

	// scan table: one step of discovery for every instance known so far (closure of the numbering)
	res.Scan = map[int][][2]int{}
	base := w.seeded()
	for i := 0; i < len(w.insts); i++ {
		inst := w.insts[i]
		sets := &typeparams.PackageInstanceSets{}
		tc := base.VerifC17WithInstances(sets)
		tc.VerifC17ScanOne(inst)
		found := [][2]int{}
		// within one package the discovery order is the order of values; across packages it does
		// not matter (ids are per package) — list packages by index
		paths := []string{}
		for p := range *sets {
			paths = append(paths, p)
		}
		sort.Strings(paths)
		for _, p := range paths {
			for _, d := range (*sets)[p].Values() {
				found = append(found, [2]int{w.pkgIdx[p], w.number(d)})
			}
		}
		res.Scan[i] = found
	}
	res.Insts = w.info
	return res
}

// ---------------------------------------------------------------- prelude through Filter.WriteJS

type preludeResult struct {
	Name     string   `json:"name"`
	Minify   bool     `json:"minify"`
	Runs     int      `json:"runs"`
	Hashes   []string `json:"hashes"` // distinct sha256 of (code, map), first seen first
	Counts   []int    `json:"counts"`
	DiffA    string   `json:"diff_a,omitempty"` // around the first differing byte of the first two distinct outputs
	DiffB    string   `json:"diff_b,omitempty"`
	DiffAt   int      `json:"diff_at,omitempty"`
	CodeSize int      `json:"code_size"`
}

// runPreludes pushes every real prelude file n times through the real sourcemapx.Filter.WriteJS
// (esbuild transform, with mapping enabled as in WriteCommandPackage) in fresh Filters.
func runPreludes(n int) []preludeResult {
	out := []preludeResult{}
	for _, minify := range []bool{false, true} {
		for _, pf := range prelude.PreludeFiles() {
			r := preludeResult{Name: pf.Name[strings.LastIndex(pf.Name, "/")+1:], Minify: minify, Runs: n}
			var first, firstCode []byte
			idx := map[string]int{}
			for k := 0; k < n; k++ {
				code := &bytes.Buffer{}
				f := &sourcemapx.Filter{Writer: code}
				f.EnableMapping("out.js", "/goroot", "/gopath", false)
				if _, err := f.WriteJS(pf.Source, pf.Name, minify); err != nil {
					panic(err)
				}
				mp := &bytes.Buffer{}
				f.WriteMappingTo(mp)
				all := append(append([]byte{}, code.Bytes()...), mp.Bytes()...)
				h := fmt.Sprintf("%x", sha256.Sum256(all))
				if i, ok := idx[h]; ok {
					r.Counts[i]++
					continue
				}
				idx[h] = len(r.Hashes)
				r.Hashes = append(r.Hashes, h)
				r.Counts = append(r.Counts, 1)
				if first == nil {
					first, firstCode = all, code.Bytes()
					r.CodeSize = len(firstCode)
				} else if r.DiffA == "" {
					at := 0
					for at < len(first) && at < len(all) && first[at] == all[at] {
						at++
					}
					lo, hiA, hiB := at-80, at+80, at+80
					if lo < 0 {
						lo = 0
					}
					if hiA > len(first) {
						hiA = len(first)
					}
					if hiB > len(all) {
						hiB = len(all)
					}
					r.DiffAt, r.DiffA, r.DiffB = at, string(first[lo:hiA]), string(all[lo:hiB])
				}
			}
			out = append(out, r)
		}
	}
	return out
}

type input struct {
	Sorts      []sortCase `json:"sorts"`
	Collectors []collCase `json:"collectors"`
	Preludes   int        `json:"preludes"` // number of repetitions per prelude file and mode (0 = skip)
}
type output struct {
	Sorts      []sortResult    `json:"sorts"`
	Collectors []collResult    `json:"collectors"`
	Preludes   []preludeResult `json:"preludes"`
}

func main() {
	var in input
	if err := json.NewDecoder(os.Stdin).Decode(&in); err != nil {
		fmt.Fprintln(os.Stderr, "bad input:", err)
		os.Exit(2)
	}
	out := output{Sorts: []sortResult{}, Collectors: []collResult{}}
	for _, c := range in.Sorts {
		out.Sorts = append(out.Sorts, runSort(c))
	}
	for _, c := range in.Collectors {
		out.Collectors = append(out.Collectors, runCollector(c))
	}
	if in.Preludes > 0 {
		out.Preludes = runPreludes(in.Preludes)
	}
	if err := json.NewEncoder(os.Stdout).Encode(out); err != nil {
		fmt.Fprintln(os.Stderr, err)
		os.Exit(2)
	}
}
