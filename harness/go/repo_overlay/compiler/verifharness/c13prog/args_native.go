//go:build !js

package main

import "os"

func shardArgs() (int, int) {
	if len(os.Args) < 3 {
		return 0, 1
	}
	return atoi(os.Args[1]), atoi(os.Args[2])
}
