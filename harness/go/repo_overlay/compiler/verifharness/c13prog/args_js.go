//go:build js

package main

import "github.com/gopherjs/gopherjs/js"

// shardArgs returns (shard, nshards) from node's process.argv.
func shardArgs() (int, int) {
	argv := js.Global.Get("process").Get("argv")
	if argv.Length() < 4 {
		return 0, 1
	}
	return atoi(argv.Index(2).String()), atoi(argv.Index(3).String())
}
