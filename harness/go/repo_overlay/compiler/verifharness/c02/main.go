//go:build verif

// Harness for C02: compiles the program directories listed on stdin (JSON array of
// paths) with the real build.Session and prints, for every package of the program's
// own module, Decl.FullName -> Decl.Blocking of every function declaration (JSON).
package main

import (
	"encoding/json"
	"fmt"
	"net/http"
	"os"
	"runtime/debug"
	"sort"
	"strings"

	gbuild "github.com/gopherjs/gopherjs/build"
	"github.com/gopherjs/gopherjs/compiler/gopherjspkg"
)

type declInfo struct {
	Pkg      string `json:"pkg"`
	Name     string `json:"name"`
	Blocking bool   `json:"blocking"`
}

type result struct {
	Dir   string     `json:"dir"`
	Err   string     `json:"err"`
	Decls []declInfo `json:"decls"`
}

func one(dir, modPrefix string) (res result) {
	res.Dir = dir
	res.Decls = []declInfo{}
	defer func() {
		if r := recover(); r != nil {
			res.Err = fmt.Sprint("panic: ", r, "\n", string(debug.Stack()))
		}
	}()
	if err := os.Chdir(dir); err != nil {
		res.Err = err.Error()
		return
	}
	options := &gbuild.Options{}
	s, err := gbuild.NewSession(options)
	if err != nil {
		res.Err = err.Error()
		return
	}
	xctx := gbuild.NewBuildContext(s.InstallSuffix(), options.BuildTags)
	pkg, err := xctx.Import(".", dir, 0)
	if err != nil {
		res.Err = err.Error()
		return
	}
	root, err := s.BuildProject(pkg)
	if err != nil {
		res.Err = err.Error()
		return
	}
	paths := []string{}
	for p := range s.UpToDateArchives {
		if p == modPrefix || strings.HasPrefix(p, modPrefix+"/") || p == root.ImportPath {
			paths = append(paths, p)
		}
	}
	sort.Strings(paths)
	for _, p := range paths {
		for _, d := range s.UpToDateArchives[p].Declarations {
			if d.FullName == "" || len(d.FuncDeclCode) == 0 {
				continue
			}
			res.Decls = append(res.Decls, declInfo{Pkg: p, Name: d.FullName, Blocking: d.Blocking})
		}
	}
	return
}

func main() {
	var req struct {
		Dirs   []string `json:"dirs"`
		Module string   `json:"module"`
		Repo   string   `json:"repo"` // root of the gopherjs tree (js/ and nosync/ are served from it, as embed.go does)
	}
	if err := json.NewDecoder(os.Stdin).Decode(&req); err != nil {
		fmt.Fprintln(os.Stderr, err)
		os.Exit(2)
	}
	gopherjspkg.RegisterFS(http.Dir(req.Repo))
	out := []result{}
	for _, d := range req.Dirs {
		out = append(out, one(d, req.Module))
	}
	json.NewEncoder(os.Stdout).Encode(out)
}
