//go:build verif

// Harness for C20: drives the real build/cache.BuildCache (Store, Load, key derivation) on
// histories described on stdin (JSON) inside a scratch cache directory, damages cache files,
// kills Store part-way in child processes, and compiles fresh versus cache-restored Sources
// with the real compiler. Prints what it observed (JSON).
package main

import (
	"bytes"
	"crypto/sha256"
	"encoding/hex"
	"encoding/json"
	"errors"
	"fmt"
	"go/ast"
	"go/parser"
	"go/printer"
	"go/token"
	"go/types"
	"io"
	"os"
	"os/exec"
	"os/signal"
	"path/filepath"
	"reflect"
	"sort"
	"strings"
	"syscall"
	"time"

	"github.com/gopherjs/gopherjs/build/cache"
	"github.com/gopherjs/gopherjs/compiler"
	"github.com/gopherjs/gopherjs/compiler/incjs"
	"github.com/gopherjs/gopherjs/compiler/internal/dce"
	"github.com/gopherjs/gopherjs/compiler/linkname"
	"github.com/gopherjs/gopherjs/compiler/sources"
	"github.com/gopherjs/gopherjs/internal/sourcemapx"
	log "github.com/sirupsen/logrus"
)

type cfgT struct {
	GOOS    string    `json:"goos"`
	GOARCH  string    `json:"goarch"`
	GOROOT  string    `json:"goroot"`
	GOPATH  string    `json:"gopath"`
	Tags    *[]string `json:"tags"` // null = nil slice
	Version string    `json:"version"`
	Tested  string    `json:"tested"`
	Nil     bool      `json:"nil"` // nil *BuildCache (caching disabled)
}

func (c cfgT) bc() *cache.BuildCache {
	if c.Nil {
		return nil
	}
	b := &cache.BuildCache{GOOS: c.GOOS, GOARCH: c.GOARCH, GOROOT: c.GOROOT, GOPATH: c.GOPATH, Version: c.Version, TestedPackage: c.Tested}
	if c.Tags != nil {
		b.BuildTags = append([]string{}, (*c.Tags)...)
	}
	return b
}

type srcFile struct {
	Name string `json:"name"`
	Text string `json:"text"`
}

type opT struct {
	Op        string    `json:"op"`
	Cfg       cfgT      `json:"cfg"`
	IP        string    `json:"ip"`
	T         [2]int64  `json:"t"`      // unix seconds, nanoseconds
	Chunks    []string  `json:"chunks"` // hex; the toy Cacheable encodes the count and then every chunk
	FailAfter int       `json:"fail_after"`
	Drop      int64     `json:"drop"`
	Keep      int64     `json:"keep"`
	Pos       int64     `json:"pos"`
	Xor       int       `json:"xor"`
	Limit     int64     `json:"limit"`
	Mode      string    `json:"mode"`
	After     int       `json:"after"`
	Micros    int       `json:"micros"`
	Chunks2   []string  `json:"chunks2"`
	Src       []srcFile `json:"src"`
	JS        []srcFile `json:"js"`
	Minify    bool      `json:"minify"`
	Offsets   []int64   `json:"offsets"` // sweep_trunc: sizes to keep
	Flips     [][2]int64 `json:"flips"`  // sweep_flip: (position, xor mask)
	Kind      string    `json:"kind"`    // sweep: "toy" or "src"
	All       bool      `json:"all"`     // sweep: every offset / every position
	Drops     []int64   `json:"drops"`   // sweep_trunc: bytes to drop from the end
	Fracs     []int64   `json:"fracs"`   // sweep_trunc: sizes to keep, in millionths of the file size
	Masks     []int64   `json:"masks"`   // sweep_flip with all: xor masks tried at every position
}

type result struct {
	Ok         bool     `json:"ok"`
	Hit        bool     `json:"hit"`
	Chunks     []string `json:"chunks"`
	ReadCalled bool     `json:"read_called"`
	Key        string   `json:"key"`
	Path       string   `json:"path"`
	Size       int64    `json:"size"`
	Existed    bool     `json:"existed"`
	Files      []string `json:"files"`
	Panic      string   `json:"panic"`
	Status     string   `json:"status"`
	IsTest     bool     `json:"is_test"`
	Stores     int      `json:"stores"`
	Content    string   `json:"content"`
	CK         string   `json:"ck"`
	Classes    string   `json:"classes"` // sweep: one letter per probe: m miss, s hit with the stored content, d hit with other content, p panic
	Panics     []string `json:"panics"`
	Ks         []int64  `json:"ks"` // sweep: the kept size (trunc) or position (flip) of every probe
	Xs         []int64  `json:"xs"` // sweep_flip: the mask of every probe
	Digest     string   `json:"digest"`
	// compile
	Err        string   `json:"err"`
	JSFresh    string   `json:"js_fresh"`
	JSRestored string   `json:"js_restored"`
	JSAfter    string   `json:"js_after_store"`
	SameJS     bool     `json:"same_js"`
	SameMap    bool     `json:"same_map"`
	SameAfter  bool     `json:"same_after"`
	SamePrint  bool     `json:"same_print"`
	SameMeta   bool     `json:"same_meta"`
	SameComments bool   `json:"same_comments"`
	Diff       string   `json:"diff"`
	Kinds      []string `json:"kinds"`
	JSLen      int      `json:"js_len"`
	FileSize   int64    `json:"file_size"`
}

// toy is the Cacheable used for histories: a list of byte chunks.
type toy struct {
	Chunks     [][]byte
	failAfter  int // return an error from the k-th encode call (0-based); -1 = never
	exitAfter  int // os.Exit(3) at the k-th encode call; -1 = never
	readCalled bool
}

func (t *toy) Write(encode func(any) error) error {
	k := 0
	step := func(v any) error {
		if t.exitAfter == k {
			os.Exit(3)
		}
		if t.failAfter == k {
			return errors.New("verif: injected write failure")
		}
		k++
		return encode(v)
	}
	if err := step(len(t.Chunks)); err != nil {
		return err
	}
	for _, c := range t.Chunks {
		if err := step(c); err != nil {
			return err
		}
	}
	if t.exitAfter == k {
		os.Exit(3)
	}
	if t.failAfter == k {
		return errors.New("verif: injected write failure")
	}
	return nil
}

func (t *toy) Read(decode func(any) error) error {
	t.readCalled = true
	var n int
	if err := decode(&n); err != nil {
		return err
	}
	if n < 0 || n > 1<<20 {
		return errors.New("verif: bad count")
	}
	for i := 0; i < n; i++ {
		var c []byte
		if err := decode(&c); err != nil {
			return err
		}
		t.Chunks = append(t.Chunks, c)
	}
	return nil
}

func unhex(xs []string) [][]byte {
	out := make([][]byte, len(xs))
	for i, x := range xs {
		b, _ := hex.DecodeString(x)
		out[i] = b
	}
	return out
}

func tohex(xs [][]byte) []string {
	out := make([]string, len(xs))
	for i, x := range xs {
		out[i] = hex.EncodeToString(x)
	}
	return out
}

func tm(t [2]int64) time.Time { return time.Unix(t[0], t[1]).UTC() }

func listFiles(root string) []string {
	files := []string{}
	filepath.Walk(root, func(p string, info os.FileInfo, err error) error {
		if err == nil && !info.IsDir() {
			rel, _ := filepath.Rel(root, p)
			files = append(files, fmt.Sprintf("%s:%d", rel, info.Size()))
		}
		return nil
	})
	sort.Strings(files)
	return files
}

func finalPath(o opT) string {
	bc := o.Cfg.bc()
	return cache.VerifCachedPath(bc.VerifPackageKey(o.IP))
}

func runOp(root string, o opT) (res result) {
	defer func() {
		if r := recover(); r != nil {
			res.Panic = fmt.Sprint(r)
		}
	}()
	res.Chunks = []string{}
	res.Files = []string{}
	res.Kinds = []string{}
	if o.Cfg.Nil && (o.Op == "key" || o.Op == "trunc" || o.Op == "flip" || o.Op == "stat" || o.Op == "restore") {
		return // a nil *BuildCache has no key
	}
	switch o.Op {
	case "store":
		c := &toy{Chunks: unhex(o.Chunks), failAfter: o.FailAfter, exitAfter: -1}
		res.Ok = o.Cfg.bc().Store(c, o.IP, tm(o.T))
	case "load":
		c := &toy{failAfter: -1, exitAfter: -1}
		res.Hit = o.Cfg.bc().Load(c, o.IP, tm(o.T))
		res.Chunks = tohex(c.Chunks)
		res.ReadCalled = c.readCalled
	case "key":
		bc := o.Cfg.bc()
		res.Key = bc.VerifPackageKey(o.IP)
		res.CK = bc.VerifCommonKey()
		p := cache.VerifCachedPath(res.Key)
		rel, err := filepath.Rel(root, p)
		if err != nil {
			rel = p
		}
		res.Path = rel
		res.IsTest = bc.VerifIsTestPackage(o.IP)
	case "trunc":
		p := finalPath(o)
		st, err := os.Stat(p)
		if err != nil {
			return
		}
		res.Existed = true
		res.Size = st.Size()
		n := st.Size() - o.Drop
		if o.Mode == "keep" {
			n = o.Keep
		}
		if n < 0 {
			n = 0
		}
		if n < st.Size() {
			if err := os.Truncate(p, n); err != nil {
				res.Err = err.Error()
			}
		}
	case "flip":
		p := finalPath(o)
		b, err := os.ReadFile(p)
		if err != nil || len(b) == 0 {
			return
		}
		res.Existed = true
		res.Size = int64(len(b))
		i := o.Pos % int64(len(b))
		b[i] ^= byte(o.Xor)
		if err := os.WriteFile(p, b, 0o640); err != nil {
			res.Err = err.Error()
		}
	case "stat":
		p := finalPath(o)
		b, err := os.ReadFile(p)
		if err != nil {
			return
		}
		res.Existed = true
		res.Size = int64(len(b))
		res.Content = hex.EncodeToString(b)
	case "restore":
		// write back the given bytes as the final file (used to undo damage between probes)
		p := finalPath(o)
		b, _ := hex.DecodeString(o.Chunks[0])
		if err := os.WriteFile(p, b, 0o640); err != nil {
			res.Err = err.Error()
		}
	case "ls":
		res.Files = listFiles(root)
	case "store_src":
		srcs, err := parsePkg(o)
		if err != nil {
			res.Err = "parse: " + err.Error()
			return
		}
		res.Digest = sh(printAll(srcs) + meta(srcs))
		res.Ok = o.Cfg.bc().Store(srcs, o.IP, tm(o.T))
	case "load_src":
		res.Hit, res.Digest, res.Panic = loadSrc(o)
	case "sweep_trunc", "sweep_flip":
		res = runSweep(o)
	case "crash":
		res = runCrash(root, o)
	case "compile":
		res = runCompile(root, o)
	default:
		res.Err = "unknown op " + o.Op
	}
	return
}

// ---------------------------------------------------------------- damage sweeps

func loadSrc(o opT) (hit bool, digest string, pan string) {
	defer func() {
		if r := recover(); r != nil {
			pan = fmt.Sprint(r)
		}
	}()
	srcs := &sources.Sources{}
	hit = o.Cfg.bc().Load(srcs, o.IP, tm(o.T))
	if hit {
		digest = sh(printAll(srcs) + meta(srcs))
	}
	return
}

func loadToy(o opT) (hit bool, digest string, pan string) {
	defer func() {
		if r := recover(); r != nil {
			pan = fmt.Sprint(r)
		}
	}()
	c := &toy{failAfter: -1, exitAfter: -1}
	hit = o.Cfg.bc().Load(c, o.IP, tm(o.T))
	if hit {
		digest = sh(strings.Join(tohex(c.Chunks), ","))
	}
	return
}

// runSweep damages the stored file of (cfg, ip) in many ways, one at a time, and classifies
// what the real Load does with each damaged file. The original bytes are put back at the end.
func runSweep(o opT) (res result) {
	res.Chunks = []string{}
	res.Files = []string{}
	res.Kinds = []string{}
	res.Panics = []string{}
	p := finalPath(o)
	orig, err := os.ReadFile(p)
	if err != nil {
		res.Err = err.Error()
		return
	}
	res.Size = int64(len(orig))
	ld := loadToy
	if o.Kind == "src" {
		ld = loadSrc
	}
	hit, want, pan := ld(o)
	if !hit || pan != "" {
		res.Err = "undamaged file does not load: " + pan
		return
	}
	res.Digest = want
	var cls []byte
	probe := func(b []byte) {
		if err := os.WriteFile(p, b, 0o640); err != nil {
			cls = append(cls, 'e')
			return
		}
		hit, got, pan := ld(o)
		switch {
		case pan != "":
			cls = append(cls, 'p')
			if len(res.Panics) < 3 {
				res.Panics = append(res.Panics, pan)
			}
		case !hit:
			cls = append(cls, 'm')
		case got == want:
			cls = append(cls, 's')
		default:
			cls = append(cls, 'd')
		}
	}
	// All sizes and positions are taken relative to the file as it is NOW: its exact bytes depend on
	// the gob type ids this process has handed out so far, so sizes must not be carried over from
	// another process.
	n := int64(len(orig))
	res.Ks = []int64{}
	res.Xs = []int64{}
	if o.Op == "sweep_trunc" {
		ks := []int64{}
		if o.All {
			for k := int64(0); k <= n; k++ {
				ks = append(ks, k)
			}
		}
		for _, k := range o.Offsets {
			ks = append(ks, k)
		}
		for _, d := range o.Drops {
			ks = append(ks, n-d)
		}
		for _, f := range o.Fracs {
			ks = append(ks, n*f/1000000)
		}
		for _, k := range ks {
			if k > n {
				k = n
			}
			if k < 0 {
				k = 0
			}
			res.Ks = append(res.Ks, k)
			probe(orig[:k])
		}
	} else {
		flips := [][2]int64{}
		if o.All {
			for i := int64(0); i < n; i++ {
				for _, m := range o.Masks {
					flips = append(flips, [2]int64{i, m})
				}
			}
		}
		flips = append(flips, o.Flips...)
		for _, f := range flips {
			b := append([]byte{}, orig...)
			i := f[0] % n
			b[i] ^= byte(f[1])
			res.Ks = append(res.Ks, i)
			res.Xs = append(res.Xs, f[1])
			probe(b)
		}
	}
	os.WriteFile(p, orig, 0o640)
	res.Classes = string(cls)
	res.Ok = true
	return
}

// ---------------------------------------------------------------- crashes (child processes)

type childJob struct {
	Root string `json:"root"`
	Op   opT    `json:"op"`
}

func runCrash(root string, o opT) (res result) {
	res.Chunks = []string{}
	res.Kinds = []string{}
	job, _ := json.Marshal(childJob{Root: root, Op: o})
	cmd := exec.Command(os.Args[0], "-child")
	cmd.Stdin = bytes.NewReader(job)
	var out bytes.Buffer
	cmd.Stderr = io.Discard
	if o.Mode == "sigkill" {
		pr, pw, _ := os.Pipe()
		cmd.Stdout = pw
		if err := cmd.Start(); err != nil {
			res.Err = err.Error()
			return
		}
		pw.Close()
		// wait until the child has completed o.After stores (it prints a dot after each), then
		// o.Micros more, then kill it: kills land inside the first store as well as inside later ones
		counts := make(chan int, 1024)
		go func() {
			buf := make([]byte, 256)
			for {
				n, err := pr.Read(buf)
				if n > 0 {
					counts <- bytes.Count(buf[:n], []byte("."))
				}
				if err != nil {
					close(counts)
					return
				}
			}
		}()
		seen := 0
		deadline := time.After(10 * time.Second)
	wait:
		for seen < o.After {
			select {
			case n, ok := <-counts:
				if !ok {
					break wait
				}
				seen += n
			case <-deadline:
				break wait
			}
		}
		time.Sleep(time.Duration(o.Micros) * time.Microsecond)
		cmd.Process.Signal(syscall.SIGKILL)
		cmd.Wait()
		for n := range counts {
			seen += n
		}
		res.Stores = seen
		res.Status = "sigkill"
	} else {
		cmd.Stdout = &out
		err := cmd.Run()
		switch e := err.(type) {
		case nil:
			res.Status = "exit0"
		case *exec.ExitError:
			ws := e.Sys().(syscall.WaitStatus)
			if ws.Signaled() {
				res.Status = "signal:" + ws.Signal().String()
			} else {
				res.Status = fmt.Sprintf("exit%d", ws.ExitStatus())
			}
		default:
			res.Err = err.Error()
		}
		res.Ok = strings.Contains(out.String(), "stored=true")
	}
	res.Files = listFiles(root)
	return
}

type killHook struct{}

func (killHook) Levels() []log.Level { return []log.Level{log.WarnLevel} }
func (killHook) Fire(e *log.Entry) error {
	if strings.HasPrefix(e.Message, "Failed to write build cache package") {
		syscall.Kill(os.Getpid(), syscall.SIGKILL)
		select {}
	}
	return nil
}

func childMain() {
	var job childJob
	if err := json.NewDecoder(os.Stdin).Decode(&job); err != nil {
		os.Exit(9)
	}
	setRoot(job.Root)
	o := job.Op
	bc := o.Cfg.bc()
	switch o.Mode {
	case "kill", "eio":
		// The file-size limit makes the write of the temp file stop after exactly o.Limit bytes (EFBIG).
		// "eio": Store sees the write error and takes its error path.
		// "kill": the process is killed at that very moment — Store logs the failure before it removes the
		// temp file; a hook on that log line SIGKILLs the process, leaving the disk as a crash in the
		// middle of the write leaves it.
		signal.Ignore(syscall.SIGXFSZ)
		if o.Mode == "kill" {
			log.AddHook(killHook{})
		}
		lim := syscall.Rlimit{Cur: uint64(o.Limit), Max: uint64(o.Limit)}
		if err := syscall.Setrlimit(syscall.RLIMIT_FSIZE, &lim); err != nil {
			os.Exit(8)
		}
		ok := bc.Store(&toy{Chunks: unhex(o.Chunks), failAfter: -1, exitAfter: -1}, o.IP, tm(o.T))
		fmt.Printf("stored=%v\n", ok)
	case "exit":
		ok := bc.Store(&toy{Chunks: unhex(o.Chunks), failAfter: -1, exitAfter: o.After}, o.IP, tm(o.T))
		fmt.Printf("stored=%v\n", ok)
	case "sigkill":
		a, b := unhex(o.Chunks), unhex(o.Chunks2)
		os.Stdout.Write([]byte("r"))
		for i := 0; ; i++ {
			c := a
			if i%2 == 1 {
				c = b
			}
			bc.Store(&toy{Chunks: c, failAfter: -1, exitAfter: -1}, o.IP, tm(o.T))
			os.Stdout.Write([]byte("."))
		}
	}
}

// ---------------------------------------------------------------- transparency (real compiler)

func parsePkg(o opT) (*sources.Sources, error) {
	fset := token.NewFileSet()
	var files []*ast.File
	for _, f := range o.Src {
		af, err := parser.ParseFile(fset, f.Name, f.Text, parser.ParseComments)
		if err != nil {
			return nil, err
		}
		files = append(files, af)
	}
	var js []incjs.File
	for i, f := range o.JS {
		js = append(js, incjs.File{Path: f.Name, ModTime: time.Unix(1000000+int64(i), 0).UTC(), Content: []byte(f.Text)})
	}
	return &sources.Sources{ImportPath: o.IP, Dir: "/verif/pkg", Files: files, FileSet: fset, JSFiles: js}, nil
}

func compileJS(srcs *sources.Sources, minify bool) (js string, smap string, err error) {
	defer func() {
		if r := recover(); r != nil {
			err = fmt.Errorf("panic: %v", r)
		}
	}()
	importer := func(path, srcDir string) (*sources.Sources, error) {
		return nil, fmt.Errorf("verif: no imports available (%s)", path)
	}
	tContext := types.NewContext()
	if err := compiler.PrepareAllSources([]*sources.Sources{srcs}, importer, tContext); err != nil {
		return "", "", err
	}
	archive, err := compiler.Compile(srcs, tContext, minify)
	if err != nil {
		return "", "", err
	}
	// as compiler.WriteProgramCode does for every package of a program
	gls := linkname.GoLinknameSet{}
	gls.Add(archive.GoLinknames)
	sel := &dce.Selector[*compiler.Decl]{}
	for _, d := range archive.Declarations {
		sel.Include(d, true) // keep every declaration: all of the generated code is compared
	}
	buf := &bytes.Buffer{}
	w := &sourcemapx.Filter{Writer: buf, FileSet: archive.FileSet}
	w.EnableMapping("out.js", "", "", false)
	if err := compiler.WritePkgCode(archive, sel.AliveDecls(), gls, minify, w); err != nil {
		return "", "", err
	}
	mb := &bytes.Buffer{}
	if err := w.WriteMappingTo(mb); err != nil {
		return "", "", err
	}
	return buf.String(), mb.String(), nil
}

func printAll(s *sources.Sources) string {
	var b bytes.Buffer
	for _, f := range s.Files {
		fmt.Fprintf(&b, "== %s %v %v imports=%d\n", s.FileSet.Position(f.Pos()), s.FileSet.Position(f.End()), f.Name.Name, len(f.Imports))
		// code without comments (the printer takes comments from File.Comments only) ...
		saved := f.Comments
		f.Comments = nil
		printer.Fprint(&b, s.FileSet, f)
		// ... and every node, attached comment groups included, with its positions
		ast.Inspect(f, func(n ast.Node) bool {
			if n != nil {
				fmt.Fprintf(&b, "%T@%v-%v;", n, s.FileSet.Position(n.Pos()), s.FileSet.Position(n.End()))
				if c, ok := n.(*ast.Comment); ok {
					fmt.Fprintf(&b, "%q;", c.Text)
				}
			}
			return true
		})
		f.Comments = saved
	}
	return b.String()
}

// allComments lists File.Comments (attached and free-floating groups).
func allComments(s *sources.Sources) string {
	var b bytes.Buffer
	for _, f := range s.Files {
		for _, cg := range f.Comments {
			for _, c := range cg.List {
				fmt.Fprintf(&b, "%v %q\n", s.FileSet.Position(c.Pos()), c.Text)
			}
		}
		b.WriteString("--\n")
	}
	return b.String()
}

func meta(s *sources.Sources) string {
	var b bytes.Buffer
	fmt.Fprintf(&b, "%q %q %d\n", s.ImportPath, s.Dir, len(s.Files))
	for _, j := range s.JSFiles {
		fmt.Fprintf(&b, "%q %v %x\n", j.Path, j.ModTime.UnixNano(), j.Content)
	}
	return b.String()
}

func firstDiff(a, b string) string {
	n := len(a)
	if len(b) < n {
		n = len(b)
	}
	i := 0
	for i < n && a[i] == b[i] {
		i++
	}
	lo := i - 60
	if lo < 0 {
		lo = 0
	}
	end := func(s string) string {
		hi := i + 60
		if hi > len(s) {
			hi = len(s)
		}
		if lo > len(s) {
			return ""
		}
		return s[lo:hi]
	}
	return fmt.Sprintf("at %d: %q  vs  %q", i, end(a), end(b))
}

func sh(s string) string { h := sha256.Sum256([]byte(s)); return hex.EncodeToString(h[:8]) }

func runCompile(root string, o opT) (res result) {
	res.Chunks = []string{}
	res.Files = []string{}
	res.Kinds = []string{}
	fresh, err := parsePkg(o)
	if err != nil {
		res.Err = "parse: " + err.Error()
		return
	}
	kinds := map[string]bool{}
	for _, f := range fresh.Files {
		ast.Inspect(f, func(n ast.Node) bool {
			if n != nil {
				kinds[reflect.TypeOf(n).Elem().Name()] = true
			}
			return true
		})
	}
	for k := range kinds {
		res.Kinds = append(res.Kinds, k)
	}
	sort.Strings(res.Kinds)
	printFresh, metaFresh, commentsFresh := printAll(fresh), meta(fresh), allComments(fresh)
	jsF, mapF, err := compileJS(fresh, o.Minify)
	if err != nil {
		res.Err = "compile fresh: " + err.Error()
		return
	}
	// second parse -> real Store -> real Load
	orig, _ := parsePkg(o)
	bc := o.Cfg.bc()
	if !bc.Store(orig, o.IP, tm(o.T)) {
		res.Err = "store failed"
		return
	}
	if st, err := os.Stat(cache.VerifCachedPath(bc.VerifPackageKey(o.IP))); err == nil {
		res.FileSize = st.Size()
	}
	restored := &sources.Sources{}
	if !bc.Load(restored, o.IP, tm(o.T)) {
		res.Err = "load after store missed"
		return
	}
	res.Hit = true
	res.SamePrint = printAll(restored) == printFresh
	res.SameMeta = meta(restored) == metaFresh
	res.SameComments = allComments(restored) == commentsFresh
	if !res.SamePrint {
		res.Diff = "print " + firstDiff(printFresh, printAll(restored))
	}
	jsR, mapR, err := compileJS(restored, o.Minify)
	if err != nil {
		res.Err = "compile restored: " + err.Error()
		return
	}
	// the original keeps being used by the build after Store (prepareFile touches it)
	jsA, mapA, err := compileJS(orig, o.Minify)
	if err != nil {
		res.Err = "compile after store: " + err.Error()
		return
	}
	res.JSFresh, res.JSRestored, res.JSAfter = sh(jsF), sh(jsR), sh(jsA)
	res.JSLen = len(jsF)
	if o.Mode == "dump" {
		res.Content = jsF + "\n=====restored=====\n" + jsR
	}
	res.SameJS = jsF == jsR
	res.SameMap = mapF == mapR
	res.SameAfter = jsF == jsA && mapF == mapA
	if !res.SameJS {
		res.Diff = "js " + firstDiff(jsF, jsR)
	} else if !res.SameMap {
		res.Diff = "map " + firstDiff(mapF, mapR)
	} else if !res.SameAfter {
		res.Diff = "after " + firstDiff(jsF, jsA)
	}
	res.Ok = true
	return
}

// ---------------------------------------------------------------- main

var scratch string

func setRoot(dir string) {
	if scratch == "" || !strings.HasPrefix(dir, scratch) {
		fmt.Fprintln(os.Stderr, "refusing cache root outside the scratch directory:", dir)
		os.Exit(7)
	}
	cache.VerifSetCacheRoot(dir)
}

type history struct {
	Ops []opT `json:"ops"`
}

func main() {
	log.SetOutput(io.Discard)
	// The real package computes its directory from os.UserCacheDir() at start-up: the check
	// starts this process with XDG_CACHE_HOME inside its scratch directory.
	xdg := os.Getenv("XDG_CACHE_HOME")
	want := filepath.Join(xdg, "gopherjs", "build_cache")
	if xdg == "" || cache.VerifCacheRoot() != want || !strings.Contains(xdg, "c20scratch") {
		fmt.Fprintf(os.Stderr, "cache root %q is not under the scratch XDG_CACHE_HOME %q\n", cache.VerifCacheRoot(), xdg)
		os.Exit(6)
	}
	scratch = want
	if len(os.Args) > 1 && os.Args[1] == "-child" {
		childMain()
		return
	}
	var in struct {
		Base      string    `json:"base"` // sub-directory name prefix below the cache root
		Histories []history `json:"histories"`
	}
	if err := json.NewDecoder(os.Stdin).Decode(&in); err != nil {
		fmt.Fprintln(os.Stderr, "bad input:", err)
		os.Exit(2)
	}
	out := make([][]result, len(in.Histories))
	for i, h := range in.Histories {
		root := want
		if in.Base != "" {
			root = filepath.Join(want, fmt.Sprintf("%s%d", in.Base, i))
		}
		setRoot(root)
		rs := make([]result, len(h.Ops))
		for j, o := range h.Ops {
			rs[j] = runOp(root, o)
		}
		out[i] = rs
		if in.Base != "" {
			os.RemoveAll(root)
		}
	}
	json.NewEncoder(os.Stdout).Encode(out)
}
