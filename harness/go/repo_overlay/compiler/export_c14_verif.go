//go:build verif

package compiler

// VerifEncodeString exposes the unexported string-literal encoder (utils.go) to the C14 harness.
func VerifEncodeString(s string) string { return encodeString(s) }
