//go:build verif

package typeparams

import "go/types"

// VerifC17Propagate calls the real Collector.propagate for one package key, exactly as one
// iteration of the loop in Finish does. Returns false when the key has no instance set.
func (c *Collector) VerifC17Propagate(pkgPath string) bool {
	iset, ok := (*c.Instances)[pkgPath]
	if !ok {
		return false
	}
	c.propagate(pkgPath, iset)
	return true
}

// VerifC17AllExhausted is the loop condition of Finish.
func (c *Collector) VerifC17AllExhausted() bool { return c.Instances.allExhausted() }

// VerifC17WithInstances returns a collector sharing the scanned object/info maps but adding to other sets.
func (c *Collector) VerifC17WithInstances(sets *PackageInstanceSets) *Collector {
	return &Collector{TContext: c.TContext, Instances: sets, objMap: c.objMap, infoMap: c.infoMap}
}

// VerifC17ScanOne scans the generic code of ONE instance (the body of the loop in propagate,
// without the loop), so that the harness can tabulate what each instance discovers.
func (c *Collector) VerifC17ScanOne(inst Instance) {
	info := c.infoMap[inst.Object.Pkg().Path()]
	switch typ := inst.Object.Type().(type) {
	case *types.Signature:
		c.scanSignature(inst, typ, info)
	case *types.Named:
		c.scanNamed(inst, typ, info)
	}
}
