//go:build verif

package typeparams

import "go/types"

// Exports for the C04 phase-4 verification harness (virtual file, never part of a normal build).

// VerifBuckets reports the shape of the real bucket structure: number of buckets, length of the longest
// bucket, number of nil holes, and the number of live entries found by walking the buckets.
func (im *InstanceMap[V]) VerifBuckets() (buckets, maxLen, holes, live int) {
	if im == nil || im.data == nil {
		return
	}
	for _, mb := range im.data {
		for _, b := range mb {
			buckets++
			if len(b) > maxLen {
				maxLen = len(b)
			}
			for _, e := range b {
				if e == nil {
					holes++
				} else {
					live++
				}
			}
		}
	}
	return
}

// VerifSameBucket tells whether two keys fall into the same bucket of this map (same object, same typeHash).
func (im *InstanceMap[V]) VerifSameBucket(a, b Instance) bool {
	if im == nil || im.data == nil {
		return false
	}
	return a.Object == b.Object && typeHash(im.hasher, a.TNest, a.TArgs) == typeHash(im.hasher, b.TNest, b.TArgs)
}

var _ = types.Identical
