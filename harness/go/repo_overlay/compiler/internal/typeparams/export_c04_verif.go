//go:build verif

package typeparams

// Exports for the C04 verification harness (virtual file, never part of a normal build).

// VerifPropagate runs the real Collector.propagate on one package's instance set.
func (c *Collector) VerifPropagate(pkgPath string) {
	if iset, ok := (*c.Instances)[pkgPath]; ok {
		c.propagate(pkgPath, iset)
	}
}

// VerifAllExhausted exposes PackageInstanceSets.allExhausted.
func (c *Collector) VerifAllExhausted() bool { return c.Instances.allExhausted() }
