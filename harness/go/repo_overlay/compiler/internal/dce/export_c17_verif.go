//go:build verif

package dce

// VerifC17GetDeps feeds names to the real Info.addDepName and returns the real Info.getDeps().
func VerifC17GetDeps(names []string) []string {
	d := &Info{}
	for _, n := range names {
		d.addDepName(n)
	}
	return d.getDeps()
}
