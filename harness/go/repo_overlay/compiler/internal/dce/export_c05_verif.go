//go:build verif

package dce

// Exports for the C05 verification harness (virtual file, mapped in with go build -overlay).

// VerifNewInfo builds an Info with exactly the given fields (the fields are unexported).
// deps are added through the real addDepName (which drops empty names and dedups).
func VerifNewInfo(alive bool, objectFilter, methodFilter string, deps []string) *Info {
	d := &Info{alive: alive, objectFilter: objectFilter, methodFilter: methodFilter}
	for _, dep := range deps {
		d.addDepName(dep)
	}
	return d
}

// VerifFields exposes the fields of an Info as the Selector sees them.
func VerifFields(d *Info) (alive bool, isAlive bool, objectFilter, methodFilter string, deps []string) {
	return d.alive, d.isAlive(), d.objectFilter, d.methodFilter, d.getDeps()
}
