//go:build verif

package compiler

import (
	"fmt"
	"go/token"
	"go/types"
	"sort"

	"github.com/gopherjs/gopherjs/compiler/internal/analysis"
	"github.com/gopherjs/gopherjs/compiler/internal/typeparams"
	"github.com/gopherjs/gopherjs/compiler/sources"
)

// Exports for the C16 harness (minification). Nothing here re-implements compiler logic: every
// function calls the unexported original.

// VerifC16RemoveWhitespace calls the real removeWhitespace; a run-time panic (index out of range on
// malformed input) is reported instead of crashing the harness.
func VerifC16RemoveWhitespace(b []byte, minify bool) (out []byte, panicked string) {
	defer func() {
		if r := recover(); r != nil {
			out, panicked = nil, fmt.Sprint(r)
		}
	}()
	return removeWhitespace(b, minify), ""
}

// VerifC16MinifyDecl calls the real Decl.minify.
func VerifC16MinifyDecl(d *Decl) Decl { return d.minify() }

// VerifC16DeclCode lists the code blobs of a Decl in a fixed order.
func VerifC16DeclCode(d *Decl) [][]byte {
	return [][]byte{d.ImportCode, d.TypeDeclCode, d.ExportTypeCode, d.AnonTypeDeclCode, d.FuncDeclCode,
		d.ExportFuncCode, d.MethodListCode, d.TypeInitCode, d.InitCode}
}

// VerifC16Keywords returns the reserved keyword table as built by init() in compiler.go.
func VerifC16Keywords() []string {
	ks := []string{}
	for k, v := range reservedKeywords {
		if v {
			ks = append(ks, k)
		}
	}
	sort.Strings(ks)
	return ks
}

// VerifC16Ctx wraps a real funcContext.
type VerifC16Ctx struct {
	fc   *funcContext
	vars map[string]*types.Var // Go variables by test id, shared by all contexts of one root
}

// VerifC16Root builds the package-level context with the real newRootCtx (which pre-seeds allVars
// with the reserved keywords).
func VerifC16Root(minify bool) *VerifC16Ctx {
	srcs := &sources.Sources{TypeInfo: &analysis.Info{}, FileSet: token.NewFileSet()}
	return &VerifC16Ctx{fc: newRootCtx(nil, srcs, minify), vars: map[string]*types.Var{}}
}

// Enter builds a child context with the real nestedFunctionContext (copies allVars and allocates the
// function's own reference name at package level). Returns the child and the funcRef name.
func (c *VerifC16Ctx) Enter(funcName string) (*VerifC16Ctx, string) {
	sig := types.NewSignatureType(nil, nil, nil, nil, nil, false)
	fn := types.NewFunc(token.NoPos, nil, funcName, sig)
	child := c.fc.nestedFunctionContext(&analysis.FuncInfo{}, typeparams.Instance{Object: fn})
	return &VerifC16Ctx{fc: child, vars: c.vars}, child.funcRef.Name
}

// NewVariable calls the real newVariable.
func (c *VerifC16Ctx) NewVariable(name string, pkgLevel bool) (res string, panicked string) {
	defer func() {
		if r := recover(); r != nil {
			res, panicked = "", fmt.Sprint(r)
		}
	}()
	return c.fc.newVariable(name, pkgLevel), ""
}

// LocalVars returns the context's localVars list.
func (c *VerifC16Ctx) LocalVars() []string { return append([]string{}, c.fc.localVars...) }

// EnterGeneric is Enter for an instance of a generic function (one type parameter, instantiated
// with int): the context's instance is not trivial, as for every instantiation of generic code.
func (c *VerifC16Ctx) EnterGeneric(funcName string) (child *VerifC16Ctx, ref string, panicked string) {
	defer func() {
		if r := recover(); r != nil {
			child, ref, panicked = nil, "", fmt.Sprint(r)
		}
	}()
	tp := types.NewTypeParam(types.NewTypeName(token.NoPos, nil, "T", nil), types.NewInterfaceType(nil, nil))
	sig := types.NewSignatureType(nil, nil, []*types.TypeParam{tp}, nil, nil, false)
	fn := types.NewFunc(token.NoPos, nil, funcName, sig)
	inst := typeparams.Instance{Object: fn, TArgs: []types.Type{types.Typ[types.Int]}}
	fcChild := c.fc.nestedFunctionContext(&analysis.FuncInfo{}, inst)
	return &VerifC16Ctx{fc: fcChild, vars: c.vars}, fcChild.funcRef.Name, ""
}

// VarPtrName calls the real varPtrName for the local Go variable with the given test id (the same
// *types.Var object is used for the same id in every context, as for the instances of one generic
// function, whose bodies share their objects).
func (c *VerifC16Ctx) VarPtrName(id, goName string) (res string, panicked string) {
	defer func() {
		if r := recover(); r != nil {
			res, panicked = "", fmt.Sprint(r)
		}
	}()
	v, ok := c.vars[id]
	if !ok {
		v = types.NewVar(token.NoPos, nil, goName, types.Typ[types.Int])
		c.vars[id] = v
	}
	return c.fc.varPtrName(v), ""
}
