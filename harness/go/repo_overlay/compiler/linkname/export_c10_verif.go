//go:build verif

package linkname

import "go/ast"

// VerifC10ReadLinkname exposes the unexported directive parser for the C10 check.
func VerifC10ReadLinkname(pkgPath, text string) (*GoLinkname, error) {
	return readLinknameFromComment(pkgPath, &ast.Comment{Text: text})
}

// VerifC10Mitigated exposes the three mitigation predicates.
func VerifC10Mitigated(pkg, name string) (varLink, insertLink bool) {
	l := GoLinkname{}
	l.Reference.PkgPath, l.Reference.Name = pkg, name
	return isMitigatedVarLinkname(l.Reference), isMitigatedInsertLinkname(l.Reference)
}
