//go:build verif

package cache

// Exports for the C20 verification harness (virtual file, added with go build -overlay).

// VerifPackageKey exposes the unexported key derivation.
func (bc *BuildCache) VerifPackageKey(importPath string) string { return bc.packageKey(importPath) }

// VerifCommonKey exposes the configuration part of the key.
func (bc *BuildCache) VerifCommonKey() string { return bc.commonKey() }

// VerifCachedPath exposes the key -> file path mapping.
func VerifCachedPath(keys ...string) string { return cachedPath(keys...) }

// VerifCacheRoot returns the cache directory the package computed at start-up.
func VerifCacheRoot() string { return cacheRoot }

// VerifSetCacheRoot points the cache at another directory (one per history).
func VerifSetCacheRoot(dir string) { cacheRoot = dir }

// VerifIsTestPackage exposes the test-package predicate.
func (bc *BuildCache) VerifIsTestPackage(importPath string) bool { return bc.isTestPackage(importPath) }
