//go:build verif

package build

import (
	gobuild "go/build"
	"net/http"
)

// VerifC18Embedded builds the VIRTUAL context that overlayCtx / gopherjsCtx build
// (the real embeddedCtx), over the directory dir instead of the embedded natives:
// dir/src/<import path>/... is served as $GOROOT/src/<import path>/...
func VerifC18Embedded(dir string, tags []string) XContext {
	e := DefaultEnv()
	e.BuildTags = tags
	return embeddedCtx(&withPrefix{fs: http.Dir(dir), prefix: e.GOROOT}, e)
}

// VerifC18Contexts exposes the go/build contexts hidden inside the XContext
// returned by the real NewBuildContext (primary = real file system, secondary
// = embedded gopherjs packages).  Used by the C18 harness only.
func VerifC18Contexts(x XContext) (primary, secondary gobuild.Context, ok bool) {
	cc, isChain := x.(*chainedCtx)
	if !isChain {
		return
	}
	p, ok1 := cc.primary.(*simpleCtx)
	s, ok2 := cc.secondary.(*simpleCtx)
	if !ok1 || !ok2 {
		return
	}
	return p.bctx, s.bctx, true
}

// VerifC18Preload runs the real applyPreloadTweaks of the primary context and
// returns the go/build context that would be used to load importPath.
func VerifC18Preload(x XContext, importPath, srcDir string) (gobuild.Context, bool) {
	cc, isChain := x.(*chainedCtx)
	if !isChain {
		return gobuild.Context{}, false
	}
	p, ok := cc.primary.(*simpleCtx)
	if !ok {
		return gobuild.Context{}, false
	}
	b, _ := p.applyPreloadTweaks(importPath, srcDir, 0)
	return b, true
}
