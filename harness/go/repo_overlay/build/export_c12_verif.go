//go:build verif

package build

// Export of the unexported augmentation entry points for the C12 check
// (add-only virtual file, mapped into package build by go build -overlay).

import (
	"embed"
	"fmt"
	"go/ast"
	"go/build"
	"go/token"
	"io"
	"sort"
	"strings"
	"unsafe"

	"github.com/gopherjs/gopherjs/compiler/natives"
)

// VerifOverrides wraps the unexported overrides map.
type VerifOverrides struct{ m map[string]overrideInfo }

func VerifNewOverrides() *VerifOverrides { return &VerifOverrides{m: map[string]overrideInfo{}} }

func (o *VerifOverrides) AugmentOverlayFile(f *ast.File)  { augmentOverlayFile(f, o.m) }
func (o *VerifOverrides) AugmentOriginalFile(f *ast.File) { augmentOriginalFile(f, o.m) }
func (o *VerifOverrides) Delete(k string)                  { delete(o.m, k) }
func (o *VerifOverrides) Len() int                         { return len(o.m) }

// VerifOverrideEntry is the observable content of one overrides entry.
type VerifOverrideEntry struct {
	Key   string `json:"key"`
	Keep  bool   `json:"keep"`
	Purge bool   `json:"purge"`
	Sig   bool   `json:"sig"`
}

func (o *VerifOverrides) Dump() []VerifOverrideEntry {
	res := []VerifOverrideEntry{}
	for k, v := range o.m {
		res = append(res, VerifOverrideEntry{Key: k, Keep: v.keepOriginal, Purge: v.purgeMethods, Sig: v.overrideSignature != nil})
	}
	sort.Slice(res, func(i, j int) bool { return res[i].Key < res[j].Key })
	return res
}

func VerifAugmentOriginalImports(importPath string, f *ast.File) { augmentOriginalImports(importPath, f) }
func VerifPruneImports(f *ast.File)                               { pruneImports(f) }
func VerifFinalizeRemovals(f *ast.File)                           { finalizeRemovals(f) }

// VerifParseAndAugment runs the real parseAndAugment for a package whose
// original sources are the given files in dir; the overlay is whatever the
// embedded natives hold for importPath.
func VerifParseAndAugment(importPath, dir string, goFiles []string, fset *token.FileSet) ([]*ast.File, error) {
	xctx := NewBuildContext("", nil)
	bctx := build.Default
	pkg := &PackageData{Package: &build.Package{ImportPath: importPath, Dir: dir, GoFiles: goFiles}, bctx: &bctx}
	files, _, err := parseAndAugment(xctx, pkg, false, fset)
	return files, err
}

// VerifPostload runs the real applyPostloadTweaks on a bare package description.
func VerifPostload(importPath string, goFiles, testGoFiles []string) ([]string, []string) {
	sc := simpleCtx{}
	pkg := sc.applyPostloadTweaks(&build.Package{ImportPath: importPath, GoFiles: goFiles, TestGoFiles: testGoFiles})
	return pkg.GoFiles, pkg.TestGoFiles
}

// ---- the real parseAndAugment on in-memory sources
//
// parseAndAugment takes its overlay from the embedded natives.FS. natives.FS is an exported
// variable of type embed.FS; the harness builds an embed.FS value holding the generated
// overlay sources (same memory layout as embed.FS/embed.file of the Go toolchain in use,
// checked by reading the files back through the public API) and installs it for the
// duration of the call. The original sources are served through PackageData.bctx.OpenFile.

type c12EmbedFile struct {
	name string
	data string
	hash [16]byte
}

type c12EmbedFS struct{ files *[]c12EmbedFile }

func c12Split(name string) (dir, elem string) {
	name = strings.TrimSuffix(name, "/")
	i := strings.LastIndexByte(name, '/')
	if i < 0 {
		return ".", name
	}
	return name[:i], name[i+1:]
}

func c12MakeFS(files map[string]string) (embed.FS, error) {
	set := map[string]string{}
	for name, data := range files {
		set[name] = data
		for d := name; ; {
			i := strings.LastIndexByte(d, '/')
			if i < 0 {
				break
			}
			d = d[:i]
			set[d+"/"] = ""
		}
	}
	list := make([]c12EmbedFile, 0, len(set))
	for name, data := range set {
		list = append(list, c12EmbedFile{name: name, data: data})
	}
	sort.Slice(list, func(i, j int) bool {
		idir, ielem := c12Split(list[i].name)
		jdir, jelem := c12Split(list[j].name)
		return idir < jdir || idir == jdir && ielem < jelem
	})
	raw := c12EmbedFS{files: &list}
	if unsafe.Sizeof(raw) != unsafe.Sizeof(embed.FS{}) {
		return embed.FS{}, fmt.Errorf("embed.FS layout changed")
	}
	fsys := *(*embed.FS)(unsafe.Pointer(&raw))
	for name, data := range files { // self-test through the public API
		got, err := fsys.ReadFile(name)
		if err != nil || string(got) != data {
			return embed.FS{}, fmt.Errorf("embed.FS self-test failed for %s: %v", name, err)
		}
	}
	return fsys, nil
}

// VerifParseAndAugmentMem runs the real parseAndAugment of package importPath with the given
// overlay and original sources. It returns the files (overlay files first) and the number of
// overlay files among them.
func VerifParseAndAugmentMem(importPath string, overlay, original []string, fset *token.FileSet) ([]*ast.File, int, error) {
	ovFiles := map[string]string{}
	for i, src := range overlay {
		ovFiles[fmt.Sprintf("src/%s/ov%03d.go", importPath, i)] = src
	}
	fsys, err := c12MakeFS(ovFiles)
	if err != nil {
		return nil, 0, err
	}
	saved := natives.FS
	natives.FS = fsys
	defer func() { natives.FS = saved }()

	dir := "/c12virt/" + importPath
	mem := map[string]string{}
	goFiles := []string{}
	for i, src := range original {
		name := fmt.Sprintf("orig%03d.go", i)
		goFiles = append(goFiles, name)
		mem[dir+"/"+name] = src
	}
	bctx := build.Default
	bctx.OpenFile = func(path string) (io.ReadCloser, error) {
		src, ok := mem[path]
		if !ok {
			return nil, fmt.Errorf("c12: no such original file %s", path)
		}
		return io.NopCloser(strings.NewReader(src)), nil
	}
	xctx := NewBuildContext("", nil)
	pkg := &PackageData{Package: &build.Package{ImportPath: importPath, Dir: dir, GoFiles: goFiles}, bctx: &bctx}
	files, _, err := parseAndAugment(xctx, pkg, false, fset)
	if err != nil {
		return nil, 0, err
	}
	return files, len(files) - len(original), nil
}
