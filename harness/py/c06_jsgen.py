"""C06 — turn the JavaScript expressions that the REAL compiler emitted for `return x <op> y`
into Gallina terms over coq/Base/C06_JsNum.v + coq/Model/C06_Prelude64.v (shallow embedding).

parse(text) -> AST;  translate(ast, params) -> (type, gallina) with type in num/bool/obj and the
Gallina term of type `res jsnum` / `res jb` / `res jso`.  Anything outside the small expression
language the integer templates use raises Untranslatable (the caller then emits an `RUnk`
placeholder so that the model still compiles, the proofs break and the differential run decides).
"""
import re

TOK = re.compile(r"\s*(?:(\d+(?:\.\d+)?)|([A-Za-z_$][\w$]*)|(\"(?:[^\"\\]|\\.)*\")|(>>>|===|!==|<<|>>|<=|>=|&&|\|\||[-+*/%&|^~!<>?:(),.=]))")


class Untranslatable(Exception):
    pass


def tokenize(s):
    out, i = [], 0
    s = s.strip()
    while i < len(s):
        m = TOK.match(s, i)
        if not m:
            raise Untranslatable("cannot tokenize at %r" % s[i:i + 20])
        if m.group(1) is not None:
            out.append(("num", m.group(1)))
        elif m.group(2) is not None:
            out.append(("id", m.group(2)))
        elif m.group(3) is not None:
            out.append(("str", m.group(3)[1:-1]))
        else:
            out.append(("op", m.group(4)))
        i = m.end()
    return out


BINPREC = [("||",), ("&&",), ("|",), ("^",), ("&",), ("===", "!=="), ("<", "<=", ">", ">="), ("<<", ">>", ">>>"), ("+", "-"), ("*", "/", "%")]


class Parser:
    def __init__(self, toks):
        self.t, self.i = toks, 0

    def peek(self):
        return self.t[self.i] if self.i < len(self.t) else ("eof", "")

    def take(self, kind=None, val=None):
        tk = self.peek()
        if (kind and tk[0] != kind) or (val is not None and tk[1] != val):
            raise Untranslatable("expected %s %s, got %r" % (kind, val, tk))
        self.i += 1
        return tk

    def isop(self, v):
        return self.peek() == ("op", v)

    def expr(self):                      # comma
        items = [self.assign()]
        while self.isop(","):
            self.take()
            items.append(self.assign())
        return items[0] if len(items) == 1 else ("comma", items)

    def assign(self):
        if self.peek()[0] == "id" and self.i + 1 < len(self.t) and self.t[self.i + 1] == ("op", "="):
            name = self.take()[1]
            self.take()
            return ("assign", name, self.assign())
        return self.ternary()

    def ternary(self):
        c = self.binary(0)
        if self.isop("?"):
            self.take()
            a = self.assign()
            self.take("op", ":")
            b = self.assign()
            return ("tern", c, a, b)
        return c

    def binary(self, lvl):
        if lvl == len(BINPREC):
            return self.unary()
        a = self.binary(lvl + 1)
        while self.peek()[0] == "op" and self.peek()[1] in BINPREC[lvl]:
            op = self.take()[1]
            b = self.binary(lvl + 1)
            a = ("bin", op, a, b)
        return a

    def unary(self):
        if self.peek()[0] == "op" and self.peek()[1] in ("-", "~", "!", "+"):
            op = self.take()[1]
            return ("un", op, self.unary())
        if self.peek() == ("id", "new"):
            self.take()
            ctor = self.take("id")[1]
            args = self.args()
            return self.postfix(("new", ctor, args))
        return self.postfix(self.primary())

    def args(self):
        self.take("op", "(")
        a = []
        if not self.isop(")"):
            a.append(self.assign())
            while self.isop(","):
                self.take()
                a.append(self.assign())
        self.take("op", ")")
        return a

    def primary(self):
        k, v = self.peek()
        if k == "num":
            self.take()
            if "." in v:
                raise Untranslatable("non-integer literal " + v)
            return ("num", int(v))
        if k == "str":
            self.take()
            return ("str", v)
        if k == "id":
            self.take()
            if self.isop("("):
                return ("call", v, self.args())
            return ("var", v)
        if (k, v) == ("op", "("):
            self.take()
            e = self.expr()
            self.take("op", ")")
            return e
        raise Untranslatable("unexpected token %r" % ((k, v),))

    def postfix(self, e):
        while self.isop("."):
            self.take()
            e = ("member", e, self.take("id")[1])
        return e


def parse(text):
    # uintptr -> 64-bit conversion guards against a reflect pointer object; for numbers it is `x`
    text = re.sub(r"([A-Za-z_$][\w$]*)\.constructor === Number \? \1 : 1", r"\1", text)
    p = Parser(tokenize(text))
    e = p.expr()
    if p.peek()[0] != "eof":
        raise Untranslatable("trailing tokens")
    return e


def ident(n):
    return re.sub(r"\$", "_d_", n)


NUMBIN = {"+": "js_add", "-": "js_sub", "*": "js_mul", "/": "js_div", "%": "js_rem", "<<": "js_shl", ">>": "js_shr", ">>>": "js_ushr",
          "&": "js_and", "|": "js_or", "^": "js_xor"}
CMPBIN = {"===": "js_seq", "!==": "js_sne", "<": "js_lt", "<=": "js_le", ">": "js_gt", ">=": "js_ge"}
HELPERS = {  # name -> (arg types, result type, gallina head, monadic?)
    "$imul": (["num", "num"], "num", "js_imul", False),
    "$min": (["num", "num"], "num", "js_min", False),
    "$flatten64": (["obj"], "num", "flatten64", False),
    "$mul64": (["obj", "obj"], "obj", "gmul64", False),
    "$shiftLeft64": (["obj", "num"], "obj", "gshl64", False),
    "$shiftRightInt64": (["obj", "num"], "obj", "gshr64", False),
    "$shiftRightUint64": (["obj", "num"], "obj", "gushr64", False),
}


def is_pure(e):
    t = e[0]
    if t in ("num", "var", "str"):
        return True
    if t == "call":
        return e[1] not in ("$throwRuntimeError", "$div64") and all(is_pure(a) for a in e[2])
    if t == "new":
        return all(is_pure(a) for a in e[2])
    if t == "bin":
        return is_pure(e[2]) and is_pure(e[3])
    if t == "un":
        return is_pure(e[2])
    if t == "tern":
        return all(is_pure(x) for x in e[1:])
    if t == "comma":
        return all(is_pure(x) for x in e[1])
    if t == "assign":
        return is_pure(e[2])
    if t == "member":
        return is_pure(e[1])
    return False


class Tr:
    def __init__(self, params):
        self.env = dict(params)       # name -> type
        self.n = 0

    def fresh(self):
        self.n += 1
        return "v%d" % self.n

    # ---- pure expressions: (type, term)
    def pure(self, e):
        t = e[0]
        if t == "num":
            return "num", "(Fin %d)" % e[1]
        if t == "var":
            if e[1] not in self.env:
                raise Untranslatable("unbound variable " + e[1])
            return self.env[e[1]], ident(e[1])
        if t == "un":
            ty, a = self.pure(e[2])
            if e[1] == "-" and ty == "num":
                return "num", "(js_neg %s)" % a
            if e[1] == "~" and ty == "num":
                return "num", "(js_not %s)" % a
            if e[1] == "!" and ty == "bool":
                return "bool", "(jb_not %s)" % a
            raise Untranslatable("unary %s on %s" % (e[1], ty))
        if t == "bin":
            ta, a = self.pure(e[2])
            tb, b = self.pure(e[3])
            op = e[1]
            if op in NUMBIN and ta == tb == "num":
                return "num", "(%s %s %s)" % (NUMBIN[op], a, b)
            if op in CMPBIN and ta == tb == "num":
                return "bool", "(%s %s %s)" % (CMPBIN[op], a, b)
            if op in ("&&", "||") and ta == tb == "bool":
                return "bool", "(%s %s %s)" % ("jb_and" if op == "&&" else "jb_or", a, b)
            raise Untranslatable("binary %s on %s,%s" % (op, ta, tb))
        if t == "tern":
            tc, c = self.pure(e[1])
            ta, a = self.pure(e[2])
            tb, b = self.pure(e[3])
            if tc == "bool" and ta == tb == "num":
                return "num", "(js_ite_num %s %s %s)" % (c, a, b)
            raise Untranslatable("ternary of types %s ? %s : %s" % (tc, ta, tb))
        if t == "comma":
            # (v = e1, e2): a local binding
            return self.lets(e[1], self.pure)
        if t == "member":
            to, o = self.pure(e[1])
            if to == "obj" and e[2] in ("$high", "$low"):
                return "num", "(%s %s)" % ("o_hi" if e[2] == "$high" else "o_lo", o)
            raise Untranslatable("member ." + e[2])
        if t == "new":
            if e[1] in ("$Int64", "$Uint64") and len(e[2]) == 2:
                ts = [self.pure(a) for a in e[2]]
                if all(x[0] == "num" for x in ts):
                    return "obj", "(gnew64 %s %s %s)" % ("true" if e[1] == "$Int64" else "false", ts[0][1], ts[1][1])
            raise Untranslatable("new " + e[1])
        if t == "call":
            if e[1] in HELPERS:
                at, rt, head, _ = HELPERS[e[1]]
                ts = [self.pure(a) for a in e[2]]
                if [x[0] for x in ts] == at:
                    return rt, "(%s %s)" % (head, " ".join(x[1] for x in ts))
            raise Untranslatable("call " + e[1])
        raise Untranslatable("node " + t)

    def lets(self, items, k):
        """items: [assign..., final]; k translates the final item; returns (type, term)"""
        if len(items) == 1:
            return k(items[0])
        first = items[0]
        if first[0] != "assign" or not is_pure(first[2]):
            raise Untranslatable("comma expression without a pure assignment")
        ty, a = self.pure(first[2])
        old = self.env.get(first[1])
        self.env[first[1]] = ty
        tr, body = self.lets(items[1:], k)
        if old is None:
            del self.env[first[1]]
        else:
            self.env[first[1]] = old
        return tr, "(let %s := %s in %s)" % (ident(first[1]), a, body)

    def peel(self, e):
        """e = ((core op1 p1) op2 p2) ... with pure p_i: returns (core, fun v -> gallina of the wrappers applied to v)"""
        if e[0] == "bin" and e[1] in NUMBIN and is_pure(e[3]) and not is_pure(e[2]):
            core, inner = self.peel(e[2])
            tb, b = self.pure(e[3])
            if tb != "num":
                raise Untranslatable("wrapper operand type")
            op = NUMBIN[e[1]]
            return core, (lambda v, inner=inner, op=op, b=b: "(%s %s %s)" % (op, inner(v), b))
        return e, (lambda v: v)

    # ---- monadic expressions: (type, term : res T); type None = polymorphic (a bare throw)
    def mon(self, e):
        if is_pure(e):
            ty, a = self.pure(e)
            return ty, "(Ret %s)" % a
        t = e[0]
        if t == "call" and e[1] == "$throwRuntimeError":
            msg = e[2][0][1] if e[2] and e[2][0][0] == "str" else ""
            return None, "(Throw %s)" % ("DivideByZero" if msg == "integer divide by zero" else "OtherThrow")
        if t == "call" and e[1] == "$div64" and len(e[2]) == 3:
            tx, x = self.pure(e[2][0])
            ty_, y = self.pure(e[2][1])
            flag = e[2][2]
            if tx == ty_ == "obj" and flag[0] == "var" and flag[1] in ("true", "false"):
                return "obj", "(gdiv64 %s %s %s)" % (x, y, flag[1])
            raise Untranslatable("$div64 arguments")
        if t == "tern":
            tc, c = self.pure(e[1])
            ta, a = self.mon(e[2])
            tb, b = self.mon(e[3])
            if tc != "bool" or (ta and tb and ta != tb):
                raise Untranslatable("ternary types")
            return ta or tb, "(js_ite %s %s %s)" % (c, a, b)
        if t == "comma":
            return self.lets(e[1], self.mon)
        if t == "bin" and e[1] in NUMBIN and is_pure(e[3]):
            # <impure> op <pure>: one bind around the whole chain of pure wrappers (fixNumber suffixes)
            core, wrap = self.peel(e)
            ty, c = self.mon(core)
            if ty != "num":
                raise Untranslatable("impure operand of type %s" % ty)
            v = self.fresh()
            return "num", "(bind %s (fun %s => Ret %s))" % (c, v, wrap(v))
        if t == "bin":
            op = e[1]
            ta, a = self.mon(e[2])
            tb, b = self.mon(e[3])
            va, vb = self.fresh(), self.fresh()
            if op in NUMBIN and ta == tb == "num":
                return "num", "(bind %s (fun %s => bind %s (fun %s => Ret (%s %s %s))))" % (a, va, b, vb, NUMBIN[op], va, vb)
            raise Untranslatable("impure binary %s" % op)
        if t == "un":
            ta, a = self.mon(e[2])
            va = self.fresh()
            if ta == "num" and e[1] in ("-", "~"):
                return "num", "(bind %s (fun %s => Ret (%s %s)))" % (a, va, "js_neg" if e[1] == "-" else "js_not", va)
            raise Untranslatable("impure unary")
        raise Untranslatable("impure node " + t)


COQTYPE = {"num": "jsnum", "bool": "jb", "obj": "jso"}


def translate(text, params):
    """params: ordered list of (name, type). Returns (result type, gallina function text)"""
    ast = parse(text)
    tr = Tr(params)
    ty, body = tr.mon(ast)
    if ty is None:
        raise Untranslatable("expression only throws")
    return ty, body
