"""C09 helper: type families - generator, from-scratch Python spec (Go's rules), Coq / Go printers."""
import json

QPKG = "verifprog/q"
BASIC = ["bool", "int", "int8", "int16", "int32", "int64", "uint", "uint8", "uint16", "uint32", "uint64", "uintptr",
         "float32", "float64", "complex64", "complex128", "string", "unsafe.Pointer"]
B_INT, B_STRING, B_BOOL, B_F64 = 1, 16, 0, 13


def basic(i): return dict(k="basic", i=i)
def named(d): return dict(k="named", d=d)
def ptr(e): return dict(k="ptr", e=e)
def slice_(e): return dict(k="slice", e=e)
def array(n, e): return dict(k="array", n=n, e=e)
def map_(key, e): return dict(k="map", key=key, e=e)
def chan(e, send=False, recv=False): return dict(k="chan", send=send, recv=recv, e=e)
def func(ps, rs, v=False): return dict(k="func", ps=ps, rs=rs, v=v)
def field(name, t, emb=False, tag=""): return dict(name=name, emb=emb, exp=name[:1].isupper(), tag=tag, t=t)


def struct(fs, pkg="main"):
    return dict(k="struct", pkg=(pkg if any(not f["exp"] for f in fs) else ""), fs=fs)


def mid(m):
    """go/types Id(): exported -> name, unexported -> path.name ; interfaces list methods sorted by it"""
    return m["name"] if m["pkg"] == "" else m["pkg"] + "." + m["name"]


def iface(ms):
    return dict(k="iface", ms=sorted(ms, key=mid))


def imeth(name, sig, pkg="main"):
    return dict(name=name, pkg=("" if name[:1].isupper() else pkg), sig=sig)


SIGS = [func([], []), func([], [basic(B_INT)]), func([basic(B_INT)], [basic(B_STRING)]),
        func([slice_(basic(B_INT))], [], True), func([slice_(basic(B_INT))], [])]       # ... , M(...int), M([]int)
MNAMES = ["M", "N", "m", "n"]


# ------------------------------------------------------------------ from-scratch spec (Go's rules)

def ident(a, b):
    if a["k"] != b["k"]:
        return False
    k = a["k"]
    if k == "basic": return a["i"] == b["i"]
    if k == "named": return a["d"] == b["d"]
    if k in ("ptr", "slice"): return ident(a["e"], b["e"])
    if k == "array": return a["n"] == b["n"] and ident(a["e"], b["e"])
    if k == "map": return ident(a["key"], b["key"]) and ident(a["e"], b["e"])
    if k == "chan": return a["send"] == b["send"] and a["recv"] == b["recv"] and ident(a["e"], b["e"])
    if k == "func":
        return (a["v"] == b["v"] and len(a["ps"]) == len(b["ps"]) and len(a["rs"]) == len(b["rs"]) and
                all(ident(x, y) for x, y in zip(a["ps"] + a["rs"], b["ps"] + b["rs"])))
    if k == "struct":
        if len(a["fs"]) != len(b["fs"]): return False
        for f, g in zip(a["fs"], b["fs"]):
            if f["name"] != g["name"] or f["emb"] != g["emb"] or f["tag"] != g["tag"] or not ident(f["t"], g["t"]):
                return False
            if not f["exp"] and a["pkg"] != b["pkg"]:
                return False
        return True
    if k == "iface":
        if len(a["ms"]) != len(b["ms"]): return False
        return all(m["name"] == n["name"] and m["pkg"] == n["pkg"] and ident(m["sig"], n["sig"]) for m, n in zip(a["ms"], b["ms"]))
    raise ValueError(k)


def under(fam, t):
    return fam["decls"][t["d"]]["under"] if t["k"] == "named" else t


def is_iface(fam, t):
    return under(fam, t)["k"] == "iface"


def mset(fam, t):
    """Go method set of t: {(name,pkg): (sig, owner decl or -1)}; selector rules: shallowest depth, unique, fields hide"""
    if t["k"] == "ptr":
        if is_iface(fam, t["e"]): return {}
        cur = [(t["e"], True)]
    else:
        cur = [(t, False)]
    base = {}
    for _ in range(len(fam["decls"]) + 2):
        if not cur: break
        nxt, cands = [], []
        for (et, ind) in cur:
            if et["k"] == "named":
                d = fam["decls"][et["d"]]
                for m in d["meths"]:
                    cands.append(((m["name"], m["pkg"]), None if (m["ptr"] and not ind) else (m["sig"], et["d"])))
            u = under(fam, et)
            if u["k"] == "struct":
                for f in u["fs"]:
                    cands.append(((f["name"], "" if f["exp"] else u["pkg"]), None))
                    if f["emb"]:
                        if f["t"]["k"] == "ptr": nxt.append((f["t"]["e"], True))
                        else: nxt.append((f["t"], ind))
            elif u["k"] == "iface":
                for m in u["ms"]:
                    cands.append(((m["name"], m["pkg"]), (m["sig"], et["d"] if et["k"] == "named" else -1)))
        for key, what in cands:
            if key in base: continue
            n = sum(1 for k2, _ in cands if k2 == key)
            base[key] = what if n == 1 else None
        cur = nxt
    return {k: v for k, v in base.items() if v is not None}


def implements(fam, t, it):
    ms = mset(fam, t)
    for m in under(fam, it)["ms"]:
        got = ms.get((m["name"], m["pkg"]))
        if got is None or not ident(got[0], m["sig"]):
            return False, m["name"]
    return True, ""


def missing_names(fam, t, it):
    """names of ALL methods of interface it that t's method set lacks (Go's rules)"""
    ms = mset(fam, t)
    out = []
    for m in under(fam, it)["ms"]:
        got = ms.get((m["name"], m["pkg"]))
        if got is None or not ident(got[0], m["sig"]):
            out.append(m["name"])
    return out


def norm_missing(fam, answers, spec):
    """Which of several missing methods a failed assertion NAMES is an implementation detail (Go's run-time walks its own
    sorted method tables, gopherjs the interface's method list).  When more than one method is missing, an answer naming
    any of them is rewritten to the canonical one (the spec's), so that all later comparisons can stay exact; with exactly
    one missing method nothing is rewritten."""
    out = []
    for a, sp in zip(answers, spec):
        if a[0] == "assert" and sp[0] == "assert" and not a[1] and not sp[1] and len(sp) > 3 and len(sp[3]) > 1 and a[2] in sp[3]:
            a = ["assert", False, sp[2]]
        out.append(a)
    return out


def spec_assert(fam, t, target):
    if is_iface(fam, target):
        return implements(fam, t, target)
    return ident(t, target), ""


def comparable(fam, t, fuel=40):
    if fuel == 0: return True
    u = under(fam, t)
    if u["k"] in ("slice", "map", "func"): return False
    if u["k"] == "array": return comparable(fam, u["e"], fuel - 1)
    if u["k"] == "struct": return all(comparable(fam, f["t"], fuel - 1) for f in u["fs"])
    return True


def spec_equal(fam, a, b, t):
    """== on values of static type t; returns True/False/'panic'"""
    if is_iface(fam, t):
        if a is None or b is None: return a is None and b is None
        ta, tb = fam["univ"][a["i"]], fam["univ"][b["i"]]
        if not ident(ta, tb): return False
        if not comparable(fam, ta): return "panic"
        return spec_equal(fam, a["v"], b["v"], ta)
    u = under(fam, t)
    if "t" in a:
        tys = [u["e"]] * len(a["t"]) if u["k"] == "array" else [f["t"] for f in u["fs"]]
        skip = [False] * len(a["t"]) if u["k"] == "array" else [f["name"] == "_" for f in u["fs"]]
        for x, y, ty, sk in zip(a["t"], b["t"], tys, skip):
            if sk: continue                       # blank fields take no part in comparison
            r = spec_equal(fam, x, y, ty)
            if r is not True: return r
        return True
    return a["a"] == b["a"]


def zero_val(fam, t, s=0, fuel=6):
    """projected value of type t: ints = s, everything pointer-like = nil(0)"""
    u = under(fam, t)
    k = u["k"]
    if k == "struct": return dict(t=[zero_val(fam, f["t"], s, fuel - 1) for f in u["fs"]])
    if k == "array": return dict(t=[zero_val(fam, u["e"], s, fuel - 1) for _ in range(u["n"])])
    if k == "iface": return None
    if k == "basic" and u["i"] not in (5, 10, 14, 15, 17): return dict(a=s)
    return dict(a=0)


# ------------------------------------------------------------------ Coq printer

STRTAB = {}


def cstr(s):
    """strings are interned per case file (Coq type-checks long string literals slowly)"""
    if s not in STRTAB:
        STRTAB[s] = "s%d_" % len(STRTAB)
    return STRTAB[s]


def coq_strtab():
    return "".join('Definition %s := "%s"%%string.\n' % (v, k.replace('"', '""')) for k, v in sorted(STRTAB.items(), key=lambda kv: int(kv[1][1:-1])))


def cbool(b): return "true" if b else "false"


def coq_ty(t):
    k = t["k"]
    if k == "basic": return "T (LBasic %d) []" % t["i"]
    if k == "named": return "T (LNamed %d) []" % t["d"]
    if k == "ptr": return "T LPtr [%s]" % coq_ty(t["e"])
    if k == "slice": return "T LSlice [%s]" % coq_ty(t["e"])
    if k == "array": return "T (LArray %d) [%s]" % (t["n"], coq_ty(t["e"]))
    if k == "map": return "T LMap [%s; %s]" % (coq_ty(t["key"]), coq_ty(t["e"]))
    if k == "chan": return "T (LChan %s %s) [%s]" % (cbool(t["send"]), cbool(t["recv"]), coq_ty(t["e"]))
    if k == "func": return "T (LFunc %d %s) [%s]" % (len(t["ps"]), cbool(t["v"]), "; ".join(coq_ty(x) for x in t["ps"] + t["rs"]))
    if k == "struct":
        hs = "; ".join("Build_fhdr %s %s %s %s" % (cstr(f["name"]), cbool(f["emb"]), cbool(f["exp"]), cstr(f["tag"])) for f in t["fs"])
        return "T (LStruct %s [%s]) [%s]" % (cstr(t["pkg"]), hs, "; ".join(coq_ty(f["t"]) for f in t["fs"]))
    if k == "iface":
        hs = "; ".join("Build_mhdr %s %s" % (cstr(m["name"]), cstr(m["pkg"])) for m in t["ms"])
        return "T (LIface [%s]) [%s]" % (hs, "; ".join(coq_ty(m["sig"]) for m in t["ms"]))
    raise ValueError(k)


def coq_val(v):
    if v is None: return "VNil"
    if "i" in v: return "(VIface %d %s)" % (v["i"], coq_val(v["v"]))
    if "t" in v: return "(VTup [%s])" % "; ".join(coq_val(x) for x in v["t"])
    return "(VAtom %d)" % v["a"]


def coq_decl(d):
    ms = "; ".join("Build_meth %s %s (%s) %s" % (cstr(m["name"]), cstr(m["pkg"]), coq_ty(m["sig"]), cbool(m["ptr"])) for m in d["meths"])
    return "Build_decl %s %s (%s) [%s]" % (cstr(d["str"]), cstr(d["pkg"]), coq_ty(d["under"]), ms)


def coq_probe(p):
    if p[0] == "ident": return "PIdent %d %d" % (p[1], p[2])
    if p[0] == "assert": return "PAssert %d %d" % (p[1], p[2])
    if p[0] == "mset": return "PMset %d" % p[1]
    if p[0] == "eq": return "PEq %s %s" % (coq_val(p[1]), coq_val(p[2]))
    raise ValueError(p[0])


def coq_family(fam):
    return "{| f_decls := [%s];\n  f_univ := [%s];\n  f_probes := [%s] |}" % (
        ";\n    ".join(coq_decl(d) for d in fam["decls"]),
        ";\n    ".join(coq_ty(t) for t in fam["univ"]),
        "; ".join(coq_probe(p) for p in fam["probes"]))


def coq_ans(a):
    """a: answer in driver format"""
    if a is None or a[0] == "skip": return "ASkip"
    if a[0] == "ident": return "AIdent %s" % cbool(a[1])
    if a[0] == "assert": return "AAssert %s %s" % (cbool(a[1]), cstr(a[2]))
    if a[0] == "mset":
        return "AMset [%s]" % "; ".join("(%s, %s, %s)" % (cstr(n), cstr(p), "None" if o < 0 else "Some %d" % o) for n, p, o in a[1])
    if a[0] == "eq": return "AEq %s" % ("None" if a[1] == "panic" else "(Some %s)" % cbool(a[1]))
    raise ValueError(a[0])


def spec_answers(fam):
    out = []
    U = fam["univ"]
    for p in fam["probes"]:
        if p[0] == "ident": out.append(["ident", ident(U[p[1]], U[p[2]])])
        elif p[0] == "assert":
            ok, m = spec_assert(fam, U[p[1]], U[p[2]])
            out.append(["assert", ok, m, missing_names(fam, U[p[1]], U[p[2]]) if is_iface(fam, U[p[2]]) else []])
        elif p[0] == "mset":
            out.append(["mset", sorted([k[0], k[1], v[1]] for k, v in mset(fam, U[p[1]]).items())])
        elif p[0] == "eq":
            out.append(["eq", spec_equal(fam, p[1], p[2], iface([]))])
    return out


def ans_eq_loose(a, b, sp):
    """like ans_eq, but a failed assertion may name ANY of the missing methods when Go's rules say several are missing
    (sp = the spec answer of the probe, carrying the list of missing names)"""
    if a[0] == "assert" and b[0] == "assert" and not a[1] and not b[1] and sp[0] == "assert" and len(sp) > 3 and len(sp[3]) > 1:
        return a[2] in sp[3] and b[2] in sp[3]
    return ans_eq(a, b)


def ans_eq(a, b):
    if a[0] != b[0]: return False
    if a[0] == "assert": return a[1] == b[1] and (a[1] or a[2] == b[2])
    if a[0] == "mset": return sorted(map(list, a[1])) == sorted(map(list, b[1]))
    return a[1] == b[1]


# ------------------------------------------------------------------ generator

def gen_family(r, compiled=False):
    """random family. compiled=True restricts to what can be printed as a Go program (same generator otherwise)."""
    decls = []
    nq = r.choice([0, 0, 1, 2])
    nmain = r.randint(2, 6 - nq)
    niface = r.randint(1, 2)
    nloc = r.choice([0, 0, 1, 2, 2])

    def gen_meths(pkg, forbid, kindint=False):
        ms = []
        for nm in r.sample(MNAMES, r.choice([0, 1, 1, 2, 3])):
            if nm in forbid: continue
            ms.append(dict(name=nm, pkg=("" if nm[:1].isupper() else pkg), sig=r.choice(SIGS if r.random() < 0.35 else SIGS[:1]), ptr=r.random() < 0.4))
        return ms

    def struct_decl(name, pkg, pkgname, cands, local=False):
        """cands: indices of declarations that may be embedded"""
        fs, used = [], set()
        for c in r.sample(cands, min(len(cands), r.choice([0, 1, 1, 2, 2, 3]))):
            fname, isif = plan[c]
            if fname in used: continue
            byptr = (not isif) and (r.random() < 0.35 or c >= len(decls))
            if c >= len(decls) and isif: continue
            used.add(fname)
            fs.append(field(fname, ptr(named(c)) if byptr else named(c), emb=True))
        for fname in r.sample(["x", "F", "M", "m", "N", "_"], r.choice([0, 0, 1, 1, 2])):
            if fname in used: continue
            used.add(fname)
            fs.append(field(fname, r.choice([basic(B_INT), basic(B_STRING), slice_(basic(B_INT)), func([], [])]) if r.random() < 0.3 else basic(B_INT),
                            tag=r.choice(["", "", "", "k", "a$b"])))
        r.shuffle(fs)
        fs.append(field("c", basic(B_INT)))      # counter used by the method bodies of compiled families
        return dict(str=pkgname + "." + name, pkg=pkg, name=name, exported=name[:1].isupper(), local=local,
                    under=struct(fs, pkg), meths=[] if local else gen_meths(pkg, used))

    # package q first (it cannot import main)
    order = ["s"] * nmain + ["i"] * niface
    r.shuffle(order)
    nqi = 1 if (nq and r.random() < 0.75) else 0      # an interface of package q with an unexported ("sealed") method
    plan = [("Q%d" % i, False) for i in range(nq)] + [("QI%d" % (nq + i), True) for i in range(nqi)] + \
           [(("I%d" if kd == "i" else "T%d") % (nq + nqi + k), kd == "i") for k, kd in enumerate(order)]
    for i in range(nq):
        decls.append(struct_decl("Q%d" % i, QPKG, "q", list(range(len(decls)))))
    for i in range(nqi):
        qms = [imeth("m", SIGS[0], QPKG)] + ([imeth("N", r.choice(SIGS[:2]), QPKG)] if r.random() < 0.4 else [])
        decls.append(dict(str="q.QI%d" % len(decls), pkg=QPKG, name="QI%d" % len(decls), exported=True, local=False, under=iface(qms), meths=[]))
    planned = len(decls) + len(order)
    for kd in order:
        i = len(decls)
        if kd == "i":
            own = [imeth(nm, r.choice(SIGS if r.random() < 0.35 else SIGS[:1])) for nm in r.sample(MNAMES, r.choice([1, 1, 2, 2, 3]))]
            # an embedded interface (maybe of the other package): go/types flattens it, the source spells it as an embedding
            prev = [k for k, d in enumerate(decls) if d["under"]["k"] == "iface"]
            qprev = [k for k in prev if decls[k]["pkg"] == QPKG]
            embeds = []
            if prev and r.random() < 0.55:
                embeds = [r.choice(qprev) if (qprev and r.random() < 0.7) else r.choice(prev)]
            inherited = [dict(m) for k in embeds for m in decls[k]["under"]["ms"]]
            own = [m for m in own if all(m["name"] != x["name"] or m["pkg"] != x["pkg"] for x in inherited)]
            if not own and not inherited:
                own = [imeth("M", SIGS[0])]
            decls.append(dict(str="main.I%d" % i, pkg="main", name="I%d" % i, exported=True, local=False, under=iface(own + inherited), meths=[],
                              embeds=embeds, own=own))
        elif r.random() < 0.15:
            decls.append(dict(str="main.T%d" % i, pkg="main", name="T%d" % i, exported=True, local=False, under=basic(B_INT),
                              meths=gen_meths("main", set())))
        else:
            # may embed anything declared earlier by value; later main declarations only through a pointer
            cands = list(range(len(decls))) + [j for j in range(i + 1, planned) if r.random() < 0.3]
            decls.append(struct_decl("T%d" % i, "main", "main", [c for c in cands if c != i]))
        nonloc = len(decls)
    for i in range(nloc):
        d = struct_decl("L", "main", "main", list(range(nonloc)), local=True)
        d["fn"] = "loc%d" % i
        decls.append(d)

    fam = dict(decls=decls, univ=[], probes=[])
    U = fam["univ"]
    for i, d in enumerate(decls):
        U.append(named(i))
        if d["under"]["k"] != "iface":
            U.append(ptr(named(i)))
    conc = [i for i, d in enumerate(decls) if d["under"]["k"] != "iface" and not d.get("local")]
    for _ in range(r.randint(3, 8)):
        c = r.choice(conc)
        t = named(c)
        nm = decls[c]["name"]
        U.append(r.choice([
            lambda: struct([field(nm, t, emb=True)]),
            lambda: struct([field(nm, t, emb=False)]),
            lambda: struct([field(nm, ptr(t), emb=True)]),
            lambda: struct([field(nm, t, emb=True), field("x", basic(B_INT))]),
            lambda: struct([field(nm, t, emb=True), field("M", basic(B_INT))]),
            lambda: slice_(t), lambda: array(2, t), lambda: array(3, t), lambda: map_(basic(B_INT), t), lambda: chan(t),
            lambda: chan(t, send=True), lambda: func([t], [basic(B_INT)]), lambda: ptr(ptr(t)), lambda: func([basic(B_INT), slice_(t)], [], True),
        ])())
    # sibling composites: the same constructor over two different (maybe equally printed / same-kind) element types,
    # and all three directions of one channel type
    for _ in range(2):
        ta, tb = named(r.choice(conc)), r.choice([named(r.choice(conc)), basic(B_INT), ptr(named(r.choice(conc)))])
        mkc = r.choice([lambda t: map_(basic(B_INT), t), lambda t: map_(t, basic(B_STRING)) if comparable(fam, t) else map_(basic(B_STRING), t), lambda t: array(2, t), lambda t: slice_(t),
                        lambda t: func([t], []), lambda t: func([], [t]), lambda t: chan(t), lambda t: chan(t, recv=True), lambda t: ptr(ptr(t))])
        U.append(mkc(ta)); U.append(mkc(tb))
    if r.random() < 0.5:
        tc = named(r.choice(conc))
        U.append(chan(tc)); U.append(chan(tc, send=True)); U.append(chan(tc, recv=True))
    if len(conc) >= 2 and r.random() < 0.5:
        a, b = r.sample(conc, 2)
        U.append(struct([field(decls[a]["name"], named(a), emb=True), field(decls[b]["name"], named(b), emb=True)]))
    # anonymous structs with unexported names from the two packages, tags, the tag-key collision pair
    if r.random() < 0.6:
        U.append(struct([field("a", basic(B_INT))], "main"))
        U.append(struct([field("a", basic(B_INT))], QPKG))
    if r.random() < 0.4:
        U.append(struct([field("A", basic(B_INT), tag="t"), field("B", basic(B_INT))]))
        U.append(struct([field("A", basic(B_INT), tag=r.choice(["t$B,1,", "t,0$B,1,"]))]))
    if r.random() < 0.4:
        U.append(struct([field("A", basic(B_INT), tag=r.choice(["t", "", "x\"y", "a\\b"]))]))
        U.append(struct([field("A", basic(B_INT))]))
    if r.random() < 0.6:
        el = r.choice([basic(B_INT), named(r.choice(conc))])
        pre = r.choice([[], [basic(B_STRING)]])
        res = r.choice([[], [basic(B_INT)]])
        U.append(func(pre + [slice_(el)], res, True)); U.append(func(pre + [slice_(el)], res, False))
    if r.random() < 0.3:
        U.append(struct([field("a", basic(B_INT)), field("_", basic(B_INT))], "main"))
        U.append(struct([field("a", basic(B_INT)), field("_", basic(B_STRING))], "main"))
    for k, d in enumerate(decls):
        if d["pkg"] == QPKG and d["under"]["k"] == "iface" and r.random() < 0.6:
            t = iface([dict(m) for m in d["under"]["ms"]])
            t["src_main"] = "interface { q.%s }" % d["name"]          # how package main spells it
            U.append(t)
    for i, d in enumerate(decls):
        if d.get("local"):
            U.append(struct([field("L", named(i), emb=True)]))
    U.append(basic(B_INT)); U.append(basic(B_STRING))
    # literal interface types
    U.append(iface([]))
    for _ in range(r.randint(1, 2)):
        U.append(iface([imeth(nm, r.choice(SIGS if r.random() < 0.25 else SIGS[:1])) for nm in r.sample(MNAMES, r.choice([1, 1, 2]))]))
    if nq and r.random() < 0.6:
        U.append(iface([imeth("m", SIGS[0], QPKG)]))
    # duplicates of some composite types (must canonicalise to the same object)
    for t in r.sample(U, min(3, len(U))):
        if t["k"] not in ("named", "basic"):
            U.append(json.loads(json.dumps(t)))

    dyn = [i for i, t in enumerate(U) if not is_iface(fam, t)]
    targets = [i for i, t in enumerate(U) if is_iface(fam, t)]
    probes = []
    for i in dyn:
        for j in targets:
            probes.append(["assert", i, j])
    for _ in range(10):
        probes.append(["assert", r.choice(dyn), r.choice(dyn)])
    comp = [i for i, t in enumerate(U) if t["k"] not in ("named", "basic")]
    pairs = [(i, j) for i in comp for j in comp if i < j]
    r.shuffle(pairs)
    near = [(i, j) for (i, j) in pairs if U[i]["k"] == U[j]["k"] and U[i]["k"] != "struct"]
    snear = [(i, j) for (i, j) in pairs if U[i]["k"] == U[j]["k"] == "struct"]
    for (i, j) in (near[:45] + snear[:30] + pairs[:15]):
        probes.append(["ident", i, j])
    for i in dyn:
        if U[i]["k"] in ("named", "ptr", "struct"):
            probes.append(["mset", i])
    for _ in range(12):
        i = r.choice(dyn)
        j = r.choice([k for k in dyn if U[k]["k"] == U[i]["k"]] + [i, i])
        probes.append(["eq", dict(i=i, v=zero_val(fam, U[i], r.choice([0, 0, 1]))), dict(i=j, v=zero_val(fam, U[j], r.choice([0, 0, 1])))])
    # different dynamic types, the left (or right) one uncomparable: false, not a panic
    unc = [i for i in dyn if not comparable(fam, U[i])]
    for i in r.sample(unc, min(3, len(unc))):
        j = r.choice([k for k in dyn if not ident(U[k], U[i])])
        probes.append(["eq", dict(i=i, v=zero_val(fam, U[i])), dict(i=j, v=zero_val(fam, U[j]))])
        probes.append(["eq", dict(i=j, v=zero_val(fam, U[j])), dict(i=i, v=zero_val(fam, U[i]))])
    probes.append(["eq", None, None])
    probes.append(["eq", None, dict(i=dyn[0], v=zero_val(fam, U[dyn[0]]))])
    r.shuffle(probes)
    fam["probes"] = probes
    return fam
