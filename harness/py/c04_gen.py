"""C04 — generator of generic multi-package Go programs from MODEL programs (coq/Model/C04_Inst.v).

A model program is built first (objects, templates, seed); the Go sources are printed from it, so
that the template of every object is, by construction, the list of identifiers the real
typeparams.Collector meets when it walks the object's declaration (in ast.Walk order).

Type expressions (Python tuples):
  ('base', n) ('con', c, [args]) ('named', objid, [args]) ('own', i) ('nest', i) ('free', i)
"""
MOD = "verifc04"

BASE = {0: "int", 1: "string", 2: "int8", 3: "uint8", 4: "int16", 5: "uint16", 6: "int32", 7: "float64", 8: "bool"}
NUM_BASE = [2, 3, 4, 5, 6]
CMP_BASE = [0, 1, 7, 8]
NAMED_UNDER = ["int8", "uint8", "int16", "uint16", "int32"]
# constructors: id -> (arity, go format, canonical format)
CON = {0: (1, "[]%s", "[]%s"), 1: (1, "*%s", "*%s"), 2: (1, "map[int]%s", "map[int]%s"), 3: (1, "chan %s", "chan %s"),
       4: (1, "[2]%s", "[2]%s"), 5: (2, "func(%s) %s", "func(%s)%s"), 6: (1, "struct{ F %s }", "struct{F %s}"),
       7: (2, "map[%s]%s", "map[%s]%s")}


class Obj:
    def __init__(self, oid, pkg, name, kind, cons, nest=None, recv=None):
        self.id, self.pkg, self.name, self.kind = oid, pkg, name, kind   # kind: func | type | method | ltype
        self.cons = cons            # constraint per own type parameter: any | cmp | num | sl
        self.nest, self.recv = nest, recv
        self.methods = []           # for type
        self.items = []             # body items for func / method
        self.fields = []            # field type expressions for type / ltype
        self.lazy = False
        self.ptr_recv = False
        self.chan_probe = False
        self.under = "struct"       # underlying kind of a generic named type: struct | map | array | slice | basic | func | chan
        self.probe_ids = None       # per own parameter: indices into PROBES[constraint]; None = the first one only

    @property
    def arity(self):
        return len(self.cons)


class Prog:
    def __init__(self, npkg):
        self.npkg = npkg            # generic packages p0..p{n-1}; package index npkg = main; index npkg+1 = tr (no generics)
        self.objs = []
        self.named_base = {}        # base id -> (pkg, name, underlying)
        self.seed_items = {}        # pkg -> items of the package's non-generic function (main: func main)
        self.tag_cases = []         # closed types listed in main's tag switch
        self.imports = {}           # pkg -> set of imported pkg indices

    def pkg_name(self, k):
        return "main" if k == self.npkg else "p%d" % k

    def pkg_path(self, k):
        return MOD if k == self.npkg else MOD + "/p%d" % k


# ------------------------------------------------------------------ type helpers

def has_params(e):
    if e[0] in ("own", "nest", "free"):
        return True
    if e[0] == "base":
        return False
    return any(has_params(a) for a in e[2])


def subst(e, own, nest):
    k = e[0]
    if k == "base" or k == "free":
        return e
    if k == "own":
        return own[e[1]] if e[1] < len(own) else e
    if k == "nest":
        return nest[e[1]] if e[1] < len(nest) else e
    return (k, e[1], [subst(a, own, nest) for a in e[2]])


def embed(e):
    """a local type's field expression as seen from the nesting function: own -> free, nest -> own"""
    k = e[0]
    if k == "own":
        return ("free", e[1])
    if k == "nest":
        return ("own", e[1])
    if k in ("base", "free"):
        return e
    return (k, e[1], [embed(a) for a in e[2]])


def canon(P, e):
    k = e[0]
    if k == "base":
        if e[1] in BASE:
            return BASE[e[1]]
        pk, nm, _ = P.named_base[e[1]]
        return P.pkg_path(pk) + "." + nm
    if k == "con":
        return CON[e[1]][2] % tuple(canon(P, a) for a in e[2])
    if k == "named":
        o = P.objs[e[1]]
        s = P.pkg_path(o.pkg) + "." + o.name
        if e[2]:
            s += "[" + ",".join(canon(P, a) for a in e[2]) + "]"
        return s
    return "$%s%d" % (k, e[1])


def gosyn(P, e, pkg, own="T", nest="T"):
    """Go syntax of a type expression inside package `pkg`; own/nest = prefix of the parameter names"""
    k = e[0]
    if k == "base":
        if e[1] in BASE:
            return BASE[e[1]]
        pk, nm, _ = P.named_base[e[1]]
        return nm if pk == pkg else "%s.%s" % (P.pkg_name(pk), nm)
    if k == "con":
        return CON[e[1]][1] % tuple(gosyn(P, a, pkg, own, nest) for a in e[2])
    if k == "named":
        o = P.objs[e[1]]
        s = o.name if o.pkg == pkg else "%s.%s" % (P.pkg_name(o.pkg), o.name)
        if e[2]:
            s += "[" + ", ".join(gosyn(P, a, pkg, own, nest) for a in e[2]) + "]"
        return s
    if k == "own":
        return "%s%d" % (own, e[1])
    if k == "nest":
        return "%s%d" % (nest, e[1])
    raise ValueError(e)


def pkgs_in(P, e, acc):
    k = e[0]
    if k == "base":
        if e[1] in P.named_base:
            acc.add(P.named_base[e[1]][0])
    elif k in ("con", "named"):
        if k == "named":
            acc.add(P.objs[e[1]].pkg)
        for a in e[2]:
            pkgs_in(P, a, acc)


def refs_in_ty(P, e):
    """identifiers with an Info.Instances entry inside a type expression, in ast.Walk order"""
    k = e[0]
    if k == "con":
        out = []
        for a in e[2]:
            out += refs_in_ty(P, a)
        return out
    if k == "named":
        o = P.objs[e[1]]
        out = []
        if o.arity > 0:
            out.append(("inst", e[1], e[2], o.kind == "ltype"))
        for a in e[2]:
            out += refs_in_ty(P, a)
        return out
    return []


# ------------------------------------------------------------------ templates

def ltype_field_types(P, t, es):
    """field types of local type t as written at a use site inside its nesting function (own -> es, nest -> the function's parameters)"""
    nfn = P.objs[t.nest]
    ident = [("own", i) for i in range(nfn.arity)]
    return [subst(f, es, ident) for f in t.fields]


def use_exprs(P, it):
    """the type expressions a `use` item writes, in source order (body_lines prints exactly these)"""
    t = P.objs[it["t"]]
    ty = ("named", t.id, it["es"])
    if t.kind == "ltype":
        lit = [ty] + ltype_field_types(P, t, it["es"])      # T{F0: *new(FT0), ...}
        return [ty] + lit + lit                              # var v T; keyed literal; positional literal
    out = [ty]
    for mid in t.methods:
        out += [ty] if P.objs[mid].ptr_recv else [ty, ty]    # (*T).M1(&v)  /  T.M0(v); (*T).M0(pv)
    return out


def items_template(P, items):
    out = []
    for it in items:
        k = it["k"]
        if k == "call":
            out.append(("inst", it["t"], it["es"], False))
            for e in it["es"]:
                out += refs_in_ty(P, e)
        elif k == "use":
            for e in use_exprs(P, it):
                out += refs_in_ty(P, e)
        elif k == "ldef":
            o = P.objs[it["t"]]
            if o.arity == 0:
                out.append(("def", it["t"]))
            for f in o.fields:
                out += refs_in_ty(P, embed(f))
        elif k == "raw":            # witness programs: explicit template entries
            out += it["tmpl"]
    return out


def template(P, o):
    if o.kind in ("func", "method"):
        return items_template(P, o.items)
    if o.kind == "type" or (o.kind == "ltype" and o.arity > 0):
        out = []
        for f in o.fields:
            out += refs_in_ty(P, f)
        return out
    return []          # non-generic local type: no objMap entry


def seed_template(P):
    """Scan order: p0, p1, ..., main (tr has no generics)"""
    out = []
    for k in range(P.npkg + 1):
        out += items_template(P, P.seed_items.get(k, []))
    for e in P.tag_cases:
        out += refs_in_ty(P, e)
    return out


# ------------------------------------------------------------------ reference semantics (from scratch)

def is_generic_ideal(e):
    return has_params(e)


def produced(P, ctx, it, lazy_rule):
    """ctx: None or (obj, targs, tnest) ; returns instance tuple or None"""
    if it[0] == "inst":
        _, t, es, nested = it
        own = ctx[1] if ctx else []
        nst = ctx[2] if ctx else []
        targs = [subst(e, own, nst) for e in es]
        ign, na = None, []
        if nested and ctx:
            co = P.objs[ctx[0]]
            if co.kind in ("func", "method"):
                ign, na = co.id, ctx[1]
            else:
                ign, na = co.nest, ctx[2]
        if any(gen_check(P, a, ign, lazy_rule) for a in targs):
            return None
        return (t, tuple(map(freeze, targs)), tuple(map(freeze, na)))
    else:
        if not ctx or not ctx[1]:
            return None
        return (it[1], (), tuple(map(freeze, ctx[1])))


def gen_check(P, e, ign, lazy_rule):
    k = e[0]
    if k in ("own", "nest", "free"):
        return True
    if k == "base":
        return False
    if any(gen_check(P, a, ign, lazy_rule) for a in e[2]):
        return True
    if k == "named" and lazy_rule:
        o = P.objs[e[1]]
        return o.lazy and ign != o.nest
    return False


def freeze(e):
    if e[0] in ("con", "named"):
        return (e[0], e[1], tuple(freeze(a) for a in e[2]))
    return tuple(e)


def thaw(e):
    if e[0] in ("con", "named"):
        return (e[0], e[1], [thaw(a) for a in e[2]])
    return tuple(e)


def with_methods(P, inst):
    o = P.objs[inst[0]]
    return [inst] + [(m, inst[1], inst[2]) for m in o.methods]


def lfp(P, lazy_rule=False, limit=4000):
    """least set containing the seed and closed under template substitution (naive iteration, order-free)"""
    seen = set()
    todo = []

    def add(i):
        for j in with_methods(P, i):
            if j not in seen:
                seen.add(j)
                todo.append(j)

    for it in seed_template(P):
        i = produced(P, None, it, lazy_rule)
        if i:
            add(i)
    while todo:
        if len(seen) > limit:
            return None
        i = todo.pop()
        ctx = (i[0], [thaw(a) for a in i[1]], [thaw(a) for a in i[2]])
        for it in template(P, P.objs[i[0]]):
            j = produced(P, ctx, it, lazy_rule)
            if j:
                add(j)
    return seen


def obj_canon(P, o):
    if o.kind == "method":
        return "%s.%s.%s" % (P.pkg_path(o.pkg), P.objs[o.recv].name, o.name)
    return "%s.%s" % (P.pkg_path(o.pkg), o.name)


def inst_canon(P, i):
    return "%s<%s;%s>" % (obj_canon(P, P.objs[i[0]]), ",".join(canon(P, thaw(a)) for a in i[2]), ",".join(canon(P, thaw(a)) for a in i[1]))


# ------------------------------------------------------------------ random model programs

class Gen:
    def __init__(self, r, big=False):
        self.r = r
        self.big = big

    def program(self):
        r = self.r
        npkg = r.choice([1, 2, 2, 3, 3])
        P = Prog(npkg)
        self.P = P
        nb = 10
        for k in range(npkg):
            for j in range(r.randint(1, 2)):
                P.named_base[nb] = (k, "N%d" % nb, r.choice(NAMED_UNDER))
                nb += 1
        nobj = r.randint(3, 9 if not self.big else 14)
        # ranks = creation order; a package index is non-decreasing?  no: any package, but imports must stay acyclic,
        # so an object may only refer to objects of packages with index <= its own.
        for n in range(nobj):
            pkg = r.randrange(npkg)
            kind = r.choice(["func", "func", "func", "type", "type"])
            cons = self.gen_cons()
            o = Obj(len(P.objs), pkg, ("F%d" if kind == "func" else "B%d") % len(P.objs), kind, cons)
            P.objs.append(o)
            if kind == "type" and cons[0] != "sl" and r.random() < 0.45:
                o.under = r.choice(["map", "map", "array", "slice", "basic", "func", "chan"])
            if kind == "type":
                for mi in range(r.randint(0, 2) if o.under == "struct" else r.randint(1, 2)):
                    m = Obj(len(P.objs), pkg, "M%d" % mi, "method", cons, recv=o.id)
                    m.ptr_recv = (mi == 1)
                    P.objs.append(m)
                    o.methods.append(m.id)
        # bodies, in rank order
        for o in list(P.objs):
            if o.kind == "type":
                self.gen_fields(o)
            elif o.kind in ("func", "method"):
                self.gen_body(o)
        # seeds: one non-generic function per generic package (sometimes) + main
        for k in range(npkg + 1):
            if k == npkg or r.random() < 0.5:
                P.seed_items[k] = self.gen_seed(k)
        return P

    def gen_cons(self):
        r = self.r
        n = r.choice([1, 1, 2])
        if n == 2 and r.random() < 0.2:
            return ["sl", r.choice(["any", "cmp", "num"])]
        if n == 2 and r.random() < 0.25:
            return ["idr", "idr"]          # two parameters sharing the constraint interface (same method object)
        if n == 2 and r.random() < 0.3:
            c = r.choice(["any", "cmp", "num"])
            return [c, c]                  # permutable
        return [r.choice(["any", "any", "cmp", "num", "idr"]) for _ in range(n)]

    # visible objects for code in package pkg: packages with index <= pkg (main sees all)
    def visible(self, pkg, kinds):
        return [o for o in self.P.objs if o.kind in kinds and o.pkg <= pkg]

    def named_nums(self, pkg):
        return [b for b, (pk, _, _) in self.P.named_base.items() if pk <= pkg]

    def gen_ty(self, pkg, params, want, depth, maxrank, allow_named=True):
        """params: list of (expr, constraint) usable here. want: any|cmp|num. Named generic types only with rank < maxrank."""
        r = self.r
        if want == "idr":
            c = [("base", b) for b in self.named_nums(pkg)] + [e for e, k in params if k == "idr"] * 2
            return r.choice(c)
        if want == "num":
            c = [("base", b) for b in NUM_BASE + self.named_nums(pkg)] + [e for e, k in params if k == "num"] * 3
            return r.choice(c)
        if want == "cmp":
            c = [("base", b) for b in NUM_BASE + CMP_BASE + self.named_nums(pkg)] + [e for e, k in params if k in ("num", "cmp")] * 4
            if depth > 0 and r.random() < 0.25:
                return ("con", r.choice([1, 3]), [self.gen_ty(pkg, params, "any", depth - 1, maxrank, allow_named)])
            if depth > 0 and r.random() < 0.1:
                return ("con", 4, [self.gen_ty(pkg, params, "cmp", depth - 1, maxrank, allow_named)])
            return r.choice(c)
        x = r.random()
        if params and x < 0.35:
            return r.choice(params)[0]
        if x < 0.55 or depth == 0:
            return ("base", r.choice(list(BASE) + self.named_nums(pkg)))
        if x < 0.85:
            c = r.choice([0, 0, 1, 2, 3, 4, 5, 6, 7])
            if c == 7:
                return ("con", 7, [self.gen_ty(pkg, params, "cmp", depth - 1, maxrank, allow_named), self.gen_ty(pkg, params, "any", depth - 1, maxrank, allow_named)])
            return ("con", c, [self.gen_ty(pkg, params, "any", depth - 1, maxrank, allow_named) for _ in range(CON[c][0])])
        cands = [o for o in self.visible(pkg, ("type",)) if o.id < maxrank] if allow_named else []
        if not cands:
            return ("base", r.choice(list(BASE)))
        t = r.choice(cands)
        return ("named", t.id, self.gen_args(pkg, t, params, depth - 1, maxrank))

    def gen_args(self, pkg, t, params, depth, maxrank):
        """type arguments for object t satisfying its constraints"""
        if t.cons[0] == "sl":
            e1 = self.gen_ty(pkg, params, t.cons[1], depth, maxrank)
            return [("con", 0, [e1]), e1]
        return [self.gen_ty(pkg, params, c, depth, maxrank) for c in t.cons]

    def closed_args(self, pkg, t):
        return self.gen_args(pkg, t, [], 1, 0)

    def self_args(self, o):
        """self edge: a permutation of the own parameters that respects the constraints, else identity"""
        idx = list(range(o.arity))
        if o.arity == 2 and o.cons[0] == o.cons[1] and o.cons[0] != "sl" and self.r.random() < 0.5:
            idx = [1, 0]
        return [("own", i) for i in idx]

    def own_params(self, o):
        return [(("own", i), c) for i, c in enumerate(o.cons)]

    def ref_args(self, src_rank, pkg, t, params, self_obj=None):
        """arguments for a reference from an object of rank src_rank to t: growth only towards lower ranks"""
        if t.id < src_rank:
            return self.gen_args(pkg, t, params, 2, t.id)          # named types inside the args: rank below the target
        if self_obj is not None and t.id == self_obj.id:
            return self.self_args(t)
        return self.closed_args(pkg, t)

    def gen_fields(self, o):
        r, P = self.r, self.P
        params = self.own_params(o)
        if o.under != "struct":
            o.fields = []                 # the underlying type mentions only T0: no identifiers with instances
            return
        o.fields = [("own", i) for i in range(o.arity)]
        for _ in range(r.randint(0, 2)):
            x = r.random()
            cands = self.visible(o.pkg, ("type",))
            if x < 0.3:
                o.fields.append(("con", 1, [("named", o.id, self.self_args(o))]))       # recursive, finite
            elif x < 0.8 and cands:
                t = r.choice(cands)
                a = self.ref_args(o.id, o.pkg, t, params, o)
                e = ("named", t.id, a)
                # a value field of its own type (or a cycle through value fields) is invalid Go: go through a pointer/slice
                o.fields.append(("con", r.choice([0, 1]), [e]))
            else:
                o.fields.append(self.gen_ty(o.pkg, params, "any", 2, o.id))

    def gen_body(self, o):
        r, P = self.r, self.P
        root = o if o.kind == "func" else P.objs[o.recv]
        rank = root.id
        params = self.own_params(o)
        o.chan_probe = r.random() < 0.2
        o.probe_ids = [sorted(r.sample(range(len(PROBES[c])), min(len(PROBES[c]), r.randint(1, 3)))) for c in o.cons]
        nit = r.randint(0, 4)
        locals_ = []
        for _ in range(nit):
            x = r.random()
            funcs = self.visible(o.pkg, ("func",))
            types_ = self.visible(o.pkg, ("type",))
            if x < 0.42 and funcs:
                t = r.choice(funcs)
                es = self.ref_args(rank, o.pkg, t, params, o if o.kind == "func" else None)
                form = "infer" if r.random() < 0.3 else "explicit"
                o.items.append(dict(k="call", t=t.id, es=es, form=form))
            elif x < 0.68 and types_:
                t = r.choice(types_)
                es = self.ref_args(rank, o.pkg, t, params, root if o.kind == "method" else None)
                o.items.append(dict(k="use", t=t.id, es=es))
            else:
                # a type declared inside the generic function / method
                generic = r.random() < 0.6
                lt = Obj(len(P.objs), o.pkg, "L%d" % len(P.objs), "ltype", [r.choice(["any", "any", "cmp"])] if generic else [], nest=o.id)
                P.objs.append(lt)
                lparams = [(("nest", i), c) for i, c in enumerate(o.cons)] + [(("own", i), c) for i, c in enumerate(lt.cons)]
                bare = [e for e, c in lparams if c in ("cmp", "num")]     # comparable: the local type stays usable as a map key
                for _ in range(r.randint(1, 3)):
                    y = r.random()
                    gl = [l for l in locals_ if l.arity > 0]
                    if bare and r.random() < 0.45:
                        lt.fields.append(r.choice(bare))           # a field whose type is a bare type parameter
                    elif y < 0.4 and gl:
                        l2 = r.choice(gl)
                        lt.fields.append(("named", l2.id, [self.gen_ty(o.pkg, lparams, l2.cons[0], 1, rank, allow_named=False)]))
                    elif y < 0.75:
                        cands = [t for t in self.visible(o.pkg, ("type",)) if t.id < rank]
                        if cands:
                            t = r.choice(cands)
                            lt.fields.append(("con", 1, [("named", t.id, self.gen_args(o.pkg, t, lparams, 2, t.id))]))
                        else:
                            lt.fields.append(("con", 1, [self.gen_ty(o.pkg, lparams, "any", 1, rank, allow_named=False)]))
                    else:
                        lt.fields.append(("con", 1, [self.gen_ty(o.pkg, lparams, "any", 1, rank, allow_named=False)]))
                lt.lazy = any(has_nest(f, P) for f in lt.fields)
                locals_.append(lt)
                o.items.append(dict(k="ldef", t=lt.id))
                # use it (several times for a generic one)
                if lt.arity == 0:
                    o.items.append(dict(k="use", t=lt.id, es=[]))
                else:
                    for _ in range(r.randint(1, 2)):
                        o.items.append(dict(k="use", t=lt.id, es=[self.gen_ty(o.pkg, params, lt.cons[0], 1, rank, allow_named=r.random() < 0.5)]))

    def gen_seed(self, pkg):
        r = self.r
        items = []
        funcs = self.visible(pkg, ("func",))
        types_ = self.visible(pkg, ("type",))
        n = r.randint(1, 4) if pkg == self.P.npkg else r.randint(0, 2)
        for _ in range(n):
            if funcs and (r.random() < 0.65 or not types_):
                t = r.choice(funcs)
                items.append(dict(k="call", t=t.id, es=self.gen_args(pkg, t, [], 2, len(self.P.objs)), form=r.choice(["explicit", "explicit", "infer"])))
            elif types_:
                t = r.choice(types_)
                items.append(dict(k="use", t=t.id, es=self.gen_args(pkg, t, [], 2, len(self.P.objs))))
        if pkg == self.P.npkg:
            for t in funcs:
                if any(it["k"] == "ldef" for it in t.items) and r.random() < 0.8:
                    for _ in range(2):
                        items.append(dict(k="call", t=t.id, es=self.gen_args(pkg, t, [], 1, len(self.P.objs)), form="explicit"))
            # argument lists that are permutations of each other / repeat one type (they collide in InstanceMap's xor hash)
            for t in funcs + types_:
                if t.arity == 2 and t.cons[0] == t.cons[1] and t.cons[0] != "sl" and r.random() < 0.7:
                    a = self.gen_ty(pkg, [], t.cons[0], 1, len(self.P.objs))
                    b = self.gen_ty(pkg, [], t.cons[0], 1, len(self.P.objs))
                    for _ in range(6):
                        if canon(self.P, a) != canon(self.P, b):
                            break
                        b = self.gen_ty(pkg, [], t.cons[0], 1, len(self.P.objs))
                    combos = [[a, b], [b, a]] if r.random() < 0.6 else [[a, a], [b, b]]
                    if r.random() < 0.3:
                        combos = [[a, b], [b, a], [a, a], [b, b]]
                    for es in combos:
                        if t.kind == "func":
                            items.append(dict(k="call", t=t.id, es=es, form="explicit"))
                        else:
                            items.append(dict(k="use", t=t.id, es=es))
        return items


def has_nest(e, P):
    k = e[0]
    if k == "nest":
        return True
    if k in ("con", "named"):
        if k == "named" and P.objs[e[1]].kind == "ltype" and P.objs[e[1]].lazy:
            return True
        return any(has_nest(a, P) for a in e[2])
    return False


# ------------------------------------------------------------------ Go source

TR_SRC = """package tr

type Rec struct {
	Kind string
	Name string
	Vals []any
	N    int
}

var Log []Rec
var seen = map[[3]any]bool{}

func Enter(name string, a ...any) bool {
	var k [3]any
	k[0] = name
	for i, v := range a {
		k[i+1] = v
	}
	if seen[k] {
		return false
	}
	seen[k] = true
	Log = append(Log, Rec{"E", name, a, 0})
	return true
}

func V(v any)                 { Log = append(Log, Rec{"V", "", []any{v}, 0}) }
func I(n int)                 { Log = append(Log, Rec{"I", "", nil, n}) }
func B(b bool)                { n := 0; if b { n = 1 }; Log = append(Log, Rec{"B", "", nil, n}) }
func Note(name string, v any) { Log = append(Log, Rec{"N", name, []any{v}, 0}) }
func Use(v any)               { Log = append(Log, Rec{"U", "", []any{v}, 0}) }
"""


def cons_syntax(P, o, pkg, pfx="T"):
    parts = []
    for i, c in enumerate(o.cons):
        if c == "any":
            s = "any"
        elif c == "cmp":
            s = "comparable"
        elif c == "num":
            s = "interface{ ~int8 | ~uint8 | ~int16 | ~uint16 | ~int32 }"
        elif c == "idr":
            s = "Idr"                      # `type Idr interface{ Id() int }`, declared once per package
        else:
            s = "~[]%s%d" % (pfx, i + 1)
        parts.append("%s%d %s" % (pfx, i, s))
    return "[" + ", ".join(parts) + "]"


def tparam_list(o, pfx="T"):
    return "[" + ", ".join("%s%d" % (pfx, i) for i in range(o.arity)) + "]"


def ptr_tags(o, pfx="T"):
    return "".join(", (*%s%d)(nil)" % (pfx, i) for i in range(o.arity))


# statement templates exercising the per-instance TRANSLATION of a body; %(T)s = the type parameter, %(U)s = the next
# parameter (for sl). Every one is valid for all types satisfying the constraint and prints through tr.*.
PROBES = {
    "any": [
        "{ var z %(T)s; tr.V(z) }",
        "{ var acc %(T)s; p := &acc; *p = acc; q := p; tr.B(q == &acc); tr.V(*q) }",
        "{ var z %(T)s; f := func() %(T)s { return z }; g := func(p *%(T)s) { *p = z }; var w %(T)s; g(&w); tr.V(f()); tr.V(w) }",
        "{ s := []%(T)s{*new(%(T)s)}; m := map[int]%(T)s{1: s[0]}; s = append(s, m[1]); tr.I(len(s) + len(m)); tr.V(m[1]) }",
        "{ var z %(T)s; switch any(z).(type) { case int: tr.I(1); case string: tr.I(2); case []int: tr.I(3); case int8, uint8: tr.I(4); default: tr.I(0) } }",
        "{ st := struct { a %(T)s; n int }{n: 3}; p := &st; p.n++; q := &p.a; *q = st.a; tr.I(p.n); tr.V(p.a) }",
        "{ func() { defer func() { tr.B(recover() != nil) }(); var s []%(T)s; _ = s[1] }() }",
        "{ var a [2]%(T)s; b := a; b[0] = a[1]; pa := &b; tr.I(len(pa)); tr.V(b[0]) }",
        "{ for i, v := range []%(T)s{*new(%(T)s), *new(%(T)s)} { tr.I(i); tr.V(v) } }",
        "{ var z %(T)s; var i any = z; _, ok := i.(%(T)s); tr.B(ok); _, ok2 := i.(*%(T)s); tr.B(ok2); i = &z; _, ok3 := i.(*%(T)s); tr.B(ok3) }",
        "{ var x, y %(T)s; px, py := &x, &y; px, py = py, px; tr.B(px == &y && py == &x); tr.V(*px) }",
    ],
    "cmp": [
        "{ var z %(T)s; tr.V(z); tr.B(z == z); m := map[%(T)s]int{}; m[z]++; m[z]++; tr.I(len(m)) }",
        "{ var a, b %(T)s; p := &a; tr.B(*p == b); tr.B(any(a) == any(b)); q := &b; tr.B(p == q) }",
        "{ var a %(T)s; arr := [2]%(T)s{a, a}; tr.B(arr == [2]%(T)s{}); s := struct{ k %(T)s }{a}; tr.B(s == struct{ k %(T)s }{}) }",
        "{ var acc %(T)s; p := &acc; *p = acc; tr.V(*p) }",
    ],
    "num": [
        "{ a := %(T)s(100); b := a * a * %(T)s(7); tr.I(int(b)); tr.B(%(T)s(0)-%(T)s(1) < %(T)s(0)); tr.V(a + a + a) }",
        "{ acc := %(T)s(5); p := &acc; *p += %(T)s(3); *p *= *p; *p *= *p; tr.I(int(acc)) }",
        "{ x := %(T)s(7); x <<= 3; x >>= 1; tr.I(int(x)); tr.I(int(x / %(T)s(3))); tr.I(int(x %% %(T)s(5))); y := -x; tr.I(int(y)); tr.I(int(^x)) }",
        "{ v := 300; f := 3.9; tr.I(int(%(T)s(v))); tr.I(int(%(T)s(f))); tr.I(int(float64(%(T)s(v)) * 2)) }",
        "{ var sum %(T)s; for _, v := range []%(T)s{90, 90, 90} { sum += v }; ps := &sum; (*ps)++; tr.I(int(sum)) }",
    ],
    "sl": [
        "{ var s %(T)s; s = append(s, *new(%(U)s)); s = append(s, s...); tr.I(len(s)); tr.V(s[0]) }",
        "{ s := make(%(T)s, 2, 5); t := s[1:3]; p := &t[0]; *p = s[0]; tr.I(len(t) + cap(t)); for i := range s { tr.I(i) } }",
    ],
    "idr": [
        "{ var a %(T)s; tr.I(a.Id()); f := a.Id; tr.I(f()); tr.I(%(T)s.Id(a)); p := &a; tr.I((*p).Id()) }",
        "{ var a %(T)s; var i Idr = a; tr.I(i.Id()); tr.V(a) }",
    ],
}


def probes(o, ind, pfx="T"):
    L = []
    for i, c in enumerate(o.cons):
        ids = o.probe_ids[i] if o.probe_ids else [0]
        for k in ids:
            L.append(ind + PROBES[c][k] % dict(T="%s%d" % (pfx, i), U="%s%d" % (pfx, i + 1)))
    # the same constraint method selected through two different type parameters inside one instance
    idr = [i for i, c in enumerate(o.cons) if c == "idr"]
    if len(idr) == 2:
        L.append("%s{ var a %s%d; var b %s%d; tr.I(a.Id()*1000 + b.Id()); g := b.Id; h := a.Id; tr.I(h()*1000 + g()) }" % (ind, pfx, idr[0], pfx, idr[1]))
    if o.chan_probe:
        L.append("%s{ ch := make(chan %s0, 1); ch <- *new(%s0); tr.V(<-ch) }" % (ind, pfx, pfx))
    return L


def body_lines(P, o, items, pkg, ind, ctxname):
    L = []
    vn = [0]
    for it in items:
        k = it["k"]
        if k == "call":
            t = P.objs[it["t"]]
            fn = t.name if t.pkg == pkg else "%s.%s" % (P.pkg_name(t.pkg), t.name)
            es = [gosyn(P, e, pkg) for e in it["es"]]
            if it["form"] == "explicit":
                L.append("%s%s[%s](%s)" % (ind, fn, ", ".join(es), ", ".join("nil" for _ in es)))
            else:
                L.append("%s%s(%s)" % (ind, fn, ", ".join("[]%s(nil)" % e for e in es)))
        elif k == "use":
            t = P.objs[it["t"]]
            vn[0] += 1
            v = "v%d" % vn[0]
            ty = gosyn(P, ("named", t.id, it["es"]), pkg)
            if t.kind == "ltype":
                # keyed and positional composite literals of the local type, compared and read back
                nfn = P.objs[t.nest]
                ident = [("own", i) for i in range(nfn.arity)]
                vals, extra = [], ""
                for fi, f in enumerate(t.fields):
                    fu = subst(f, it["es"], ident)
                    fty = gosyn(P, fu, pkg)
                    isnum = f[0] in ("own", "nest") and (t.cons[f[1]] if f[0] == "own" else nfn.cons[f[1]]) == "num"
                    vals.append("%s(3)" % fty if isnum else "*new(%s)" % fty)
                    if f[0] in ("own", "nest"):
                        extra += "; tr.V(k.F%d); tr.V(p.F%d); tr.B(k.F%d == p.F%d)" % (fi, fi, fi, fi)
                        if isnum:
                            extra += "; tr.I(int(k.F%d + p.F%d*%s(50)))" % (fi, fi, fty)
                keyed = ", ".join("F%d: %s" % (fi, x) for fi, x in enumerate(vals))
                L.append("%s{ var %s %s; tr.Note(%s, %s); k := %s{%s}; p := %s{%s}; tr.B(k == p); tr.B(any(k) == any(p)); tr.Note(%s, k)%s }" % (
                    ind, v, ty, gostr(ctxname + "." + t.name), v, ty, keyed, ty, ", ".join(vals), gostr(ctxname + "." + t.name), extra))
            else:
                calls = ""
                for mid in t.methods:
                    m = P.objs[mid]
                    if m.ptr_recv:
                        calls += "; (&%s).%s(); (*%s).%s(&%s)" % (v, m.name, ty, m.name, v)
                    else:
                        # value receiver: directly, through a pointer, through interfaces holding the value / the pointer,
                        # and as method expressions of the type and of its pointer type
                        calls += ("; any(%s).(interface{ %s() }).%s(); %s.%s(); p%s := &%s; p%s.%s(); var i%s interface{ %s() } = p%s; i%s.%s(); "
                                  "%s.%s(%s); (*%s).%s(p%s); f%s := p%s.%s; f%s()") % (
                            v, m.name, m.name, v, m.name, v, v, v, m.name, v, m.name, v, v, m.name, ty, m.name, v, ty, m.name, v, v, v, m.name, v)
                L.append("%s{ var %s %s; tr.Use(&%s)%s }" % (ind, v, ty, v, calls))
        elif k == "ldef":
            t = P.objs[it["t"]]
            hdr = "%stype %s%s struct {" % (ind, t.name, cons_syntax(P, t, pkg, "Y") if t.arity else "")
            L.append(hdr)
            for fi, f in enumerate(t.fields):
                L.append("%s\tF%d %s" % (ind, fi, gosyn(P, f, pkg, own="Y", nest="T")))
            L.append("%s}" % ind)
        elif k == "raw":
            L += [ind + s for s in it["go"]]
    return L


def gostr(s):
    return '"' + s + '"'


def sources(P, mod=MOD, mainpkg="main"):
    """returns {relative path: source} for the module, and the list of (pkg path, {file: src}) in scan order.
    mod/mainpkg: import path prefix and name of the root package (a library package with func Main when the
    program is linked into a combined native binary; the canonical strings keep using MOD)"""
    files = {}
    pk_files = []
    for k in range(P.npkg + 1):
        L = []
        imps = set()
        pname = P.pkg_name(k)
        body = []
        if k < P.npkg:
            for b, (pk, nm, under) in sorted(P.named_base.items()):
                if pk == k:
                    body.append("type %s %s" % (nm, under))
                    body.append("")
                    if b % 2 == 0:
                        body.append("func (n %s) Id() int { return %d + int(n) }" % (nm, b))
                    else:           # a method that may block: the call sites must be awaited per instance
                        body.append("func (n %s) Id() int { c := make(chan int, 1); c <- %d + int(n); return <-c }" % (nm, b))
                    body.append("")
        for o in P.objs:
            if o.pkg != k:
                continue
            qual = "%s.%s" % (pname, o.name)
            if o.kind == "func":
                params = ", ".join("_ []T%d" % i for i in range(o.arity))
                body.append("func %s%s(%s) {" % (o.name, cons_syntax(P, o, k), params))
                body.append("\tif !tr.Enter(%s%s) {\n\t\treturn\n\t}" % (gostr(qual), ptr_tags(o)))
                body += probes(o, "\t")
                body += body_lines(P, o, o.items, k, "\t", qual)
                body.append("}")
                body.append("")
            elif o.kind == "type" and o.under != "struct":
                key = "T0" if o.cons[0] in ("cmp", "num") else "int"
                under = {"map": "map[%s]T0" % key, "array": "[2]T0", "slice": "[]T0", "basic": "int32", "func": "func() T0", "chan": "chan T0"}[o.under]
                body.append("type %s%s %s" % (o.name, cons_syntax(P, o, k), under))
                body.append("")
            elif o.kind == "type":
                body.append("type %s%s struct {" % (o.name, cons_syntax(P, o, k)))
                for fi, f in enumerate(o.fields):
                    body.append("\tF%d %s" % (fi, gosyn(P, f, k)))
                body.append("}")
                body.append("")
            elif o.kind == "method":
                rv = P.objs[o.recv]
                qual = "%s.%s.%s" % (pname, rv.name, o.name)
                body.append("func (b %s%s%s) %s() {" % ("*" if o.ptr_recv else "", rv.name, tparam_list(rv), o.name))
                body.append("\tif !tr.Enter(%s%s) {\n\t\treturn\n\t}" % (gostr(qual), ptr_tags(o)))
                body += probes(o, "\t")
                body += body_lines(P, o, o.items, k, "\t", qual)
                body.append("}")
                body.append("")
        if k in P.seed_items:
            if k == P.npkg:
                body.append("func main() {" if mainpkg == "main" else "func Main() {")
                for j in range(P.npkg):
                    if j in P.seed_items:
                        body.append("\tp%d.Seed()" % j)
                body += body_lines(P, None, P.seed_items[k], k, "\t", "main")
                body.append("\tdump()")
                body.append("}")
                body.append("")
                body += main_support(P)
            else:
                body.append("func Seed() {")
                body += body_lines(P, None, P.seed_items[k], k, "\t", pname + ".Seed")
                body.append("}")
                body.append("")
        text = "\n".join(body)
        if "Idr" in text:
            text = "type Idr interface{ Id() int }\n\n" + text
        # imports: every package mentioned
        for j in range(P.npkg):
            if j != k and ("p%d." % j) in text:
                imps.add(j)
        L.append("package %s" % (mainpkg if k == P.npkg else pname))
        L.append("")
        L.append("import (")
        for j in sorted(imps):
            L.append('\t"%s/p%d"' % (mod, j))
        if "tr." in text:
            L.append('\t"%s/tr"' % mod)
        L.append(")")
        L.append("")
        src = "\n".join(L) + text + "\n"
        fn = ("main.go" if k == P.npkg else "p%d/p%d.go" % (k, k))
        files[fn] = src
        pk_files.append((P.pkg_path(k), {os.path.basename(fn): src}))
        P.imports[k] = imps
    files["tr/tr.go"] = TR_SRC
    pk_files.insert(0, (MOD + "/tr", {"tr.go": TR_SRC}))
    return files, pk_files


import os


def main_support(P):
    L = []
    L.append("func tag(v any) string {")
    L.append("\tswitch v.(type) {")
    for e in P.tag_cases:
        L.append("\tcase *%s:" % gosyn(P, e, P.npkg))
        L.append("\t\treturn %s" % gostr(canon(P, e)))
    L.append("\t}")
    L.append('\treturn "?"')
    L.append("}")
    L.append("")
    L.append("func val(v any) string {")
    L.append("\tswitch x := v.(type) {")
    L.append('\tcase nil:\n\t\treturn "nil"')
    for b, nm in BASE.items():
        if nm == "string":
            L.append('\tcase string:\n\t\treturn "string:" + x')
        elif nm == "bool":
            L.append('\tcase bool:\n\t\tif x {\n\t\t\treturn "bool:true"\n\t\t}\n\t\treturn "bool:false"')
        elif nm == "float64":
            L.append('\tcase float64:\n\t\treturn "float64:" + itoa(int(x))')
        else:
            L.append('\tcase %s:\n\t\treturn "%s:" + itoa(int(x))' % (nm, nm))
    for b, (pk, nm, under) in sorted(P.named_base.items()):
        L.append('\tcase p%d.%s:\n\t\treturn "p%d.%s:" + itoa(int(x))' % (pk, nm, pk, nm))
    L.append("\t}")
    L.append('\treturn "composite"')
    L.append("}")
    L.append("")
    L.append("""func itoa(n int) string {
	if n == 0 {
		return "0"
	}
	neg := n < 0
	if neg {
		n = -n
	}
	s := ""
	for n > 0 {
		s = string(rune('0'+n%10)) + s
		n /= 10
	}
	if neg {
		s = "-" + s
	}
	return s
}

func dump() {
	keys := map[any]int{}
	for _, r := range tr.Log {
		switch r.Kind {
		case "E":
			s := "E " + r.Name
			for _, v := range r.Vals {
				s += " " + tag(v)
				keys[v]++
			}
			println(s)
		case "V":
			println("V " + val(r.Vals[0]))
		case "I":
			println("I " + itoa(r.N))
		case "B":
			println("B " + itoa(r.N))
		case "N":
			keys[r.Vals[0]]++
			println("N " + r.Name)
		case "U":
			keys[r.Vals[0]]++
			println("U " + tag(r.Vals[0]))
		}
	}
	println("K " + itoa(len(keys)))
}
""")
    return L


# ------------------------------------------------------------------ predicted Enter trace (model semantics of execution)

def predict_trace(P):
    """sequence of 'E name tags' / 'N name' / 'U tag' lines the program prints, from the model program"""
    out = []
    seen = set()

    def run_items(items, own, ctxname, pkgname):
        for it in items:
            k = it["k"]
            if k == "call":
                t = P.objs[it["t"]]
                call(t, [subst(e, own, []) for e in it["es"]])
            elif k == "use":
                t = P.objs[it["t"]]
                if t.kind == "ltype":
                    out.append("N %s.%s" % (ctxname, t.name))
                    out.append("N %s.%s" % (ctxname, t.name))
                else:
                    args = [subst(e, own, []) for e in it["es"]]
                    out.append("U " + canon(P, ("named", t.id, args)))
                    for mid in t.methods:
                        call(P.objs[mid], args)

    def call(t, args):
        if t.kind == "method":
            qual = "%s.%s.%s" % (P.pkg_name(t.pkg), P.objs[t.recv].name, t.name)
        else:
            qual = "%s.%s" % (P.pkg_name(t.pkg), t.name)
        key = (qual, tuple(canon(P, a) for a in args))
        if key in seen:
            return
        seen.add(key)
        out.append("E " + qual + "".join(" " + canon(P, a) for a in args))
        run_items(t.items, args, qual, P.pkg_name(t.pkg))

    for j in range(P.npkg):
        if j in P.seed_items:
            run_items(P.seed_items[j], [], "p%d.Seed" % j, "p%d" % j)
    run_items(P.seed_items.get(P.npkg, []), [], "main", "main")
    return out


# ------------------------------------------------------------------ Coq terms

def coq_ty(e):
    k = e[0]
    if k == "base":
        return "TBase %d" % e[1]
    if k == "con":
        return "TCon %d [%s]" % (e[1], "; ".join(coq_ty(a) for a in e[2]))
    if k == "named":
        return "TNamed %d [%s]" % (e[1], "; ".join(coq_ty(a) for a in e[2]))
    if k == "own":
        return "TOwn %d%%nat" % e[1]
    if k == "nest":
        return "TNestV %d%%nat" % e[1]
    return "TFree %d" % e[1]


def coq_item(it):
    if it[0] == "inst":
        return "RInst %d [%s] %s" % (it[1], "; ".join(coq_ty(e) for e in it[2]), "true" if it[3] else "false")
    return "RDef %d" % it[1]


def coq_prog(P):
    objs = []
    for o in P.objs:
        objs.append("mkObj %d %s [%s] %s %s [%s]" % (
            o.pkg, "KType" if o.kind in ("type", "ltype") else "KFunc", "; ".join(str(m) for m in o.methods),
            "(Some %d)" % o.nest if o.nest is not None else "None", "true" if o.lazy else "false",
            "; ".join(coq_item(i) for i in template(P, o))))
    return "mkProg %d%%nat [%s] [%s]" % (P.npkg + 1, ";\n  ".join(objs), "; ".join(coq_item(i) for i in seed_template(P)))


def coq_inst(i):
    return "mkInst %d [%s] [%s]" % (i[0], "; ".join(coq_ty(thaw(a)) for a in i[1]), "; ".join(coq_ty(thaw(a)) for a in i[2]))


def finalize_tags(P):
    """fill main's tag switch with every closed type argument / type instance of the predicted set (fixpoint)"""
    for _ in range(4):
        S = lfp(P)
        if S is None:
            return None
        cases, seen = [], set()

        def add(e):
            if has_local(P, e):
                return
            c = canon(P, e)
            if c not in seen:
                seen.add(c)
                cases.append(e)

        for i in sorted(S, key=lambda i: inst_canon(P, i)):
            o = P.objs[i[0]]
            if o.kind == "ltype":
                continue
            for a in i[1]:
                add(thaw(a))
            if o.kind == "type":
                add(("named", o.id, [thaw(a) for a in i[1]]))
        if [canon(P, e) for e in cases] == [canon(P, e) for e in P.tag_cases]:
            return S
        P.tag_cases = cases
    return lfp(P)


def has_local(P, e):
    k = e[0]
    if k == "named" and P.objs[e[1]].kind == "ltype":
        return True
    if k in ("con", "named"):
        return any(has_local(P, a) for a in e[2])
    return False
