"""Independent JavaScript tokenizer used as the direct oracle of C16 (written from the ECMAScript
lexical grammar, shares nothing with the Coq model): source-map hints are split off first (they are
zero-width: the Filter erases them), then the code is cut into JS tokens with longest-match
punctuators; whitespace and /* */ comments are dropped."""
import re

PUNCT = [">>>=", "...", "===", "!==", "**=", "<<=", ">>=", ">>>", "&&=", "||=", "??=",
         "=>", "==", "!=", "<=", ">=", "&&", "||", "??", "?.", "++", "--", "+=", "-=", "*=", "/=", "%=", "&=", "|=", "^=", "<<", ">>", "**",
         "{", "}", "(", ")", "[", "]", ".", ";", ",", "<", ">", "+", "-", "*", "/", "%", "&", "|", "^", "!", "~", "?", ":", "=", "@", "#"]
PUNCT_B = [p.encode() for p in sorted(PUNCT, key=len, reverse=True)]
IDENT = re.compile(rb"[A-Za-z_$\x80-\xff][A-Za-z0-9_$\x80-\xff]*")
NUMBER = re.compile(rb"0[xX][0-9a-fA-F]+|0[bB][01]+|0[oO][0-7]+|(?:\d+\.?\d*|\.\d+)(?:[eE][+-]?\d+)?")


class LexError(Exception):
    pass


def split_hints(b):
    """-> (code without hints, [(offset in that code, payload)]); raises LexError on a truncated hint"""
    code, hints, i, n = bytearray(), [], 0, len(b)
    while i < n:
        if b[i] == 8:
            if i + 3 > n:
                raise LexError("truncated hint header")
            ln = b[i + 1] * 256 + b[i + 2]
            if i + 3 + ln > n:
                raise LexError("truncated hint payload")
            hints.append((len(code), bytes(b[i + 3:i + 3 + ln])))
            i += 3 + ln
        else:
            code.append(b[i])
            i += 1
    return bytes(code), hints


def js_tokens(code):
    """-> list of (start offset, token bytes)"""
    out, i, n = [], 0, len(code)
    while i < n:
        c = code[i]
        if c in b" \t\n":
            i += 1
        elif code[i:i + 2] == b"/*":
            j = code.find(b"*/", i + 2)
            if j < 0:
                raise LexError("unterminated comment")
            i = j + 2
        elif code[i:i + 2] == b"//":
            raise LexError("line comment")
        elif c == 0x22:
            j = i + 1
            while True:
                if j >= n:
                    raise LexError("unterminated string")
                if code[j] == 0x5C:
                    j += 2
                elif code[j] == 0x22:
                    break
                elif code[j] == 10:
                    raise LexError("newline in string")
                else:
                    j += 1
            out.append((i, code[i:j + 1]))
            i = j + 1
        elif c in b"'`" or (c < 32):
            raise LexError("character outside the lexicon: %d" % c)
        else:
            m = None
            if (48 <= c <= 57) or (c == 46 and i + 1 < n and 48 <= code[i + 1] <= 57):
                m = NUMBER.match(code, i)
                # a number directly followed by an identifier character is a syntax error in JS
                if m and m.end() < n and IDENT.match(code, m.end()):
                    raise LexError("identifier directly after a numeric literal")
            if m is None:
                m = IDENT.match(code, i)
            if m:
                out.append((i, m.group(0)))
                i = m.end()
                continue
            for p in PUNCT_B:
                if code.startswith(p, i):
                    out.append((i, p))
                    i += len(p)
                    break
            else:
                raise LexError("unknown character %d" % c)
    return out


def observe(b):
    """the observation the property talks about: (JS tokens, hints with the index of the token each one precedes)"""
    code, hints = split_hints(b)
    toks = js_tokens(code)
    starts = [s for s, _ in toks]
    hv = []
    for off, payload in hints:
        k = sum(1 for s in starts if s < off)
        inside = k > 0 and toks[k - 1][0] + len(toks[k - 1][1]) > off
        hv.append((payload.hex(), k, inside))
    return [t for _, t in toks], hv


def merges(t1, t2):
    """would the two tokens lex differently when written without a separator?"""
    try:
        return [t for _, t in js_tokens(t1 + t2)] != [t1, t2]
    except LexError:
        return True
