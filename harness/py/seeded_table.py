#!/usr/bin/env python3
"""prints the markdown table of seeded changes (DESIGN.md section 7) from seeded/*/meta.json and result.json"""
import glob, json, os
V = os.path.dirname(os.path.dirname(os.path.dirname(os.path.abspath(__file__))))
print("| seeded change | property | what it changes (needs to manifest) | files | check result | signatures |")
print("|---|---|---|---|---|---|")
for d in sorted(glob.glob(os.path.join(V, "seeded", "C*-m*"))):
    n = os.path.basename(d)
    m = json.load(open(os.path.join(d, "meta.json")))
    rp = os.path.join(d, "result.json")
    res = json.load(open(rp))["results"] if os.path.exists(rp) else {}
    pid = m.get("property", n[:3])
    r = res.get(pid) or (list(res.values())[0] if res else None)
    det = "not run yet" if r is None else ("DETECTED" if r["detected"] else "MISSED")
    sig = ", ".join((r or {}).get("signatures", [])[:3])
    summ = (m.get("summary", "") or "")[:160].replace("|", "/")
    need = (m.get("needs_to_manifest", "") or "")[:140].replace("|", "/")
    files = ", ".join(os.path.basename(f) for f in m.get("files", [])[:3])
    print("| %s | %s | %s (%s) | %s | %s | %s |" % (n, pid, summ, need, files, det, sig))
