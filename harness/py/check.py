#!/usr/bin/env python3
"""Driver:  python3 harness/py/check.py <ID> [--tier quick|thorough] [--seed N] [--replay file]
            python3 harness/py/check.py setup

Protocol (DESIGN.md 2.4): rebuild from /repo's working tree -> regenerate Gen tables ->
full .vo build of the property's theorems -> Print Assumptions audit -> correspondence
(model vs implementation on generated inputs) -> verdict -> evidence/<ID>.json.
exit 0 = held on everything explored; exit 1 + `VIOLATION property=<id> replay=<path>` otherwise.
"""
import argparse, importlib, json, os, re, shutil, sys, time, traceback

sys.path.insert(0, os.path.dirname(os.path.abspath(__file__)))
import common as C


class Ctx:
    def __init__(self, pid, tier, seed):
        self.id = pid
        self.tier = tier
        self.seed = seed
        self.t0 = time.time()
        # one scratch dir per process, so that two runs of the same check never wipe each other's files
        rundir = os.path.join(C.WORK, "run")
        os.makedirs(rundir, exist_ok=True)
        for d in os.listdir(rundir):        # leftovers of runs whose process is gone
            m = re.match(r"^%s\.(\d+)$" % re.escape(pid), d)
            if (m and not os.path.exists("/proc/%s" % m.group(1))) or d == pid:
                shutil.rmtree(os.path.join(rundir, d), ignore_errors=True)
        self.work = os.path.join(rundir, "%s.%d" % (pid, os.getpid()))
        shutil.rmtree(self.work, ignore_errors=True)
        os.makedirs(self.work, exist_ok=True)
        self.violations = []      # dicts: signature, what, replay, concrete
        self.cov = {}             # extra coverage keys for the evidence file
        self.samples = []
        self.evaluations = 0
        self.distinct = set()     # hashes of distinct non-trivial cases
        self.notes = []
        self.quick = tier == "quick"

    def rng(self, stream=""):
        return C.make_rng(self.seed, self.id + "/" + stream)

    def count(self, case, nontrivial=True):
        """count one explored case; `case` is any JSON-able description used for distinctness"""
        self.evaluations += 1
        if nontrivial:
            self.distinct.add(C.sha(C.canon_json(case))[:16])

    def sample(self, s, limit=6):
        if len(self.samples) < limit:
            self.samples.append(s)

    def violation(self, signature, what, replay, concrete=True):
        """signature: canonical key used to match known findings. replay: JSON-able dict with the
        failing input and both outputs. concrete=False: model/impl disagree or a proof broke but no
        input on which the property itself fails was found."""
        self.violations.append(dict(signature=signature, what=what, replay=replay, concrete=concrete))

    def log(self, *a):
        print("[%s %6.1fs]" % (self.id, time.time() - self.t0), *a, file=sys.stderr, flush=True)


def enclosing_theorem(vfile, line):
    try:
        lines = open(vfile).read().split("\n")
    except OSError:
        return None
    for i in range(min(line, len(lines)) - 1, -1, -1):
        m = C.THM.match(lines[i])
        if m:
            return m.group(2)
    return None


def proof_status(ctx, mod):
    """build the property's theorems; returns dict(ok, obligations, discharged, broken, axioms, log)"""
    st = dict(ok=True, obligations=0, discharged=0, broken=[], axioms={}, forbidden=[], log="")
    C.sync_alt_coq()
    props = os.path.join(C.COQ, mod.PROPS_FILE)
    deps = C.coq_dep_files(props)
    own = [f for f in deps if "/Gen/" not in f]
    st["files"] = [os.path.relpath(f, C.COQ) for f in deps]
    st["forbidden"] = C.scan_forbidden(own)
    thms_by_file = {f: C.theorems_in(f) for f in own}
    st["obligations"] = sum(len(v) for v in thms_by_file.values())
    # model first (so the correspondence can run when a proof is broken)
    model_targets = [t for t in getattr(mod, "MODEL_TARGETS", [])]
    ok_model, log_model = C.coq_make([t + "o" if t.endswith(".v") else t for t in model_targets]) if model_targets else (True, "")
    st["model_ok"] = ok_model
    targets = [mod.PROPS_FILE + "o"] + [t + "o" for t in getattr(mod, "EXTRA_TARGETS", [])]
    ok, log = C.coq_make(targets)
    st["log"] = (log_model + "\n" + log)[-6000:]
    failed_files = set()
    if not ok:
        st["ok"] = False
        for m in re.finditer(r'File "\./([^"]+)", line (\d+)', log):
            f, ln = m.group(1), int(m.group(2))
            thm = enclosing_theorem(os.path.join(C.COQ, f), ln)
            entry = "%s:%d (%s)" % (f, ln, thm or "?")
            if entry not in st["broken"]:
                st["broken"].append(entry)
            failed_files.add(os.path.join(C.COQ, f))
        if not st["broken"]:
            st["broken"].append("make failed: " + log[-300:])
    if st["forbidden"]:
        st["ok"] = False
        st["broken"] += ["forbidden construct: " + b for b in st["forbidden"]]
    # discharged = theorems in files whose .vo is up to date (compiled after the source changed)
    disc = 0
    for f, thms in thms_by_file.items():
        vo = f[:-2] + ".vo"
        if os.path.exists(vo) and os.path.getmtime(vo) >= os.path.getmtime(f) and f not in failed_files:
            disc += len(thms)
    st["discharged"] = disc if ok else min(disc, st["obligations"] - 1)
    # Print Assumptions audit of every theorem in the Props file
    if ok:
        names = C.theorems_in(props)
        modname = "Verif." + mod.PROPS_FILE[:-2].replace("/", ".")
        pa = os.path.join(ctx.work, "pa_%s.v" % ctx.id)
        with open(pa, "w") as f:
            f.write("Require Import %s.\n" % modname)
            for n in names:
                f.write('Goal True. idtac "@@THM %s". exact I. Qed.\nPrint Assumptions %s.\n' % (n, n))
        rc, out = C.coq_run(pa)
        if rc != 0:
            st["ok"] = False
            st["broken"].append("Print Assumptions run failed: " + out[-300:])
        else:
            cur = None
            for line in out.split("\n"):
                m = re.match(r"@@THM (\S+)", line)
                if m:
                    cur = m.group(1)
                    st["axioms"][cur] = []
                    continue
                m = re.match(r"^([A-Za-z_][A-Za-z0-9_.']*)\s*:", line)
                if m and cur:
                    st["axioms"][cur].append(m.group(1))
            allowed = set(getattr(mod, "ALLOWED_AXIOMS", []))
            for t, axs in st["axioms"].items():
                for a in axs:
                    if a not in allowed and a.split(".")[-1] not in allowed:
                        st["ok"] = False
                        st["broken"].append("theorem %s depends on unlisted axiom %s" % (t, a))
    # thorough tier: independent re-check of the compiled theorems (and everything they depend on) with coqchk
    if ok and ctx.tier == "thorough" and not getattr(mod, "NO_COQCHK", False):
        modname = "Verif." + mod.PROPS_FILE[:-2].replace("/", ".")
        with C.Lock("coq"):
            rc, out = C.sh(["timeout", "3000", "coqchk", "-silent", "-o", "-Q", ".", "Verif", modname], cwd=C.COQ, timeout=3100)
        summary = out[out.find("CONTEXT SUMMARY"):] if "CONTEXT SUMMARY" in out else out[-1500:]
        st["coqchk"] = dict(rc=rc, summary=" ".join(summary.split())[:1500])
        m = re.search(r"\* Axioms:(.*?)\* Constants/Inductives relying on type-in-type:(.*?)\* Constants/Inductives relying on unsafe \(co\)fixpoints:(.*?)\* Inductives whose positivity is assumed:(.*)", summary, re.S)
        if rc != 0 or not m:
            st["ok"] = False
            st["broken"].append("coqchk failed: " + out[-300:])
        else:
            axs = [a.strip() for a in m.group(1).strip().split("\n") if a.strip() and a.strip() != "<none>"]
            st["coqchk"]["axioms"] = axs
            allowed = set(getattr(mod, "ALLOWED_AXIOMS", [])) | set(getattr(mod, "COQCHK_LIBRARY_AXIOMS", []))
            for a in axs:
                if a not in allowed and a.split(".")[-1] not in allowed:
                    st["ok"] = False
                    st["broken"].append("coqchk reports unlisted axiom %s" % a)
            for g in (2, 3, 4):
                if m.group(g).strip() != "<none>":
                    st["ok"] = False
                    st["broken"].append("coqchk: kernel checks bypassed: " + m.group(g).strip()[:200])
    return st


def write_replay(ctx, v, idx):
    d = os.path.join(C.REPLAYS, ctx.id)
    os.makedirs(d, exist_ok=True)
    body = dict(property=ctx.id, signature=v["signature"], what=v["what"], seed=ctx.seed, tier=ctx.tier,
                failing_input_found=bool(v["concrete"]), replay=v["replay"],
                replay_cmd="python3 harness/py/check.py %s --replay <this file>" % ctx.id)
    h = C.sha(C.canon_json(body))[:12]
    p = os.path.join(d, "%s.json" % h)
    with open(p, "w") as f:
        json.dump(body, f, indent=1, sort_keys=True)
    return p


def run_check(pid, tier, seed, replay=None):
    mod = importlib.import_module("props." + pid.lower())
    ctx = Ctx(pid, tier, seed)
    if replay:
        data = json.load(open(replay))
        if hasattr(mod, "prepare"):
            mod.prepare(ctx)
        return mod.replay(ctx, data) if hasattr(mod, "replay") else print(json.dumps(data, indent=1))
    fatal = None
    st = dict(ok=False, obligations=0, discharged=0, broken=["not run"], axioms={}, files=[])
    try:
        if hasattr(mod, "prepare"):
            mod.prepare(ctx)            # build gopherjs / harnesses, regenerate coq/Gen tables
        ctx.log("building proofs")
        st = proof_status(ctx, mod)
        ctx.log("proofs ok=%s obligations=%d discharged=%d" % (st["ok"], st["obligations"], st["discharged"]))
        if st.get("model_ok", True):
            mod.correspond(ctx)
        else:
            ctx.violation("model-does-not-compile", "the executable model no longer compiles", dict(log=st["log"][-1500:]), concrete=False)
    except C.BuildError as e:
        fatal = "build error: %s" % e
    except Exception:
        fatal = "check crashed: " + traceback.format_exc()
    if fatal:
        ctx.log(fatal)
        ctx.violation("check-infrastructure", fatal[:400], dict(error=fatal[-3000:]), concrete=False)

    # proofs broken and no concrete failing input from the correspondence: property-specific search
    unknown_concrete = False
    if not st["ok"] and not fatal:
        found = False
        if hasattr(mod, "search"):
            try:
                found = bool(mod.search(ctx, st))
            except Exception:
                ctx.log("search crashed: " + traceback.format_exc())
        # a broken proof obligation is always reported (known findings or other violations never hide it)
        ctx.violation("proof-broken", "theorem(s) no longer check: " + "; ".join(st["broken"])[:600],
                      dict(theorems=st["broken"], log=st.get("log", "")[-2500:],
                           failing_input_search="see the other VIOLATION lines of this run" if (found or any(v["concrete"] for v in ctx.violations)) else "none found"),
                      concrete=False)

    known = [(p, k, t) for (p, k, t) in C.load_known() if p == pid]
    lines, nviol, nknown = [], 0, 0
    seen_known = set()
    sig_count = {}
    for i, v in enumerate(ctx.violations):
        hit = next((k for k in known if k[1] == v["signature"]), None)
        if hit and v["concrete"]:
            if hit[1] not in seen_known:
                lines.append("KNOWN-FINDING: property=%s %s [%s]" % (pid, hit[2], hit[1]))
                seen_known.add(hit[1])
            nknown += 1
            continue
        sig_count[v["signature"]] = sig_count.get(v["signature"], 0) + 1
        if sig_count[v["signature"]] > 2:      # at most two replays per kind of violation
            continue
        path = write_replay(ctx, v, i)
        nviol += 1
        lines.append("VIOLATION property=%s replay=%s%s" % (pid, path, "" if v["concrete"] else " no-failing-input-found"))
        ctx.log("violation [%s]: %s" % (v["signature"], v["what"][:300]))

    wall = time.time() - ctx.t0
    cov = dict(
        obligations=max(1, st["obligations"]), discharged=max(1, st["discharged"]) if st["ok"] else st["discharged"],
        checker_cmd="cd /verif/coq && make -j16 %so  (coqc 8.16.1, full .vo build, no -vos); Print Assumptions per theorem" % mod.PROPS_FILE,
        trusted_base=["Coq 8.16.1 kernel + vm_compute (no native_compute)"] + list(getattr(mod, "TRUSTED", [])) +
                     ["axioms per theorem (Print Assumptions): " + (json.dumps(st["axioms"], sort_keys=True) if st["axioms"] else "n/a")],
        theorems=sorted(st["axioms"].keys()),
        proof_files=st.get("files", []),
        proofs_ok=bool(st["ok"]), broken=st["broken"] if not st["ok"] else [],
        evaluations=max(ctx.evaluations, 1), distinct_nontrivial=len(ctx.distinct),
        rule=getattr(mod, "RULE", ""), samples=ctx.samples or ["(none)"],
        known_findings_reproduced=sorted(seen_known),
        coqchk=st.get("coqchk", "not run in this tier"),
        notes=ctx.notes,
    )
    cov.update(ctx.cov)
    ev = dict(property_id=pid, tier=tier, seed=seed, level="proof", coverage=cov,
              assumptions=list(getattr(mod, "ASSUMPTIONS", [])), wall_s=round(wall, 2), violations=nviol)
    os.makedirs(C.EVIDENCE, exist_ok=True)
    with open(os.path.join(C.EVIDENCE, pid + ".json"), "w") as f:
        json.dump(ev, f, indent=1, sort_keys=True)
    for l in lines:
        print(l, flush=True)
    print("%s %s: proofs %d/%d, %d cases (%d distinct), %d violation(s), %d known finding hit(s), %.1fs" % (
        pid, tier, st["discharged"], st["obligations"], ctx.evaluations, len(ctx.distinct), nviol, nknown, wall), flush=True)
    shutil.rmtree(ctx.work, ignore_errors=True)
    return 1 if nviol else 0


def setup():
    """MANIFEST.setup_cmd: build everything once (binaries, tables, the whole Coq project)."""
    t0 = time.time()
    C.ensure_gopherjs()
    pdir = os.path.join(os.path.dirname(os.path.abspath(__file__)), "props")
    for f in sorted(os.listdir(pdir)):
        if re.match(r"c\d+\.py$", f):
            mod = importlib.import_module("props." + f[:-3])
            ctx = Ctx(mod.ID, "quick", 0)
            if hasattr(mod, "prepare"):
                try:
                    mod.prepare(ctx)
                except Exception as e:
                    print("setup: prepare %s failed: %s" % (mod.ID, e), file=sys.stderr)
            shutil.rmtree(ctx.work, ignore_errors=True)
    ok, log = C.coq_make(None)
    print(log[-2000:])
    print("setup done ok=%s in %.0fs" % (ok, time.time() - t0))
    return 0 if ok else 1


if __name__ == "__main__":
    ap = argparse.ArgumentParser()
    ap.add_argument("id")
    ap.add_argument("--tier", default=os.environ.get("VERIF_TIER", "quick"))
    ap.add_argument("--seed", type=int, default=int(os.environ.get("VERIF_SEED", "20260923")))
    ap.add_argument("--replay")
    a = ap.parse_args()
    if a.id == "setup":
        sys.exit(setup())
    sys.exit(run_check(a.id.upper(), a.tier, a.seed, a.replay))
