"""C01 — generator of well-formed MiniGo programs drawn from the model's own AST
(coq/Model/C01_GoSem.v), printed both as Go source and as a Coq term.

AST (nested tuples):
 expr: ("var", v) ("lit", k, z) ("bool", b) ("bin", p, k, op, a, b) ("cmp", ty, op, a, b)
       ("and", a, b) ("or", a, b) ("not", a) ("neg", k, a) ("cpl", k, a) ("conv", k_from, k_to, a)
 stmt: ("define", v, ty, e, use_var_form) ("assign", v, e) ("opassign", v, k, op, e) ("incdec", v, k, inc)
       ("if", c, then_block, els)  els = None | ("if", ...) | block(list)
       ("for", label, init|None, cond|None, post|None, body_block) ("break", l) ("continue", l) ("print", [e])
 v = (base, k): k-th declaration (0-based, textual order) of base in the function.
 ty = kind string ("I8" ...) or "B".
"""

KINDS = ["I8", "I16", "I32", "I", "U8", "U16", "U32", "U"]
BITS = dict(I8=8, I16=16, I32=32, I=32, U8=8, U16=16, U32=32, U=32)
SIGNED = dict(I8=True, I16=True, I32=True, I=True, U8=False, U16=False, U32=False, U=False)
GO_T = dict(I8="int8", I16="int16", I32="int32", I="int", U8="uint8", U16="uint16", U32="uint32", U="uint", B="bool")
NATIVE_T = dict(GO_T, I="int32", U="uint32")
BINOPS = ["Add", "Sub", "Mul", "Quo", "Rem", "And", "Or", "Xor", "AndNot", "Shl", "Shr"]
OPSTR = dict(Add="+", Sub="-", Mul="*", Quo="/", Rem="%", And="&", Or="|", Xor="^", AndNot="&^", Shl="<<", Shr=">>")
OPPREC = dict(Add=4, Sub=4, Mul=5, Quo=5, Rem=5, And=5, Or=4, Xor=4, AndNot=5, Shl=5, Shr=5)
CMPSTR = dict(Eq="==", Ne="!=", Lt="<", Le="<=", Gt=">", Ge=">=")
BASES = ["a", "b", "c", "i", "j", "k", "n", "s", "t", "u", "v", "w", "x", "y", "z", "_q", "_r", "y", "x", "_q"]


def lo(k):
    return -(1 << (BITS[k] - 1)) if SIGNED[k] else 0


def hi(k):
    return (1 << (BITS[k] - 1)) - 1 if SIGNED[k] else (1 << BITS[k]) - 1


# ---------------------------------------------------------------- printing: Go
def prec(e):
    k = e[0]
    if k == "bin":
        return OPPREC[e[3]]
    if k == "cmp":
        return 3
    if k == "and":
        return 2
    if k == "or":
        return 1
    return 9


def go_expr(e, T, full):
    k = e[0]
    if k == "var":
        return e[1][0]
    if k == "lit":
        return str(e[2])
    if k == "bool":
        return "true" if e[1] else "false"

    def sub(c, parent_prec, right):
        s = go_expr(c, T, full)
        if c[0] in ("bin", "cmp", "and", "or"):
            if full or prec(c) < parent_prec or (prec(c) == parent_prec and right):
                return "(" + s + ")"
        if c[0] == "lit" and c[2] < 0 and right:
            return "(" + s + ")" if full else s
        return s
    if k == "bin":
        return "%s %s %s" % (sub(e[4], OPPREC[e[3]], False), OPSTR[e[3]], sub(e[5], OPPREC[e[3]], True))
    if k == "cmp":
        return "%s %s %s" % (sub(e[3], 3, False), CMPSTR[e[2]], sub(e[4], 3, True))
    if k == "and":
        return "%s && %s" % (sub(e[1], 2, False), sub(e[2], 2, True))
    if k == "or":
        return "%s || %s" % (sub(e[1], 1, False), sub(e[2], 1, True))
    if k in ("not", "neg", "cpl"):
        a = e[1] if k == "not" else e[2]
        s = go_expr(a, T, full)
        if a[0] not in ("var", "conv") or full:
            s = "(" + s + ")"
        return {"not": "!", "neg": "-", "cpl": "^"}[k] + s
    if k == "conv":
        return "%s(%s)" % (T[e[2]], go_expr(e[3], T, full))
    raise ValueError(e)


def go_simple(s, T, full):
    k = s[0]
    if k == "define":
        if s[4]:
            return "var %s %s = %s" % (s[1][0], T[s[2]], go_expr(s[3], T, full))
        rhs = go_expr(s[3], T, full)
        if s[3][0] == "lit" and T[s[2]] != "int":
            rhs = "%s(%s)" % (T[s[2]], rhs)
        return "%s := %s" % (s[1][0], rhs)
    if k == "assign":
        return "%s = %s" % (s[1][0], go_expr(s[2], T, full))
    if k == "opassign":
        return "%s %s= %s" % (s[1][0], OPSTR[s[3]], go_expr(s[4], T, full))
    if k == "incdec":
        return s[1][0] + ("++" if s[3] else "--")
    raise ValueError(s)


def go_block(b, T, full, ind, out):
    for s in b:
        go_stmt(s, T, full, ind, out)


def go_stmt(s, T, full, ind, out):
    pad = "\t" * ind
    k = s[0]
    if k in ("define", "assign", "opassign", "incdec"):
        out.append(pad + go_simple(s, T, full))
    elif k == "if":
        cur, first = s, True
        while True:
            out.append(pad + ("if " if first else "} else if ") + go_expr(cur[1], T, full) + " {")
            go_block(cur[2], T, full, ind + 1, out)
            first = False
            if cur[3] is None:
                break
            if isinstance(cur[3], tuple):
                cur = cur[3]
                continue
            out.append(pad + "} else {")
            go_block(cur[3], T, full, ind + 1, out)
            break
        out.append(pad + "}")
    elif k == "for":
        _, lbl, init, cond, post, body = s
        if lbl:
            out.append(lbl + ":")
        if init is None and post is None:
            head = "for " + (go_expr(cond, T, full) + " " if cond is not None else "")
        else:
            head = "for %s; %s; %s" % (go_simple(init, T, full) if init else "", go_expr(cond, T, full) if cond is not None else "",
                                       go_simple(post, T, full) + " " if post else "")
        out.append(pad + head + "{")
        go_block(body, T, full, ind + 1, out)
        out.append(pad + "}")
    elif k in ("break", "continue"):
        out.append(pad + k + (" " + s[1] if s[1] else ""))
    elif k == "print":
        out.append(pad + "println(%s)" % ", ".join(go_expr(e, T, full) for e in s[1]))
    else:
        raise ValueError(s)


def go_func(prog, name, native=False, full=False):
    out = ["func %s() {" % name]
    go_block(prog, NATIVE_T if native else GO_T, full, 1, out)
    out.append("}")
    return "\n".join(out) + "\n"


def go_source(prog, native=False, full=False):
    return "package main\n\n" + go_func(prog, "main", native, full)


def batch_source(funcs, native):
    """funcs: list of (name, text). One package; main runs the function selected by the first argument."""
    if native:
        head = 'package main\n\nimport "os"\n\nfunc main() {\n\tswitch os.Args[1] {\n'
    else:
        head = ('package main\n\nimport "github.com/gopherjs/gopherjs/js"\n\nfunc main() {\n'
                '\tswitch js.Global.Get("process").Get("argv").Index(2).String() {\n')
    cases = "".join('\tcase "%s":\n\t\t%s()\n' % (n, n) for n, _ in funcs)
    return head + cases + "\t}\n}\n\n" + "\n".join(t for _, t in funcs)


# ---------------------------------------------------------------- printing: Coq
def cq_name(v):
    return '(nm "%s" %d)' % (v[0], v[1])


def cq_z(z):
    return str(z) if z >= 0 else "(%d)" % z


def cq_ty(t):
    return "TB" if t == "B" else "(TI %s)" % t


def cq_bool(b):
    return "true" if b else "false"


def cq_lbl(l):
    return "None" if l is None else '(Some "%s"%%string)' % l


def cq_expr(e):
    k = e[0]
    if k == "var":
        return "(EVar %s)" % cq_name(e[1])
    if k == "lit":
        return "(ELit %s %s)" % (e[1], cq_z(e[2]))
    if k == "bool":
        return "(EBool %s)" % cq_bool(e[1])
    if k == "bin":
        return "(EBin %s %s %s %s %s)" % (cq_bool(e[1]), e[2], e[3], cq_expr(e[4]), cq_expr(e[5]))
    if k == "cmp":
        return "(ECmp %s %s %s %s)" % (cq_ty(e[1]), e[2], cq_expr(e[3]), cq_expr(e[4]))
    if k == "and":
        return "(EAnd %s %s)" % (cq_expr(e[1]), cq_expr(e[2]))
    if k == "or":
        return "(EOr %s %s)" % (cq_expr(e[1]), cq_expr(e[2]))
    if k == "not":
        return "(ENot %s)" % cq_expr(e[1])
    if k == "neg":
        return "(ENeg %s %s)" % (e[1], cq_expr(e[2]))
    if k == "cpl":
        return "(ECpl %s %s)" % (e[1], cq_expr(e[2]))
    if k == "conv":
        return "(EConv %s %s %s)" % (e[1], e[2], cq_expr(e[3]))
    raise ValueError(e)


def cq_block(b):
    r = "SSkip"
    for s in reversed(b):
        r = "(SSeq %s %s)" % (cq_stmt(s), r)
    return r


def cq_simple_or_skip(s):
    return "SSkip" if s is None else cq_stmt(s)


def cq_stmt(s):
    k = s[0]
    if k == "define":
        return "(SDefine %s %s %s)" % (cq_name(s[1]), cq_ty(s[2]), cq_expr(s[3]))
    if k == "assign":
        return "(SAssign %s %s)" % (cq_name(s[1]), cq_expr(s[2]))
    if k == "opassign":
        return "(SOpAssign %s %s %s %s)" % (cq_name(s[1]), s[2], s[3], cq_expr(s[4]))
    if k == "incdec":
        return "(SIncDec %s %s %s)" % (cq_name(s[1]), s[2], cq_bool(s[3]))
    if k == "if":
        e = s[3]
        es = "SNoElse" if e is None else (cq_stmt(e) if isinstance(e, tuple) else cq_block(e))
        return "(SIf %s %s %s)" % (cq_expr(s[1]), cq_block(s[2]), es)
    if k == "for":
        _, lbl, init, cond, post, body = s
        return "(SFor %s %s %s %s %s)" % (cq_lbl(lbl), cq_simple_or_skip(init), "None" if cond is None else "(Some %s)" % cq_expr(cond),
                                          cq_simple_or_skip(post), cq_block(body))
    if k == "break":
        return "(SBreak %s)" % cq_lbl(s[1])
    if k == "continue":
        return "(SContinue %s)" % cq_lbl(s[1])
    if k == "print":
        return "(SPrint [%s])" % "; ".join(cq_expr(e) for e in s[1])
    raise ValueError(s)


def coq_term(prog):
    return cq_block(prog)


# ---------------------------------------------------------------- generation
class Gen:
    def __init__(self, r, size=14, maxdepth=3):
        self.r = r
        self.size = size
        self.maxdepth = maxdepth
        self.decl = {}            # base -> number of declarations so far
        self.scopes = [[]]        # list of blocks; each a list of [v, ty, used, protected]
        self.nlabel = 0
        self.feat = set()

    # ---- scope handling
    def visible(self):
        seen, out = set(), []
        for sc in reversed(self.scopes):
            for ent in reversed(sc):
                if ent[0][0] not in seen:
                    seen.add(ent[0][0])
                    out.append(ent)
        return out

    def vars_of(self, ty, writable=False):
        return [e for e in self.visible() if e[1] == ty and not (writable and e[3])]

    def int_vars(self, unsigned_only=False):
        return [e for e in self.visible() if e[1] != "B" and (not unsigned_only or not SIGNED[e[1]])]

    def declare(self, base, ty, protected=False):
        k = self.decl.get(base, 0)
        self.decl[base] = k + 1
        ent = [(base, k), ty, False, protected]
        self.scopes[-1].append(ent)
        return ent

    def fresh_base(self):
        here = {e[0][0] for e in self.scopes[-1]}
        cands = [b for b in BASES if b not in here]
        if not cands:                       # pool exhausted in this scope: numbered names v1, v2, ..
            k = 1
            while "v%d" % k in here:
                k += 1
            return "v%d" % k
        return self.r.choice(cands)

    def use(self, ent):
        ent[2] = True
        return ("var", ent[0])

    # ---- literals
    def lit(self, k, nonzero=False):
        r = self.r
        c = r.random()
        if c < 0.35:
            z = r.choice([0, 1, 2, 3, 5, 7, 10, -1, -2, -3])
        elif c < 0.6:
            z = r.choice([lo(k), lo(k) + 1, hi(k), hi(k) - 1, hi(k) // 2, 127, 128, 255, 256, 32767, 65535, 65536])
        else:
            z = r.randint(lo(k), hi(k))
        if z < lo(k) or z > hi(k):
            z = r.randint(lo(k), hi(k))
        if nonzero and z == 0:
            z = 1
        return ("lit", k, z)

    # ---- expressions; returns an expr that CONTAINS a variable when need_var
    def int_expr(self, k, d, need_var=True):
        r = self.r
        vs = self.vars_of(k)
        if d <= 0 or r.random() < 0.25:
            if vs and (need_var or r.random() < 0.7):
                return self.use(r.choice(vs))
            if not need_var:
                return self.lit(k)
            # conversion from a variable of another integer kind
            src = r.choice(self.int_vars())
            self.feat.add("conv")
            return ("conv", src[1], k, self.use(src))
        c = r.random()
        if c < 0.62:
            op = r.choice(BINOPS)
            self.feat.add("op-" + op + ("-s" if SIGNED[k] else "-u") + str(BITS[k]))
            if op in ("Shl", "Shr"):
                a = self.int_expr(k, d - 1, True)
                q = r.random()
                if q < 0.45:
                    cnt = r.choice([0, 1, 2, 3, 4, 7, 8, 15, 16, 24, 31]) if r.random() < 0.93 else r.choice([32, 33, 40, 64])
                    self.feat.add("shift-const" + ("-ge32" if cnt >= 32 else ""))
                    b = ("lit", "U", cnt)
                else:
                    uv = self.int_vars(unsigned_only=True)
                    if uv and r.random() < 0.6:
                        b = self.use(r.choice(uv))
                    else:
                        ku = r.choice(["U8", "U16", "U32", "U"])
                        b = self.int_expr(ku, d - 1, True)
                        if r.random() < 0.5:
                            b = ("bin", False, ku, "And", b, ("lit", ku, r.choice([7, 15, 31, 63])))
                    self.feat.add("shift-var")
                return ("bin", False, k, op, a, b)
            if op in ("Quo", "Rem"):
                a = self.int_expr(k, d - 1, r.random() < 0.8)
                q = r.random()
                if q < 0.55 and a[0] != "lit":
                    b = self.lit(k, nonzero=True)
                    if b[2] == 0:
                        b = ("lit", k, 1)
                elif q < 0.85:
                    b = ("bin", False, k, "Or", self.int_expr(k, d - 1, True), ("lit", k, 1))
                else:
                    b = self.int_expr(k, d - 1, True)
                    self.feat.add("div-may-panic")
                return ("bin", False, k, op, a, b)
            va = r.random() < 0.8
            a = self.int_expr(k, d - 1, va)
            b = self.int_expr(k, d - 1, (not va) or a[0] == "lit" or r.random() < 0.6)
            if a[0] == "lit" and b[0] == "lit":
                b = self.int_expr(k, 0, True)
            return ("bin", False, k, op, a, b)
        if c < 0.72:
            self.feat.add("neg")
            return ("neg", k, self.int_expr(k, d - 1, True))
        if c < 0.82:
            self.feat.add("cpl")
            return ("cpl", k, self.int_expr(k, d - 1, True))
        k2 = r.choice(KINDS)
        self.feat.add("conv")
        return ("conv", k2, k, self.int_expr(k2, d - 1, True))

    def bool_expr(self, d, need_var=True):
        r = self.r
        vs = self.vars_of("B")
        c = r.random()
        if d <= 0 or c < 0.15:
            if vs and r.random() < 0.6:
                return self.use(r.choice(vs))
            k = r.choice(self.int_vars())[1]
            return ("cmp", k, r.choice(list(CMPSTR)), self.int_expr(k, 0, True), self.int_expr(k, 0, r.random() < 0.5))
        if c < 0.6:
            k = r.choice(KINDS) if r.random() < 0.3 else r.choice(self.int_vars())[1]
            self.feat.add("cmp")
            return ("cmp", k, r.choice(list(CMPSTR)), self.int_expr(k, d - 1, True), self.int_expr(k, d - 1, r.random() < 0.6))
        if c < 0.75:
            self.feat.add("andor")
            a = self.bool_expr(d - 1)
            b = self.bool_expr(d - 1) if r.random() < 0.85 else ("bool", r.random() < 0.5)
            return (r.choice(["and", "or"]), a, b)
        if c < 0.87:
            return ("not", self.bool_expr(d - 1))
        self.feat.add("cmp-bool")
        return ("cmp", "B", r.choice(["Eq", "Ne"]), self.bool_expr(d - 1), self.bool_expr(d - 1))

    def expr_of(self, ty, d, need_var=True):
        return self.bool_expr(d, need_var) if ty == "B" else self.int_expr(ty, d, need_var)

    # ---- statements
    def gen_define(self, out):
        r = self.r
        ty = r.choice(KINDS + ["B"]) if r.random() < 0.9 else "B"
        if r.random() < 0.35 or not self.int_vars():
            e = ("bool", r.random() < 0.5) if ty == "B" else self.lit(ty)
            form = True
        else:
            e = self.expr_of(ty, r.randint(0, 3))
            form = r.random() < 0.3 or e[0] in ("lit", "bool")
        ent = self.declare(self.fresh_base(), ty)
        if len(self.scopes) > 1 and ent[0][1] > 0:
            self.feat.add("shadow-or-redeclare")
        out.append(("define", ent[0], ty, e, form))

    def gen_assign(self, out):
        r = self.r
        ws = [e for e in self.visible() if not e[3]]
        if not ws:
            return self.gen_define(out)
        ent = r.choice(ws)
        ty = ent[1]
        c = r.random()
        if ty != "B" and c < 0.3:
            op = r.choice(BINOPS)
            self.feat.add("opassign-" + op)
            if op in ("Shl", "Shr"):
                if r.random() < 0.5:
                    e = ("lit", "U", r.choice([0, 1, 3, 8, 31, 33]))
                else:
                    e = self.int_expr(r.choice(["U8", "U", "U16", "U32"]), 1, True)
            elif op in ("Quo", "Rem"):
                e = self.lit(ty, nonzero=True) if r.random() < 0.7 else self.int_expr(ty, 1, True)
            else:
                e = self.int_expr(ty, r.randint(0, 2), r.random() < 0.7)
            out.append(("opassign", ent[0], ty, op, e))
        elif ty != "B" and c < 0.42:
            self.feat.add("incdec")
            out.append(("incdec", ent[0], ty, r.random() < 0.5))
        else:
            e = self.expr_of(ty, r.randint(0, 3), r.random() < 0.9)
            out.append(("assign", ent[0], e))

    def gen_print(self, out):
        r = self.r
        es = []
        for _ in range(r.randint(1, 3)):
            ent = r.choice(self.visible())
            es.append(self.use(ent) if r.random() < 0.7 else self.expr_of(ent[1], 2, True))
        out.append(("print", es))

    def close_scope(self, out):
        sc = self.scopes.pop()
        unused = [e for e in sc if not e[2]]
        if unused:
            out.append(("print", [("var", e[0]) for e in unused]))

    def gen_block(self, n, depth, loops, tail_branch_ok=True):
        """generates a block in a NEW scope; loops = list of (label_cell) for enclosing loops"""
        self.scopes.append([])
        out = []
        self.gen_stmts(out, n, depth, loops)
        r = self.r
        if loops and tail_branch_ok and r.random() < 0.12:
            out.append(self.gen_branch(loops))
            self.feat.add("trailing-branch")
            # variables of this scope that are unused must be printed BEFORE the branch
            br = out.pop()
            self.close_scope(out)
            out.append(br)
            return out
        self.close_scope(out)
        return out

    def gen_branch(self, loops):
        r = self.r
        kind = r.choice(["break", "continue"])
        if len(loops) > 1 and r.random() < 0.5:
            cell = r.choice(loops[:-1]) if r.random() < 0.8 else loops[-1]
            if cell[0] is None:
                self.nlabel += 1
                cell[0] = "L%d" % self.nlabel
            self.feat.add(kind + "-labelled")
            return (kind, cell[0])
        if r.random() < 0.15:
            cell = loops[-1]
            if cell[0] is None:
                self.nlabel += 1
                cell[0] = "L%d" % self.nlabel
            self.feat.add(kind + "-labelled")
            return (kind, cell[0])
        self.feat.add(kind)
        return (kind, None)

    def gen_if(self, out, depth, loops):
        r = self.r
        c = self.bool_expr(r.randint(0, 2))
        t = self.gen_block(r.randint(0, 3), depth + 1, loops)
        node = ["if", c, t, None]
        cur = node
        nel = 0
        while r.random() < 0.4 and nel < 3:
            nel += 1
            self.feat.add("else-if")
            c2 = self.bool_expr(r.randint(0, 2))
            t2 = self.gen_block(r.randint(0, 3), depth + 1, loops)
            nxt = ["if", c2, t2, None]
            cur[3] = nxt
            cur = nxt
        if r.random() < 0.5:
            self.feat.add("else")
            cur[3] = self.gen_block(r.randint(0, 3), depth + 1, loops)

        def freeze(n):
            e = n[3]
            if isinstance(e, list) and e and e[0] == "if":
                e = freeze(e)
            return ("if", n[1], n[2], e)
        out.append(freeze(node))

    def gen_for(self, out, depth, loops):
        r = self.r
        form = r.choice(["A", "A", "A2", "B", "C", "D"])
        self.feat.add("for-" + form)
        cell = [None]
        kk = r.choice(KINDS)
        n = r.randint(0, 5)
        base = self.fresh_base()
        if form in ("A", "A2", "D"):
            start = ("lit", kk, n if form == "A2" else 0)
            outside = r.random() < 0.3
            if outside:
                ent = self.declare(base, kk, protected=True)
                out.append(("define", ent[0], kk, start, True))
                self.scopes.append([])
                init = None if r.random() < 0.5 else ("assign", ent[0], start)
            else:
                self.scopes.append([])
                ent = self.declare(base, kk, protected=True)
                init = ("define", ent[0], kk, start, False)
            ent[2] = True
            v = ("var", ent[0])
            pre = []
            if form == "A":
                cond = ("cmp", kk, "Lt", v, ("lit", kk, n))
                post = ("incdec", ent[0], kk, True) if r.random() < 0.6 else ("opassign", ent[0], kk, "Add", ("lit", kk, r.choice([1, 2])))
            elif form == "A2":
                cond = ("cmp", kk, "Gt", v, ("lit", kk, 0))
                post = ("incdec", ent[0], kk, False) if r.random() < 0.6 else ("assign", ent[0], ("bin", False, kk, "Quo", v, ("lit", kk, 2)))
            else:
                cond = None
                post = ("incdec", ent[0], kk, True)
                pre = [("if", ("cmp", kk, "Ge", v, ("lit", kk, n)), [("break", None)], None)]
        else:
            ent = self.declare(base, kk, protected=True)
            ent[2] = True
            v = ("var", ent[0])
            init, post = None, None
            self.scopes.append([])
            if form == "B":
                out.append(("define", ent[0], kk, ("lit", kk, n), True))
                cond = ("cmp", kk, "Gt", v, ("lit", kk, 0))
                pre = [("incdec", ent[0], kk, False)]
            else:
                out.append(("define", ent[0], kk, ("lit", kk, 0), True))
                cond = None
                pre = [("incdec", ent[0], kk, True), ("if", ("cmp", kk, "Gt", v, ("lit", kk, n)), [("break", None)], None)]
        body = pre + self.gen_block(r.randint(1, 4), depth + 1, loops + [cell])
        tmp = []
        self.close_scope(tmp)
        out.append(("for", cell[0], init, cond, post, body))
        out.extend(tmp)

    def ensure_int_var(self):
        return self.r.choice(self.int_vars())

    def gen_stmts(self, out, n, depth, loops):
        r = self.r
        for _ in range(n):
            c = r.random()
            if not self.int_vars() or c < 0.22:
                self.gen_define(out)
            elif c < 0.5:
                self.gen_assign(out)
            elif c < 0.62:
                self.gen_print(out)
            elif c < 0.8 and depth < self.maxdepth:
                self.gen_if(out, depth, loops)
            elif c < 0.93 and depth < self.maxdepth:
                self.gen_for(out, depth, loops)
            elif loops:
                b = self.gen_branch(loops)
                cnd = self.bool_expr(1)
                out.append(("if", cnd, [b], None))
            else:
                self.gen_print(out)

    def program(self):
        out = []
        for _ in range(self.r.randint(2, 4)):
            self.gen_define(out)
        self.gen_stmts(out, self.size, 0, [])
        # print everything visible at the end (also marks every top-level variable used)
        vis = self.scopes[0]
        for i in range(0, len(vis), 4):
            out.append(("print", [("var", e[0]) for e in vis[i:i + 4] if self.visible_is(e)]))
        out = [s for s in out if not (s[0] == "print" and not s[1])]
        return out

    def visible_is(self, ent):
        return any(e is ent for e in self.visible())


def _is_ifnode(e):
    return isinstance(e, list) and len(e) == 4 and e[0] == "if"


def generate(r, size=14):
    g = Gen(r, size=size)
    prog = g.program()
    return prog, sorted(g.feat)
