"""C01 stage 2 — generator of well-formed multi-function MiniGo programs drawn from the model's AST
(coq/Model/C01_S2_GoSem.v), printed both as Go source and as a Coq term of type prog2.

program = dict(funcs=[fn, ...], main=name)      fn = dict(name, params=[(v, ty)], ret=ty|None, body=block2)
block2  = [stmt2]
stmt2   = ("base", s)                 s: one stage-1 statement of c01_gen (no call, no return)
        | ("call", dst, fname, [e])   dst = None | (v, None)  [v = f(..)] | (v, ty)  [v := f(..)]
        | ("if2", c, then_block2, else_block2|None)
        | ("for2", init|None, c, post|None, body_block2)
        | ("ret", e|None)
v = (base, k): k-th declaration of base in THAT function, textual order, parameters first.
if2/for2 always contain a call or a return somewhere inside (otherwise they are stage-1 statements).
"""
import c01_gen as G

PARAM_BASES = ["a", "b", "c", "n", "x", "y", "_q", "_r", "s", "t", "u", "w"]


# ---------------------------------------------------------------- helpers
def stmt_has_cr(s):
    k = s[0]
    if k in ("call", "ret"):
        return True
    if k == "if2":
        return block_has_cr(s[2]) or (s[3] is not None and block_has_cr(s[3]))
    if k == "for2":
        return block_has_cr(s[4])
    return False


def block_has_cr(b):
    return any(stmt_has_cr(s) for s in b)


def calls_of(b, acc):
    for s in b:
        if s[0] == "call":
            acc.add(s[2])
        elif s[0] == "if2":
            calls_of(s[2], acc)
            calls_of(s[3] or [], acc)
        elif s[0] == "for2":
            calls_of(s[4], acc)
    return acc


def reachable(main, bodies):
    seen, todo = set(), [main]
    while todo:
        f = todo.pop()
        if f in seen or f not in bodies:
            continue
        seen.add(f)
        todo.extend(calls_of(bodies[f], set()))
    return seen


# ---------------------------------------------------------------- printing: Go
def go_call(s, T, full):
    return "%s(%s)" % (s[2], ", ".join(G.go_expr(a, T, full) for a in s[3]))


def go_block2(b, T, full, ind, out):
    for s in b:
        go_stmt2(s, T, full, ind, out)


def go_stmt2(s, T, full, ind, out):
    pad = "\t" * ind
    k = s[0]
    if k == "base":
        G.go_stmt(s[1], T, full, ind, out)
    elif k == "call":
        c = go_call(s, T, full)
        dst = s[1]
        if dst is None:
            out.append(pad + c)
        elif dst[1] is None:
            out.append(pad + "%s = %s" % (dst[0][0], c))
        else:
            out.append(pad + "%s := %s" % (dst[0][0], c))
    elif k == "if2":
        out.append(pad + "if " + G.go_expr(s[1], T, full) + " {")
        go_block2(s[2], T, full, ind + 1, out)
        if s[3] is not None:
            out.append(pad + "} else {")          # never `else if`
            go_block2(s[3], T, full, ind + 1, out)
        out.append(pad + "}")
    elif k == "for2":
        _, init, cond, post, body = s
        if init is None and post is None:
            head = "for " + G.go_expr(cond, T, full) + " "
        else:
            head = "for %s; %s; %s" % (G.go_simple(init, T, full) if init else "", G.go_expr(cond, T, full),
                                       G.go_simple(post, T, full) + " " if post else "")
        out.append(pad + head + "{")
        go_block2(body, T, full, ind + 1, out)
        out.append(pad + "}")
    elif k == "ret":
        out.append(pad + ("return" if s[1] is None else "return " + G.go_expr(s[1], T, full)))
    else:
        raise ValueError(s)


def go_fn(fn, native=False, full=False):
    T = G.NATIVE_T if native else G.GO_T
    ps = ", ".join("%s %s" % (v[0], T[ty]) for v, ty in fn["params"])
    out = ["func %s(%s)%s {" % (fn["name"], ps, "" if fn["ret"] is None else " " + T[fn["ret"]])]
    go_block2(fn["body"], T, full, 1, out)
    out.append("}")
    return "\n".join(out) + "\n"


def go_funcs(prog, native=False, full=False):
    """text of ALL functions of the program (no package clause)"""
    return "\n".join(go_fn(f, native, full) for f in prog["funcs"])


def go_source(prog, native=False, full=False):
    return "package main\n\n" + go_funcs(prog, native, full) + "\nfunc main() {\n\t%s()\n}\n" % prog["main"]


# ---------------------------------------------------------------- printing: Coq
def cq_str(s):
    return '"%s"%%string' % s


def cq_block2(b):
    r = "TSkip"
    for s in reversed(b):
        r = "(TSeq %s %s)" % (cq_stmt2(s), r)
    return r


def cq_stmt2(s):
    k = s[0]
    if k == "base":
        return "(TBase %s)" % G.cq_stmt(s[1])
    if k == "call":
        dst = s[1]
        if dst is None:
            d = "None"
        elif dst[1] is None:
            d = "(Some (%s, None))" % G.cq_name(dst[0])
        else:
            d = "(Some (%s, Some %s))" % (G.cq_name(dst[0]), G.cq_ty(dst[1]))
        return "(TCall %s %s [%s])" % (d, cq_str(s[2]), "; ".join(G.cq_expr(a) for a in s[3]))
    if k == "if2":
        return "(TIf %s %s %s)" % (G.cq_expr(s[1]), cq_block2(s[2]), "TSkip" if s[3] is None else cq_block2(s[3]))
    if k == "for2":
        _, init, cond, post, body = s
        return "(TFor %s %s %s %s)" % (G.cq_simple_or_skip(init), G.cq_expr(cond), G.cq_simple_or_skip(post), cq_block2(body))
    if k == "ret":
        return "(TReturn None)" if s[1] is None else "(TReturn (Some %s))" % G.cq_expr(s[1])
    raise ValueError(s)


def cq_fdef(fn):
    return "{| f_params := [%s]; f_ret := %s; f_body := %s |}" % (
        "; ".join("(%s, %s)" % (G.cq_name(v), G.cq_ty(ty)) for v, ty in fn["params"]),
        "None" if fn["ret"] is None else "(Some %s)" % G.cq_ty(fn["ret"]), cq_block2(fn["body"]))


def coq_term(prog):
    return "{| p_funcs := [%s]; p_main := %s |}" % (
        ";\n  ".join("(%s, %s)" % (cq_str(f["name"]), cq_fdef(f)) for f in prog["funcs"]), cq_str(prog["main"]))


# ---------------------------------------------------------------- generation
def main_name(idx):
    return "s2p%d" % idx


def helper_name(idx, j):
    return "s2p%dh%d" % (idx, j)


class FnGen:
    """generates the body of one function; drives one c01_gen.Gen for scopes, identities and stage-1 parts"""

    def __init__(self, r, sig, callable_, feat, bodies=None):
        self.bodies = bodies or {}
        self.r = r
        self.sig = sig
        self.callable = callable_          # signatures of functions this one may call (not itself)
        self.g = G.Gen(r, size=0, maxdepth=3)
        self.feat = feat

    def wrap(self, out, tmp):
        out.extend(("base", s) for s in tmp if not (s[0] == "print" and not s[1]))

    # ---- arguments / calls
    def small_arg(self, k):
        vs = self.g.vars_of(k)
        if vs and self.r.random() < 0.5:
            return ("bin", False, k, "And", self.g.use(self.r.choice(vs)), ("lit", k, 7))
        return ("lit", k, self.r.randint(0, 9))

    def small_or_var(self, k):
        """an expression of kind k using only parameters (valid anywhere in the function body)"""
        ps = [v for v, ty in self.sig["params"] if ty == k]
        if len(ps) > 1 or (ps and self.r.random() < 0.5):
            return ("var", self.r.choice(ps))
        return ("lit", k, self.r.choice([1, 7, 100]))

    def arg(self, ty):
        r, g = self.r, self.g
        if r.random() < 0.3:
            if ty == "B":
                return ("bool", r.random() < 0.5)
            if r.random() < 0.5:
                return ("lit", ty, r.choice([0, 0, 1, 2, 3, 5, 7]))
            return g.lit(ty)
        return g.expr_of(ty, r.randint(0, 2), True)

    def args_for(self, callee, first=None):
        out = []
        for i, (v, ty) in enumerate(callee["params"]):
            if i == 0 and first is not None:
                out.append(first)
            elif i == 0 and callee.get("rec"):
                out.append(self.small_arg(ty))
            else:
                out.append(self.arg(ty))
        return out

    def gen_call(self, out, callee=None, first=None, allow_define=True):
        r, g = self.r, self.g
        callee = callee or r.choice(self.callable)
        args = self.args_for(callee, first)
        rt = callee["ret"]
        c = r.random()
        if rt is None or c < 0.2:
            out.append(("call", None, callee["name"], args))
            self.feat.add("call-stmt" if rt is None else "call-result-discarded")
            return
        ws = g.vars_of(rt, writable=True)
        if ws and (c < 0.55 or not allow_define):
            ent = r.choice(ws)
            out.append(("call", (ent[0], None), callee["name"], args))
            self.feat.add("call-assign")
            return
        if not allow_define:
            out.append(("call", None, callee["name"], args))
            return
        ent = g.declare(g.fresh_base(), rt)
        out.append(("call", (ent[0], rt), callee["name"], args))
        self.feat.add("call-define")
        if r.random() < 0.5:
            out.append(("base", ("print", [g.use(ent)])))

    def gen_ret(self):
        r, g = self.r, self.g
        rt = self.sig["ret"]
        self.feat.add("return")
        if rt is None:
            return ("ret", None)
        if r.random() < 0.25:
            return ("ret", ("bool", r.random() < 0.5) if rt == "B" else g.lit(rt))
        return ("ret", g.expr_of(rt, r.randint(0, 2), True))

    # ---- blocks
    def block2(self, n, depth, ret_ok, need_cr, in_loop=False):
        r, g = self.r, self.g
        g.scopes.append([])
        out = []
        self.stmts(out, n, depth, in_loop)
        tail = None
        if ret_ok and r.random() < 0.3:
            tail = self.gen_ret()
        if need_cr and tail is None and not block_has_cr(out):
            if self.callable and r.random() < 0.7:
                self.gen_call(out)
            elif ret_ok:
                tail = self.gen_ret()
            else:
                c = g.bool_expr(1)
                out.append(("if2", c, [self.gen_ret()], None))
                self.feat.add("return-in-loop")
        tmp = []
        g.close_scope(tmp)
        self.wrap(out, tmp)
        if tail is not None:
            out.append(tail)
        return out

    def gen_if2(self, out, depth, in_loop):
        r, g = self.r, self.g
        c = g.bool_expr(r.randint(0, 2))
        t = self.block2(r.randint(0, 3), depth + 1, True, True)
        e = None
        if r.random() < 0.45:
            e = self.block2(r.randint(1, 3), depth + 1, True, False)
            if not e:
                e = None
            else:
                self.feat.add("if2-else")
            if e and len(e) == 1 and e[0][0] == "if2":
                self.feat.add("if2-else-block-with-if")
        self.feat.add("if2")
        if in_loop and block_has_cr([s for s in t if s[0] == "ret"] + [s for s in (e or []) if s[0] == "ret"]):
            self.feat.add("return-in-loop")
        out.append(("if2", c, t, e))

    def gen_for2(self, out, depth):
        r, g = self.r, self.g
        kk = r.choice(G.KINDS)
        K = r.randint(1, 5)
        base = g.fresh_base()
        g.scopes.append([])
        ent = g.declare(base, kk, protected=True)
        ent[2] = True
        v = ("var", ent[0])
        init = ("define", ent[0], kk, ("lit", kk, 0), False)
        cond = ("cmp", kk, "Lt", v, ("lit", kk, K))
        post = ("incdec", ent[0], kk, True) if r.random() < 0.7 else ("opassign", ent[0], kk, "Add", ("lit", kk, r.choice([1, 2])))
        body = self.block2(r.randint(1, 3), depth + 1, False, True, in_loop=True)
        tmp = []
        g.close_scope(tmp)
        self.feat.add("for2")
        out.append(("for2", init, cond, post, body))
        self.wrap(out, tmp)

    def stmts(self, out, n, depth, in_loop=False):
        r, g = self.r, self.g
        for _ in range(n):
            c = r.random()
            if c < 0.35:
                tmp = []
                g.gen_stmts(tmp, 1, depth + 1, [])
                self.wrap(out, tmp)
            elif c < 0.62 and self.callable:
                self.gen_call(out)
            elif c < 0.78 and depth < 2:
                self.gen_if2(out, depth, in_loop)
            elif c < 0.9 and depth < 2:
                self.gen_for2(out, depth)
            else:
                tmp = []
                g.gen_print(tmp)
                self.wrap(out, tmp)

    # ---- a whole function
    def function(self, is_main):
        r, g, sig = self.r, self.g, self.sig
        body = []
        for i, (v, ty) in enumerate(sig["params"]):
            ent = g.declare(v[0], ty, protected=(i == 0 and sig.get("rec")))
            assert ent[0] == v
            ent[2] = True
        if not g.int_vars():
            k = r.choice(G.KINDS)
            ent = g.declare(g.fresh_base(), k)
            body.append(("base", ("define", ent[0], k, g.lit(k), True)))
        if is_main:
            for _ in range(r.randint(1, 3)):
                tmp = []
                g.gen_define(tmp)
                self.wrap(body, tmp)
        n = r.randint(2, 5) if not is_main else r.randint(4, 8)
        self.div_by = None
        ips = [(v, ty) for i, (v, ty) in enumerate(sig["params"]) if ty != "B" and not (i == 0 and sig.get("rec"))]
        if ips and r.random() < 0.4:
            self.div_by = r.choice(ips)       # division by a parameter that may be zero: panic inside the callee
        if sig.get("rec"):
            self.feat.add("recursion")
            pv, k = sig["params"][0]
            nv = ("var", pv)
            cond = ("cmp", k, "Le", nv, ("lit", k, 0)) if G.SIGNED[k] else ("cmp", k, "Eq", nv, ("lit", k, 0))
            tb = []
            if r.random() < 0.5:
                tb.append(("base", ("print", [nv])))
            tb.append(self.gen_ret())
            body.append(("if2", cond, tb, None))
            self.stmts(body, n // 2, 0)
            if not G.SIGNED[k] and r.random() < 0.5:
                first = ("bin", False, k, "Quo", nv, ("lit", k, 2))
            else:
                first = ("bin", False, k, "Sub", nv, ("lit", k, 1))
            self.gen_call(body, callee=sig, first=first)
            self.stmts(body, n - n // 2, 0)
        else:
            self.stmts(body, n, 0)
        if is_main:
            # functions that nothing reachable calls are dropped by the compiler's dead code elimination: call most of them here
            reach = reachable(self.sig["name"], dict(self.bodies, **{self.sig["name"]: body}))
            for sg in self.callable:
                if sg["name"] not in reach and r.random() < 0.8:
                    self.gen_call(body, callee=sg)
        if is_main and not block_has_cr(body):
            self.gen_call(body)
        if self.div_by is not None:
            pv, k = self.div_by
            self.feat.add("div-by-param")
            body.insert(r.randint(1, len(body)) if body else 0,
                        ("base", ("print", [("bin", False, k, r.choice(["Quo", "Rem"]), self.small_or_var(k), ("var", pv))])))
        # unused top-level variables are printed; then the final return
        unused = [e for e in g.scopes[0] if not e[2]]
        for i in range(0, len(unused), 4):
            body.append(("base", ("print", [("var", e[0]) for e in unused[i:i + 4]])))
            for e in unused[i:i + 4]:
                e[2] = True
        if is_main and r.random() < 0.7:
            vis = [e for e in g.scopes[0]]
            if vis:
                body.append(("base", ("print", [("var", e[0]) for e in vis[:4]])))
        if sig["ret"] is not None:
            body.append(self.gen_ret())
        elif r.random() < 0.15:
            body.append(("ret", None))
        return dict(name=sig["name"], params=sig["params"], ret=sig["ret"], body=body)


def generate(r, idx):
    """one stage-2 program whose main function is s2p<idx>; returns (prog, features)"""
    feat = set()
    nh = r.randint(1, 3)
    sigs = []
    for j in range(nh):
        npar = r.choice([0, 1, 1, 2, 2, 3])
        rec = r.random() < 0.35
        if rec and npar == 0:
            npar = 1
        bases = r.sample(PARAM_BASES, npar)
        params = []
        for i, b in enumerate(bases):
            ty = r.choice(G.KINDS) if (i == 0 and rec) or r.random() < 0.8 else "B"
            params.append(((b, 0), ty))
        c = r.random()
        ret = r.choice(G.KINDS) if c < 0.7 else ("B" if c < 0.85 else None)
        sigs.append(dict(name=helper_name(idx, j), params=params, ret=ret, rec=rec))
    funcs = []
    for j, sg in enumerate(sigs):
        fg = FnGen(r, sg, sigs[:j], feat)
        funcs.append(fg.function(False))
        feat |= {"s1-" + x for x in fg.g.feat if x.startswith(("for-", "else", "div-may", "shadow", "break", "continue"))}
    msig = dict(name=main_name(idx), params=[], ret=None, rec=False)
    fg = FnGen(r, msig, sigs, feat, {f["name"]: f["body"] for f in funcs})
    funcs.append(fg.function(True))
    reach = reachable(msig["name"], {f["name"]: f["body"] for f in funcs})
    funcs = [f for f in funcs if f["name"] in reach]      # unreachable functions are not emitted at all
    feat.add("helpers-%d" % nh)
    return dict(funcs=funcs, main=msig["name"]), sorted(feat)


# ---------------------------------------------------------------- directed programs
def V(b, k=0):
    return ("var", (b, k))


def L(k, z):
    return ("lit", k, z)


def P(*es):
    return ("base", ("print", list(es)))


def directed(idx0):
    """hand-written programs; program number i uses the names s2p<idx0+i>, s2p<idx0+i>h<j>"""
    out = []

    def add(label, build):
        idx = idx0 + len(out)
        M, H = main_name(idx), (lambda j: helper_name(idx, j))
        funcs = build(M, H)
        out.append((label, dict(funcs=funcs, main=M)))

    # 1. fib-like double recursion, v := f(..), v = f(..) in a loop
    def fib(M, H):
        f = dict(name=H(0), params=[(("n", 0), "I")], ret="I", body=[
            ("if2", ("cmp", "I", "Lt", V("n"), L("I", 2)), [("ret", V("n"))], None),
            ("call", (("x", 0), "I"), H(0), [("bin", False, "I", "Sub", V("n"), L("I", 1))]),
            ("call", (("y", 0), "I"), H(0), [("bin", False, "I", "Sub", V("n"), L("I", 2))]),
            ("ret", ("bin", False, "I", "Add", V("x"), V("y")))])
        m = dict(name=M, params=[], ret=None, body=[
            ("base", ("define", ("a", 0), "I", L("I", 7), True)),
            ("call", (("r", 0), "I"), H(0), [V("a")]), P(V("r")),
            ("for2", ("define", ("i", 0), "I", L("I", 0), False), ("cmp", "I", "Lt", V("i"), L("I", 4)), ("incdec", ("i", 0), "I", True),
             [("call", (("r", 0), None), H(0), [V("i")]), P(V("r"), V("i"))]),
            ("call", None, H(0), [L("I", 3)])])
        return [f, m]
    add("s2-fib", fib)

    # 2. a callee that panics with division by zero after printing; result discarded
    def pan(M, H):
        f = dict(name=H(0), params=[(("a", 0), "I8"), (("d", 0), "I8")], ret="I8", body=[
            P(V("a"), V("d")),
            ("base", ("define", ("q", 0), "I8", ("bin", False, "I8", "Quo", V("a"), V("d")), False)),
            P(V("q")), ("ret", V("q"))])
        m = dict(name=M, params=[], ret=None, body=[
            ("base", ("define", ("x", 0), "I8", L("I8", 100), True)),
            ("call", (("r", 0), "I8"), H(0), [V("x"), L("I8", 5)]), P(V("r")),
            ("call", None, H(0), [V("x"), L("I8", -3)]),
            ("call", (("r", 0), None), H(0), [("bin", False, "I8", "Add", V("x"), V("r")), L("I8", 0)]),
            P(V("r"))])
        return [f, m]
    add("s2-callee-panics", pan)

    # 3. return from inside a for2 loop nested in an if2; result-less function with return in the middle
    def retloop(M, H):
        show = dict(name=H(0), params=[(("x", 0), "U8"), (("f", 0), "B")], ret=None, body=[
            ("if2", V("f"), [P(V("x")), ("ret", None)], None),
            P(V("x"), V("f"))])
        f = dict(name=H(1), params=[(("n", 0), "U8"), (("lim", 0), "U8")], ret="U8", body=[
            ("base", ("define", ("s", 0), "U8", V("n"), False)),
            ("if2", ("cmp", "U8", "Gt", V("n"), L("U8", 2)),
             [("for2", ("define", ("i", 0), "U8", L("U8", 0), False), ("cmp", "U8", "Lt", V("i"), V("n")), ("incdec", ("i", 0), "U8", True),
               [("base", ("opassign", ("s", 0), "U8", "Add", V("i"))),
                ("call", None, H(0), [V("s"), ("cmp", "U8", "Eq", V("i"), L("U8", 1))]),
                ("if2", ("cmp", "U8", "Gt", V("s"), V("lim")), [P(V("s")), ("ret", V("s"))], None),
                ("base", ("opassign", ("s", 0), "U8", "Mul", L("U8", 3)))])],
             [("ret", L("U8", 200))]),
            ("ret", ("bin", False, "U8", "Add", V("s"), L("U8", 1)))])
        m = dict(name=M, params=[], ret=None, body=[
            ("base", ("define", ("a", 0), "U8", L("U8", 5), True)),
            ("call", (("r", 0), "U8"), H(1), [V("a"), L("U8", 40)]), P(V("r")),
            ("call", (("r", 0), None), H(1), [V("a"), L("U8", 255)]), P(V("r")),
            ("call", (("r", 0), None), H(1), [L("U8", 1), V("a")]), P(V("r"), V("a"))])
        return [show, f, m]
    add("s2-return-in-loop", retloop)

    # 4. parameters named like the temporaries, shadowed by locals
    def temps(M, H):
        f = dict(name=H(0), params=[(("_q", 0), "I"), (("_r", 0), "I"), (("x", 0), "U8"), (("y", 0), "U")], ret="I", body=[
            ("base", ("define", ("z", 0), "I", ("bin", False, "I", "Quo", V("_q"), V("_r")), False)),
            ("base", ("define", ("w", 0), "I", ("bin", False, "I", "Rem", V("_q"), V("_r")), False)),
            ("base", ("define", ("t", 0), "I", ("bin", False, "I", "Shl", V("_q"), V("y")), False)),
            ("base", ("if", ("cmp", "I", "Gt", V("z"), L("I", 0)),
                      [("define", ("x", 1), "I", ("bin", False, "I", "Mul", V("z"), L("I", 2)), False), ("print", [V("x", 1)]),
                       ("define", ("_q", 1), "I", ("bin", False, "I", "Quo", V("x", 1), V("_r")), False), ("print", [V("_q", 1)])], None)),
            P(V("z"), V("w"), V("t"), V("x")),
            ("if2", ("cmp", "U8", "Gt", V("x"), L("U8", 2)),
             [("call", (("y", 1), "I"), H(0), [V("_r"), V("_q"), ("bin", False, "U8", "Shr", V("x"), V("y")), V("y")]),
              ("ret", ("bin", False, "I", "Rem", V("y", 1), V("_r")))], None),
            ("ret", ("bin", False, "I", "Add", V("z"), V("w")))])
        m = dict(name=M, params=[], ret=None, body=[
            ("base", ("define", ("a", 0), "I", L("I", 17), True)), ("base", ("define", ("b", 0), "I", L("I", 5), True)),
            ("call", (("r", 0), "I"), H(0), [V("a"), V("b"), L("U8", 3), L("U", 2)]), P(V("r")),
            ("call", (("r", 0), None), H(0), [V("a"), V("b"), L("U8", 1), L("U", 33)]), P(V("r")),
            ("call", (("r", 0), None), H(0), [V("a"), L("I", 0), L("U8", 1), L("U", 1)]), P(V("r"))])
        return [f, m]
    add("s2-temp-named-params", temps)

    # 5. bool parameters and results
    def bools(M, H):
        f = dict(name=H(0), params=[(("a", 0), "B"), (("b", 0), "B"), (("n", 0), "I8")], ret="B", body=[
            ("if2", ("and", V("a"), V("b")), [("ret", ("cmp", "I8", "Gt", V("n"), L("I8", 3)))], None),
            P(V("a"), V("b"), V("n")),
            ("ret", ("or", ("not", V("a")), ("cmp", "I8", "Lt", V("n"), L("I8", 0))))])
        m = dict(name=M, params=[], ret=None, body=[
            ("base", ("define", ("p", 0), "B", ("bool", True), True)), ("base", ("define", ("k", 0), "I8", L("I8", 5), True)),
            ("call", (("q", 0), "B"), H(0), [V("p"), ("cmp", "I8", "Gt", V("k"), L("I8", 2)), V("k")]), P(V("q")),
            ("call", (("q", 0), None), H(0), [("bool", False), V("p"), L("I8", -3)]), P(V("q")),
            ("if2", V("q"), [("call", None, H(0), [V("p"), ("not", V("q")), V("k")])], [("call", (("p", 0), None), H(0), [V("q"), V("q"), V("k")])]),
            P(V("p"), V("q"))])
        return [f, m]
    add("s2-bool-params", bools)
    # 6. `x := f(x)` shadowing in a nested block (right-hand side is translated before the new x gets its name),
    #    two arguments that both need temporaries (left-to-right numbering), loop bodies ending in a call / in an if2 with return
    def shadow(M, H):
        f = dict(name=H(0), params=[(("a", 0), "I"), (("b", 0), "I")], ret="I", body=[
            P(V("a"), V("b")),
            ("ret", ("bin", False, "I", "Sub", ("bin", False, "I", "Mul", V("a"), L("I", 3)), V("b")))])
        sh = dict(name=H(1), params=[(("v", 0), "I")], ret=None, body=[P(V("v"))])
        m = dict(name=M, params=[], ret=None, body=[
            ("base", ("define", ("x", 0), "I", L("I", 40), True)), ("base", ("define", ("d", 0), "I", L("I", 7), True)),
            ("if2", ("cmp", "I", "Gt", V("x"), L("I", 1)),
             [("call", (("x", 1), "I"), H(0), [V("x", 0), V("d")]),
              ("call", (("_q", 0), "I"), H(0), [("bin", False, "I", "Quo", V("x", 1), V("d")), ("bin", False, "I", "Quo", V("d"), V("x", 1))]),
              ("call", (("x", 1), None), H(0), [("bin", False, "I", "Rem", V("x", 1), V("d")), ("bin", False, "I", "Rem", V("_q"), V("x", 1))]),
              P(V("x", 1), V("_q"))], None),
            ("for2", ("define", ("i", 0), "I", L("I", 0), False), ("cmp", "I", "Lt", V("i"), L("I", 3)), ("incdec", ("i", 0), "I", True),
             [("base", ("opassign", ("x", 0), "I", "Add", V("i"))), ("call", None, H(1), [V("x", 0)])]),
            ("for2", ("define", ("i", 1), "I", L("I", 0), False), ("cmp", "I", "Lt", V("i", 1), L("I", 5)), ("incdec", ("i", 1), "I", True),
             [("call", (("y", 0), "I"), H(0), [V("i", 1), V("d")]),
              ("if2", ("cmp", "I", "Gt", V("y"), L("I", 0)), [P(V("y")), ("ret", None)], None)]),
            P(V("x", 0))])
        return [f, sh, m]
    add("s2-shadow-order", shadow)
    return out
