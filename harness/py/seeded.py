#!/usr/bin/env python3
"""Confirm a candidate breaking change and run the checks against it.

  seeded.py confirm <candidate_dir> <name> [--base REF]
      candidate_dir holds patch.diff, demo/ (run.sh <gopherjs-binary|worktree>), meta.json
      -> scratch worktree of /repo at REF (default HEAD) under /tmp, applies the patch, builds, runs the existing
         test suite (must equal the 777-test baseline), runs the demo with and without the patch; on success
         copies everything to /verif/seeded/<name>/ with a meta.json recording what was run.
  seeded.py run <name> [IDs...]
      applies /verif/seeded/<name>/patch.diff in a scratch worktree and runs `VERIF_REPO=<wt> ./check <ID>`
      for the property it breaks (or the given IDs); records detected / missed in seeded/<name>/result.json.
Scratch worktrees are removed afterwards.
"""
import json, os, re, shutil, subprocess, sys, time

VERIF = os.path.dirname(os.path.dirname(os.path.dirname(os.path.abspath(__file__))))
ENV = dict(os.environ, GOFLAGS="-mod=mod", GOPROXY="off", GOSUMDB="off", GOTOOLCHAIN="local", GOPHERJS_SKIP_VERSION_CHECK="true")


def sh(cmd, cwd=None, timeout=3600, env=None):
    p = subprocess.run(cmd, cwd=cwd, env=env or ENV, stdout=subprocess.PIPE, stderr=subprocess.STDOUT, timeout=timeout, shell=isinstance(cmd, str))
    return p.returncode, p.stdout.decode("utf-8", "replace")


def make_wt(tag, ref):
    # a fixed path per slot lets `go test` reuse cached results for packages the change does not touch
    slot = os.environ.get("SEEDED_SLOT")
    wt = "/tmp/seeded_wt_slot%s" % slot if slot else "/tmp/seeded_wt_%s_%d" % (tag, os.getpid())
    sh(["git", "-C", "/repo", "worktree", "remove", "--force", wt])
    rc, out = sh(["git", "-C", "/repo", "worktree", "add", "--detach", wt, ref])
    if rc != 0:
        raise SystemExit("worktree add failed: " + out)
    return wt


def drop_wt(wt):
    sh(["git", "-C", "/repo", "worktree", "remove", "--force", wt])
    shutil.rmtree(wt, ignore_errors=True)
    sys.path.insert(0, os.path.join(VERIF, "harness", "py"))
    import hashlib
    alt = os.path.join(VERIF, ".work", "alt-" + hashlib.sha256(os.path.abspath(wt).encode()).hexdigest()[:10])
    shutil.rmtree(alt, ignore_errors=True)


def confirm(cand, name, ref):
    meta = json.load(open(os.path.join(cand, "meta.json"))) if os.path.exists(os.path.join(cand, "meta.json")) else {}
    patch = os.path.abspath(os.path.join(cand, "patch.diff"))
    wt = make_wt(name, ref)
    rec = dict(meta, confirmed_at=time.strftime("%Y-%m-%dT%H:%M:%S"), base_ref=sh(["git", "-C", wt, "rev-parse", "HEAD"])[1].strip(), ran=[])
    ok = True
    try:
        demo = os.path.join(cand, "demo")
        binp = "/tmp/seeded_bin_%s" % name
        # demo on the unchanged tree
        rc, out = sh(["go", "build", "-o", binp + "_orig", "."], cwd=wt)
        # demos take either the gopherjs binary or the worktree as $1: try the binary first, then the worktree
        mode = "bin"
        rc0, out0 = sh(["bash", "run.sh", binp + "_orig"], cwd=demo, timeout=1800)
        if rc0 != 0:
            rc0b, out0b = sh(["bash", "run.sh", wt], cwd=demo, timeout=1800)
            if rc0b == 0:
                mode, rc0, out0 = "wt", rc0b, out0b
        rec["demo_arg_mode"] = mode
        rec["ran"].append("demo/run.sh (%s as $1) on unchanged tree -> exit %d" % (mode, rc0))
        rec["demo_passes_without"] = rc0 == 0
        rc, out = sh(["git", "-C", wt, "apply", patch])
        if rc != 0:
            print("patch does not apply:", out); rec["applies"] = False; ok = False
        else:
            rec["applies"] = True
            rc, out = sh("go build ./... && go build -o %s ." % binp, cwd=wt)
            rec["builds"] = rc == 0
            rec["ran"].append("go build ./... -> %d" % rc)
            if rc != 0:
                print(out[-800:]); ok = False
            else:
                rc1, out1 = sh(["bash", "run.sh"] + ([binp] if mode == "bin" else [wt]), cwd=demo, timeout=1800)
                rec["ran"].append("demo/run.sh with the change -> exit %d" % rc1)
                rec["demo_fails_with"] = rc1 != 0
                rc2, out2 = sh([sys.executable, os.path.join(VERIF, "harness", "py", "baseline_cmp.py"), wt], timeout=7200,
                               env=dict(ENV, VERIF_TEST_CACHE="1" if os.environ.get("SEEDED_SLOT") else ""))
                rec["ran"].append("harness/py/baseline_cmp.py (go test ./... vs the 777 stable tests) -> exit %d: %s" % (rc2, out2.strip().split("\n")[0]))
                rec["suite_passes_with_change"] = rc2 == 0
                ok = ok and rec["demo_passes_without"] and rec["demo_fails_with"] and rec["suite_passes_with_change"]
                if not ok:
                    print("demo without:", rc0, out0[-300:], "\ndemo with:", rc1, out1[-300:], "\nsuite:", out2[-600:])
    finally:
        drop_wt(wt)
        for s in ("", "_orig"):
            if os.path.exists("/tmp/seeded_bin_%s%s" % (name, s)):
                os.remove("/tmp/seeded_bin_%s%s" % (name, s))
    rec["confirmed"] = ok
    print(json.dumps({k: rec.get(k) for k in ("applies", "builds", "demo_passes_without", "demo_fails_with", "suite_passes_with_change", "confirmed")}))
    if ok:
        dst = os.path.join(VERIF, "seeded", name)
        shutil.rmtree(dst, ignore_errors=True)
        os.makedirs(dst)
        shutil.copy(patch, os.path.join(dst, "patch.diff"))
        shutil.copytree(os.path.join(cand, "demo"), os.path.join(dst, "demo"), ignore=shutil.ignore_patterns("out.js*", "*.map", "node_modules"))
        json.dump(rec, open(os.path.join(dst, "meta.json"), "w"), indent=1, sort_keys=True)
    return 0 if ok else 1


def run(name, ids, ref):
    d = os.path.join(VERIF, "seeded", name)
    meta = json.load(open(os.path.join(d, "meta.json")))
    ids = ids or [meta.get("property")]
    wt = make_wt(name, ref)
    res = {}
    try:
        rc, out = sh(["git", "-C", wt, "apply", os.path.join(d, "patch.diff")])
        if rc != 0:
            raise SystemExit("patch does not apply: " + out)
        for pid in ids:
            t0 = time.time()
            rc, out = sh(["./check", pid, "--tier", os.environ.get("VERIF_TIER", "quick")], cwd=VERIF, env=dict(ENV, VERIF_REPO=wt), timeout=7200)
            viol = [l for l in out.split("\n") if l.startswith("VIOLATION")]
            sigs = sorted(set(re.findall(r"violation \[([^\]]+)\]", out)))
            msgs = [l.split("] ", 1)[-1][:300] for l in out.split("\n") if "violation [" in l][:6]
            res[pid] = dict(exit=rc, detected=bool(rc != 0 and viol), violation_lines=[v.replace(wt, "<wt>") for v in viol[:4]], signatures=sigs, messages=msgs, wall_s=round(time.time() - t0, 1),
                            tail=out.strip().split("\n")[-1][:300])
            print(name, pid, "DETECTED" if res[pid]["detected"] else "MISSED", res[pid]["tail"])
    finally:
        drop_wt(wt)
    json.dump(dict(checked_at=time.strftime("%Y-%m-%dT%H:%M:%S"), results=res), open(os.path.join(d, "result.json"), "w"), indent=1, sort_keys=True)
    return 0


if __name__ == "__main__":
    a = sys.argv[1:]
    ref = "HEAD"
    if "--base" in a:
        i = a.index("--base"); ref = a[i + 1]; del a[i:i + 2]
    if a[0] == "confirm":
        sys.exit(confirm(a[1], a[2], ref))
    elif a[0] == "run":
        sys.exit(run(a[1], a[2:], ref))
