"""C17 generators: sort-site inputs and multi-package generic programs (module `w`).

Programs import nothing but each other (println for output), so the same sources can be given to the
overlay harness (type-checked with go/types only) and to the real `gopherjs build`.
Layout:  w/g<i>   leaf packages with generic functions and types
         w/m<j>   packages whose GENERIC code instantiates generics of the leaves (and seeds in plain code)
         w/cmd/p  the program: several files, init functions, closures with escaping variables,
                  anonymous struct/func types, methods, many instantiations
         w/cmd/a  a second, small command sharing packages with p (warm-session builds)
"""

TYPES = ["int", "string", "bool", "float64", "[]int", "map[string]int", "*int", "[2]string", "struct{ A int }",
         "func(int) bool", "chan int", "[]string", "uint8", "map[int][]string", "*string", "[]float64",
         "struct{ X, Y int }", "[]struct{ S string }", "func() []int", "map[string]struct{ B bool }"]

ZERO = {"int": "0", "string": '""', "bool": "false", "float64": "0", "uint8": "0"}


def zero(t):
    return ZERO[t] if t in ZERO else "*new(%s)" % t


# ------------------------------------------------------------------ sort-site inputs

NAME_POOL = [b"", b"a", b"a.go", b"A.go", b"a_test.go", b"aa.go", b"a.go.go", b"b.go", b"z.go", b"a\x00", b"a\xff", b"\xc3\xa9.go",
             b"main.go", b"main_js.go", b"Z", b"_", b"a-", b"a/", b"a/b", b"a/b/c", b"a0", b"a.", b"doc.go", b"x/y_test", b"x_test", b"_test",
             b"runtime", b"unsafe", b"sync/atomic", b"internal/goarch", b"github.com/gopherjs/gopherjs/js", b"w/g0", b"w/g1", b"w/m0", b"w/g10"]


def rand_name(r):
    k = r.random()
    if k < 0.6:
        return r.choice(NAME_POOL)
    if k < 0.85:
        return r.choice(NAME_POOL) + bytes(r.choice(b"ab./_\x00\xff0") for _ in range(r.randint(0, 3)))
    return bytes(r.choice(b"abcz./_AZ09\x00\x7f\x80\xff") for _ in range(r.randint(0, 6)))


def gen_keys(r, allow_ties):
    n = r.choice([0, 1, 2, 2, 3, 3, 4, 5, 6, 8, 11, 12, 13, 14, 20, 33])
    keys = []
    while len(keys) < n:
        k = rand_name(r)
        if k in keys and not allow_ties:
            continue
        keys.append(k)
    if allow_ties and n >= 2 and r.random() < 0.8:
        keys[r.randrange(n)] = keys[r.randrange(n)]
    return keys


def gen_sort_case(r):
    kind = r.choice(["files", "files", "sources", "sources", "strings", "unresolved", "unresolved", "deps"])
    if kind in ("files", "sources"):
        c = dict(kind=kind, keys=[k.hex() for k in gen_keys(r, allow_ties=r.random() < 0.3)])
        if kind == "files" and r.random() < 0.4:
            # //line directives: the position of the package clause is attributed to another (often shared) name
            al = [rand_name(r) or b"y.go" for _ in range(2)]
            c["alias"] = [(r.choice(al).hex() if r.random() < 0.7 else "") for _ in c["keys"]]
        return c
    if kind in ("strings", "deps"):
        keys = gen_keys(r, allow_ties=True)
        if kind == "deps" and keys and r.random() < 0.5:
            keys[r.randrange(len(keys))] = b""
        return dict(kind=kind, keys=[k.hex() for k in keys])
    # unresolved: ImportSpec.Path.Value strings, i.e. quoted
    pool = [rand_name(r) for _ in range(r.randint(1, 8))]
    files = []
    for _ in range(r.randint(0, 4)):
        imps = []
        for _ in range(r.randint(0, 5)):
            p = r.choice(pool)
            q = r.random()
            try:
                p.decode("utf-8")
                utf8ok = True
            except UnicodeDecodeError:
                utf8ok = False
            if q < 0.7 and utf8ok:
                v = b'"' + p + b'"'
            elif q < 0.9 or not utf8ok:
                v = b'`' + p.replace(b"`", b"") + r.choice([b"", b"", b"\r"]) + b'`'   # raw string import path (carriage returns are dropped)
            elif q < 0.94:
                v = b'""' + p + b'"'         # Unquote fails (quote inside): falls back to trimming the quotes
            elif q < 0.97:
                v = b'"' + p                 # unbalanced
            else:
                v = p                        # no quotes at all
            imps.append(v.hex())
        files.append(imps)
    skip = [p.hex() for p in pool if r.random() < 0.3]
    return dict(kind="unresolved", files=files, skip=skip)


def permute_sort_case(r, c):
    """the same input in another order (files in another order, imports inside a file shuffled)"""
    c2 = dict(c)
    if "keys" in c:
        idx = list(range(len(c["keys"])))
        r.shuffle(idx)
        c2["keys"] = [c["keys"][i] for i in idx]
        if "alias" in c:
            c2["alias"] = [c["alias"][i] for i in idx]
        c2["perm"] = idx
    else:
        files = [list(f) for f in c["files"]]
        r.shuffle(files)
        for f in files:
            r.shuffle(f)
        c2["files"] = files
        sk = list(c["skip"])
        r.shuffle(sk)
        c2["skip"] = sk
    return c2


# ------------------------------------------------------------------ programs

def gen_leaf(r, name):
    L = ["package %s" % name, ""]
    L += ["type Box[T any] struct{ V T }", "", "func (b Box[T]) Get() T { return b.V }", "", "func (b *Box[T]) Set(v T) { b.V = v }", ""]
    L += ["func G[T any](x T) T { return x }", ""]
    feats = dict(wrap=r.random() < 0.5, dup=r.random() < 0.5, pair=r.random() < 0.5, plain=r.random() < 0.7)
    if feats["wrap"]:
        L += ["func Wrap[T any](x T) Box[T] { return Box[T]{V: x} }", ""]
    if feats["dup"]:
        L += ["func Dup[T any](x T) []T { return []T{G(x), x} }", ""]
    if feats["pair"]:
        L += ["type Pair[A, B any] struct {", "\tFirst  A", "\tSecond B", "}", "", "func MkPair[A, B any](a A, b B) Pair[A, B] { return Pair[A, B]{a, b} }", ""]
    if feats["plain"]:
        L += ["func Plain(n int) int { return n*2 + 1 }", ""]
    L += ["func init() { println(\"init %s\") }" % name, ""]
    return "\n".join(L), feats


def leaf_call(r, leaf, feats, arg, argty):
    """an expression statement instantiating a generic of `leaf` with (something built from) arg"""
    opts = ["_ = %s.G(%s)" % (leaf, arg), "{ var b %s.Box[%s]; b.Set(%s); _ = b.Get() }" % (leaf, argty, arg)]
    if feats["wrap"]:
        opts.append("_ = %s.Wrap(%s).Get()" % (leaf, arg))
    if feats["dup"]:
        opts.append("_ = len(%s.Dup(%s))" % (leaf, arg))
    if feats["pair"]:
        opts.append("_ = %s.MkPair(%s, []%s{%s}).First" % (leaf, arg, argty, arg))
    return r.choice(opts)


def gen_mid(r, name, leaves, leaf_feats, generic_cross):
    use = r.sample(leaves, r.randint(1, min(3, len(leaves))))
    L = []
    if generic_cross:
        l0 = use[0]
        L += ["type Holder[T any] struct {", "\tB %s.Box[T]" % l0, "\tL []T", "}", "",
              "func (h *Holder[T]) Put(x T) {", "\th.B.Set(x)", "\th.L = append(h.L, %s.G(x))" % r.choice(use), "}", ""]
        L += ["func F[T any](x T) T {"]
        for _ in range(r.randint(1, 3)):
            l = r.choice(use)
            w = r.choice(["x", "[]T{x}", "&x", "map[string]T{}", "func() T { return x }"])
            wt = {"x": "T", "[]T{x}": "[]T", "&x": "*T", "map[string]T{}": "map[string]T", "func() T { return x }": "func() T"}[w]
            L.append("\t" + leaf_call(r, l, leaf_feats[l], w, wt))
        L += ["\treturn x", "}", ""]
        L += ["func H[T any](x T) int {", "\tvar h Holder[T]", "\th.Put(x)", "\treturn len(h.L)", "}", ""]
    else:
        L += ["func F[T any](x T) T { return x }", "", "func H[T any](x T) int { return 1 }", ""]
    # seeds in non-generic code
    L += ["func Use() int {", "\tn := 0"]
    for _ in range(r.randint(1, 3)):
        l = r.choice(use)
        t = r.choice(TYPES)
        L.append("\t" + leaf_call(r, l, leaf_feats[l], zero(t), t))
    L += ["\treturn n", "}", "", "func init() { println(\"init %s\") }" % name, ""]
    body = "\n".join(L)
    used = [l for l in use if (l + ".") in body]
    head = ["package %s" % name, "", "import ("] + ['\t"w/%s"' % l for l in sorted(used, reverse=True)] + [")", ""]
    return "\n".join(head) + "\n" + body, used


def gen_main_file(r, fname, k, leaves, leaf_feats, mids, generic_main):
    pk = [l for l in leaves if r.random() < 0.6] or [leaves[0]]
    mk = [m for m in mids if r.random() < 0.7] or ([mids[0]] if mids else [])
    L = []
    tn = "T%s" % k
    L += ["type %s struct {" % tn, "\tX int", "\tY string", "}", "", "func (t %s) M() int { return t.X + len(t.Y) }" % tn, "",
          "func (t *%s) P(n int) { t.X += n }" % tn, ""]
    L += ["func init() { println(\"init file %s\") }" % fname, ""]
    if generic_main:
        L += ["func local%s[T any](x T) T {" % k]
        l = r.choice(pk)
        L.append("\t" + leaf_call(r, l, leaf_feats[l], "x", "T"))
        L += ["\treturn x", "}", ""]
    # closures with several escaping variables inside a loop; names deliberately not in alphabetical use order
    names = r.sample(["zz", "mm", "aa", "qq", "bb", "yy", "kk", "cc"], r.randint(2, 5))
    L += ["func run%s(n int) int {" % k, "\tfs := []func() int{}", "\tfor i := 0; i < n; i++ {"]
    L.append("\t\t%s := %s" % (", ".join(names), ", ".join("i+%d" % j for j in range(len(names)))))
    L.append("\t\tfs = append(fs, func() int { %s++; return %s })" % (names[0], " + ".join(names)))
    L += ["\t}", "\tanon := struct {", "\t\tA int", "\t\tF func(int) int", "\t}{A: n, F: func(v int) int { return v + n }}",
          "\ttotal := anon.F(anon.A)", "\tfor _, f := range fs {", "\t\ttotal += f()", "\t}"]
    for _ in range(r.randint(1, 4)):
        t = r.choice(TYPES)
        l = r.choice(pk)
        L.append("\t" + leaf_call(r, l, leaf_feats[l], zero(t), t))
    for m in mk:
        t = r.choice(TYPES)
        L.append("\t{ v := %s; _ = %s.F(v); total += %s.H(v) + %s.Use() }" % (zero(t), m, m, m))
    if generic_main:
        t = r.choice(TYPES)
        L.append("\t_ = local%s(%s)" % (k, zero(t)))
    L += ["\tt := %s{X: total}" % tn, "\tt.P(1)", "\treturn t.M()", "}", ""]
    body = "\n".join(L)
    imps = ['"w/%s"' % x for x in pk + mk if (x + ".") in body]
    r.shuffle(imps)
    head = ["package main", "", "import ("] + ["\t" + i for i in imps] + [")", ""]
    return "\n".join(head) + "\n" + body


def gen_program(r, idx, shape=None):
    """returns dict(files={relpath: src}, main_files=[names in cmd/p], shape=...)"""
    if shape is None:
        calm = r.random() < 0.45     # no package's generic code instantiates generics of ANOTHER package: ids cannot race
        shape = dict(leaves=r.randint(1, 3), mids=r.randint(1, 4), cross=0 if calm else r.choice([1, 1, 2, 3, 4]), nfiles=r.randint(2, 4),
                     generic_main=(not calm) and r.random() < 0.4, q_generic=r.random() < 0.5,
                     line_directives=r.choice([0, 0, 1, 1, 2]))
    leaves = ["g%d" % i for i in range(shape["leaves"])]
    mids = ["m%d" % i for i in range(shape["mids"])]
    files, leaf_feats = {}, {}
    for l in leaves:
        files["%s/%s.go" % (l, l)], leaf_feats[l] = gen_leaf(r, l)
    for j, m in enumerate(mids):
        files["%s/%s.go" % (m, m)], _ = gen_mid(r, m, leaves, leaf_feats, generic_cross=j < shape["cross"])
    fnames = ["a.go", "b.go", "c.go", "d.go"][:shape["nfiles"]]
    for k, fn in enumerate(fnames):
        files["cmd/p/" + fn] = gen_main_file(r, fn, k, leaves, leaf_feats, mids, shape["generic_main"] and k == 0)
    files["cmd/p/main.go"] = "package main\n\nfunc main() {\n" + "".join("\tprintln(run%d(%d))\n" % (k, 2 + k) for k in range(len(fnames))) + "}\n"
    fnames = fnames + ["main.go"]
    # generated-code style: `//line grammar.y:N` above the package clause (positions, not file names, change)
    nd = shape.get("line_directives", 0)
    if nd:
        for k, fn in enumerate(fnames):
            if fn != "main.go" or nd == 2:
                files["cmd/p/" + fn] = "//line gen%d.y:%d\n" % (k % nd if nd == 2 and r.random() < 0.5 else 0, 1 + 10 * k) + files["cmd/p/" + fn]
    # second command sharing packages
    l = leaves[0]
    if shape["q_generic"]:
        body = "\tprintln(%s.G(\"q\"))\n\tprintln(len(%s.G([]bool{true})))\n" % (l, l)
    elif leaf_feats[l]["plain"]:
        body = "\tprintln(%s.Plain(20))\n" % l
    else:
        body = "\tprintln(\"q\")\n"
        l = None
    files["cmd/a/main.go"] = "package main\n\n" + ('import "w/%s"\n\n' % l if l else "") + "func main() {\n" + body + "}\n"
    return dict(files=files, main_files=fnames, shape=shape, idx=idx)


def witness_program(n=6):
    """strong witness of the known defect: n packages whose generic code instantiates c.G with different arguments"""
    tys = ["[]int", "map[int]int", "[]string", "chan int", "*int", "func()", "[3]int", "struct{ X int }", "[]bool", "map[string]bool"]
    files = {"c/c.go": "package c\n\nfunc G[T any](x T) T { return x }\n"}
    imports, calls = "", ""
    for i in range(n):
        p = "p%02d" % i
        files["%s/x.go" % p] = 'package %s\n\nimport "w/c"\n\nfunc F[T any](x T) T { return c.G(x) }\n' % p
        imports += '\t"w/%s"\n' % p
        calls += "\t{\n\t\tvar z %s\n\t\t_ = %s.F(z)\n\t}\n" % (tys[i], p)
    files["cmd/p/main.go"] = "package main\n\nimport (\n%s)\n\nfunc main() {\n%s\tprintln(1)\n}\n" % (imports, calls)
    files["cmd/a/main.go"] = 'package main\n\nimport "w/c"\n\nfunc main() {\n\tprintln(c.G("q"))\n}\n'
    return dict(files=files, main_files=["main.go"], shape=dict(witness=n), idx=-1)


def minimal_witness():
    """the minimal one: packages a and b each instantiate c.G inside generic code"""
    files = {"c/c.go": "package c\n\nfunc G[T any](x T) T { return x }\n",
             "a/a.go": 'package a\n\nimport "w/c"\n\nfunc A[T any](x T) T { return c.G(x) }\n',
             "b/b.go": 'package b\n\nimport "w/c"\n\nfunc B[T any](x T) T { return c.G(x) }\n',
             "cmd/p/main.go": 'package main\n\nimport (\n\t"w/a"\n\t"w/b"\n)\n\nfunc main() {\n\tprintln(len(a.A([]int{1})), len(b.B(map[int]int{})))\n}\n',
             "cmd/a/main.go": 'package main\n\nimport "w/c"\n\nfunc main() {\n\tprintln(c.G(1))\n}\n'}
    return dict(files=files, main_files=["main.go"], shape=dict(witness=2), idx=-2)


def warm_witness():
    """two commands instantiating the same generic function with different type arguments"""
    files = {"c/c.go": "package c\n\nfunc G[T any](x T) T { return x }\n",
             "cmd/a/main.go": 'package main\n\nimport "w/c"\n\nfunc main() {\n\tprintln(c.G(1))\n}\n',
             "cmd/p/main.go": 'package main\n\nimport "w/c"\n\nfunc main() {\n\tprintln(c.G("two"))\n}\n'}
    return dict(files=files, main_files=["main.go"], shape=dict(warm_witness=1), idx=-3)


def harness_pkgs(prog, with_q=False):
    """group a program's files into packages for the overlay harness"""
    pk = {}
    for rel, src in prog["files"].items():
        d, f = rel.rsplit("/", 1)
        if d == "cmd/a" and not with_q:
            continue
        pk.setdefault("w/" + d, []).append(dict(name=f, src=src))
    return [dict(path=p, files=fs) for p, fs in pk.items()]
