"""C11: the fixed self-checking witness program (every check prints E <name> ok|FAIL; F lines are the
finding witnesses; G lines the callback guard). Kept as Go source text."""
SOURCE = r'''package main

import "github.com/gopherjs/gopherjs/js"

type W struct{ n int }

func (w *W) Inc(d int) int { w.n += d; return w.n }
func (w *W) hidden() int   { return 0 }

type In struct{ A int }
type Out struct {
	P *In
	N int
}
type SM struct{ M map[string]int }

type T struct {
	*js.Object
	S  string          `js:"s"`
	N  int             `js:"n"`
	Fn func(int) int   `js:"fn"`
}

func check(name string, ok bool) {
	if ok {
		println("E", name, "ok")
	} else {
		println("E", name, "FAIL")
	}
}

func main() {
	f := func(x int) int { return x + 1 }
	g := func(x int) int { return x + 1 }
	js.Global.Set("fa", f)
	js.Global.Set("fb", f)
	js.Global.Set("fc", g)
	check("same-func-same-wrapper", js.Global.Call("eval", "fa === fb").Bool())
	check("diff-func-diff-wrapper", !js.Global.Call("eval", "fa === fc").Bool())
	check("wrapper-converts", js.Global.Call("eval", "fa(41)").Int() == 42)
	var fs []*js.Object
	for i := 0; i < 3; i++ {
		k := i
		h := func() int { return k }
		js.Global.Set("h", h)
		fs = append(fs, js.Global.Get("h"))
	}
	check("closures-distinct", fs[0] != fs[1] && fs[1] != fs[2])
	var nilf func()
	js.Global.Set("nf", nilf)
	check("nil-func-null", js.Global.Get("nf") == nil)

	o := js.Global.Get("Object").New()
	o.Set("k", 100)
	o.Set("m", js.MakeFunc(func(this *js.Object, args []*js.Object) interface{} {
		return args[0].Int() + this.Get("k").Int() + len(args)
	}))
	js.Global.Set("o", o)
	check("makefunc-this-args", js.Global.Call("eval", "o.m(5, 'x')").Int() == 107)

	w := &W{1}
	js.Global.Set("w", js.MakeWrapper(w))
	check("wrapper-method", js.Global.Call("eval", "w.Inc(5)").Int() == 6 && w.n == 6)
	check("wrapper-unexported-hidden", js.Global.Call("eval", "w.hidden === undefined").Bool())
	js.Global.Set("takeW", func(x *W) int { return x.n })
	check("wrapper-internal-object", js.Global.Call("eval", "takeW(w)").Int() == 6)

	o.Set("d", 1)
	o.Delete("d")
	check("delete", o.Get("d") == js.Undefined)
	check("undefined-global", js.Global.Get("noSuchName_") == js.Undefined)
	check("null-is-nil", js.Global.Call("eval", "null") == nil)
	keys := js.Keys(o)
	check("keys", len(keys) == 2 && keys[0] == "k" && keys[1] == "m")
	func() {
		defer func() {
			e := recover()
			je, ok := e.(*js.Error)
			check("js-error", ok && je.Get("message").String() == "boom" && je.Error() == "JavaScript error: boom")
		}()
		js.Global.Call("eval", "throw new Error('boom')")
	}()

	t := &T{Object: js.Global.Get("Object").New()}
	t.S = "hé\U0001F600"
	t.N = 7
	check("tag-set", t.Object.Get("s").String() == "h\u00e9\U0001F600" && t.Object.Get("n").Int() == 7)
	t.Object.Set("fn", js.Global.Call("eval", "(function(x){ return x * 2; })"))
	check("tag-func-call", t.Fn(21) == 42)
	check("tag-read", t.S == "hé\U0001F600" && t.N == 7)

	// findings
	x := js.Global.Call("eval", "-0").Interface().(float64)
	println("F", "negzero-interface", 1/x)
	js.Global.Set("gf", func(f float64) float64 { return 1 / f })
	println("F", "negzero-param", js.Global.Call("eval", "gf(-0)").Float())
	println("F", "negzero-accessor", 1/js.Global.Call("eval", "-0").Float())
	s := js.Global.Call("eval", "'\\uD800A'").String()
	println("F", "high-surrogate", len(s), s[0], s[1], s[2])
	js.Global.Set("nilmap", func(s SM) bool { return s.M == nil })
	println("F", "nil-map", js.Global.Call("nilmap", SM{}).Bool())
	js.Global.Set("nilptr", func(o Out) bool { return o.P == nil })
	func() {
		defer func() {
			e := recover()
			if e == nil {
				return
			}
			if je, ok := e.(*js.Error); ok {
				println("F", "nil-ptr", "panic", je.Get("name").String())
			} else {
				println("F", "nil-ptr", "panic-other")
			}
		}()
		println("F", "nil-ptr", js.Global.Call("nilptr", Out{N: 3}).Bool())
	}()

	// callback guard
	ch := make(chan int)
	done := make(chan string)
	js.Global.Set("blocking", func() { <-ch })
	js.Global.Set("after", func(msg string) {
		go func() { done <- msg }()
	})
	js.Global.Call("eval", "setTimeout(function(){ var m = 'no error'; try { blocking(); } catch (e) { m = String(e && e.message !== undefined ? e.message : e); } after(m); }, 0)")
	msg := <-done
	println("G", msg)
	// scheduler still usable: a goroutine ping-pong
	c2 := make(chan int)
	go func() { c2 <- 41 }()
	println("G2", <-c2+1)
}
'''
