"""C09 helper: families printed as Go programs (two packages, local types), built with the real compiler and
compared with native Go; the fixed witness program (one line per defect class)."""
import json, os, re
import common as C
import c09_fam as F

HELPERS = '''
func eqs(a, b interface{}) (r string) {
	defer func() {
		if recover() != nil {
			r = "panic"
		}
	}()
	if a == b {
		return "true"
	}
	return "false"
}

func tail(m string) string {
	key := "missing method "
	for i := 0; i+len(key) <= len(m); i++ {
		if m[i:i+len(key)] == key {
			return m[i+len(key):]
		}
	}
	return ""
}

func missing(f func()) (s string) {
	defer func() {
		if e := recover(); e != nil {
			if re, ok := e.(runtime.Error); ok {
				s = tail(re.Error())
			} else {
				s = "?"
			}
		}
	}()
	f()
	return ""
}

func guard(f func()) {
	defer func() {
		if recover() != nil {
			println("panic")
		}
	}()
	f()
}
'''


def home(fam, t):
    """where a type expression can be written: 'main', 'q', or the function of a local type"""
    k = t["k"]
    if "src_main" in t: return "main"
    if k == "basic": return "main"
    if k == "named":
        d = fam["decls"][t["d"]]
        return d["fn"] if d.get("local") else "main"
    subs = []
    if k in ("ptr", "slice", "array", "chan"): subs = [t["e"]]
    elif k == "map": subs = [t["key"], t["e"]]
    elif k == "func": subs = t["ps"] + t["rs"]
    elif k == "struct":
        if t["pkg"] == F.QPKG: return "q"
        subs = [f["t"] for f in t["fs"]]
    elif k == "iface":
        if any(m["pkg"] == F.QPKG for m in t["ms"]): return "q"
        subs = [m["sig"] for m in t["ms"]]
    for s in subs:
        h = home(fam, s)
        if h != "main": return h
    return "main"


def gotype(fam, t, ctx="main"):
    k = t["k"]
    if "src_main" in t and ctx == "main": return t["src_main"]
    g = lambda x: gotype(fam, x, ctx)
    if k == "basic": return F.BASIC[t["i"]]
    if k == "named":
        d = fam["decls"][t["d"]]
        return ("q." if (d["pkg"] == F.QPKG and ctx != "q") else "") + d["name"]
    if k == "ptr": return "*" + g(t["e"])
    if k == "slice": return "[]" + g(t["e"])
    if k == "array": return "[%d]%s" % (t["n"], g(t["e"]))
    if k == "map": return "map[%s]%s" % (g(t["key"]), g(t["e"]))
    if k == "chan": return ("<-chan " if t["recv"] else "chan<- " if t["send"] else "chan ") + g(t["e"])
    if k == "func": return "func" + gosig(fam, t, ctx)
    if k == "struct":
        if not t["fs"]: return "struct{}"
        return "struct { " + "; ".join((g(f["t"]) if f["emb"] else f["name"] + " " + g(f["t"])) + (" " + json.dumps(f["tag"]) if f["tag"] else "")
                                       for f in t["fs"]) + " }"
    if k == "iface":
        if not t["ms"]: return "interface{}"
        return "interface { " + "; ".join(m["name"] + gosig(fam, m["sig"], ctx) for m in t["ms"]) + " }"
    raise ValueError(k)


def gosig(fam, t, ctx):
    ps = [gotype(fam, p, ctx) for p in t["ps"]]
    if t["v"]:
        ps[-1] = "..." + gotype(fam, t["ps"][-1]["e"], ctx)
    rs = [gotype(fam, r_, ctx) for r_ in t["rs"]]
    return "(" + ", ".join(ps) + ")" + ("" if not rs else " " + rs[0] if len(rs) == 1 else " (" + ", ".join(rs) + ")")


def sig_index(sig):
    if sig["ps"] and sig["ps"][0]["k"] == "slice":
        return 3 if sig["v"] else 4
    return 0 if not sig["rs"] else (1 if not sig["ps"] else 2)


SIG_HEAD = ["()", "() int", "(a int) string", "(a ...int)", "(a []int)"]
SIG_ARGS = ["", "", "0", "", "nil"]


def method_src(fam, d, m, ctx):
    si = sig_index(m["sig"])
    isint = d["under"]["k"] == "basic"
    recv = ("*" if m["ptr"] else "") + d["name"]
    tagname = recv + "." + m["name"]
    if isint:
        body = ("*r++; println(%s, int(*r))" if m["ptr"] else "r++; println(%s, int(r))") % json.dumps(tagname)
        ret = "int(*r)" if m["ptr"] else "int(r)"
    else:
        body = "r.c++; println(%s, r.c)" % json.dumps(tagname)
        ret = "r.c"
    head = "func (r %s) %s%s" % (recv, m["name"], SIG_HEAD[si])
    tailr = ["", "; return " + ret, '; return "s"', "", ""][si]
    return "%s { %s%s }\n" % (head, body, tailr)


def decl_src(fam, i, ctx):
    d = fam["decls"][i]
    if d.get("embeds"):
        parts = [gotype(fam, F.named(k), ctx) for k in d["embeds"]] + [m["name"] + gosig(fam, m["sig"], ctx) for m in d["own"]]
        out = "type %s interface { %s }\n" % (d["name"], "; ".join(parts))
    else:
        out = "type %s %s\n" % (d["name"], gotype(fam, d["under"], ctx))
    for m in d["meths"]:
        out += method_src(fam, d, m, ctx)
    # constructor with embedded pointers populated to a fixed depth
    if d["under"]["k"] != "iface":
        mk = ("Mk" if ctx == "q" else "mk") + d["name"]
        out += "func %s(depth int) *%s {\n\tv := new(%s)\n" % (mk, d["name"], d["name"])
        if d["under"]["k"] == "struct":
            for f in d["under"]["fs"]:
                if f["emb"] and f["t"]["k"] == "ptr":
                    e = fam["decls"][f["t"]["e"]["d"]]
                    emk = ("q.Mk" if (e["pkg"] == F.QPKG and ctx != "q") else ("Mk" if ctx == "q" else "mk")) + e["name"]
                    out += "\tif depth > 0 {\n\t\tv.%s = %s(depth - 1)\n\t}\n" % (f["name"], emk)
        out += "\treturn v\n}\n"
    return out + "\n"


def call_expr(recv, m):
    si = sig_index(m["sig"])
    return ["%s.%s()", "_ = %s.%s()", "_ = %s.%s(0)", "%s.%s()", "%s.%s(nil)"][si] % (recv, m["name"])


def print_program(fam, r):
    """returns (files, line_kinds) ; every probe prints `P <k> ...`, extra observations print `X ...`"""
    U, decls = fam["univ"], fam["decls"]
    homes = [home(fam, t) for t in U]
    locs = sorted(set(d["fn"] for d in decls if d.get("local")))
    qsrc = "package q\n\n"
    for i, d in enumerate(decls):
        if d["pkg"] == F.QPKG:
            qsrc += decl_src(fam, i, "q")
    qidx = [i for i, h in enumerate(homes) if h == "q"]
    qsrc += "func Vals() ([]interface{}, []interface{}) {\n\treturn []interface{}{%s}, []interface{}{%s}\n}\n" % (
        ", ".join("*new(%s)" % gotype(fam, U[i], "q") for i in qidx), ", ".join("(*%s)(nil)" % gotype(fam, U[i], "q") for i in qidx))
    src = 'package main\n\nimport (\n\t"runtime"\n\n\tq "verifprog/q"\n)\n\nvar _ = q.Vals\n' + HELPERS + "\n"
    for i, d in enumerate(decls):
        if d["pkg"] != F.QPKG and not d.get("local"):
            src += decl_src(fam, i, "main")
    for fn in locs:
        li = [i for i, d in enumerate(decls) if d.get("fn") == fn][0]
        idx = [i for i, h in enumerate(homes) if h == fn]
        src += "func %s() ([]interface{}, []interface{}) {\n\ttype L %s\n\treturn []interface{}{%s}, []interface{}{%s}\n}\n\n" % (
            fn, gotype(fam, decls[li]["under"], "main"),
            ", ".join("*new(%s)" % gotype(fam, U[i]) for i in idx), ", ".join("(*%s)(nil)" % gotype(fam, U[i]) for i in idx))
    body = ["\tvals := make([]interface{}, %d)" % len(U), "\tnps := make([]interface{}, %d)" % len(U)]
    for i, t in enumerate(U):
        if homes[i] == "main":
            if not F.is_iface(fam, t):
                body.append("\tvals[%d] = *new(%s)" % (i, gotype(fam, t)))
            body.append("\tnps[%d] = (*%s)(nil)" % (i, gotype(fam, t)))
    for fn in locs + ["q"]:
        idx = [i for i, h in enumerate(homes) if h == fn]
        body.append("\t{\n\t\tv, n := %s()\n\t\t_, _ = v, n" % ("q.Vals" if fn == "q" else fn))
        for k, i in enumerate(idx):
            body.append("\t\tvals[%d], nps[%d] = v[%d], n[%d]" % (i, i, k, k))
        body.append("\t}")
    observable = []
    for k, p in enumerate(fam["probes"]):
        if p[0] == "assert" and homes[p[2]] == "main":
            tx = gotype(fam, U[p[2]])
            body.append("\t{\n\t\t_, ok := vals[%d].(%s)\n\t\tprintln(\"P\", %d, \"assert\", ok, missing(func() { _ = vals[%d].(%s) }))\n\t}" % (p[1], tx, k, p[1], tx))
            observable.append(k)
        elif p[0] == "ident":
            body.append("\tprintln(\"P\", %d, \"ident\", nps[%d] == nps[%d])" % (k, p[1], p[2]))
            observable.append(k)
        elif p[0] == "eq":
            def zero_only(v):
                if v is None: return True
                return v["v"] == F.zero_val(fam, U[v["i"]], 0)
            if zero_only(p[1]) and zero_only(p[2]):
                a = "nil" if p[1] is None else "vals[%d]" % p[1]["i"]
                b = "nil" if p[2] is None else "vals[%d]" % p[2]["i"]
                body.append("\tprintln(\"P\", %d, \"eq\", eqs(%s, %s))" % (k, a, b))
                observable.append(k)
    # extra observations: type switches, calls through interfaces (mutating receivers), method values / expressions
    targets = []
    for i, t in enumerate(U):
        if F.is_iface(fam, t) and homes[i] == "main" and not any(F.ident(t, U[j]) for j in targets):
            targets.append(i)
    dyn = [i for i, t in enumerate(U) if not F.is_iface(fam, t)]
    others = [i for i in dyn if not (U[i]["k"] == "named" or (U[i]["k"] == "ptr" and U[i]["e"]["k"] == "named"))]
    plain = set(others) - set(r.sample(others, min(4, len(others))))
    for i in dyn:
        order = targets[:]
        r.shuffle(order)
        if i in plain:
            body.append("\tswitch vals[%d].(type) {" % i)
            for c, j in enumerate(order):
                body.append("\tcase %s:\n\t\tprintln(\"X switch\", %d)\n\t\tprintln(\"case\", %d)" % (gotype(fam, U[j]), i, c))
            body.append("\tdefault:\n\t\tprintln(\"X switch\", %d)\n\t\tprintln(\"case\", -1)\n\t}" % i)
            continue
        # a BINDING type switch: the clause variable is used for interface comparison with the original value,
        # re-assertion to the concrete dynamic type and method calls (statements.go binds it with or without `.$val`)
        t = U[i]
        sv = "vals[%d]" % i
        dd = t["d"] if t["k"] == "named" else (t["e"]["d"] if t["k"] == "ptr" and t["e"]["k"] == "named" else None)
        if dd is not None and not decls[dd].get("local") and decls[dd]["under"]["k"] != "iface":
            mkn = ("q.Mk" if decls[dd]["pkg"] == F.QPKG else "mk") + decls[dd]["name"]
            sv = ("*%s(3)" if t["k"] == "named" else "%s(3)") % mkn
        conc = gotype(fam, t) if homes[i] == "main" else None
        body.append("\t{\n\tsw := interface{}(%s)\n\tswitch v := sw.(type) {" % sv)
        for c, j in enumerate(order):
            lines = ["\tcase %s:" % gotype(fam, U[j]), "\t\tprintln(\"X switch\", %d)" % i, "\t\tprintln(\"case\", %d)" % c,
                     "\t\tprintln(\"same\", eqs(v, sw))"]
            if conc:
                lines.append("\t\t{\n\t\t\t_, ok := interface{}(v).(%s)\n\t\t\tprintln(\"re\", ok)\n\t\t}" % conc)
            for m in F.under(fam, U[j])["ms"]:
                if m["pkg"] != F.QPKG:
                    lines.append("\t\tguard(func() { %s })" % call_expr("v", m))
            body.append("\n".join(lines))
        body.append("\tdefault:\n\t\t_ = v\n\t\tprintln(\"X switch\", %d)\n\t\tprintln(\"case\", -1)\n\t}\n\t}" % i)
    for di, d in enumerate(decls):
        if d.get("local") or d["under"]["k"] == "iface":
            continue
        mk = ("q.Mk" if d["pkg"] == F.QPKG else "mk") + d["name"]
        for j in r.sample(targets, min(3, len(targets))):
            ms = F.under(fam, U[j])["ms"]
            if not ms:
                continue
            for form, expr in (("ptr", "%s(3)" % mk), ("val", "*%s(3)" % mk)):
                body.append("\tif x, ok := interface{}(%s).(%s); ok {\n\t\t_ = x\n\t\tprintln(\"X call\", %d, %d, %s)" % (expr, gotype(fam, U[j]), di, j, json.dumps(form)))
                for m in ms:
                    if m["pkg"] == F.QPKG:
                        continue              # package main cannot name q's unexported method
                    for _ in range(2):
                        body.append("\t\tguard(func() { %s })" % call_expr("x", m))
                body.append("\t}")
        if d["pkg"] == F.QPKG:
            continue
        def chain(i_, seen_):
            u_ = decls[i_]["under"]
            if u_["k"] != "struct": return 0
            best = 0
            for f_ in u_["fs"]:
                if f_["emb"]:
                    isp = f_["t"]["k"] == "ptr"
                    j_ = f_["t"]["e"]["d"] if isp else f_["t"]["d"]
                    if j_ in seen_: return 99
                    best = max(best, (1 if isp else 0) + chain(j_, seen_ | {j_}))
            return best
        if chain(di, {di}) > 3:
            continue
        pm = F.mset(fam, F.ptr(F.named(di)))
        vm = F.mset(fam, F.named(di))
        for (nm, pk), (sig, owner) in sorted(pm.items()):
            if pk not in ("", "main"):
                continue
            if owner >= 0 and decls[owner]["under"]["k"] == "iface":
                continue      # x.M through a nil embedded interface panics when the method value is bound in Go (gopherjs: when called)
            m = dict(name=nm, sig=sig)
            si = sig_index(sig)
            args = SIG_ARGS[si]
            xarg = (", " + args) if args else ""
            body.append("\tguard(func() {\n\t\tx := %s(3)\n\t\tprintln(\"X mval\", %d, %s)\n\t\tf := x.%s\n\t\tguard(func() { f(%s) })\n\t\tguard(func() { f(%s) })" % (mk, di, json.dumps(nm), nm, args, args))
            body.append("\t\tg := (*%s).%s\n\t\tguard(func() { g(x%s) })" % (d["name"], nm, xarg))
            if (nm, pk) in vm:
                body.append("\t\th := %s.%s\n\t\tguard(func() { h(*x%s) })\n\t\tguard(func() { %s })" % (d["name"], nm, xarg, call_expr("x", m)))
            body.append("\t})")
    src += "func main() {\n" + "\n".join(body) + "\n}\n"
    return {"main.go": src, "q/q.go": qsrc}, observable


def parse_output(txt, nprobes):
    ans = [["skip"] for _ in range(nprobes)]
    extra = []
    for line in txt.split("\n"):
        w = line.split(" ")
        if w[0] == "P" and len(w) >= 4:
            k = int(w[1])
            if w[2] == "assert": ans[k] = ["assert", w[3] == "true", w[4] if len(w) > 4 else ""]
            elif w[2] == "ident": ans[k] = ["ident", w[3] == "true"]
            elif w[2] == "eq": ans[k] = ["eq", "panic" if w[3] == "panic" else w[3] == "true"]
        elif line.strip():
            extra.append(line)
    return ans, extra


def build_and_run(ctx, d, files):
    """returns (gopherjs output, native output) as text (println goes to stderr in both)"""
    C.write_go_program(d, files, module="verifprog")
    rc, log = C.gopherjs_build(d, timeout=900)
    if rc == 124 or "[timeout" in log:
        return None, "INFRA gopherjs build timed out"
    if rc != 0:
        return None, "gopherjs build failed: " + log[-1500:]
    rc, out, err = C.run_node(os.path.join(d, "out.js"), cwd=d, timeout=120)
    js = err + out
    if rc == 124 or "[timeout" in err:
        return None, "INFRA node run timed out"
    if rc != 0:
        js += "\n[exit %d]" % rc
    rc2, out2 = C.sh(["go", "run", "."], cwd=d, env=C.goenv(), timeout=900)
    if rc2 == 124 or "[timeout" in out2:
        return None, "INFRA native go run timed out"
    if rc2 != 0 and "P " not in out2 and "emb " not in out2:
        return None, "INFRA native go failed: " + out2[-600:]
    return js, out2


WITNESS_MAIN = '''package main

import (
	au "verifprog/a/util"
	bu "verifprog/b/util"
	"verifprog/q"
)

type T struct{}
type I interface{ M() }
type Im interface{ m() }
type IN interface{ N() }
type L1 struct{}

func (L1) M() {}

type A struct{}

func (A) M() {}

type B struct{}

func (B) M() {}

type S struct {
	A
	B
}
type FS struct {
	A
	M int
}
type Am struct{}

func (Am) m() {}

type Bm struct{ Am }
type Sm struct {
	q.Q
	Bm
}
type PA struct{}

func (*PA) M() {}

type PC struct{ B }
type PS struct {
	PA
	PC
}
type C struct{ A }
type D struct{ A }
type CD struct {
	C
	D
}
type NI interface{ M() }
type SI struct{ NI }
type X struct{ au.T }
type Y struct{ bu.T }
type XY struct {
	X
	Y
}

func ff() interface{} { type L struct{ L1 }; return L{} }
func gg() interface{} { type L struct{ x int }; return L{} }

func main() {
	var a interface{} = struct{ T }{}
	var b interface{} = struct{ T T }{}
	println("emb", a == b)
	var c interface{} = struct{ a int }{1}
	println("pkg", c == q.Mk())
	var d1 interface{} = struct {
		A int "t$B,1,"
	}{}
	var d2 interface{} = struct {
		A int "t,0$B,1,"
	}{}
	var e interface{} = struct {
		A int "t"
		B int
	}{}
	println("tag", d1 == e, d2 == e)
	_, ok1 := ff().(I)
	_, ok2 := gg().(I)
	_, ok2b := interface{}(XY{}).(IN)
	println("memo", ok1, ok2, ok2b)
	_, ok3 := interface{}(S{}).(I)
	println("ambig", ok3)
	_, ok4 := interface{}(FS{}).(I)
	println("field", ok4)
	_, ok5 := interface{}(Sm{}).(Im)
	println("mpkg", ok5)
	_, ok6 := interface{}(PS{}).(I)
	println("pshadow", ok6)
	_, ok7 := interface{}(CD{}).(I)
	println("diamond", ok7)
	_, ok8 := interface{}(SI{}).(I)
	println("ifdup", ok8)
	rc := &RC{}
	f := rc.N
	var ri interface{ N() int } = *rc
	println("recvcopy", f(), f(), ri.N(), ri.N())
	println("cmpstale", eqs([2]UC{}, [2]UC{}), eqs(struct{ UC }{}, struct{ UC }{}), eqs(UC{}, UC{}))
	var fo interface{ W() string } = FOS{}
	println("fwdorder", fo.W(), FOS.W(FOS{}))
	fp := &FPS{}
	var fpi interface{ N() int } = fp
	println("fwdptr", safeInt(func() int { return fpi.N() }), safeInt(func() int { return (*FPS).N(fp) }))
}

type FOA struct{}

func (FOA) W() string { return "A" }

type FOB struct{ FOA }
type FOD struct{}

func (FOD) W() string { return "D" }

type FOS struct {
	FOB
	FOD
}
type FPT int

func (r *FPT) N() int { *r++; return int(*r) }

type FPS struct{ FPT }

func safeInt(f func() int) (r int) {
	defer func() {
		if recover() != nil {
			r = -1
		}
	}()
	return f()
}

type RC struct{ c int }

func (r RC) N() int { r.c++; return r.c }

type UC struct{ f func() }

func eqs(a, b interface{}) (r string) {
	defer func() {
		if recover() != nil {
			r = "panic"
		}
	}()
	if a == b {
		return "true"
	}
	return "false"
}
'''
WITNESS_FILES = {
    "main.go": WITNESS_MAIN,
    "q/q.go": "package q\n\ntype Q struct{}\n\nfunc (Q) m() {}\n\nfunc Mk() interface{} { return struct{ a int }{1} }\n",
    "a/util/u.go": "package util\n\ntype T struct{}\n\nfunc (T) M() {}\n",
    "b/util/u.go": "package util\n\ntype T struct{}\n\nfunc (T) N() {}\n",
}


XSIG = dict(recvcopy="value-receiver-not-copied-per-call", cmpstale="iface-eq-stale-comparable-flag",
            fwdorder="forwarder-field-order-instead-of-depth", fwdptr="forwarder-ptr-method-of-embedded-nonstruct")
XWHAT = dict(
    recvcopy="a value-receiver method that modifies its receiver sees the modification of the previous call when called through a "
             "method value or an interface holding the struct (Go: every call gets a fresh copy): f := x.N; f(); f() prints 1 2",
    fwdorder="type B struct{A}; type S struct{B; D} with A.M and D.M: a call through an interface (or S.M as method expression) runs A.M "
             "(first embedded field that has the name) instead of D.M (the shallowest): synthesizeMethod is first-field-wins",
    fwdptr="type T int; func (r *T) N(); type S struct{T}: x := &S{}; interface{N()}(x).N() and (*S).N(x) panic (TypeError): the synthesized "
           "forwarder wraps the embedded non-struct value in T, whose prototype has no pointer-receiver methods",
    cmpstale="[2]U{} / struct{U}{} with U struct{f func()} compared through interfaces give true instead of the run-time panic: "
             "anonymous composite types read elem.comparable before the named element type was initialised")


def witness_program(ctx, cur, SIG, WHAT):
    SIG = dict(SIG, **XSIG); WHAT = dict(WHAT, **XWHAT); cur = dict(cur, recvcopy=None, cmpstale=None, fwdorder=None, fwdptr=None)
    d = os.path.join(ctx.work, "witness")
    js, go = build_and_run(ctx, d, WITNESS_FILES)
    if js is None and go.startswith("INFRA"):
        ctx.notes.append("witness program skipped: " + go[:200])
        return
    if js is None:
        ctx.violation("witness-program-failed", go[:300], dict(kind="program", files=WITNESS_FILES, log=go), concrete=False)
        return
    jl = {l.split(" ")[0]: l for l in js.split("\n") if l.strip()}
    gl = {l.split(" ")[0]: l for l in go.split("\n") if l.strip()}
    seen = {}
    for f in SIG:
        seen[f] = (jl.get(f), gl.get(f))
        ctx.count(["witness", f], nontrivial=True)
        if gl.get(f) is None:
            ctx.violation("witness-program-failed", "native Go printed no line for " + f, dict(kind="program", files=WITNESS_FILES, native=go), concrete=False)
        elif jl.get(f) != gl.get(f):
            ctx.violation(SIG[f], WHAT[f] + " [compiled witness: gopherjs `%s`, native Go `%s`]" % (jl.get(f), gl.get(f)),
                          dict(kind="program", files=WITNESS_FILES, gopherjs=js, native=go, line=f))
        # the node driver and the compiled program must agree on which classes are present
        if cur[f] is not None and (jl.get(f) == gl.get(f)) != bool(cur[f]) and f != "ifdup":
            ctx.violation("witness-node-vs-compiled", "node driver and compiled witness disagree on class " + f,
                          dict(kind="program", files=WITNESS_FILES, gopherjs=js, native=go, node_says_repaired=cur[f]), concrete=False)
    ctx.cov["compiled_witness_lines"] = {f: dict(gopherjs=seen[f][0], native=seen[f][1]) for f in seen}


def name_depths(fam, t):
    """name -> depth at which a field or method of that name first appears below type t (Go's levels)"""
    cur, seen, out = [t["e"] if t["k"] == "ptr" else t], [], {}
    for depth in range(len(fam["decls"]) + 2):
        nxt = []
        for et in cur:
            if any(F.ident(et, x) for x in seen): continue
            seen.append(et)
            if et["k"] == "named":
                for m in fam["decls"][et["d"]]["meths"]:
                    out.setdefault(m["name"], depth)
            u = F.under(fam, et)
            if u["k"] == "struct":
                for f in u["fs"]:
                    out.setdefault(f["name"], depth)
                    if f["emb"]:
                        nxt.append(f["t"]["e"] if f["t"]["k"] == "ptr" else f["t"])
            elif u["k"] == "iface":
                for m in u["ms"]:
                    out.setdefault(m["name"], depth)
        cur = nxt
    return out


def forwarder_classes(fam):
    """per declaration: does a synthesized forwarder of it (or of a type it embeds) fall into the two recorded forwarder
    classes?  fwdorder: an earlier embedded field has a name deeper than a later field; fwdptr: a value-embedded
    non-struct named type with pointer-receiver methods"""
    decls = fam["decls"]
    own = {}
    for i, d in enumerate(decls):
        fo = fp = False
        if d["under"]["k"] == "struct":
            embs = [f for f in d["under"]["fs"] if f["emb"]]
            deps = [name_depths(fam, f["t"]) for f in embs]
            for a in range(len(embs)):
                for b in range(a + 1, len(embs)):
                    for nm, da in deps[a].items():
                        if nm in deps[b] and deps[b][nm] < da:
                            fo = True
            for f in embs:
                if f["t"]["k"] == "named":
                    e = decls[f["t"]["d"]]
                    if e["under"]["k"] not in ("struct", "iface") and any(m["ptr"] for m in e["meths"]):
                        fp = True
        own[i] = (fo, fp)
    def reach(i, seen):
        res = [own[i]]
        u = decls[i]["under"]
        if u["k"] == "struct":
            for f in u["fs"]:
                if f["emb"]:
                    j = f["t"]["e"]["d"] if f["t"]["k"] == "ptr" else f["t"]["d"]
                    if j not in seen:
                        res += reach(j, seen | {j})
        return res
    out = {}
    for i in own:
        rs = reach(i, {i})
        out[i] = (any(x[0] for x in rs), any(x[1] for x in rs))
    return out


def compiled_families(ctx, cur, coq_eval, variants_for, attribute, SIG, WHAT):
    r = ctx.rng("compiled")
    n = 8 if ctx.quick else 80
    fams = [F.gen_family(r, compiled=True) for _ in range(n)]
    progs = [print_program(fam, r) for fam in fams]

    def one(i):
        return build_and_run(ctx, os.path.join(ctx.work, "cf%d" % i), progs[i][0])
    outs = C.parallel_map(one, range(n))
    cases, keep = [], []
    specs_by_fam = {}
    stats = dict(programs=n, probe_lines=0, extra_lines=0, differing_probe_lines=0, differing_extra_lines=0, explained_by_model=0)
    vs1, unfixed = variants_for(cur, attribution=True)
    for i, (fam, (files, observable), (js, go)) in enumerate(zip(fams, progs, outs)):
        ctx.count(["compiled", fam], nontrivial=True)
        if js is None and go.startswith("INFRA"):
            ctx.notes.append("compiled family %d skipped: %s" % (i, go[:200]))
            continue
        if js is None:
            ctx.violation("compiled-family-build-failed", go[:300], dict(kind="program", files=files, log=go), concrete=False)
            continue
        ja, jx = parse_output(js, len(fam["probes"]))
        ga, gx = parse_output(go, len(fam["probes"]))
        sp_ = F.spec_answers(fam)
        specs_by_fam[i] = sp_
        stats["probe_lines"] += len(observable); stats["extra_lines"] += len(gx)
        cases.append(dict(fam=fam, variants=vs1, obs=ja, ref=ga))
        keep.append((i, ja, ga, jx, gx))
    ev = coq_eval(ctx, cases, "prog", shard=2) if cases else []
    nrep = {}
    for (i, ja, ga, jx, gx), c, e in zip(keep, cases, ev):
        fam, files = fams[i], progs[i][0]
        rep = dict(kind="program", files=files)
        if e is not None and e[2]:
            p = e[2][0]
            ctx.violation("spec-vs-native-go", "the Coq SPEC and native Go disagree on probe %s: Go %s" % (json.dumps(fam["probes"][p])[:80], json.dumps(ga[p])),
                          dict(rep, probe_index=p, native=ga[p]), concrete=False)
        sp_ = specs_by_fam[i]
        diffs = [k for k in range(len(ja)) if ga[k][0] != "skip" and (ja[k][0] == "skip" or not F.ans_eq_loose(ja[k], ga[k], sp_[k]))]
        stats["differing_probe_lines"] += len(diffs)
        # a difference at a probe is explained when the model (which contains exactly the known, still unrepaired
        # classes) gives the run-time's answer there; the emission order of anonymous types is emulated, so for the
        # struct-key classes (first constructor wins) a family that touches them is attributed to them as a whole
        modeldiff = set(e[0][0][0]) if e is not None else set()
        touches = {u: bool(e[0][1 + k][1]) for k, u in enumerate(unfixed)} if e is not None else {}
        keycls = [u for u in ("emb", "pkg", "tag") if touches.get(u)]
        def lit(t):
            k_ = t["k"]
            if k_ == "struct": return True
            if k_ in ("ptr", "slice", "array", "chan"): return lit(t["e"])
            if k_ == "map": return lit(t["key"]) or lit(t["e"])
            if k_ == "func": return any(lit(x) for x in t["ps"] + t["rs"])
            return False
        def maskable(k):        # only unnamed types that contain a struct literal can have been merged with another type
            return bool(keycls) and any(isinstance(i_, int) and lit(fam["univ"][i_]) for i_ in fam["probes"][k][1:3])
        diffs = [k for k in diffs if k in modeldiff and not maskable(k)]
        # extra observations are compared block by block (a type switch, the calls through one interface, one method value);
        # a differing block is explained when the model says the method sets of that dynamic type are touched by a known class
        affected = set()
        if e is not None:
            for k in e[0][0][1]:
                pr = fam["probes"][k]
                if pr[0] in ("assert", "mset"):
                    affected.add(pr[1])
        def uidx(di):
            return [i_ for i_, t_ in enumerate(fam["univ"]) if (t_["k"] == "named" and t_["d"] == di) or
                    (t_["k"] == "ptr" and t_["e"]["k"] == "named" and t_["e"]["d"] == di)]
        def blocks(lines):
            out_, cur_ = {}, None
            for l_ in lines:
                if l_.startswith("X "):
                    cur_ = l_
                    out_.setdefault(cur_, [])
                elif cur_ is not None:
                    out_[cur_].append(l_)
            return out_
        jb, gb = blocks(jx), blocks(gx)
        fwd = forwarder_classes(fam)
        crashed = "[exit" in (outs[i][0] or "")
        xdiff = []
        for h in gb:
            w_ = h.split(" ")
            if h not in jb and crashed:
                continue                      # output ends at the crash; the crashing block itself is compared below
            if jb.get(h) != gb[h] or (crashed and h == list(jb.keys())[-1]):
                idxs = [int(w_[2])] if w_[1] == "switch" else uidx(int(w_[2]))
                if not any(i_ in affected for i_ in idxs) and jb.get(h) != gb[h]:
                    # same trace up to the counters printed by value-receiver methods -> the receiver-copy class
                    norm = lambda ls: [l_ if l_.startswith("*") else re.sub(r" \d+$", "", l_) for l_ in (ls or [])]
                    def nocopy(ls):      # the trace Go would print if value receivers were never copied (one counter per owner)
                        cnt_, out_ = {}, []
                        for l_ in ls:
                            m_ = re.match(r"(\*?)(\w+)\.(\w+) (\d+)$", l_)
                            if not m_:
                                out_.append(l_); continue
                            cnt_[m_.group(2)] = cnt_.get(m_.group(2), 0) + 1
                            out_.append("%s%s.%s %d" % (m_.group(1), m_.group(2), m_.group(3), cnt_[m_.group(2)]))
                        return out_
                    recv = norm(jb.get(h)) == norm(gb[h]) or (jb.get(h) or []) == nocopy(gb[h])
                    kind_ = "recvcopy" if recv else False
                    if not recv and w_[1] == "switch":
                        # interface comparison of the bound variable: the stale-comparable class (true instead of a panic)
                        a_, b_ = jb.get(h) or [], gb[h]
                        if len(a_) == len(b_) and all(x_ == y_ or (y_ == "same panic" and x_.startswith("same ")) for x_, y_ in zip(a_, b_)):
                            kind_ = "cmpstale"
                        else:
                            def decls_in(t_):
                                if t_["k"] == "named": return [t_["d"]]
                                if t_["k"] in ("ptr", "slice", "array", "chan"): return decls_in(t_["e"])
                                if t_["k"] == "struct": return [x_ for f_ in t_["fs"] for x_ in decls_in(f_["t"])]
                                return []
                            fl_ = [fwd.get(d_, (False, False)) for d_ in decls_in(fam["univ"][int(w_[2])])]
                            if any(x_[1] for x_ in fl_) and "panic" in a_:
                                kind_ = "fwdptr"
                            elif any(x_[0] for x_ in fl_):
                                kind_ = "fwdorder"
                    if not recv and w_[1] in ("call", "mval"):
                        fo_, fp_ = fwd.get(int(w_[2]), (False, False))
                        if fp_ and "panic" in (jb.get(h) or []):
                            kind_ = "fwdptr"
                        elif fo_:
                            kind_ = "fwdorder"
                    xdiff.append(("%s -> %s" % (h, jb.get(h)), "%s -> %s" % (h, gb[h]), kind_))
        for h in jb:
            if h not in gb:
                w_ = h.split(" ")
                idxs = [int(w_[2])] if w_[1] == "switch" else uidx(int(w_[2]))
                if not any(i_ in affected for i_ in idxs):
                    xdiff.append(("%s -> %s" % (h, jb[h]), "(absent)", False))
        xdiff = sorted(xdiff, key=lambda x_: bool(x_[2]))[:1]      # an unexplained difference first
        stale = [k for k in diffs if ja[k][0] == "eq" and ga[k][1] == "panic" and ja[k][1] != "panic"]
        if stale:
            nrep["cmpstale"] = nrep.get("cmpstale", 0) + 1
            if nrep["cmpstale"] <= 1:
                ctx.violation(XSIG["cmpstale"], XWHAT["cmpstale"] + " [probe %s]" % json.dumps(fam["probes"][stale[0]])[:100],
                              dict(rep, probe_index=stale[0], gopherjs=ja[stale[0]], native=ga[stale[0]]))
            diffs = [k for k in diffs if k not in stale]
        if xdiff and xdiff[0][2]:
            kc = xdiff[0][2]
            nrep[kc] = nrep.get(kc, 0) + 1
            if nrep[kc] <= 1:
                ctx.violation(XSIG[kc], XWHAT[kc] + " [%s vs native %s]" % (xdiff[0][0][:120], xdiff[0][1][:120]), dict(rep))
            xdiff = []
        if not diffs and not xdiff:
            stats["explained_by_model"] += 1
            continue
        what = ("probe %s: gopherjs %s, native Go %s" % (json.dumps(fam["probes"][diffs[0]])[:80], json.dumps(ja[diffs[0]]), json.dumps(ga[diffs[0]]))) if diffs \
            else "line `%s` vs native `%s`" % (xdiff[0][0][:80], xdiff[0][1][:80])
        sig = "compiled-" + (ja[diffs[0]][0] if diffs else "dispatch")
        nrep[sig] = nrep.get(sig, 0) + 1
        if nrep[sig] <= 2:
            ctx.violation(sig, "compiled family behaves differently from native Go and the model predicts no known class here: " + what,
                          dict(rep, gopherjs="\n".join(js_line for js_line in (outs[i][0] or "").split("\n")[:400]), native="\n".join((outs[i][1] or "").split("\n")[:400])))
    ctx.cov["compiled_family_stats"] = stats
    if progs:
        ctx.sample(dict(kind="program", main_go=progs[0][0]["main.go"][:1500]))


def replay_program(ctx, rp):
    d = os.path.join(ctx.work, "replay")
    js, go = build_and_run(ctx, d, rp["files"])
    print("gopherjs:\n", js)
    print("native:\n", go)
