"""C05 — generator of Go programs whose behaviour depends on what the dead-code elimination keeps.

A program = package main + package verifprog/sub, assembled from feature instances.  Every instance
has a unique suffix K, lives in one of the two packages, declares code of which only a part is reachable,
and has a driver RunK() that main() calls -- or does not call (then the whole feature is dead, apart from
side-effecting initialisers and init functions, which must still run).  Only int/string/bool are printed.
Allowed imports only (see AGENT_GUIDE): nothing but "unsafe" and the sibling package.
"""

BASE_SUB = '''
type Named int

func (n Named) Get() int { return int(n) }

type Rec struct {
	A int
	b string
}

type Gen[T any] struct{ V T }

func (g Gen[T]) Val() T { return g.V }

type Getter interface{ Get() int }
'''


def shapes(q):
    """type expressions usable in signatures / as type arguments; q = "sub." in main, "" in sub"""
    return ["int", "string", "bool", "[]int", "[]string", "map[string]int", "*int", "func(int) string", "chan int", "[3]int",
            "struct{ A int; b string }", "any", "error", "interface{ Get() int }", q + "Named", "*" + q + "Rec", q + "Gen[int]",
            "[]" + q + "Gen[string]", "map[" + q + "Named][]" + q + "Rec", "func(...int) (" + q + "Named, error)", "<-chan string",
            "[]*" + q + "Gen[" + q + "Named]", q + "Getter", "[2][]map[int]*" + q + "Rec", "func(" + q + "Gen[[]int]) " + q + "Gen[" + q + "Rec]"]


def pick_types(r, q, n):
    s = shapes(q)
    return [r.choice(s) for _ in range(n)]


# every feature returns dict(pkg=<"main"|"sub">, decls=str, run=str, main_decls=str, sub_decls=str, unsafe=bool, name=str)

def equiv_shapes(q, K):
    """IDENTICAL types in several spellings (interfaces written with embedding / written out / reordered, parameter names
    inside func types, any vs interface{}).  NOT byte/uint8 or rune/int32: that pair is a recorded finding with its own witness."""
    k = dict(K=K, q=q)
    return [tuple(x % k for x in t) for t in [
        ("interface{ rd%(K)s; name%(K)s() string }", "interface{ read%(K)s() int; name%(K)s() string }",
         "interface{ name%(K)s() string; read%(K)s() int }", "interface{ rd%(K)s; nm%(K)s }", "interface{ nm%(K)s; read%(K)s() int }"),
        ("[]interface{ rd%(K)s; name%(K)s() string }", "[]interface{ name%(K)s() string; read%(K)s() int }"),
        ("func(interface{ rd%(K)s; nm%(K)s }) int", "func(x interface{ read%(K)s() int; name%(K)s() string }) (n int)"),
        ("interface{ %(q)sGetter; Name() string }", "interface{ Get() int; Name() string }", "interface{ Name() string; %(q)sGetter }"),
        ("map[string]interface{ %(q)sGetter; rd%(K)s }", "map[string]interface{ read%(K)s() int; Get() int }"),
        ("func(int) string", "func(x int) (s string)"),
        ("any", "interface{}"),
        ("struct{ f interface{ rd%(K)s; nm%(K)s } }", "struct{ f interface{ read%(K)s() int; name%(K)s() string } }"),
        ("*interface{ nm%(K)s }", "*interface{ name%(K)s() string }"),
    ]]


def f_iface_unexported(r, K, pkg):
    q = "sub." if pkg == "main" else ""
    np_ = r.choice([0, 1, 1, 2, 2, 3])
    same = np_ >= 2 and r.random() < 0.25
    eq = equiv_shapes(q, K)

    def pick3():
        """(spelling in the implementation, spelling in the interface, spelling at the use site) of one type"""
        if r.random() < 0.4:
            t = r.choice(eq)
            return r.choice(t), r.choice(t), r.choice(t)
        t = r.choice(shapes(q))
        return t, t, t
    p3 = [pick3() for _ in range(np_)]
    if same:
        p3 = [p3[0]] * np_
    pts = [t[0] for t in p3]
    variadic = np_ >= 1 and r.random() < 0.3
    nres = r.choice([0, 1, 1, 2])
    r3 = [pick3() for _ in range(nres)]
    rts = [t[0] for t in r3]
    ptr = r.random() < 0.5
    # implementation: named parameters / results (grouped when all of one type)
    def plist(names, impl):
        parts = []
        for i, t3 in enumerate(p3):
            t = t3[0] if impl else t3[1]
            tt = ("..." + t) if (variadic and i == len(p3) - 1) else t
            parts.append((names % i + " " if names else "") + tt)
        if impl and same and not variadic:
            return ", ".join("a%d" % i for i in range(np_)) + " " + pts[0]
        return ", ".join(parts)
    impl_params = plist("a%d", True)
    iface_params = plist(r.choice(["", "", "p%d", "a%d"]), False)
    impl_res = "" if nres == 0 else " (" + ", ".join("r%d %s" % (i, t) for i, t in enumerate(rts)) + ")"
    irts = [t[1] for t in r3]
    iface_res = "" if nres == 0 else (" " + irts[0] if nres == 1 else " (" + ", ".join(irts) + ")")
    variant = r.choice(["direct", "any", "anon", "embedded", "local"])
    d = ["type rd%s interface{ read%s() int }" % (K, K), "type nm%s interface{ name%s() string }" % (K, K)]
    d.append("type i%s interface{ m%s(%s)%s }" % (K, K, iface_params, iface_res))
    d.append("type t%s struct{ v int }" % K)
    d.append("func (t %st%s) m%s(%s)%s { println(\"%s:m\", t.v); return }" % ("*" if ptr else "", K, K, impl_params, impl_res, K))
    d.append("func (t t%s) other%s() { println(\"%s:other\") }" % (K, K, K))
    d.append("func (t t%s) Exp%s() int { println(\"%s:Exp\"); return t.v }" % (K, K, K))
    if variant == "embedded":
        d.append("type j%s interface { i%s; Exp%s() int }" % (K, K, K))
    val = "%st%s{%s}" % ("&" if ptr else "", K, K)
    args = []
    run = []
    for i, t in enumerate(t3[2] for t3 in p3):
        if variadic and i == len(pts) - 1:
            if r.random() < 0.5:
                run.append("var a%d %s" % (i, t)); args.append("a%d" % i)
        else:
            run.append("var a%d %s" % (i, t)); args.append("a%d" % i)
    lhs = "" if nres == 0 else ", ".join(["_"] * nres) + " = "
    call = "%sx.m%s(%s)" % (lhs, K, ", ".join(args))
    if variant == "direct":
        run += ["var x i%s = %s" % (K, val), call]
    elif variant == "embedded":
        run += ["var x j%s = %s" % (K, val), call, "println(x.Exp%s())" % K]
    elif variant == "local":
        run += ["type li%s interface{ m%s(%s)%s }" % (K, K, iface_params, iface_res), "var x li%s = %s" % (K, val), call]
    elif variant == "anon":
        run += ["var x interface{ m%s(%s)%s } = %s" % (K, iface_params, iface_res, val), call]
    else:
        run += ["var y any = %s" % val, "if x, ok := y.(i%s); ok {" % K, "\t" + call, "} else {", "\tprintln(\"%s:notok\")" % K, "}"]
    return dict(pkg=pkg, decls="\n".join(d), run="\n".join(run), name="iface_unexported/" + variant)


def f_method_values(r, K, pkg):
    d = ["type t%s struct{ v int }" % K,
         "func (t t%s) val%s() int { println(\"%s:val\"); return t.v }" % (K, K, K),
         "func (t *t%s) ptr%s(x int) int { println(\"%s:ptr\"); return t.v + x }" % (K, K, K),
         "func (t t%s) Exp%s(x int) int { println(\"%s:Exp\"); return t.v * x }" % (K, K, K),
         "func (t t%s) dead%s() int { return -1 }" % (K, K),
         "type i%s interface{ val%s() int }" % (K, K)]
    opts = ["f := t%s{1}.val%s; println(f())" % (K, K),
            "g := (*t%s).ptr%s; println(g(&t%s{2}, 3))" % (K, K, K),
            "h := t%s.val%s; println(h(t%s{4}))" % (K, K, K),
            "e := t%s.Exp%s; println(e(t%s{5}, 2))" % (K, K, K),
            "ie := i%s.val%s; println(ie(t%s{6}))" % (K, K, K),
            "p := &t%s{7}; pf := p.ptr%s; println(pf(1))" % (K, K),
            "pe := (*t%s).val%s; println(pe(&t%s{8}))" % (K, K, K)]
    n = r.randint(1, len(opts))
    run = r.sample(opts, n)
    return dict(pkg=pkg, decls="\n".join(d), run="\n".join(run), name="method_values")


def f_iface_method_expr(r, K, pkg):
    """concrete methods reached ONLY through a method expression on an interface type (I.m)"""
    d = ["type shape%s interface { area%s() int; Perim%s() int }" % (K, K, K),
         "type sq%s struct{ s int }" % K,
         "func (q sq%s) area%s() int { println(\"%s:sq.area\"); return q.s * q.s }" % (K, K, K),
         "func (q sq%s) Perim%s() int { println(\"%s:sq.Perim\"); return 4 * q.s }" % (K, K, K),
         "type circ%s struct{ r int }" % K,
         "func (c *circ%s) area%s() int { println(\"%s:circ.area\"); return 3 * c.r * c.r }" % (K, K, K),
         "func (c *circ%s) Perim%s() int { println(\"%s:circ.Perim\"); return 6 * c.r }" % (K, K, K),
         "type big%s interface { shape%s; extra%s() int }" % (K, K, K),
         "func (q sq%s) extra%s() int { println(\"%s:sq.extra\"); return 1 }" % (K, K, K),
         "var pkgmeasure%s = shape%s.area%s" % (K, K, K),
         "func apply%s(f func(shape%s) int, s shape%s) int { return f(s) }" % (K, K, K),
         "func deadarea%s() int { return sq%s{1}.s }" % (K, K)]
    opts = ["measure := shape%s.area%s; println(measure(sq%s{2}))" % (K, K, K),
            "println(apply%s(shape%s.area%s, &circ%s{3}))" % (K, K, K, K),
            "println(pkgmeasure%s(sq%s{4}))" % (K, K),
            "pm := shape%s.Perim%s; println(pm(sq%s{5}), pm(&circ%s{6}))" % (K, K, K, K),
            "am := (interface{ area%s() int }).area%s; println(am(sq%s{7}))" % (K, K, K),
            "bm := big%s.area%s; println(bm(sq%s{8}))" % (K, K, K),
            "xm := big%s.extra%s; println(xm(sq%s{9}))" % (K, K, K)]
    run = r.sample(opts, r.choice([1, 1, 2, 3]))
    return dict(pkg=pkg, decls="\n".join(d), run="\n".join(run), name="iface_method_expr")


def f_embedding(r, K, pkg):
    star = r.random() < 0.5
    d = ["type base%s struct{ v int }" % K,
         "func (b base%s) show%s() int { println(\"%s:show\"); return b.v }" % (K, K, K),
         "func (b *base%s) pshow%s() int { println(\"%s:pshow\"); return b.v + 1 }" % (K, K, K),
         "func (b base%s) Show%s() int { println(\"%s:Show\"); return b.v + 2 }" % (K, K, K),
         "func (b base%s) dead%s() int { return 0 }" % (K, K),
         "type mid%s struct{ %sbase%s }" % (K, "*" if star else "", K),
         "type top%s struct { mid%s; extra int }" % (K, K),
         "type sh%s interface { show%s() int; Show%s() int }" % (K, K, K),
         "type psh%s interface{ pshow%s() int }" % (K, K),
         "type wrap%s struct{ sh%s }" % (K, K)]
    run = ["t := top%s{mid%s{%sbase%s{%s}}, 1}" % (K, K, "&" if star else "", K, K)]
    opts = ["var s sh%s = t; println(s.show%s(), s.Show%s())" % (K, K, K),
            "var p psh%s = &t; println(p.pshow%s())" % (K, K),
            "w := wrap%s{t}; println(w.show%s())" % (K, K),
            "f := t.show%s; println(f())" % K,
            "g := top%s.Show%s; println(g(t))" % (K, K),
            "var a any = &t; if q, ok := a.(sh%s); ok { println(q.show%s()) }" % (K, K)]
    run += r.sample(opts, r.randint(1, len(opts)))
    run.append("_ = t")
    return dict(pkg=pkg, decls="\n".join(d), run="\n".join(run), name="embedding/" + ("ptr" if star else "val"))


def nested_shapes(q, K):
    """types that mention the receiver's type parameter (written @) through ANOTHER generic type / composite"""
    return [q + "Gen[@]", "[]" + q + "Gen[@]", "map[string]" + q + "Gen[@]", "pair%s[string, @]" % K, "func(" + q + "Gen[@]) @",
            "*box%s[@]" % K, q + "Gen[" + q + "Gen[@]]", "chan pair%s[@, @]" % K, "pair%s[[]@, map[string]@]" % K, "@", "[]@"]


def f_generics(r, K, pkg):
    q = "sub." if pkg == "main" else ""
    A, B = pick_types(r, q, 2)
    ns = nested_shapes(q, K)
    N1, N2 = r.choice(ns), r.choice(ns)
    d = ["type box%s[T any] struct{ v T }" % K,
         "func (b box%s[T]) Get%s() T { println(\"%s:Get\"); return b.v }" % (K, K, K),
         "func (b *box%s[T]) set%s(v T) { println(\"%s:set\"); b.v = v }" % (K, K, K),
         "func (b box%s[T]) dead%s() T { return b.v }" % (K, K),
         "type getter%s[T any] interface{ Get%s() T }" % (K, K),
         "type setter%s[T any] interface{ set%s(T) }" % (K, K),
         "func use%s[T any](s setter%s[T], v T) { s.set%s(v) }" % (K, K, K),
         "func wrap%s[T any](x T) box%s[[]T] { return box%s[[]T]{[]T{x}} }" % (K, K, K),
         "func twice%s[T any](x T) int { w := wrap%s(x); var s setter%s[[]T] = &w; s.set%s(nil); return len(w.v) }" % (K, K, K, K),
         "func store%s[T any, S interface{ set%s(T) }](s S, v T) { s.set%s(v) }" % (K, K, K),
         "func sum%s[T ~int | ~int64](xs ...T) T { var t T; for _, x := range xs { t += x }; return t }" % K,
         "func unusedgen%s[T any](x T) T { return x }" % K,
         "func deaduser%s() { _ = unusedgen%s(1); var b box%s[bool]; _ = b.dead%s() }" % (K, K, K, K),
         "type pair%s[A, B any] struct { a A; b B }" % K,
         "func (p pair%s[A, B]) swap%s() pair%s[B, A] { println(\"%s:swap\"); return pair%s[B, A]{p.b, p.a} }" % (K, K, K, K, K),
         "type swapper%s[A, B any] interface{ swap%s() pair%s[B, A] }" % (K, K, K),
         "func sw%s[A, B any](s swapper%s[A, B]) pair%s[B, A] { return s.swap%s() }" % (K, K, K, K),
         "type rec%s[T any] struct{ next *rec%s[T] }" % (K, K),
         "func (r *rec%s[T]) walk%s() *rec%s[T] { println(\"%s:walk\"); return r.next }" % (K, K, K, K),
         "type walker%s[T any] interface{ walk%s() *rec%s[T] }" % (K, K, K),
         "func anon%s[T any](v T) { var x interface{ set%s(T) } = &box%s[T]{}; x.set%s(v) }" % (K, K, K, K),
         # unexported / exported methods whose signature reaches T through a second level of generic instantiation
         "func (b *box%s[T]) mix%s(p %s) (r %s) { println(\"%s:mix\"); return }" % (K, K, N1.replace("@", "T"), N2.replace("@", "T"), K),
         "func (b box%s[T]) Mix%s(p %s) (r %s) { println(\"%s:Mix\"); return }" % (K, K, N2.replace("@", "T"), N1.replace("@", "T"), K),
         "type mixer%s[T any] interface{ mix%s(%s) %s }" % (K, K, N1.replace("@", "T"), N2.replace("@", "T")),
         "func viamixer%s[T any](m mixer%s[T]) { var p %s; _ = m.mix%s(p) }" % (K, K, N1.replace("@", "T"), K)]
    run = ["var za %s" % A, "b := &box%s[%s]{}" % (K, A)]
    opts = ["use%s[%s](b, za)" % (K, A),
            "var g getter%s[%s] = *b; _ = g.Get%s()" % (K, A, K),
            "println(twice%s(za))" % K,
            "store%s(b, za)" % K,
            "nb := box%s[box%s[%s]]{}; _ = nb.Get%s().Get%s()" % (K, K, B, K, K),
            "println(int(sum%s(1, 2, 3)))" % K,
            "println(int(sum%s[%sNamed](1, 2)))" % (K, q),
            "var sa any = b; if s, ok := sa.(setter%s[%s]); ok { s.set%s(za) } else { println(\"%s:notsetter\") }" % (K, A, K, K),
            "_, isB := sa2%s(b).(setter%s[%s]); println(isB)" % (K, K, B),
            "var pb %s; _ = sw%s[%s, %s](pair%s[%s, %s]{za, pb})" % (B, K, A, B, K, A, B),
            "var w walker%s[%s] = &rec%s[%s]{}; println(w.walk%s() == nil)" % (K, A, K, A, K),
            "anon%s(za)" % K,
            "var mp %s; _ = b.mix%s(mp)" % (N1.replace("@", A), K),
            "var mx mixer%s[%s] = b; var mq %s; _ = mx.mix%s(mq)" % (K, A, N1.replace("@", A), K),
            "viamixer%s[%s](b)" % (K, A),
            "var mr %s; _ = b.Mix%s(mr)" % (N2.replace("@", A), K),
            "ge := getter%s[%s].Get%s; _ = ge(*b)" % (K, A, K),
            "se := setter%s[%s].set%s; se(b, za)" % (K, A, K),
            "me := (*box%s[%s]).mix%s; var mt %s; _ = me(b, mt)" % (K, A, K, N1.replace("@", A)),
            "var mv func(%s) = (&box%s[%s]{}).set%s; mv(za)" % (A, K, A, K)]
    d.append("func sa2%s(x any) any { return x }" % K)
    run += r.sample(opts, r.randint(1, len(opts)))
    run.append("_, _ = za, b")
    return dict(pkg=pkg, decls="\n".join(d), run="\n".join(run), name="generics")


def f_local_types(r, K, pkg):
    q = "sub." if pkg == "main" else ""
    A = pick_types(r, q, 1)[0]
    d = ["type lb%s struct{ v int }" % K,
         "func (b lb%s) tag%s() int { println(\"%s:tag\"); return b.v }" % (K, K, K),
         "func (b lb%s) Tag%s() int { println(\"%s:Tag\"); return b.v }" % (K, K, K),
         "type tagger%s interface{ tag%s() int }" % (K, K),
         "func mk%s() any { type loc%s struct { lb%s; n int }; return loc%s{lb%s{%s}, 1} }" % (K, K, K, K, K, K),
         "func mk2%s() any { type loc%s struct{ n int }; return loc%s{2} }" % (K, K, K),
         "func gl%s[T any](x T) any { type in%s struct { f T; lb%s }; return in%s{x, lb%s{3}} }" % (K, K, K, K, K),
         "type holder%s struct{}" % K,
         "func (holder%s) make%s() any { type loc%s struct{ lb%s }; return &loc%s{lb%s{4}} }" % (K, K, K, K, K, K),
         "func deadmk%s() any { type dl%s struct{ lb%s }; return dl%s{} }" % (K, K, K, K)]
    opts = ["if t, ok := mk%s().(tagger%s); ok { println(t.tag%s()) } else { println(\"%s:no1\") }" % (K, K, K, K),
            "println(mk2%s() != nil)" % K,
            "var za %s; if t, ok := gl%s(za).(tagger%s); ok { println(t.tag%s()) } else { println(\"%s:no2\") }" % (A, K, K, K, K),
            "if t, ok := gl%s(\"s\").(interface{ Tag%s() int }); ok { println(t.Tag%s()) } else { println(\"%s:no3\") }" % (K, K, K, K),
            "println(mk%s() == mk%s(), mk%s() == mk2%s())" % (K, K, K, K),
            "if t, ok := (holder%s{}).make%s().(tagger%s); ok { println(t.tag%s()) } else { println(\"%s:no4\") }" % (K, K, K, K, K),
            "switch v := mk%s().(type) { case interface{ Tag%s() int }: println(v.Tag%s()); default: println(\"%s:no5\") }" % (K, K, K, K)]
    run = r.sample(opts, r.randint(1, len(opts)))
    return dict(pkg=pkg, decls="\n".join(d), run="\n".join(run), name="local_types")


def f_initialisers(r, K, pkg):
    q = "sub." if pkg == "main" else ""
    d = ["var cnt%s = bump%s(\"cnt\")" % (K, K),
         "var dep%s = cnt%s + 1" % (K, K),
         "var unused%s = helper%s()" % (K, K),
         "var p1%s, p2%s = pair%s()" % (K, K, K),
         "var fromch%s = <-mkch%s()" % (K, K),
         "var buf%s = mkbuf%s()" % (K, K),
         # two variables, one Decl named after the FIRST only, no call: decls.go forces such Decls alive (len(Lhs) != 1)
         "var mfirst%s, mok%s = tab%s[\"a\"]" % (K, K, K),
         "var anyv%s any = 5" % K,
         "var tfirst%s, tok%s = anyv%s.(int)" % (K, K, K),
         "var first%s = <-buf%s" % (K, K),          # a receive and nothing else: must not be eliminated
         "func mkbuf%s() chan int { c := make(chan int, 2); c <- 1; c <- 2; return c }" % K,
         "var tab%s = map[string]func(int) int{\"a\": fa%s, \"b\": fb%s}" % (K, K, K),
         "var lit%s = []func() int{fn%s}" % (K, K),
         "var deadtab%s = []func() int{deadfn%s}" % (K, K),
         "var conv%s = %sNamed(len(name%s))" % (K, q, K),
         "var name%s = \"n%s\"" % (K, K),
         "var mval%s = it%s{5}.m%s" % (K, K, K),
         "var viaiface%s ifc%s = it%s{6}" % (K, K, K),
         "type it%s struct{ v int }" % K,
         "func (t it%s) m%s() int { println(\"%s:it.m\"); return t.v }" % (K, K, K),
         "type ifc%s interface{ m%s() int }" % (K, K),
         "func bump%s(s string) int { println(\"%s:init\", s); return %s }" % (K, K, K),
         "func helper%s() int { println(\"%s:helper\"); return 1 }" % (K, K),
         "func pair%s() (int, int) { println(\"%s:pair\"); return 1, 2 }" % (K, K),
         "func mkch%s() chan int { c := make(chan int, 1); c <- 9; println(\"%s:mkch\"); return c }" % (K, K),
         "func fa%s(x int) int { return x + 1 }" % K, "func fb%s(x int) int { return x + 2 }" % K,
         "func fn%s() int { return 11 }" % K, "func deadfn%s() int { return 12 }" % K,
         "func init() { println(\"%s:initfunc\", dep%s) }" % (K, K)]
    r.shuffle(d)
    opts = ["println(cnt%s, dep%s)" % (K, K), "println(p1%s, p2%s)" % (K, K), "println(fromch%s)" % K,
            "println(tab%s[\"a\"](1), tab%s[\"b\"](1))" % (K, K), "println(lit%s[0]())" % K, "println(int(conv%s))" % K,
            "println(mval%s())" % K, "println(viaiface%s.m%s())" % (K, K), "println(<-buf%s)" % K,
            "println(mok%s)" % K, "println(tok%s)" % K, "println(tfirst%s, mfirst%s != nil)" % (K, K)]
    run = r.sample(opts, r.randint(1, len(opts)))
    return dict(pkg=pkg, decls="\n".join(d), run="\n".join(run), name="initialisers")


def f_linkname(r, K, pkg):
    sub = ["func hidden%s(x int) int { println(\"%s:hidden\"); return helper%s(x) }" % (K, K, K),
           "func helper%s(x int) int { return x * 2 }" % K,
           "type Recv%s struct{ N int }" % K,
           "func (r *Recv%s) meth%s(x int) int { println(\"%s:meth\"); return r.N + x + onlyvia%s() }" % (K, K, K, K),
           "func onlyvia%s() int { return 100 }" % K]
    main = ["//go:linkname ln%s verifprog/sub.hidden%s" % (K, K), "func ln%s(x int) int" % K,
            "//go:linkname lnm%s verifprog/sub.(*Recv%s).meth%s" % (K, K, K), "func lnm%s(r *sub.Recv%s, x int) int" % (K, K)]
    run = r.choice(["println(ln%s(2))" % K, "println(lnm%s(&sub.Recv%s{1}, 2))" % (K, K),
                    "println(ln%s(2), lnm%s(&sub.Recv%s{1}, 2))" % (K, K, K)])
    return dict(pkg="main", decls="\n".join(main), sub_decls="\n".join(sub), run=run, unsafe=True, name="linkname")


def f_runtime_paths(r, K, pkg):
    d = ["type err%s struct{ code int }" % K,
         "func (e err%s) Error() string { println(\"%s:Error\"); return \"err%s\" }" % (K, K, K),
         "type str%s int" % K,
         "func (s str%s) String() string { println(\"%s:String\"); return \"str\" }" % (K, K),
         "func cleanup%s() { println(\"%s:cleanup\") }" % (K, K),
         "func worker%s(c chan int) { println(\"%s:worker\"); c <- %s }" % (K, K, K),
         "func guarded%s() (res string) {\n\tdefer func() {\n\t\tif e, ok := recover().(error); ok {\n\t\t\tres = e.Error()\n\t\t}\n\t}()\n\tpanic(err%s{1})\n}" % (K, K),
         "func deadpath%s() error { return err%s{3} }" % (K, K)]
    opts = ["defer cleanup%s()" % K,
            "c := make(chan int); go worker%s(c); println(<-c)" % K,
            "println(guarded%s())" % K,
            "var a any = str%s(1); if s, ok := a.(interface{ String() string }); ok { println(s.String()) }" % K,
            "var e error = err%s{2}; println(e.Error())" % K,
            "fnv := cleanup%s; fnv()" % K]
    run = r.sample(opts, r.randint(1, len(opts)))
    return dict(pkg=pkg, decls="\n".join(d), run="\n".join(run), name="runtime_paths")


def f_named_composites(r, K, pkg):
    d = ["type inner%s struct { a int; b string }" % K,
         "type arr%s [2]inner%s" % (K, K), "type fn%s func(inner%s) int" % (K, K), "type mp%s map[string]arr%s" % (K, K),
         "type ch%s chan inner%s" % (K, K), "type ptr%s *inner%s" % (K, K),
         "type outer%s struct { in arr%s; f fn%s; m mp%s; c ch%s; p ptr%s; sl []inner%s }" % (K, K, K, K, K, K, K),
         "func (o outer%s) count%s() int { return len(o.in) + len(o.m) }" % (K, K),
         "type other%s struct { a int; b string }" % K,
         "func deadconv%s(x inner%s) other%s { return other%s(x) }" % (K, K, K, K),
         "type deadtype%s struct{ x outer%s }" % (K, K)]
    run = ["var z outer%s" % K]
    opts = ["println(z.count%s(), z.in[1].a, z.f == nil, z.p == nil)" % K,
            "z.m = mp%s{\"k\": arr%s{}}; z.f = func(i inner%s) int { return i.a + 1 }; println(z.f(z.m[\"k\"][0]))" % (K, K, K),
            "o := other%s(inner%s{1, \"x\"}); println(o.a, o.b)" % (K, K),
            "z.c = make(ch%s, 1); z.c <- inner%s{2, \"y\"}; println((<-z.c).a)" % (K, K),
            "z.sl = append(z.sl, inner%s{3, \"z\"}); println(len(z.sl), z.sl[0].b)" % K,
            "var zi any = z.in; _, isarr := zi.(arr%s); println(isarr)" % K]
    run += r.sample(opts, r.randint(1, len(opts)))
    run.append("_ = z")
    return dict(pkg=pkg, decls="\n".join(d), run="\n".join(run), name="named_composites")


def f_cross_embed(r, K, pkg):
    sub = ["type Base%s struct{ V int }" % K,
           "func (b Base%s) hid%s() int { println(\"%s:hid\"); return b.V }" % (K, K, K),
           "func (b *Base%s) phid%s() int { println(\"%s:phid\"); return b.V + 1 }" % (K, K, K),
           "type Shower%s interface{ hid%s() int }" % (K, K),
           "type PShower%s interface{ phid%s() int }" % (K, K),
           "func Use%s(s Shower%s) int { return s.hid%s() }" % (K, K, K),
           "func PUse%s(s PShower%s) int { return s.phid%s() }" % (K, K, K)]
    main = ["type mine%s struct{ sub.Base%s }" % (K, K), "type pmine%s struct{ *sub.Base%s }" % (K, K)]
    opts = ["println(sub.Use%s(mine%s{sub.Base%s{%s}}))" % (K, K, K, K),
            "println(sub.PUse%s(&mine%s{sub.Base%s{%s}}))" % (K, K, K, K),
            "println(sub.PUse%s(pmine%s{&sub.Base%s{%s}}))" % (K, K, K, K),
            "var a any = mine%s{}; _, ok := a.(sub.Shower%s); println(ok)" % (K, K)]
    run = r.sample(opts, r.randint(1, len(opts)))
    return dict(pkg="main", decls="\n".join(main), sub_decls="\n".join(sub), run="\n".join(run), name="cross_embed")


def f_constraint_methods(r, K, pkg):
    q = "sub." if pkg == "main" else ""
    A = pick_types(r, q, 1)[0]
    d = ["type cell%s struct{ v %s }" % (K, A),
         "func (c *cell%s) put%s(v %s) { println(\"%s:put\"); c.v = v }" % (K, K, A, K),
         "func (c *cell%s) name%s() string { println(\"%s:name\"); return \"cell\" }" % (K, K, K),
         "func (c *cell%s) deadm%s() {}" % (K, K),
         "func store%s[T any, S interface{ put%s(T) }](s S, v T) { s.put%s(v) }" % (K, K, K),
         "func call%s[T interface{ name%s() string }](x T) string { return x.name%s() }" % (K, K, K),
         "type num%s int" % K,
         "func (n num%s) double%s() int { println(\"%s:double\"); return int(n) * 2 }" % (K, K, K),
         # NOT `double() T`: a self-referential inline constraint sends dce.filterGen into infinite recursion
         # (finding dce-filter-stack-overflow-selfref-inline-constraint, reproduced by a fixed witness in props/c05.py)
         "func dbl%s[T interface{ ~int; double%s() int }](x T) int { return x.double%s() }" % (K, K, K)]
    opts = ["c := &cell%s{}; var za %s; store%s(c, za)" % (K, A, K),
            "println(call%s(&cell%s{}))" % (K, K),
            "println(dbl%s(num%s(4)))" % (K, K)]
    run = r.sample(opts, r.randint(1, len(opts)))
    return dict(pkg=pkg, decls="\n".join(d), run="\n".join(run), name="constraint_methods")


FEATURES = [f_iface_unexported, f_iface_unexported, f_iface_method_expr, f_method_values, f_embedding, f_generics, f_generics, f_local_types,
            f_initialisers, f_linkname, f_runtime_paths, f_named_composites, f_cross_embed, f_constraint_methods]


def gen_program(r, idx):
    """returns (files dict, meta dict)"""
    n = r.randint(2, 6)
    feats = []
    for j in range(n):
        f = r.choice(FEATURES)
        K = "%d" % (j + 1)
        ft = f(r, K, r.choice(["main", "sub"]))
        ft["used"] = r.random() < 0.75
        ft["K"] = K
        feats.append(ft)
    sub = ["package sub", "", BASE_SUB]
    main_decls, calls = [], []
    unsafe = any(ft.get("unsafe") for ft in feats)
    for ft in feats:
        K = ft["K"]
        if ft.get("sub_decls"):
            sub.append(ft["sub_decls"])
        body = "\n".join("\t" + l for l in ft["run"].split("\n"))
        if ft["pkg"] == "sub":
            sub.append(ft["decls"])
            sub.append("func Run%s() {\n%s\n}" % (K, body))
            call = "sub.Run%s()" % K
        else:
            main_decls.append(ft["decls"])
            main_decls.append("func run%s() {\n%s\n}" % (K, body))
            call = "run%s()" % K
        if ft["used"]:
            calls.append(call)
    r.shuffle(calls)
    main = ["package main", "", "import (", "\t\"verifprog/sub\""]
    if unsafe:
        main.append("\t_ \"unsafe\"")
    main += [")", "", "var _ = sub.Named(0)", ""] + main_decls + ["", "func main() {", "\tprintln(\"start\")"] + ["\t" + c for c in calls] + ["\tprintln(\"end\")", "}"]
    files = {"main.go": "\n\n".join(main[:0]) + "\n".join(main) + "\n", "sub/sub.go": "\n\n".join(sub) + "\n"}
    meta = dict(features=[dict(name=ft["name"], pkg=ft["pkg"], used=ft["used"]) for ft in feats])
    return files, meta
