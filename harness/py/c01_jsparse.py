"""C01 — parser for the JavaScript subset the code generator emits for the MiniGo fragment.

parse_main(js_text) finds the body of `main` in a real out.js and returns a MiniJS AST (nested
tuples); to_coq(ast) prints it as a Coq term of type C01_JsSem.jprog.  Parentheses vanish in the
AST; everything else (operators, operand order, temp names, statement structure, the var list)
is kept exactly.  Anything outside the subset raises ParseError (the check reports it).
"""
import re


class ParseError(Exception):
    pass


TOK = re.compile(r"""\s*(?:
    (?P<num>\d+)
  | (?P<id>[A-Za-z_$][A-Za-z0-9_$]*)
  | (?P<str>"(?:[^"\\]|\\.)*")
  | (?P<op>>>>|===|!==|<<|>>|<=|>=|&&|\|\||[-+*/%&|^~!<>=?:,;(){}.])
)""", re.X)


def tokenize(s):
    out, i = [], 0
    s = s.rstrip()
    while i < len(s):
        m = TOK.match(s, i)
        if not m:
            if s[i:].strip() == "":
                break
            raise ParseError("cannot tokenize at %r" % s[i:i + 40])
        i = m.end()
        for k in ("num", "id", "str", "op"):
            if m.group(k) is not None:
                out.append((k, m.group(k)))
                break
    out.append(("eof", ""))
    return out


BIN_LEVELS = [
    (["||"], None), (["&&"], None), (["|"], "JBor"), (["^"], "JBxor"), (["&"], "JBand"),
    (["===", "!=="], None), (["<", "<=", ">", ">="], None), (["<<", ">>", ">>>"], None),
    (["+", "-"], None), (["*", "/", "%"], None)]
BINOP = {"|": "JBor", "^": "JBxor", "&": "JBand", "===": "JSeq", "!==": "JSne", "<": "JLt", "<=": "JLe",
         ">": "JGt", ">=": "JGe", "<<": "JShl", ">>": "JShr", ">>>": "JUshr", "+": "JAdd", "-": "JSub",
         "*": "JMul", "/": "JDiv", "%": "JMod"}


def split_name(ident):
    m = re.match(r"^(.*?)(?:\$(\d+))?$", ident)
    base, idx = m.group(1), m.group(2)
    if idx is not None and (idx.startswith("0") or base == ""):
        return (ident, 0)
    return (base, int(idx) if idx else 0)


class P:
    def __init__(self, toks):
        self.t, self.i = toks, 0

    def peek(self, k=0):
        return self.t[min(self.i + k, len(self.t) - 1)]

    def next(self):
        x = self.t[self.i]
        self.i += 1
        return x

    def isop(self, v, k=0):
        return self.peek(k) == ("op", v)

    def expect(self, v):
        x = self.next()
        if x[1] != v:
            raise ParseError("expected %r, got %r (token %d)" % (v, x[1], self.i))

    # ---- expressions
    def expr(self):
        e = self.assign()
        while self.isop(","):
            self.next()
            e = ("comma", e, self.assign())
        return e

    def assign(self):
        if self.peek()[0] == "id" and self.isop("=", 1) and self.peek()[1] not in ("true", "false"):
            n = self.next()[1]
            self.next()
            return ("asg", split_name(n), self.assign())
        return self.cond()

    def cond(self):
        c = self.binary(0)
        if self.isop("?"):
            self.next()
            a = self.assign()
            self.expect(":")
            b = self.assign()
            return ("cond", c, a, b)
        return c

    def binary(self, lvl):
        if lvl == len(BIN_LEVELS):
            return self.unary()
        ops = BIN_LEVELS[lvl][0]
        e = self.binary(lvl + 1)
        while self.peek()[0] == "op" and self.peek()[1] in ops:
            o = self.next()[1]
            r = self.binary(lvl + 1)
            if o == "||":
                e = ("or", e, r)
            elif o == "&&":
                e = ("and", e, r)
            else:
                e = ("bin", BINOP[o], e, r)
        return e

    def unary(self):
        if self.isop("-"):
            self.next()
            if self.peek()[0] == "num":
                return ("num", -int(self.next()[1]))
            return ("un", "JNeg", self.unary())
        if self.isop("~"):
            self.next()
            return ("un", "JBnot", self.unary())
        if self.isop("!"):
            self.next()
            return ("un", "JNot", self.unary())
        return self.primary()

    def primary(self):
        k, v = self.next()
        if k == "num":
            return ("num", int(v))
        if k == "op" and v == "(":
            e = self.expr()
            self.expect(")")
            return e
        if k == "id":
            if v == "true":
                return ("bool", True)
            if v == "false":
                return ("bool", False)
            if self.isop("("):
                self.next()
                if v == "$throwRuntimeError":
                    k2, s = self.next()
                    if k2 != "str":
                        raise ParseError("string expected in $throwRuntimeError")
                    self.expect(")")
                    return ("throw", s[1:-1])
                if v in ("$imul", "$min"):
                    a = self.assign()
                    self.expect(",")
                    b = self.assign()
                    self.expect(")")
                    return ("imul" if v == "$imul" else "min", a, b)
                raise ParseError("call of %s is outside the subset" % v)
            if self.isop("."):
                raise ParseError("member access on %s is outside the subset" % v)
            return ("var", split_name(v))
        raise ParseError("unexpected token %r" % (v,))

    # ---- statements
    def block(self):
        self.expect("{")
        out = []
        while not self.isop("}"):
            out.append(self.stmt())
        self.expect("}")
        return out

    def stmt(self):
        k, v = self.peek()
        if k == "id" and v == "if":
            return self.ifstmt()
        if k == "id" and v == "while":
            return self.whilestmt(None)
        if k == "id" and self.isop(":", 1) and self.peek(2) == ("id", "while"):
            self.next(); self.next()
            return self.whilestmt(v)
        if k == "id" and v in ("break", "continue"):
            self.next()
            lbl = None
            if self.peek()[0] == "id":
                lbl = self.next()[1]
            self.expect(";")
            return (v, lbl)
        if k == "id" and v == "console" and self.isop(".", 1) and self.peek(2) == ("id", "log"):
            self.next(); self.next(); self.next()
            self.expect("(")
            args = []
            if not self.isop(")"):
                args.append(self.assign())
                while self.isop(","):
                    self.next()
                    args.append(self.assign())
            self.expect(")")
            self.expect(";")
            return ("log", args)
        e = self.expr()
        self.expect(";")
        return ("expr", e)

    def ifstmt(self):
        self.expect("if")
        self.expect("(")
        c = self.expr()
        self.expect(")")
        t = self.block()
        if self.peek() == ("id", "else"):
            self.next()
            if self.peek() == ("id", "if"):
                return ("if", c, t, ("elif", self.ifstmt()))
            return ("if", c, t, ("else", self.block()))
        return ("if", c, t, ("noelse",))

    def whilestmt(self, lbl):
        self.expect("while")
        self.expect("(")
        k, v = self.next()
        if (k, v) != ("id", "true"):
            raise ParseError("while condition other than `true`")
        self.expect(")")
        return ("while", lbl, self.block())


def func_body_text(js, fname="main"):
    ms = list(re.finditer(r"^(\t*)%s = function %s(?:\$\d+)?\(\) \{\n" % (re.escape(fname), re.escape(fname)), js, re.M))
    if len(ms) != 1:
        raise ParseError("expected exactly one `%s = function %s()`; found %d" % (fname, fname, len(ms)))
    m = ms[0]
    end = js.find("\n" + m.group(1) + "};\n", m.end() - 1)
    if end < 0:
        raise ParseError("end of %s not found" % fname)
    return js[m.end():end + 1]


def main_body_text(js):
    return func_body_text(js, "main")


def parse_func(js, fname="main"):
    """returns (vars, body) : ([(base, idx)], [stmt])"""
    text = func_body_text(js, fname)
    p = P(tokenize(text))
    vars_ = []
    if p.peek() == ("id", "var"):
        p.next()
        while True:
            k, v = p.next()
            if k != "id":
                raise ParseError("identifier expected in var list")
            vars_.append(split_name(v))
            if p.isop(","):
                p.next()
                continue
            p.expect(";")
            break
    body = []
    while p.peek()[0] != "eof":
        body.append(p.stmt())
    return vars_, body


def parse_main(js):
    return parse_func(js, "main")


# ---------------------------------------------------------------- printing as Coq terms
def cq_name(n):
    return '(nm "%s" %d)' % (n[0], n[1])


def cq_z(z):
    return str(z) if z >= 0 else "(%d)" % z


def cq_lbl(l):
    return "None" if l is None else '(Some "%s"%%string)' % l


def cq_expr(e):
    k = e[0]
    if k == "num":
        return "(JNum %s)" % cq_z(e[1])
    if k == "bool":
        return "(JBoolE %s)" % ("true" if e[1] else "false")
    if k == "var":
        return "(JVar %s)" % cq_name(e[1])
    if k == "bin":
        return "(JBin %s %s %s)" % (e[1], cq_expr(e[2]), cq_expr(e[3]))
    if k == "un":
        return "(JUn %s %s)" % (e[1], cq_expr(e[2]))
    if k == "asg":
        return "(JAsg %s %s)" % (cq_name(e[1]), cq_expr(e[2]))
    if k in ("comma", "and", "or", "imul", "min"):
        c = {"comma": "JComma", "and": "JAnd", "or": "JOr", "imul": "JImul", "min": "JMin"}[k]
        return "(%s %s %s)" % (c, cq_expr(e[1]), cq_expr(e[2]))
    if k == "cond":
        return "(JCond %s %s %s)" % (cq_expr(e[1]), cq_expr(e[2]), cq_expr(e[3]))
    if k == "throw":
        return '(JThrowE "%s"%%string)' % e[1]
    raise ParseError("cq_expr: " + repr(e))


def cq_list(xs):
    return "[" + "; ".join(xs) + "]"


def cq_stmt(s):
    k = s[0]
    if k == "expr":
        return "(JSExpr %s)" % cq_expr(s[1])
    if k == "log":
        return "(JSLog %s)" % cq_list([cq_expr(a) for a in s[1]])
    if k == "if":
        e = s[3]
        if e[0] == "noelse":
            es = "JNoElse"
        elif e[0] == "else":
            es = "(JElse %s)" % cq_list([cq_stmt(x) for x in e[1]])
        else:
            es = "(JElif %s)" % cq_stmt(e[1])
        return "(JSIf %s %s %s)" % (cq_expr(s[1]), cq_list([cq_stmt(x) for x in s[2]]), es)
    if k == "while":
        return "(JSWhile %s %s)" % (cq_lbl(s[1]), cq_list([cq_stmt(x) for x in s[2]]))
    if k == "break":
        return "(JSBreak %s)" % cq_lbl(s[1])
    if k == "continue":
        return "(JSContinue %s)" % cq_lbl(s[1])
    raise ParseError("cq_stmt: " + repr(s))


def to_coq(parsed):
    vars_, body = parsed
    return "{| jp_vars := %s; jp_body := %s |}" % (cq_list([cq_name(v) for v in vars_]), cq_list([cq_stmt(s) for s in body]))


# ---------------------------------------------------------------- self test: print back to JS
def js_expr(e):
    k = e[0]
    if k == "num":
        return str(e[1]) if e[1] >= 0 else "(%d)" % e[1]
    if k == "bool":
        return "true" if e[1] else "false"
    if k == "var":
        return e[1][0] + ("$%d" % e[1][1] if e[1][1] else "")
    inv = {v: k2 for k2, v in BINOP.items()}
    if k == "bin":
        return "(%s %s %s)" % (js_expr(e[2]), inv[e[1]], js_expr(e[3]))
    if k == "un":
        return "(%s(%s))" % ({"JNeg": "-", "JBnot": "~", "JNot": "!"}[e[1]], js_expr(e[2]))
    if k == "asg":
        return "(%s = %s)" % (js_expr(("var", e[1])), js_expr(e[2]))
    if k == "comma":
        return "(%s, %s)" % (js_expr(e[1]), js_expr(e[2]))
    if k == "and":
        return "(%s && %s)" % (js_expr(e[1]), js_expr(e[2]))
    if k == "or":
        return "(%s || %s)" % (js_expr(e[1]), js_expr(e[2]))
    if k == "imul":
        return "$imul(%s, %s)" % (js_expr(e[1]), js_expr(e[2]))
    if k == "min":
        return "$min(%s, %s)" % (js_expr(e[1]), js_expr(e[2]))
    if k == "cond":
        return "(%s ? %s : %s)" % (js_expr(e[1]), js_expr(e[2]), js_expr(e[3]))
    if k == "throw":
        return '$throwRuntimeError("%s")' % e[1]
    raise ParseError(repr(e))


def js_stmt(s):
    k = s[0]
    if k == "expr":
        return js_expr(s[1]) + ";"
    if k == "log":
        return "console.log(%s);" % ", ".join(js_expr(a) for a in s[1])
    if k == "if":
        r = "if (%s) { %s }" % (js_expr(s[1]), " ".join(js_stmt(x) for x in s[2]))
        if s[3][0] == "else":
            r += " else { %s }" % " ".join(js_stmt(x) for x in s[3][1])
        elif s[3][0] == "elif":
            r += " else " + js_stmt(s[3][1])
        return r
    if k == "while":
        return "%swhile (true) { %s }" % (s[1] + ": " if s[1] else "", " ".join(js_stmt(x) for x in s[2]))
    return "%s%s;" % (k, " " + s[1] if s[1] else "")


def roundtrip_ok(parsed):
    """print -> parse -> same AST (parser self test)"""
    vars_, body = parsed
    text = " ".join(js_stmt(s) for s in body)
    p = P(tokenize(text))
    again = []
    while p.peek()[0] != "eof":
        again.append(p.stmt())
    return again == body


# ================================================================ stage 2: several functions, calls, return
# (added for coq/Model/C01_S2_JsSem.v; nothing above is changed)
KEYWORDS = {"if", "while", "else", "break", "continue", "return", "var", "true", "false", "console", "function"}


def is_fname(v):
    return not v.startswith("$") and v not in KEYWORDS


class P2(P):
    """statement parser that additionally accepts `return;` `return e;` `f(args);` `x = f(args);`.
    Raw result: stage-1 tuples plus ("ret", e|None) and ("call", dst|None, fname, [args]) at statement positions."""

    def primary(self):
        k, v = self.peek()
        if k == "id" and is_fname(v) and self.isop("(", 1):
            raise ParseError("nested call outside the subset (%s)" % v)
        return P.primary(self)

    def call_args(self):
        self.expect("(")
        args = []
        if not self.isop(")"):
            args.append(self.assign())
            while self.isop(","):
                self.next()
                args.append(self.assign())
        self.expect(")")
        self.expect(";")
        return args

    def stmt(self):
        k, v = self.peek()
        if k == "id" and v == "return":
            self.next()
            if self.isop(";"):
                self.next()
                return ("ret", None)
            e = self.expr()
            self.expect(";")
            return ("ret", e)
        if k == "id" and is_fname(v) and self.isop("(", 1):
            self.next()
            return ("call", None, v, self.call_args())
        if k == "id" and is_fname(v) and self.isop("=", 1) and self.peek(2)[0] == "id" and is_fname(self.peek(2)[1]) and self.isop("(", 3):
            self.next(); self.next()
            f = self.next()[1]
            return ("call", split_name(v), f, self.call_args())
        return P.stmt(self)


def raw_has_cr(s):
    k = s[0]
    if k in ("ret", "call"):
        return True
    if k == "if":
        if any(raw_has_cr(x) for x in s[2]):
            return True
        e = s[3]
        if e[0] == "else":
            return any(raw_has_cr(x) for x in e[1])
        if e[0] == "elif":
            return raw_has_cr(e[1])
        return False
    if k == "while":
        return any(raw_has_cr(x) for x in s[2])
    return False


def classify2(s):
    """raw statement -> stage-2 statement: ("base", s1) ("call", ..) ("ret", ..) ("if2", c, [..], None|[..]) ("while2", [..])"""
    k = s[0]
    if k in ("ret", "call"):
        return s
    if not raw_has_cr(s):
        return ("base", s)
    if k == "if":
        e = s[3]
        if e[0] == "elif":
            raise ParseError("else-if chain containing a call or return is outside the subset")
        return ("if2", s[1], [classify2(x) for x in s[2]], None if e[0] == "noelse" else [classify2(x) for x in e[1]])
    if k == "while":
        if s[1] is not None:
            raise ParseError("labelled loop containing a call or return is outside the subset")
        return ("while2", [classify2(x) for x in s[2]])
    raise ParseError("classify2: " + repr(s)[:80])


def func2_match(js, fname):
    ms = list(re.finditer(r"^(\t*)%s = function %s(?:\$\d+)?\(([^()]*)\) \{\n" % (re.escape(fname), re.escape(fname)), js, re.M))
    if len(ms) != 1:
        raise ParseError("expected exactly one `%s = function %s(..)`; found %d" % (fname, fname, len(ms)))
    m = ms[0]
    end = js.find("\n" + m.group(1) + "};\n", m.end() - 1)
    if end < 0:
        raise ParseError("end of %s not found" % fname)
    return m, js[m.end():end + 1]


def func2_text(js, fname):
    m, body = func2_match(js, fname)
    return m.group(0).lstrip("\t") + body


def parse_func2(js, fname):
    """returns (params, vars, body2)"""
    m, text = func2_match(js, fname)
    ps = m.group(2).strip()
    params = []
    if ps:
        for x in ps.split(","):
            x = x.strip()
            if not re.match(r"^[A-Za-z_$][A-Za-z0-9_$]*$", x):
                raise ParseError("parameter %r is outside the subset" % x)
            params.append(split_name(x))
    p = P2(tokenize(text))
    vars_ = []
    if p.peek() == ("id", "var"):
        p.next()
        while True:
            k, v = p.next()
            if k != "id":
                raise ParseError("identifier expected in var list")
            vars_.append(split_name(v))
            if p.isop(","):
                p.next()
                continue
            p.expect(";")
            break
    body = []
    while p.peek()[0] != "eof":
        body.append(classify2(p.stmt()))
    return params, vars_, body


def cq_stmt2(s):
    k = s[0]
    if k == "base":
        return "(J2Base %s)" % cq_stmt(s[1])
    if k == "call":
        return "(J2Call %s \"%s\"%%string %s)" % ("None" if s[1] is None else "(Some %s)" % cq_name(s[1]), s[2], cq_list([cq_expr(a) for a in s[3]]))
    if k == "ret":
        return "(J2Return None)" if s[1] is None else "(J2Return (Some %s))" % cq_expr(s[1])
    if k == "if2":
        return "(J2If %s %s %s)" % (cq_expr(s[1]), cq_list([cq_stmt2(x) for x in s[2]]),
                                    "None" if s[3] is None else "(Some %s)" % cq_list([cq_stmt2(x) for x in s[3]]))
    if k == "while2":
        return "(J2While %s)" % cq_list([cq_stmt2(x) for x in s[1]])
    raise ParseError("cq_stmt2: " + repr(s)[:80])


def cq_jfdef(parsed):
    params, vars_, body = parsed
    return "{| jf_params := %s; jf_vars := %s; jf_body := %s |}" % (
        cq_list([cq_name(v) for v in params]), cq_list([cq_name(v) for v in vars_]), cq_list([cq_stmt2(s) for s in body]))


def to_coq2(funcs, main):
    """funcs: [(fname, (params, vars, body2))] in the order of the program's function list"""
    return "{| jp2_funcs := %s; jp2_main := \"%s\"%%string |}" % (
        cq_list(['("%s"%%string, %s)' % (f, cq_jfdef(p)) for f, p in funcs]), main)


def js_stmt2(s):
    k = s[0]
    if k == "base":
        return js_stmt(s[1])
    if k == "call":
        c = "%s(%s);" % (s[2], ", ".join(js_expr(a) for a in s[3]))
        return c if s[1] is None else "%s = %s" % (js_expr(("var", s[1])), c)
    if k == "ret":
        return "return;" if s[1] is None else "return %s;" % js_expr(s[1])
    if k == "if2":
        r = "if (%s) { %s }" % (js_expr(s[1]), " ".join(js_stmt2(x) for x in s[2]))
        if s[3] is not None:
            r += " else { %s }" % " ".join(js_stmt2(x) for x in s[3])
        return r
    if k == "while2":
        return "while (true) { %s }" % " ".join(js_stmt2(x) for x in s[1])
    raise ParseError("js_stmt2: " + repr(s)[:80])


def roundtrip2_ok(parsed):
    """print -> parse -> same AST, for the stage-2 forms"""
    params, vars_, body = parsed
    text = " ".join(js_stmt2(s) for s in body)
    p = P2(tokenize(text))
    again = []
    while p.peek()[0] != "eof":
        again.append(classify2(p.stmt()))
    return again == body
