"""C07 phase 4 — clone-decision sites (tie 3).

One Go function per (context x type shape x expression class) of coq/Model/C07_Decision.v, grouped into one program per
type shape.  Every site function contains exactly ONE occurrence of the context under test, operands and sinks are
package-level variables chosen so that nothing else in the function copies a value.  The program is compiled with the
real gopherjs; the emitted JavaScript of every site function is cut out of out.js and the occurrences of `$clone(` and
`.copy(` are counted.  The model predicts both numbers (context's own + the expression's own).

Names here must match the constructor names of the Coq model (CAssign <-> "CAssign", ...)."""
import re

SHAPES = ["ShStruct", "ShNamedStruct", "ShArray", "ShNamedArray", "ShPointer", "ShSlice", "ShBasic", "ShMap"]
VALUE_SHAPES = {"ShStruct", "ShNamedStruct", "ShArray", "ShNamedArray"}
NAMED_VALUE = {"ShNamedStruct", "ShNamedArray"}
ARRAY_SHAPES = {"ShArray", "ShNamedArray"}
COMPARABLE = {"ShStruct", "ShNamedStruct", "ShArray", "ShNamedArray", "ShPointer", "ShBasic"}

ECLASSES = ["EVar", "EField", "EIndexSlice", "EIndexArr", "EDeref", "EMapIndex", "ECall", "ECompLit", "EParenLit",
            "EConvSame", "EConvOther", "ETypeAssert", "ERecv"]

# expression text per class ({T} = type text)
EXPR = {
    "EVar": "gV", "EField": "gW.f", "EIndexSlice": "gSl[1]", "EIndexArr": "gArr[1]", "EDeref": "(*gP)", "EMapIndex": "gM[1]",
    "ECall": "ret()", "ECompLit": "{LIT}", "EParenLit": "({LIT})", "EConvSame": "({T})(gV)", "EConvOther": "({T})(gAlt)",
    "ETypeAssert": "gI.({T})", "ERecv": "(<-gCh)",
}

# context -> (signature suffix, body).  {E} expression, {T} type.  A context restricted to one expression class writes the
# expression itself (FIXED gives the class).
CONTEXTS = {
    # plain assignment to existing storage: variable / field / slice element / array element / through a pointer
    "CAssignVar": ("()", "gD = {E}"),
    "CAssignField": ("()", "gW2.f = {E}"),
    "CAssignSliceElem": ("()", "gSl2[0] = {E}"),
    "CAssignArrElem": ("()", "gArr2[0] = {E}"),
    "CAssignDeref": ("()", "*gP2 = {E}"),
    # definitions
    "CDefine": ("()", "b := {E}\n_ = b"),
    "CVarDecl": ("()", "var b {T} = {E}\n_ = b"),
    "CVarDeclInfer": ("()", "var b = {E}\n_ = b"),
    "CTupleDefine": ("()", "b, n := ret2()\n_ = b\n_ = n"),
    "CCommaOk": ("()", "b, ok := {E0}\n_ = b\n_ = ok"),
    "CTypeSwitchBind": ("()", "switch v := gI.(type) {{\ncase {T}:\n_ = v\n}}"),
    # calls
    "CArg": ("()", "take({E})"),
    "CArgVariadic": ("()", "takev({E})"),
    "CGoArg": ("()", "go take({E})"),
    "CDeferArg": ("()", "defer take({E})"),
    "CAppendArg": ("()", "gSl2 = append(gSl2, {E})"),
    "CMethodExprValArg": ("()", "gN = ({T}).M({E})"),
    # composite literal elements
    "CLitStructField": ("()", "w := struct {{\npre int\nf {T}\n}}{{f: {E}}}\n_ = w"),
    "CLitStructPos": ("()", "w := struct {{\npre int\nf {T}\n}}{{1, {E}}}\n_ = w"),
    "CLitArrayElem": ("()", "w := [2]{T}{{{E}}}\n_ = w"),
    "CLitSliceElem": ("()", "w := []{T}{{{E}}}\n_ = w"),
    "CLitMapValue": ("()", "w := map[int]{T}{{1: {E}}}\n_ = w"),
    "CLitMapKey": ("()", "w := map[{T}]int{{{E}: 1}}\n_ = w"),
    # channels and maps
    "CSend": ("()", "gCh2 <- {E}"),
    "CSelectSend": ("()", "select {{\ncase gCh2 <- {E}:\ndefault:\n}}"),
    "CMapInsertValue": ("()", "gM2[1] = {E}"),
    "CMapInsertKey": ("()", "gMK[{E}] = 1"),
    # range
    "CRangeValSlice": ("()", "for _, b := range gSl {{\n_ = b\n}}"),
    "CRangeValArray": ("()", "for _, b := range gArr {{\n_ = b\n}}"),
    "CRangeValPtrArray": ("()", "for _, b := range &gArr {{\n_ = b\n}}"),
    "CRangeValMap": ("()", "for _, b := range gM {{\n_ = b\n}}"),
    "CRangeValAssign": ("()", "for _, gD = range gSl {{\n}}"),
    "CRangeExprArray": ("()", "for _, v := range {E} {{\n_ = v\n}}"),
    # receivers
    "CRecvDirect": ("()", "gN = {E}.M()"),
    "CRecvViaPtr": ("()", "gN = gP.M()"),
    "CMethodValueBind": ("()", "gF = {E}.M"),
    "CMethodValueCall": ("()", "gN = gF()"),
    "CIfaceCall": ("()", "gN = gK.M()"),
    "CIfacePtrCall": ("()", "gN = gKP.M()"),
    "CMethodExprPtrCall": ("()", "gN = (*{T}).M(gP)"),
    # interface boxing
    "CBoxAssign": ("()", "gI2 = {E}"),
    "CBoxArg": ("()", "takei({E})"),
    "CBoxReturn": ("() interface{{}}", "return {E}"),
    # pass-through contexts (nothing is stored)
    "CReturn": ("() {T}", "return {E}"),
    "CBlank": ("()", "_ = {E}"),
}

# contexts whose source expression is fixed by the context
FIXED = {
    "CTupleDefine": ["ECall"], "CCommaOk": ["ETypeAssert", "EMapIndex", "ERecv"], "CTypeSwitchBind": ["ETypeAssert"],
    "CRangeValSlice": ["EIndexSlice"], "CRangeValArray": ["EIndexArr"], "CRangeValPtrArray": ["EIndexArr"], "CRangeValMap": ["EMapIndex"], "CRangeValAssign": ["EIndexSlice"],
    "CRecvViaPtr": ["EDeref"], "CMethodValueCall": ["EVar"], "CIfaceCall": ["EVar"], "CIfacePtrCall": ["EDeref"], "CMethodExprPtrCall": ["EDeref"],
}
COMMAOK = {"ETypeAssert": "gI.({T})", "EMapIndex": "gM[1]", "ERecv": "<-gCh"}
NEEDS_METHODS = {"CRecvDirect", "CRecvViaPtr", "CMethodValueBind", "CMethodValueCall", "CIfaceCall", "CIfacePtrCall", "CMethodExprPtrCall", "CMethodExprValArg"}
NEEDS_COMPARABLE = {"CLitMapKey", "CMapInsertKey"}
NEEDS_ARRAY = {"CRangeExprArray"}


def valid(ctx, sh, e):
    """the combination is a legal Go program (mirrors Model.C07_Decision.valid)"""
    if ctx in FIXED and e not in FIXED[ctx]:
        return False
    if ctx in NEEDS_METHODS and sh not in NAMED_VALUE:
        return False
    if ctx in NEEDS_COMPARABLE and sh not in COMPARABLE:
        return False
    if ctx in NEEDS_ARRAY and sh not in ARRAY_SHAPES:
        return False
    if ctx in NEEDS_ARRAY and e == "ECompLit":        # `range T{} {` does not parse
        return False
    if e in ("ECompLit", "EParenLit") and sh in ("ShBasic", "ShPointer"):
        return False
    return True


def all_sites():
    return [(c, s, e) for s in SHAPES for c in CONTEXTS for e in ECLASSES if valid(c, s, e)]


def shape_decl(r, sh):
    """random instance of a type shape: (type text T, declarations, literal text, text of the Alt type's underlying type)"""
    n = r.randint(1, 4)
    el = r.choice(["int", "int32", "uint8", "string", "float64"])
    fields = ["x int"]
    for i in range(r.randint(0, 3)):
        fields.append("f%d %s" % (i, r.choice(["int", "string", "[%d]%s" % (r.randint(1, 3), el), "*int", "struct{ q int }", "[2][2]int"])))
    if any(f.split(" ", 1)[1] in ("[]int",) for f in fields):
        comparable = False
    else:
        comparable = True
    st = "struct {\n\t%s\n}" % "\n\t".join(fields)
    # leaf element types only: with array/struct elements the VALUE variable of `for _, v := range E` (context CRangeExprArray)
    # would add the element's own $clone to the count of the site
    arr_el = r.choice(["int", "uint8", "string", "float64", "int64"])
    arr = "[%d]%s" % (n, arr_el)
    decls = ["type S0 struct {\n\ta int\n\tb [2]int\n}"]
    if sh == "ShStruct":
        T, under = st, st
    elif sh == "ShNamedStruct":
        decls.append("type T %s" % st)
        decls.append("func (t T) M() int { t.x++; return t.x }")
        T, under = "T", st
    elif sh == "ShArray":
        T, under = arr, arr
    elif sh == "ShNamedArray":
        decls.append("type T %s" % arr)
        decls.append("func (t T) M() int { return len(t) }")
        T, under = "T", arr
    elif sh == "ShPointer":
        T, under = "*S0", "*S0"
    elif sh == "ShSlice":
        T, under = "[]int", "[]int"
    elif sh == "ShBasic":
        T, under = r.choice(["int", "string", "float64", "uint8", "int64"]), None
        under = T
    else:
        T, under = "map[int]int", "map[int]int"
    lit = "%s{}" % T
    return T, decls, lit, under, comparable


def gen_program(r, sh):
    """returns (source, sites) with sites[name] = (ctx, shape, eclass)"""
    T, decls, lit, under, comparable = shape_decl(r, sh)
    if sh in ("ShStruct", "ShNamedStruct") and not comparable:
        comparable_ok = False
    else:
        comparable_ok = sh in COMPARABLE
    out = ["package main", ""] + decls + [
        "type Alt %s" % under, "",
        "var gV, gD %s" % T,
        "var gAlt Alt",
        "var gW, gW2 struct {\n\tpre int\n\tf %s\n}" % T,
        "var gSl, gSl2 = make([]%s, 2), make([]%s, 2)" % (T, T),
        "var gArr, gArr2 [2]%s" % T,
        "var gP, gP2 = new(%s), new(%s)" % (T, T),
        "var gM, gM2 = map[int]%s{}, map[int]%s{}" % (T, T),
        "var gI, gI2 interface{} = gP, nil",
        "var gCh, gCh2 = make(chan %s, 1), make(chan %s, 1)" % (T, T),
        "var gN int",
        "var gF func() int",
        "func ret() %s { return gV }" % T,
        "func ret2() (%s, int) { return gV, 1 }" % T,
        "func take(v %s) {}" % T,
        "func takev(v ...%s) {}" % T,
        "func takei(v interface{}) {}",
        "func sink(f interface{}) {}",
        "var run bool",
    ]
    if comparable_ok:
        out.append("var gMK = map[%s]int{}" % T)
    if sh in NAMED_VALUE:
        out.append("var gK interface{ M() int } = ret()")
        out.append("var gKP interface{ M() int } = gP")
    sites = {}
    k = 0
    for ctx, (sig, body) in CONTEXTS.items():
        for e in ECLASSES:
            if not valid(ctx, sh, e):
                continue
            if ctx in NEEDS_COMPARABLE and not comparable_ok:
                continue
            name = "site_%d" % k
            k += 1
            E = EXPR[e].format(T=T, LIT=lit)
            E0 = COMMAOK.get(e, "").format(T=T)
            code = body.format(E=E, T=T, E0=E0)
            sig2 = sig.format(T=T)
            out.append("func %s%s {\n\t%s\n}" % (name, sig2, code.replace("\n", "\n\t")))
            sites[name] = (ctx, sh, e)
    out.append("func main() {\n\tif run {\n%s\t}\n\tprintln(%d)\n}" % ("".join("\t\tsink(%s)\n" % n for n in sites), len(sites)))
    return "\n\n".join(out) + "\n", sites


SITE_RE = re.compile(r"^\t\t(site_\d+) = function [^\n]*\n(.*?)^\t\t\};", re.M | re.S)


def count_sites(js):
    """site name -> (number of `$clone(`, number of `.copy(`) in the emitted function"""
    res = {}
    for m in SITE_RE.finditer(js):
        body = m.group(2)
        res[m.group(1)] = (body.count("$clone("), body.count(".copy("), body)
    return res
