"""C13 — input tables for the table-driven program (math, math/bits, unicode, sync/atomic).

Everything is a list of 64-bit words; floats are bit patterns.  All randomness comes from the
rng handed in (derived from VERIF_SEED)."""
import struct

M64 = (1 << 64) - 1


def f2b(x):
    return struct.unpack("<Q", struct.pack("<d", x))[0]


def b2f(b):
    return struct.unpack("<d", struct.pack("<Q", b & M64))[0]


NAN = 0x7FF8000000000001
NANS = [NAN, 0xFFF8000000000001, 0x7FF0000000000001, 0xFFFFFFFFFFFFFFFF, 0x7FF8000000000000, 0xFFF0000000000001]
INF, NINF = 0x7FF0000000000000, 0xFFF0000000000000
NZERO = 1 << 63


def special_floats():
    s = [0, NZERO, INF, NINF] + NANS
    pos = [1, 2, 3, (1 << 50), (1 << 50) + 1, (1 << 50) - 1,   # denormals; 2^50 * 2^-1074 = 2^-1024 is where 1/x starts to overflow
           (1 << 51), (1 << 52) - 1,
           1 << 52, (1 << 52) + 1,                             # smallest normal
           0x7FEFFFFFFFFFFFFF, 0x7FEFFFFFFFFFFFFE,             # max float
           f2b(1.0), f2b(0.5), f2b(2.0), f2b(3.0), f2b(1.5), f2b(10.0), f2b(0.1), f2b(1e10), f2b(1e-10), f2b(1e300), f2b(1e-300),
           f2b(3.141592653589793), f2b(1.5707963267948966), f2b(2.718281828459045), f2b(0.6931471805599453),
           f2b(709.782712893384), f2b(709.7827128933841), f2b(745.1332191019412), f2b(745.1332191019411), f2b(1024.0), f2b(1023.0),
           f2b(1074.0), f2b(1075.0), f2b(0.9999999999999999), f2b(1.0000000000000002)]
    for k in (31, 32, 52, 53, 62, 63, 64, 30, 24, 16, 1023, 1000, 100, -1, -2, -52, -53, -1022, -1021, -100):
        b = f2b(2.0 ** k) if k < 1024 else None
        pos += [b, b - 1, b + 1]
    # integers around the 32/53/63-bit boundaries and their halves
    for v in (2147483647.0, 2147483648.0, 2147483649.0, 2147483647.5, 2147483648.5, 4294967295.0, 4294967296.0, 4294967295.5,
              4294967297.0, 4503599627370495.5, 4503599627370496.0, 4503599627370497.0, 9007199254740991.0, 9007199254740992.0,
              9007199254740994.0, 9223372036854775808.0, 1.8446744073709552e19, 6442450944.0, 1e10 + 0.5, 3e9, 2.5e9):
        pos.append(f2b(v))
    for n in range(0, 12):
        pos += [f2b(n + 0.5), f2b(float(n)), f2b(n + 0.25), f2b(n + 0.75)]
    out = list(s)
    for p in pos:
        out += [p, p | NZERO]
    seen, res = set(), []
    for b in out:
        if b not in seen:
            seen.add(b); res.append(b)
    return res


def rand_float_bits(r):
    k = r.random()
    if k < 0.35:
        return r.getrandbits(64)                                   # any bit pattern
    if k < 0.6:                                                      # moderate magnitude
        e = 1023 + r.randint(-64, 64)
        return (r.getrandbits(1) << 63) | (e << 52) | r.getrandbits(52)
    if k < 0.75:                                                     # near integers 2^20..2^70
        e = 1023 + r.randint(20, 70)
        frac = r.getrandbits(52)
        if r.random() < 0.5:
            frac &= ~((1 << r.randint(0, 52)) - 1)
        return (r.getrandbits(1) << 63) | (e << 52) | frac
    if k < 0.85:                                                     # small: |x| < 4
        e = 1023 + r.randint(-30, 1)
        return (r.getrandbits(1) << 63) | (e << 52) | r.getrandbits(52)
    if k < 0.9:                                                      # denormals / tiny
        return (r.getrandbits(1) << 63) | (r.randint(0, 2) << 52) | r.getrandbits(52)
    if k < 0.95:                                                     # huge
        return (r.getrandbits(1) << 63) | (r.randint(2040, 2046) << 52) | r.getrandbits(52)
    return (r.getrandbits(1) << 63) | ((1023 + r.randint(28, 34)) << 52) | (r.getrandbits(52) & ~((1 << r.randint(15, 30)) - 1))


U32_SPECIAL = [0, 1, 2, 3, 0xFFFF, 0x10000, 0x10001, 0x7FFFFFFF, 0x80000000, 0x80000001, 0xFFFFFFFE, 0xFFFFFFFF, 0xFFFF0000, 0x0000FFFF,
               0x00010000, 0x8000, 0x7FFF, 0xAAAAAAAA, 0x55555555, 0x12345678]


def rand_u32(r):
    k = r.random()
    if k < 0.25:
        return r.choice(U32_SPECIAL)
    if k < 0.5:
        return r.getrandbits(r.randint(1, 32))
    if k < 0.6:
        return (1 << r.randint(0, 31)) + r.choice([-1, 0, 1]) & 0xFFFFFFFF
    return r.getrandbits(32)


def rand_u64(r):
    k = r.random()
    if k < 0.3:
        return r.choice([0, 1, M64, M64 - 1, 1 << 63, (1 << 63) - 1, 1 << 32, (1 << 32) - 1, (1 << 32) + 1, 0xFFFFFFFF00000000, 1 << 31, 7])
    if k < 0.5:
        return r.getrandbits(r.randint(1, 64))
    return r.getrandbits(64)


def div32_boundary(r):
    """(hi, lo, y) with hi < y, y normalised (top bit set), built so that a correction loop of Knuth's algorithm D is
    entered with rhat + yn1 == 2^16 exactly (the edge of its `rhat >= two16` exit), for the first or the second digit."""
    for _ in range(50):
        yn1 = r.randint(0x8001, 0xFFFF)
        yn0 = r.choice([0xFFFF, 0xFFFE, r.randint(0x8000, 0xFFFF), r.randint(1, 0xFFFF)])
        y = (yn1 << 16) | yn0
        rr = 65536 - yn1                       # remainder of the first estimate, so that rr + yn1 = 2^16
        if r.random() < 0.5:                   # first digit: un16 = q*yn1 + rr
            q = r.randint(1, 0xFFFF)
            un16 = q * yn1 + rr
            if un16 >= y:
                continue
            un1 = r.choice([0, 1, r.randint(0, 0xFFFF), r.randint(0, 255)])
            return un16, (un1 << 16) | r.getrandbits(16), y
        q0 = r.randint(1, 0xFFFF)              # second digit: un21 = q0*yn1 + rr
        un21 = q0 * yn1 + rr
        if un21 >= y:
            continue
        q1 = r.randint(0, 0xFFFF)
        un16, un1 = divmod(q1 * y + un21, 65536)
        if un16 >= y:
            continue
        un0 = r.choice([0, 1, r.randint(0, 0xFFFF), r.randint(0, 255)])
        return un16, (un1 << 16) | un0, y
    return 0xFFFF, 0x80000000, 0x7FFFFFFF


def gen_tables(r, n_f1, n_f2, n_u, n_ru, n_a):
    """returns dict name -> flat list of words"""
    sp = special_floats()
    f1 = list(sp) + [rand_float_bits(r) for _ in range(n_f1)]
    small = [0, NZERO, INF, NINF, NAN, 0xFFF8000000000001] + [f2b(v) for v in
             (1.0, -1.0, 0.5, -0.5, 2.0, -2.0, 3.0, -3.0, 2.5, 1e300, -1e300, 5e-324, -5e-324, 1.7976931348623157e308,
              -1.7976931348623157e308, 4.0, 0.25, 1e10, 2147483648.0, 4294967296.0, 9007199254740992.0, 9007199254740993.0,
              3.141592653589793, -3.141592653589793, 1e-300, 2.2250738585072014e-308, 1023.0, -1074.0, 1075.0, 0.1, 7.0)]
    f2 = []
    for a in small:
        for b in small:
            f2 += [a, b]
    for _ in range(n_f2):
        a = rand_float_bits(r)
        k = r.random()
        if k < 0.2:
            b = r.choice(small)
        elif k < 0.3:
            b = a ^ (r.getrandbits(1) << 63)
        elif k < 0.4:                      # small integer exponent (Pow)
            b = f2b(float(r.randint(-40, 40)) + r.choice([0, 0, 0.5]))
        else:
            b = rand_float_bits(r)
        if r.random() < 0.1:
            a, b = b, a
        f2 += [a, b]
    ints = [0, 1, -1, 2, -2, 52, 53, -52, -53, 1023, 1024, 1025, -1021, -1022, -1023, -1024, -1025, -1074, -1075, 1074, 2046, 2047, 2098, 2099,
            2100, -2098, -2099, -2100, 4000, -4000, 2147483647, -2147483648, 65536, -65536]
    fi = []
    for a in small + [f2b(0.75), f2b(-0.75), 1, 1 | NZERO, (1 << 52) - 1, 1 << 52]:
        for i in ints:
            fi += [a, i & 0xFFFFFFFF]
    for _ in range(n_f2):
        fi += [rand_float_bits(r), (r.choice(ints) if r.random() < 0.3 else r.randint(-2200, 2200)) & 0xFFFFFFFF]
    u1 = list(U32_SPECIAL) + [0x7F800000, 0xFF800000, 0x7FC00000, 0xFFC00000, 0x7F800001, 0x80000000, 0x00800000, 0x007FFFFF, 0x3F800000,
                              0x7F7FFFFF, 0x00000001] + [rand_u32(r) for _ in range(n_u)]
    u2, u3 = [], []
    for a in U32_SPECIAL:
        for b in U32_SPECIAL:
            u2 += [a, b]
    for _ in range(n_u):
        u2 += [rand_u32(r), rand_u32(r)]
    for a in U32_SPECIAL[:12]:
        for b in U32_SPECIAL[:12]:
            for c in U32_SPECIAL[:12]:
                u3 += [a, b, c]
    for _ in range(n_u):
        k = r.random()
        if k > 0.85:                       # the exact edge of the correction loops' exit test
            u3 += list(div32_boundary(r))
            continue
        y = rand_u32(r)
        if k < 0.6 and y > 0:              # Div32 precondition hi < y holds
            hi = r.randrange(0, y) if r.random() < 0.7 else y - 1
        else:
            hi = rand_u32(r)
        u3 += [hi, rand_u32(r), y]
    ru = []
    rsp = [-2147483648, -1, 0, 0x40, 0x41, 0x5A, 0x5B, 0x60, 0x61, 0x7A, 0x7B, 0xB5, 0xDF, 0x130, 0x131, 0x17F, 0x1C4, 0x1C5, 0x1C6, 0x100, 0x101,
           0x1E9E, 0x2126, 0x212A, 0x10400, 0x10428, 0x1E900, 0x1E943, 0x1E944, 0x10FFFF, 0x110000, 0x7FFFFFFF, 0xFFFD, 0xD800, 0x3A3, 0x3C2, 0x3C3]
    for c in (0, 1, 2, -1, 3, 4, 2147483647, -2147483648):
        for x in rsp:
            ru += [c & 0xFFFFFFFF, x & 0xFFFFFFFF]
    for _ in range(n_ru):
        c = r.choice([0, 1, 2, 0, 1, 2, 0, 1, 2, -1, 3, 100])
        k = r.random()
        x = r.randint(0, 0x24F) if k < 0.3 else r.randint(0, 0x1FFFF) if k < 0.8 else r.randint(-5, 0x110005) if k < 0.95 else r.randint(-2 ** 31, 2 ** 31 - 1)
        ru += [c & 0xFFFFFFFF, x & 0xFFFFFFFF]
    a3 = []
    for _ in range(n_a):
        a = rand_u64(r)
        b = rand_u64(r) if r.random() < 0.8 else a
        c = rand_u64(r) if r.random() < 0.7 else r.choice([a, b])
        a3 += [a, b, c]
    return dict(inF1=f1, inF2=f2, inFI=fi, inU1=u1, inU2=u2, inU3=u3, inRU=ru, inA3=a3)


def go_source(tables, sweep):
    out = ["package main", "", "const sweepUnicode = %s" % ("true" if sweep else "false"), ""]
    for name, ws in tables.items():
        out.append("var %s = []uint64{" % name)
        for i in range(0, len(ws), 8):
            out.append("\t" + " ".join("0x%x," % w for w in ws[i:i + 8]))
        out.append("}")
    return "\n".join(out) + "\n"


DOMAINS = dict(f1=("inF1", 1), f2=("inF2", 2), fi=("inFI", 2), u1=("inU1", 1), u2=("inU2", 2), u3=("inU3", 3), ru=("inRU", 2), a3=("inA3", 3))
