"""C11 helpers: value encodings shared with harness/js/c11_driver.js, Coq term printers, the direct
oracle (the js package documentation table + the Unicode/Go conversion rules, written from scratch and
independent of the Coq model), generators, Go / JS source printers for compiled programs."""
import json, struct, math

BASIC = ["bool", "int", "int8", "int16", "int32", "int64", "uint", "uint8", "uint16", "uint32", "uint64", "uintptr",
         "float32", "float64", "string"]
INT_RANGE = {"int": (-2**31, 2**31 - 1), "int8": (-128, 127), "int16": (-2**15, 2**15 - 1), "int32": (-2**31, 2**31 - 1),
             "uint": (0, 2**32 - 1), "uint8": (0, 255), "uint16": (0, 65535), "uint32": (0, 2**32 - 1), "uintptr": (0, 2**32 - 1),
             "int64": (-2**63, 2**63 - 1), "uint64": (0, 2**64 - 1)}
NATIVE = {"int": "Int32Array", "int8": "Int8Array", "int16": "Int16Array", "int32": "Int32Array", "uint": "Uint32Array",
          "uint8": "Uint8Array", "uint16": "Uint16Array", "uint32": "Uint32Array", "uintptr": "Uint32Array",
          "float32": "Float32Array", "float64": "Float64Array"}
# documentation table, third column: typed array -> slice type
TA_BACK = {"Int8Array": "int8", "Int16Array": "int16", "Int32Array": "int", "Uint8Array": "uint8", "Uint16Array": "uint16",
           "Uint32Array": "uint", "Float32Array": "float32", "Float64Array": "float64"}
TKIND = {"Int8Array": "I8", "Int16Array": "I16", "Int32Array": "I32", "Uint8Array": "U8", "Uint16Array": "U16",
         "Uint32Array": "U32", "Float32Array": "F32", "Float64Array": "F64"}
NUM32 = [k for k in BASIC if k not in ("bool", "int64", "uint64", "string")]


class Weird(Exception):
    """the implementation produced a value outside the value space shared with the model"""


class NotDocumented(Exception):
    """the documentation (and this oracle) says nothing about this input"""


# ------------------------------------------------------------------ numbers

def num_of_float(x):
    if x != x:
        return "nan"
    if x == math.inf:
        return "inf"
    if x == -math.inf:
        return "-inf"
    if x == 0:
        return "-0" if math.copysign(1, x) < 0 else "i0"
    if x == int(x):
        return "i%d" % int(x)
    m, e = x.as_integer_ratio()       # m / e, e a power of two
    return "d%d/%d" % (m, e.bit_length() - 1)


def float_of_num(s):
    if s == "-0":
        return -0.0
    if s == "nan":
        return math.nan
    if s == "inf":
        return math.inf
    if s == "-inf":
        return -math.inf
    if s[0] == "i":
        return float(int(s[1:]))
    m, e = s[1:].split("/")
    return math.ldexp(int(m), -int(e))


def isnat(T):
    return isinstance(T, str) and T in NATIVE


def num_is_int(s):
    return s[0] == "i" and s != "inf"


def is_f32(x):
    if x != x or x in (math.inf, -math.inf):
        return True
    try:
        return struct.unpack("f", struct.pack("f", x))[0] == x
    except OverflowError:
        return False


def coq_z(z):
    return "%d" % z if z >= 0 else "(%d)" % z


def coq_num(s):
    if s.startswith("weird"):
        raise Weird(s)
    if s == "-0":
        return "NegZero"
    if s == "nan":
        return "NaN"
    if s == "inf":
        return "PInf"
    if s == "-inf":
        return "MInf"
    if s[0] == "i":
        return "(NumZ %s)" % coq_z(int(s[1:]))
    m, e = s[1:].split("/")
    return "(Dyadic %s %s%%positive)" % (coq_z(int(m)), e)


def coq_ustr(a):
    return "[" + ";".join(str(x) for x in a) + "]"


KIND_COQ = {k: "K" + k[0].upper() + k[1:] for k in BASIC}


def coq_type(T):
    if isinstance(T, str):
        if T in KIND_COQ:
            return "(TB %s)" % KIND_COQ[T]
        return {"iface": "TIface", "ifacem": "TIfaceM", "jsobj": "TJsObj", "funcany": "TFuncAny"}[T]
    if T[0] == "slice":
        return "(TSlice %s)" % coq_type(T[1])
    if T[0] == "array":
        return "(TArray %d %s)" % (T[1], coq_type(T[2]))
    if T[0] == "map":
        return "(TMap %s)" % coq_type(T[1])
    if T[0] == "ptr":
        return "(TPtr %s)" % coq_type(T[1])
    if T[0] == "struct":
        return "(TStruct [%s])" % ";".join("(%s,%s,%s)" % (coq_ustr([ord(c) for c in f[0]]), "true" if f[1] else "false", coq_type(f[2])) for f in T[1])
    raise Weird("type " + json.dumps(T))


def coq_js(J):
    if J is None:
        return "JNull"
    if "weird" in J:
        raise Weird(J["weird"])
    if "u" in J:
        return "JUndef"
    if "b" in J:
        return "(JBool %s)" % ("true" if J["b"] else "false")
    if "n" in J:
        return "(JNum %s)" % coq_num(J["n"])
    if "s" in J:
        return "(JStr %s)" % coq_ustr(J["s"])
    if "a" in J:
        return "(JArr [%s])" % ";".join(coq_js(x) for x in J["a"])
    if "ta" in J:
        return "(JTyped %s [%s])" % (TKIND[J["ta"]], ";".join(coq_num(x) for x in J["v"]))
    if "o" in J:
        return "(JObj [%s])" % ";".join("(%s,%s)" % (coq_ustr(k), coq_js(v)) for k, v in J["o"])
    if "f" in J:
        return "(JFun %s)" % coq_z(J["f"])
    raise Weird("js " + json.dumps(J))


def coq_go(V):
    if "weird" in V:
        raise Weird(V["weird"])
    if "b" in V:
        return "(GBool %s)" % ("true" if V["b"] else "false")
    if "n" in V:
        return "(GNum %s)" % coq_num(V["n"])
    if "h" in V:
        return "(G64 %s %s)" % (coq_z(V["h"]), coq_z(V["l"]))
    if "s" in V:
        return "(GStr %s)" % coq_ustr(V["s"])
    if "sl" in V:
        return "(GSlice None)" if V["sl"] is None else "(GSlice (Some [%s]))" % ";".join(coq_go(x) for x in V["sl"])
    if "ar" in V:
        if V["bk"] != "Array" and V["bk"] not in TKIND:
            raise Weird("array backed by " + str(V["bk"]))
        bk = "BPlain" if V["bk"] == "Array" else "(BTyped %s)" % TKIND[V["bk"]]
        return "(GArr %s [%s])" % (bk, ";".join(coq_go(x) for x in V["ar"]))
    if "m" in V:
        return "(GMap None)" if V["m"] is None else "(GMap (Some [%s]))" % ";".join("(%s,%s)" % (coq_ustr(k), coq_go(v)) for k, v in V["m"])
    if "st" in V:
        return "(GStruct [%s])" % ";".join(coq_go(x) for x in V["st"])
    if "p" in V:
        return "(GPtr None)" if V["p"] is None else "(GPtr (Some %s))" % coq_go(V["p"])
    if "i" in V:
        return "(GIface None)" if V["i"] is None else "(GIface (Some (%s,%s)))" % (coq_type(V["i"]["t"]), coq_go(V["i"]["v"]))
    if "j" in V:
        return "(GJs %s)" % coq_js(V["j"])
    if "fj" in V:
        return "(GFunJs %s)" % coq_z(V["fj"])
    raise Weird("go " + json.dumps(V))


def coq_res(r, f):
    if "ok" in r:
        return "(Ok %s)" % f(r["ok"])
    t = r["throw"]
    if t in ("ECannotExternalize", "ECannotInternalize", "EArraySize", "ENullAsArray", "EJsTypeError"):
        return "(Throw %s)" % t
    raise Weird("throw " + t)


# ------------------------------------------------------------------ Unicode, from the standard (independent of the model)

def utf8_decode_go(bs):
    """Go semantics (range over string / []rune(s)): each maximal well-formed sequence (Unicode table 3-7) is one rune,
    every byte that does not start one is U+FFFD on its own."""
    out, i, n = [], 0, len(bs)
    while i < n:
        b = bs[i]
        if b < 0x80:
            out.append(b); i += 1; continue
        def cont(k, lo=0x80, hi=0xBF):
            return i + k < n and lo <= bs[i + k] <= hi
        if 0xC2 <= b <= 0xDF and cont(1):
            out.append((b & 0x1F) << 6 | bs[i + 1] & 0x3F); i += 2; continue
        if b == 0xE0 and cont(1, 0xA0, 0xBF) and cont(2) or 0xE1 <= b <= 0xEC and cont(1) and cont(2) or \
           b == 0xED and cont(1, 0x80, 0x9F) and cont(2) or 0xEE <= b <= 0xEF and cont(1) and cont(2):
            out.append((b & 0x0F) << 12 | (bs[i + 1] & 0x3F) << 6 | bs[i + 2] & 0x3F); i += 3; continue
        if b == 0xF0 and cont(1, 0x90, 0xBF) and cont(2) and cont(3) or 0xF1 <= b <= 0xF3 and cont(1) and cont(2) and cont(3) or \
           b == 0xF4 and cont(1, 0x80, 0x8F) and cont(2) and cont(3):
            out.append((b & 0x07) << 18 | (bs[i + 1] & 0x3F) << 12 | (bs[i + 2] & 0x3F) << 6 | bs[i + 3] & 0x3F); i += 4; continue
        out.append(0xFFFD); i += 1
    return out


def utf8_valid(bs):
    try:
        bytes(bs).decode("utf-8")
        return True
    except (UnicodeDecodeError, ValueError):
        return False


def utf16_encode(runes):
    out = []
    for r in runes:
        if r >= 0x10000:
            r -= 0x10000
            out += [0xD800 + (r >> 10), 0xDC00 + (r & 0x3FF)]
        else:
            out.append(r)
    return out


def utf16_decode(units):
    """unicode/utf16.Decode: unpaired surrogates become U+FFFD"""
    out, i, n = [], 0, len(units)
    while i < n:
        u = units[i]
        if 0xD800 <= u <= 0xDBFF and i + 1 < n and 0xDC00 <= units[i + 1] <= 0xDFFF:
            out.append(0x10000 + ((u - 0xD800) << 10) + (units[i + 1] - 0xDC00)); i += 2
        elif 0xD800 <= u <= 0xDFFF:
            out.append(0xFFFD); i += 1
        else:
            out.append(u); i += 1
    return out


def utf16_wellformed(units):
    return 0xFFFD not in utf16_decode([u for u in units if u != 0xFFFD])


def has_unpaired_high(units):
    n = len(units)
    return any(0xD800 <= u <= 0xDBFF and not (i + 1 < n and 0xDC00 <= units[i + 1] <= 0xDFFF) for i, u in enumerate(units))


def utf8_encode(runes):
    return list("".join(chr(r) for r in runes).encode("utf-8"))


def go_to_js_string(bs):
    return utf16_encode(utf8_decode_go(bs))


def js_to_go_string(units):
    return utf8_encode(utf16_decode(units))


# ------------------------------------------------------------------ the documented conversions

def val64(T, V):
    v = V["h"] * 2**32 + V["l"]
    return v


def mk64(T, v):
    v &= 2**64 - 1
    h, l = v >> 32, v & 0xFFFFFFFF
    if T == "int64" and h >= 2**31:
        h -= 2**32
    return {"h": h, "l": l}


def wraps_jsobj(T):
    if T == "jsobj":
        return True
    if isinstance(T, list) and T[0] == "ptr":
        return wraps_jsobj(T[1])
    if isinstance(T, list) and T[0] == "struct" and T[1]:
        return wraps_jsobj(T[1][0][2])
    return False


def doc_ext(T, V):
    """Go value -> the JavaScript value the js package documents"""
    if T == "jsobj":
        return V["j"]
    if T in ("iface", "ifacem"):
        return None if V["i"] is None else doc_ext(V["i"]["t"], V["i"]["v"])
    if T == "funcany":
        raise NotDocumented()
    if isinstance(T, str):
        if T == "bool":
            return {"b": V["b"]}
        if T in ("int64", "uint64"):
            v = val64(T, V)
            return {"n": "i%d" % int(float(v))}     # a Number: the nearest double
        if T == "string":
            return {"s": go_to_js_string(V["s"])}
        return {"n": V["n"]}
    if T[0] in ("slice", "array"):
        e = T[-1]
        if T[0] == "slice":
            if V["sl"] is None:
                return None
            vs = V["sl"]
        else:
            vs = V["ar"]
            if isnat(e) and V["bk"] != NATIVE[e]:
                raise NotDocumented()
        if isnat(e):
            return {"ta": NATIVE[e], "v": [x["n"] for x in vs]}
        return {"a": [doc_ext(e, x) for x in vs]}
    if T[0] == "map":
        if V["m"] is None:
            return None
        keys = [tuple(go_to_js_string(k)) for k, _ in V["m"]]
        if len(set(keys)) != len(keys):
            raise NotDocumented()
        return {"o": [[list(k), doc_ext(T[1], v)] for k, (_, v) in zip(keys, V["m"])]}
    if T[0] == "ptr":
        return None if V["p"] is None else doc_ext(T[1], V["p"])
    if T[0] == "struct":
        if wraps_jsobj(T):
            t, v = T, V
            while t != "jsobj":
                if t[0] == "ptr":
                    if v["p"] is None:
                        raise NotDocumented()
                    t, v = t[1], v["p"]
                else:
                    t, v = t[1][0][2], v["st"][0]
            return v["j"]
        return {"o": [[[ord(c) for c in f[0]], doc_ext(f[2], x)] for f, x in zip(T[1], V["st"]) if f[1]]}
    raise NotDocumented()


def doc_int_any(J):
    """JavaScript value -> interface{} per the table's third column"""
    if J is None:
        return {"i": None}
    if "u" in J:
        raise NotDocumented()
    if "b" in J:
        return {"i": {"t": "bool", "v": {"b": J["b"]}}}
    if "n" in J:
        return {"i": {"t": "float64", "v": {"n": J["n"]}}}
    if "s" in J:
        return {"i": {"t": "string", "v": {"s": js_to_go_string(J["s"])}}}
    if "ta" in J:
        return {"i": {"t": ["slice", TA_BACK[J["ta"]]], "v": {"sl": [{"n": x} for x in J["v"]]}}}
    if "a" in J:
        return {"i": {"t": ["slice", "iface"], "v": {"sl": [doc_int_any(x) for x in J["a"]]}}}
    if "f" in J:
        return {"i": {"t": "funcany", "v": {"fj": J["f"]}}}
    if "o" in J:
        keys = [tuple(js_to_go_string(k)) for k, _ in J["o"]]
        if len(set(keys)) != len(keys):
            raise NotDocumented()
        return {"i": {"t": ["map", "iface"], "v": {"m": [[list(k), doc_int_any(v)] for k, (_, v) in zip(keys, J["o"])]}}}
    raise NotDocumented()


def doc_int(T, J):
    """JavaScript value -> Go value of type T, where the documentation (or plain representability) determines it"""
    if T == "jsobj":
        return {"j": J}
    if T == "iface":
        return doc_int_any(J)
    if T in ("ifacem", "funcany"):
        raise NotDocumented()
    if isinstance(T, str):
        if T == "bool":
            if J is not None and "b" in J:
                return {"b": J["b"]}
            raise NotDocumented()
        if T == "string":
            if J is not None and "s" in J:
                return {"s": js_to_go_string(J["s"])}
            raise NotDocumented()
        if J is None or "n" not in J:
            raise NotDocumented()
        n = J["n"]
        if T in ("float32", "float64"):
            if T == "float32" and not is_f32(float_of_num(n)):
                raise NotDocumented()
            return {"n": n}
        if not num_is_int(n):
            raise NotDocumented()
        z = int(n[1:])
        lo, hi = INT_RANGE[T]
        if not lo <= z <= hi:
            raise NotDocumented()
        if T in ("int64", "uint64"):
            return mk64(T, z)
        return {"n": n}
    if T[0] == "slice":
        if J is None or "u" in J:                       # null, and an absent property / omitted argument
            return {"sl": None}
        if "a" in J:
            return {"sl": [doc_int(T[1], x) for x in J["a"]]}
        if "ta" in J and isnat(T[1]) and NATIVE[T[1]] == J["ta"]:
            return {"sl": [{"n": x} for x in J["v"]]}
        raise NotDocumented()
    if T[0] == "array":
        if J is not None and "ta" in J and isnat(T[2]) and NATIVE[T[2]] == J["ta"] and len(J["v"]) == T[1]:
            return {"ar": [{"n": x} for x in J["v"]], "bk": J["ta"]}
        if J is not None and "a" in J and len(J["a"]) == T[1] and not isnat(T[2]):
            return {"ar": [doc_int(T[2], x) for x in J["a"]], "bk": "Array"}
        raise NotDocumented()
    if T[0] == "map":
        if J is None or "u" in J:
            return {"m": None}
        if "o" in J:
            keys = [tuple(js_to_go_string(k)) for k, _ in J["o"]]
            if len(set(keys)) != len(keys):
                raise NotDocumented()
            return {"m": [[list(k), doc_int(T[1], v)] for k, (_, v) in zip(keys, J["o"])]}
        raise NotDocumented()
    if T[0] == "ptr":
        if J is None or "u" in J:
            return {"p": None}
        return {"p": doc_int(T[1], J)}
    if T[0] == "struct":
        if wraps_jsobj(T) or not all(f[1] for f in T[1]):
            raise NotDocumented()
        if J is None or "o" not in J:
            raise NotDocumented()
        d = {tuple(k): v for k, v in J["o"]}
        out = []
        for f in T[1]:
            k = tuple(ord(c) for c in f[0])
            if k not in d:
                raise NotDocumented()
            out.append(doc_int(f[2], d[k]))
        return {"st": out}
    raise NotDocumented()


def representable(T, V):
    """is the Go value one that is 'representable on both sides' (the round trip must be the identity)?"""
    if wraps_jsobj(T):
        return False
    if T in ("jsobj", "funcany", "ifacem", "iface"):
        return False                                   # dynamic types change by the table; checked through doc_int_any
    if isinstance(T, str):
        if T in ("int64", "uint64"):
            return abs(val64(T, V)) < 2**53
        if T == "string":
            return utf8_valid(V["s"])
        return True
    if T[0] == "slice":
        return V["sl"] is None or all(representable(T[1], x) for x in V["sl"])
    if T[0] == "array":
        return all(representable(T[2], x) for x in V["ar"])
    if T[0] == "map":
        if V["m"] is None:
            return True
        ks = [tuple(k) for k, _ in V["m"]]
        return len(set(ks)) == len(ks) and all(utf8_valid(k) and representable(T[1], v) for k, v in V["m"])
    if T[0] == "ptr":
        return V["p"] is None or representable(T[1], V["p"])
    if T[0] == "struct":
        return not wraps_jsobj(T) and all(f[1] for f in T[1]) and all(representable(f[2], x) for f, x in zip(T[1], V["st"]))
    return False


# ------------------------------------------------------------------ canonical forms and finding classification

def canon(x, zero=False, nilmap=False, arr=False):
    """canonical comparison form: objects / maps sorted by key; optionally identify -0 with 0, nil maps with empty maps,
    and ignore the backing store of Go arrays"""
    if isinstance(x, list):
        return [canon(y, zero, nilmap, arr) for y in x]
    if isinstance(x, dict):
        if "o" in x:
            return {"o": sorted([[k, canon(v, zero, nilmap, arr)] for k, v in x["o"]], key=lambda kv: kv[0])}
        if "m" in x:
            if x["m"] is None:
                return {"m": [] if nilmap else None}
            return {"m": sorted([[k, canon(v, zero, nilmap, arr)] for k, v in x["m"]], key=lambda kv: kv[0])}
        if "n" in x and zero and x["n"] == "-0":
            return {"n": "i0"}
        if "ta" in x:
            return {"ta": x["ta"], "v": ["i0" if (zero and n == "-0") else n for n in x["v"]]}
        if "ar" in x and arr:
            return {"ar": canon(x["ar"], zero, nilmap, arr)}
        return {k: canon(v, zero, nilmap, arr) for k, v in x.items()}
    return x


def has_nil_struct_ptr(T, V):
    if isinstance(T, str):
        if T in ("iface", "ifacem") and V.get("i"):
            return has_nil_struct_ptr(V["i"]["t"], V["i"]["v"])
        return False
    if T[0] == "ptr":
        if V["p"] is None:
            return isinstance(T[1], list) and T[1][0] == "struct" and any(f[1] for f in T[1][1])
        return has_nil_struct_ptr(T[1], V["p"])
    if T[0] == "slice":
        return V["sl"] is not None and any(has_nil_struct_ptr(T[1], x) for x in V["sl"])
    if T[0] == "array":
        return any(has_nil_struct_ptr(T[2], x) for x in V["ar"])
    if T[0] == "map":
        return V["m"] is not None and any(has_nil_struct_ptr(T[1], v) for _, v in V["m"])
    if T[0] == "struct":
        return any(has_nil_struct_ptr(f[2], x) for f, x in zip(T[1], V["st"]))
    return False


def compare(expected, got):
    """None if equal; otherwise the list of known-finding signatures that explain the difference, or [] if none does"""
    if canon(expected, arr=True) == canon(got, arr=True):
        return None
    for zero, nilmap, sig in ((True, False, ["internalize-float-negative-zero-sign-lost"]),
                              (False, True, ["roundtrip-nil-map-becomes-empty-map"]),
                              (True, True, ["internalize-float-negative-zero-sign-lost", "roundtrip-nil-map-becomes-empty-map"])):
        if canon(expected, zero, nilmap, True) == canon(got, zero, nilmap, True):
            return sig
    return []


# ------------------------------------------------------------------ generators

BOUNDARY_INTS = sorted(set([0, 1, -1, 2, -2, 127, 128, -128, -129, 255, 256, 32767, 32768, -32768, -32769, 65535, 65536,
                            2**31 - 1, 2**31, -2**31, -2**31 - 1, 2**32 - 1, 2**32, 2**32 + 1, -2**32, 2**53 - 1, 2**53, 2**53 + 2,
                            -2**53 + 1, -2**53, 2**63 - 1024, -2**63, 2**64 - 2048, 10**21, 10**21 - 65536, 12345678, -87654321]))
BOUNDARY_FLOATS = [0.0, -0.0, math.nan, math.inf, -math.inf, 0.5, -0.5, 1.5, -1.5, 0.1, -0.1, 1e-6, 1e-7, 5e-324, 1.7976931348623157e308,
                   2.5, 3.999, -3.999, 2147483647.5, -2147483648.5, 4294967295.5, 1e21, 1.5e21, 123456.789, 2.0**-126, 2.0**-149,
                   3.4028234663852886e38, 1.0000001192092896, 0.30000001192092896, 9007199254740993.0, 1e300, -1e300]
BOUNDARY_CODEPOINTS = [0, 1, 0x41, 0x7F, 0x80, 0xE9, 0x7FF, 0x800, 0xFFF, 0x1000, 0xCFFF, 0xD7FF, 0xE000, 0xFFFD, 0xFFFE, 0xFFFF,
                       0x10000, 0x10001, 0x103FF, 0x10400, 0x1F600, 0xFFFFF, 0x100000, 0x10FC00, 0x10FFFF]


def gen_int(r, T):
    lo, hi = INT_RANGE[T]
    c = r.random()
    if c < 0.35:
        return r.choice([lo, hi, lo + 1, hi - 1, 0, 1, min(hi, 127), min(hi, 128), min(hi, 255)] + ([-1] if lo < 0 else []))
    if c < 0.5:
        cands = [b for b in BOUNDARY_INTS if lo <= b <= hi]
        return r.choice(cands)
    if c < 0.7 and T in ("int64", "uint64"):
        return r.choice([1, -1] if lo < 0 else [1]) * r.randrange(0, 2**53)
    return r.randint(lo, hi)


def gen_float(r, T):
    c = r.random()
    if c < 0.4:
        x = r.choice(BOUNDARY_FLOATS)
    elif c < 0.6:
        x = float(r.randint(-2**40, 2**40))
    elif c < 0.8:
        x = struct.unpack("d", struct.pack("Q", r.getrandbits(64)))[0]
    else:
        x = r.uniform(-1000, 1000)
    if T == "float32":
        if x == x and abs(x) != math.inf:
            try:
                x = struct.unpack("f", struct.pack("f", x))[0]
            except OverflowError:
                x = math.copysign(3.4028234663852886e38, x)
    return x


def gen_runes(r, maxlen=12):
    n = r.choice([0, 1, 1, 2, 3, 5, 8, r.randint(0, maxlen)])
    out = []
    for _ in range(n):
        c = r.random()
        if c < 0.35:
            out.append(r.randint(0x20, 0x7E))
        elif c < 0.6:
            out.append(r.choice(BOUNDARY_CODEPOINTS))
        elif c < 0.8:
            cp = r.randint(0, 0xFFFF)
            out.append(cp if not 0xD800 <= cp <= 0xDFFF else 0xE9)
        else:
            out.append(r.randint(0x10000, 0x10FFFF))
    return out


def gen_go_string(r, valid=None):
    """Go string bytes: valid UTF-8 mostly; sometimes arbitrary bytes / truncated / overlong / encoded surrogates"""
    bs = utf8_encode(gen_runes(r))
    if valid is None:
        valid = r.random() < 0.75
    if valid:
        return bs
    c = r.random()
    if c < 0.3 and bs:
        return bs[:r.randrange(len(bs))] + bs[r.randrange(len(bs)):]
    if c < 0.6:
        pos = r.randint(0, len(bs))
        bad = r.choice([[0xFF], [0x80], [0xC0, 0x80], [0xE0, 0x80, 0x80], [0xED, 0xA0, 0x80], [0xF4, 0x90, 0x80, 0x80],
                        [0xF8, 0x88, 0x80, 0x80], [0xC2], [0xE2, 0x82], [0xF0, 0x9F, 0x98], [0xF5, 0x80, 0x80, 0x80], [0xC1, 0xBF]])
        return bs[:pos] + bad + bs[pos:]
    return [r.randrange(256) for _ in range(r.randint(1, 8))]


def gen_js_string(r, wellformed=None):
    us = utf16_encode(gen_runes(r))
    if wellformed is None:
        wellformed = r.random() < 0.7
    if wellformed:
        return us
    k = r.randint(1, 3)
    for _ in range(k):
        pos = r.randint(0, len(us))
        c = r.random()
        if c < 0.4:
            us = us[:pos] + [r.choice([0xD800, 0xDBFF, r.randint(0xD800, 0xDBFF)])] + us[pos:]
        elif c < 0.8:
            us = us[:pos] + [r.choice([0xDC00, 0xDFFF, r.randint(0xDC00, 0xDFFF)])] + us[pos:]
        else:
            us = us[:pos] + [r.randint(0xDC00, 0xDFFF), r.randint(0xD800, 0xDBFF)] + us[pos:]
    return us


FIELD_NAMES = ["A", "B", "Name", "X1", "Zed", "Q_", "Value"]
UNEXP_NAMES = ["a", "b", "hidden"]


def gen_type(r, depth, allow_iface=True):
    c = r.random()
    if depth <= 0 or c < 0.35:
        return r.choice(BASIC)
    if c < 0.5:
        return ["slice", gen_type(r, depth - 1, allow_iface)]
    if c < 0.58:
        return ["array", r.randint(0, 3), gen_type(r, depth - 1, allow_iface)]
    if c < 0.7:
        return ["map", gen_type(r, depth - 1, allow_iface)]
    if c < 0.85:
        n = r.randint(0, 3)
        names = r.sample(FIELD_NAMES, n)
        fs = [[nm, True, gen_type(r, depth - 1, allow_iface)] for nm in names]
        if r.random() < 0.2:
            fs.insert(r.randint(0, len(fs)), [r.choice(UNEXP_NAMES), False, r.choice(BASIC)])
        if r.random() < 0.08:
            fs.insert(0, ["Object", True, "jsobj"])
        return ["struct", fs]
    if c < 0.92:
        n = r.randint(1, 2)
        return ["ptr", ["struct", [[nm, True, gen_type(r, depth - 1, allow_iface)] for nm in r.sample(FIELD_NAMES, n)]]]
    if allow_iface:
        return "iface"
    return r.choice(BASIC)


def jsnum_int(z):
    """a JS number holding (the double nearest to) the integer z"""
    return "i%d" % int(float(z))


def gen_go(r, T, depth=3):
    if T == "jsobj":
        j = gen_js(r, 1)
        return {"j": None if (j is not None and "u" in j) else j}
    if T in ("iface", "ifacem"):
        if r.random() < 0.2:
            return {"i": None}
        dt = gen_type(r, max(depth - 1, 0), allow_iface=False)
        if isinstance(dt, list) and dt[0] == "struct":       # dynamic struct types need a real name; keep to pointers
            dt = ["ptr", dt]
        return {"i": {"t": dt, "v": gen_go(r, dt, depth - 1)}}
    if isinstance(T, str):
        if T == "bool":
            return {"b": r.random() < 0.5}
        if T in ("int64", "uint64"):
            return mk64(T, gen_int(r, T))
        if T == "string":
            return {"s": gen_go_string(r)}
        if T in ("float32", "float64"):
            return {"n": num_of_float(gen_float(r, T))}
        return {"n": "i%d" % gen_int(r, T)}
    if T[0] == "slice":
        if r.random() < 0.15:
            return {"sl": None}
        return {"sl": [gen_go(r, T[1], depth - 1) for _ in range(r.randint(0, 4))]}
    if T[0] == "array":
        return {"ar": [gen_go(r, T[2], depth - 1) for _ in range(T[1])], "bk": NATIVE.get(T[2], "Array") if isinstance(T[2], str) else "Array"}
    if T[0] == "map":
        if r.random() < 0.15:
            return {"m": None}
        out, seen = [], set()
        for _ in range(r.randint(0, 4)):
            k = gen_go_string(r, valid=r.random() < 0.9)
            if r.random() < 0.3:
                k = [ord(c) for c in r.choice(["a", "b", "10", "2", "x y", "__proto__x", "length"])]
            if tuple(k) in seen:
                continue
            seen.add(tuple(k))
            out.append([k, gen_go(r, T[1], depth - 1)])
        return {"m": out}
    if T[0] == "ptr":
        if r.random() < 0.2:
            return {"p": None}
        return {"p": gen_go(r, T[1], depth - 1)}
    if T[0] == "struct":
        return {"st": [gen_go(r, f[2], depth - 1) for f in T[1]]}
    raise ValueError(T)


def gen_js_num(r):
    c = r.random()
    if c < 0.35:
        return num_of_float(float(r.choice(BOUNDARY_INTS)))
    if c < 0.6:
        return num_of_float(r.choice(BOUNDARY_FLOATS))
    if c < 0.8:
        return "i%d" % r.randint(-300, 70000)
    if c < 0.9:
        return num_of_float(struct.unpack("d", struct.pack("Q", r.getrandbits(64)))[0])
    return num_of_float(r.uniform(-100000, 100000))


def gen_js(r, depth=3):
    c = r.random()
    if depth <= 0 or c < 0.55:
        k = r.random()
        if k < 0.08:
            return {"u": 1}
        if k < 0.16:
            return None
        if k < 0.28:
            return {"b": r.random() < 0.5}
        if k < 0.6:
            return {"n": gen_js_num(r)}
        if k < 0.93:
            return {"s": gen_js_string(r)}
        return {"f": r.randint(1, 5)}
    if c < 0.72:
        return {"a": [gen_js(r, depth - 1) for _ in range(r.randint(0, 4))]}
    if c < 0.82:
        ta = r.choice(sorted(TA_BACK))
        vals = []
        for _ in range(r.randint(0, 4)):
            T = TA_BACK[ta]
            if T in ("float32", "float64"):
                vals.append(num_of_float(gen_float(r, T)))
            else:
                vals.append(jsnum_int(gen_int(r, T)))
        return {"ta": ta, "v": vals}
    out, seen = [], set()
    for _ in range(r.randint(0, 4)):
        k = gen_js_string(r, wellformed=r.random() < 0.9)
        if r.random() < 0.4:
            k = [ord(ch) for ch in r.choice(["a", "b", "A", "B", "Name", "X1", "Value", "Zed"])]
        if tuple(k) in seen or canonical_index(k):
            continue
        seen.add(tuple(k))
        out.append([k, gen_js(r, depth - 1)])
    return {"o": out}


def canonical_index(units):
    """integer-like keys are enumerated first by JS engines; harmless, but keep object literals in insertion order"""
    s = "".join(chr(u) for u in units)
    return s.isdigit() and (s == "0" or not s.startswith("0")) and len(s) < 11


def gen_js_for_type(r, T, depth=3):
    """a JS value that is plausibly convertible to T (mostly), or arbitrary"""
    if r.random() < 0.12:
        return gen_js(r, min(depth, 2))
    if T == "jsobj" or T in ("iface", "ifacem", "funcany"):
        return gen_js(r, depth)
    if isinstance(T, str):
        if T == "bool":
            return {"b": r.random() < 0.5}
        if T == "string":
            return {"s": gen_js_string(r)}
        if T in ("float32", "float64"):
            return {"n": num_of_float(gen_float(r, T))}
        if r.random() < 0.6:
            return {"n": jsnum_int(gen_int(r, T))}
        return {"n": gen_js_num(r)}
    if T[0] == "slice":
        if r.random() < 0.12:
            return r.choice([None, {"u": 1}])
        if isnat(T[1]) and r.random() < 0.5:
            ta = NATIVE[T[1]] if r.random() < 0.7 else r.choice(sorted(TA_BACK))
            k = TA_BACK[ta]
            return {"ta": ta, "v": [num_of_float(gen_float(r, k)) if k.startswith("float") else jsnum_int(gen_int(r, k)) for _ in range(r.randint(0, 4))]}
        return {"a": [gen_js_for_type(r, T[1], depth - 1) for _ in range(r.randint(0, 4))]}
    if T[0] == "array":
        n = T[1] if r.random() < 0.85 else T[1] + 1
        if r.random() < 0.06:
            return r.choice([None, {"u": 1}])
        if isnat(T[2]) and r.random() < 0.4:
            k = T[2]
            return {"ta": NATIVE[k], "v": [num_of_float(gen_float(r, k)) if k.startswith("float") else jsnum_int(gen_int(r, k)) for _ in range(n)]}
        return {"a": [gen_js_for_type(r, T[2], depth - 1) for _ in range(n)]}
    if T[0] == "map":
        if r.random() < 0.12:
            return r.choice([None, {"u": 1}])
        out, seen = [], set()
        for _ in range(r.randint(0, 4)):
            k = gen_js_string(r, wellformed=r.random() < 0.9)
            if tuple(k) in seen or canonical_index(k):
                continue
            seen.add(tuple(k))
            out.append([k, gen_js_for_type(r, T[1], depth - 1)])
        return {"o": out}
    if T[0] == "ptr":
        if r.random() < 0.15:
            return r.choice([None, {"u": 1}])
        return gen_js_for_type(r, T[1], depth - 1)
    if T[0] == "struct":
        out = []
        for f in T[1]:
            if r.random() < 0.9:
                out.append([[ord(c) for c in f[0]], gen_js_for_type(r, f[2], depth - 1)])
        if r.random() < 0.2:
            out.append([[ord(c) for c in "extra"], gen_js(r, 1)])
        return {"o": out}
    return gen_js(r, depth)


def depth_of(x):
    if isinstance(x, list):
        return max([depth_of(y) for y in x] + [0])
    if isinstance(x, dict):
        inner = max([depth_of(v) for v in x.values()] + [0])
        return inner + (1 if any(k in x for k in ("sl", "ar", "m", "st", "a", "o")) else 0)
    return 0


# ------------------------------------------------------------------ Go / JS source text (compiled programs)

def go_string_lit(bs):
    return '"' + "".join(chr(b) if 0x20 <= b < 0x7F and chr(b) not in '"\\' else "\\x%02x" % b for b in bs) + '"'


def go_type_src(T):
    if isinstance(T, str):
        return {"iface": "interface{}", "jsobj": "*js.Object"}.get(T, T)
    if T[0] == "slice":
        return "[]" + go_type_src(T[1])
    if T[0] == "array":
        return "[%d]%s" % (T[1], go_type_src(T[2]))
    if T[0] == "map":
        return "map[string]" + go_type_src(T[1])
    if T[0] == "ptr":
        return "*" + go_type_src(T[1])
    if T[0] == "struct":
        return "struct{" + "; ".join("%s %s" % (f[0], go_type_src(f[2])) for f in T[1]) + "}"
    raise ValueError(T)


def go_float_src(T, n):
    x = float_of_num(n)
    if T == "float32":
        bits = struct.unpack("I", struct.pack("f", x))[0]
        if n == "nan":
            bits = 0x7FC00000
        return "math.Float32frombits(0x%08x)" % bits
    bits = struct.unpack("Q", struct.pack("d", x))[0]
    if n == "nan":
        bits = 0x7FF8000000000001
    return "math.Float64frombits(0x%016x)" % bits


def go_value_src(T, V):
    if T == "jsobj":
        return 'js.Global.Call("eval", %s)' % go_string_lit([ord(c) for c in "(" + js_src(V["j"]) + ")"])
    if T == "iface":
        if V["i"] is None:
            return "interface{}(nil)"
        return "interface{}(%s)" % go_value_src(V["i"]["t"], V["i"]["v"])
    if isinstance(T, str):
        if T == "bool":
            return "true" if V["b"] else "false"
        if T in ("int64", "uint64"):
            v = val64(T, V)
            if T == "int64" and v == -2**63:
                return "int64(-9223372036854775807 - 1)"
            return "%s(%d)" % (T, v)
        if T == "string":
            return go_string_lit(V["s"])
        if T in ("float32", "float64"):
            return go_float_src(T, V["n"])
        return "%s(%s)" % (T, V["n"][1:])
    ts = go_type_src(T)
    if T[0] == "slice":
        if V["sl"] is None:
            return "%s(nil)" % ts
        return "%s{%s}" % (ts, ", ".join(go_value_src(T[1], x) for x in V["sl"]))
    if T[0] == "array":
        return "%s{%s}" % (ts, ", ".join(go_value_src(T[2], x) for x in V["ar"]))
    if T[0] == "map":
        if V["m"] is None:
            return "%s(nil)" % ts
        return "%s{%s}" % (ts, ", ".join("%s: %s" % (go_string_lit(k), go_value_src(T[1], v)) for k, v in V["m"]))
    if T[0] == "ptr":
        if V["p"] is None:
            return "(%s)(nil)" % ts
        return "&" + go_value_src(T[1], V["p"])
    if T[0] == "struct":
        return "%s{%s}" % (ts, ", ".join(go_value_src(f[2], x) for f, x in zip(T[1], V["st"])))
    raise ValueError(T)


def js_num_src(n):
    if n == "-0":
        return "(-0)"
    if n == "nan":
        return "NaN"
    if n == "inf":
        return "Infinity"
    if n == "-inf":
        return "(-Infinity)"
    if n[0] == "i":
        z = int(n[1:])
        if abs(z) < 2**53:
            return "(%d)" % z
        return "Number(%dn)" % z
    m, e = n[1:].split("/")
    m, e = int(m), int(e)
    if e <= 1000:
        return "(%d*Math.pow(2,-%d))" % (m, e)
    return "(%d*Math.pow(2,-1000)*Math.pow(2,-%d))" % (m, e - 1000)


def js_str_src(units):
    return '"' + "".join(chr(u) if 0x20 <= u < 0x7F and chr(u) not in '"\\' else "\\u%04x" % u for u in units) + '"'


def js_src(J):
    if J is None:
        return "null"
    if "u" in J:
        return "undefined"
    if "b" in J:
        return "true" if J["b"] else "false"
    if "n" in J:
        return js_num_src(J["n"])
    if "s" in J:
        return js_str_src(J["s"])
    if "a" in J:
        return "[" + ",".join(js_src(x) for x in J["a"]) + "]"
    if "ta" in J:
        return "new %s([%s])" % (J["ta"], ",".join(js_num_src(x) for x in J["v"]))
    if "o" in J:
        return "({" + ",".join("%s:%s" % (js_str_src(k), js_src(v)) for k, v in J["o"]) + "})"
    if "f" in J:
        return "__fn(%d)" % J["f"]
    raise ValueError(J)


# the JS-side probe installed in compiled programs: serialises any JS value into the J encoding (ASCII JSON text)
JS_PROBE = r"""
(function(){
var f64 = new Float64Array(1), u64 = new BigUint64Array(f64.buffer);
function encNum(x){
  if (x !== x) return 'nan'; if (x === Infinity) return 'inf'; if (x === -Infinity) return '-inf';
  if (Object.is(x, -0)) return '-0'; if (Number.isInteger(x)) return 'i' + BigInt(x).toString();
  f64[0] = x; var bits = u64[0]; var neg = (bits >> 63n) === 1n; var ex = Number((bits >> 52n) & 0x7ffn);
  var m = bits & 0xfffffffffffffn, e;
  if (ex === 0) { e = -1074; } else { m |= 1n << 52n; e = ex - 1075; }
  while ((m & 1n) === 0n) { m >>= 1n; e++; }
  return 'd' + (neg ? '-' : '') + m.toString() + '/' + (-e);
}
function units(s){ var a = []; for (var i = 0; i < s.length; i++) a.push(s.charCodeAt(i)); return a; }
var fns = {}, ids = new Map();
globalThis.__fn = function(id){ if (!fns[id]) { fns[id] = function(){ return {__fn: id}; }; ids.set(fns[id], id); } return fns[id]; };
function ser(v, d){
  d = d || 0; if (d > 12) return {weird: 'too deep'};
  if (v === undefined) return {u: 1}; if (v === null) return null;
  switch (typeof v) {
    case 'boolean': return {b: v};
    case 'number': return {n: encNum(v)};
    case 'string': return {s: units(v)};
    case 'function': return {f: ids.has(v) ? ids.get(v) : -1};
    case 'object':
      if (Array.isArray(v)) return {a: v.map(function(x){ return ser(x, d + 1); })};
      if (ArrayBuffer.isView(v)) return {ta: v.constructor.name, v: Array.from(v).map(encNum)};
      if (v.$val !== undefined) return {weird: 'go value leaked'};
      return {o: Object.keys(v).map(function(k){ return [units(k), ser(v[k], d + 1)]; })};
  }
  return {weird: typeof v};
}
globalThis.__ser = function(v){ return JSON.stringify(ser(v)); };
globalThis.__id = function(x){ return x; };
globalThis.__Ctor = function(x){ this.s = JSON.stringify(ser(x)); this.n = arguments.length; };
globalThis.__holder = { id: function(x){ return x; }, count: function(){ return arguments.length; } };
})()
"""


# ------------------------------------------------------------------ compiled programs

GO_HELPERS = r'''
const hexdigits = "0123456789abcdef"

func hexs(s string) string {
	b := make([]byte, 0, 2*len(s)+1)
	b = append(b, 'x')
	for i := 0; i < len(s); i++ {
		b = append(b, hexdigits[s[i]>>4], hexdigits[s[i]&15])
	}
	return string(b)
}

func itoa(v uint32) string {
	if v == 0 {
		return "0"
	}
	var b [12]byte
	i := len(b)
	for v > 0 {
		i--
		b[i] = byte('0' + v%10)
		v /= 10
	}
	return string(b[i:])
}

func fbits(x float64) string {
	b := math.Float64bits(x)
	return itoa(uint32(b>>32)) + ":" + itoa(uint32(b))
}

func i64s(v uint64) string { return itoa(uint32(v>>32)) + ":" + itoa(uint32(v)) }

func b01(b bool) string {
	if b {
		return "1"
	}
	return "0"
}

func ifaceTag(v interface{}) string {
	switch x := v.(type) {
	case nil:
		return "nil"
	case bool:
		return "bool:" + b01(x)
	case float64:
		return "float64:" + fbits(x)
	case string:
		return "string:" + hexs(x)
	case []interface{}:
		return "[]interface {}:" + itoa(uint32(len(x)))
	case map[string]interface{}:
		return "map[string]interface {}:" + itoa(uint32(len(x)))
	case []int8:
		return "[]int8:" + itoa(uint32(len(x)))
	case []int16:
		return "[]int16:" + itoa(uint32(len(x)))
	case []int:
		return "[]int:" + itoa(uint32(len(x)))
	case []uint8:
		return "[]uint8:" + itoa(uint32(len(x)))
	case []uint16:
		return "[]uint16:" + itoa(uint32(len(x)))
	case []uint:
		return "[]uint:" + itoa(uint32(len(x)))
	case []float32:
		return "[]float32:" + itoa(uint32(len(x)))
	case []float64:
		return "[]float64:" + itoa(uint32(len(x)))
	case func(...interface{}) *js.Object:
		return "func"
	case *js.Object:
		return "*js.Object"
	}
	return "other"
}

var nev, nrc = 0, 0

func ser(o *js.Object) string { return js.Global.Call("__ser", o).String() }

// ev and rc count their calls: every receiver expression of a js.Object method must be evaluated exactly once
func ev(src string) *js.Object  { nev++; return js.Global.Call("eval", src) }
func rc(o *js.Object) *js.Object { nrc++; return o }
'''


def go_src_lit(text):
    """Go interpreted string literal for ASCII text"""
    return go_string_lit([ord(c) for c in text])


def float_bits_pair(n):
    b = struct.unpack("Q", struct.pack("d", float_of_num(n)))[0]
    return b >> 32, b & 0xFFFFFFFF


def num_from_bits(hi, lo):
    return num_of_float(struct.unpack("d", struct.pack("Q", (hi << 32) | lo))[0])


def js_truthy(J):
    if J is None or "u" in J:
        return False
    if "b" in J:
        return J["b"]
    if "n" in J:
        return J["n"] not in ("i0", "-0", "nan")
    if "s" in J:
        return len(J["s"]) > 0
    return True
