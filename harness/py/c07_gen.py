"""C07 — generators: random type shapes + op sequences for the prelude driver (tie 1)."""
import c07_spec as S

NUMK = ["int", "uint8", "float64", "int16"]
REFK = ["ptr", "slice", "map"]


def gen_types(r):
    """type table: leaves first, then composites referring to earlier entries; returns list of defs"""
    ts = [["num", r.choice(NUMK)], ["str"], ["ref", r.choice(REFK)]]
    if r.random() < 0.3:
        ts.append(["num", r.choice(NUMK)])
    ncomp = r.randint(2, 6)
    for _ in range(ncomp):
        if r.random() < 0.45:
            n = r.choice([0, 1, 2, 2, 3, 3, 4])
            # prefer element types that are composite once some exist
            cand = list(range(len(ts)))
            comp = [i for i in cand if S.is_node(ts[i])]
            ti = r.choice(comp) if comp and r.random() < 0.6 else r.choice(cand)
            ts.append(["arr", n, ti])
        else:
            nf = r.choice([0, 1, 2, 2, 3, 3, 4])
            comp = [i for i in range(len(ts)) if S.is_node(ts[i])]
            fs = []
            for _ in range(nf):
                fs.append(r.choice(comp) if comp and r.random() < 0.5 else r.randrange(len(ts)))
            ts.append(["struct", fs])
    return ts


def size(ts, ti, memo=None):
    t = ts[ti]
    if t[0] == "arr":
        return 1 + t[1] * size(ts, t[2])
    if t[0] == "struct":
        return 1 + sum(size(ts, f) for f in t[1])
    return 1


def tkey(ts, ti):
    """structural identity of a type (the real $arrayType/$structType caches identify equal shapes)"""
    t = ts[ti]
    if t[0] == "arr":
        return ("arr", t[1], tkey(ts, t[2]))
    if t[0] == "struct":
        return ("struct", tuple(tkey(ts, f) for f in t[1]))
    return tuple(t)


def places(ts, ti, limit=60):
    """all (path, type index) reachable from a value of type ti"""
    out = []

    def walk(ti, path):
        if len(out) >= limit:
            return
        out.append((path, ti))
        t = ts[ti]
        if t[0] == "arr":
            for i in range(t[1]):
                walk(t[2], path + [i])
        elif t[0] == "struct":
            for i, f in enumerate(t[1]):
                walk(f, path + [i])
    walk(ti, [])
    return out


def leaf_value(r, t):
    if t[0] == "ref":
        return r.randint(0, 5)
    return r.randint(1, 99)


def gen_case(r, nops=None, avoid_known=False):
    """avoid_known: do not generate the two op shapes that hit recorded findings (growth of node-element slices,
    array-from-slice at a non-zero offset) so that other divergences are not masked in those cases"""
    ts = gen_types(r)
    ts = [t for t in ts]
    small = [i for i in range(len(ts)) if size(ts, i) <= 40]
    nodes = [i for i in small if S.is_node(ts[i])]
    if not nodes:
        ts.append(["struct", [0, 1]]); nodes = [len(ts) - 1]; small.append(len(ts) - 1)
    spec = S.Spec(ts)           # simulator: tells the generator the current lengths / capacities
    ops = []
    vt, st = [], []             # type index of every value register / elem type index of every slice register
    nops = nops or r.randint(4, 14)

    def emit(op, newv=None, news=None):
        spec.step(len(ops), op)
        ops.append(op)
        if newv is not None:
            vt.append(newv)
        if news is not None:
            st.append(news)

    def pick_place(pred):
        """a (reg, path, ti) over all registers whose type satisfies pred"""
        cands = []
        for rg, ti in enumerate(vt):
            for p, pti in places(ts, ti):
                if pred(pti):
                    cands.append((rg, p, pti))
        return r.choice(cands) if cands else None

    def ensure_value_of(tk, ti_hint):
        pl = pick_place(lambda x: tkey(ts, x) == tk)
        if pl is None:
            emit(["zero", ti_hint], newv=ti_hint)
            return (len(vt) - 1, [], ti_hint)
        return pl

    # start with a couple of values
    for _ in range(r.randint(1, 2)):
        ti = r.choice(nodes); emit(["zero", ti], newv=ti)
    # overlapping windows on one backing array (memmove direction matters): make, fill with distinct values,
    # two subslices at different offsets, copy in both directions, self-append within capacity
    if r.random() < 0.25:
        et = r.choice(small)
        leafs = [(p, pti) for p, pti in places(ts, et) if not S.is_node(ts[pti])]
        ln = r.randint(3, 6); cap = ln + r.choice([0, 0, 2, 3])
        emit(["make", et, ln, cap], news=et)
        base = len(st) - 1
        if leafs:
            for i in range(ln):
                p, pti = r.choice(leafs)
                emit(["swrite", base, i, p, leaf_value(r, ts[pti]) if ts[pti][0] != "ref" else r.randint(1, 5)])
        a, b = r.randint(0, 2), r.randint(0, 2)
        emit(["subslice", base, a, None, None], news=et)
        emit(["subslice", base, b, r.randint(b, ln), None], news=et)
        x, y = (base + 1, base + 2) if r.random() < 0.5 else (base + 2, base + 1)
        emit(["copyslice", x, y])
        if r.random() < 0.5:
            emit(["copyslice", y, x])
        if r.random() < 0.5 and not (avoid_known and S.is_node(ts[et])):
            emit(["subslice", base, 0, r.randint(0, 2), None], news=et)
            emit(["appendslice", len(st) - 1, r.choice([base + 1, base + 2])], news=et)
        nops = max(nops, len(ops) + 3)
    guard = 0
    while len(ops) < nops and guard < 200:
        guard += 1
        c = r.random()
        if c < 0.05:
            ti = r.choice(small); emit(["zero", ti], newv=ti)
        elif c < 0.16:
            pl = pick_place(lambda x: True if r.random() < 0.3 else S.is_node(ts[x]))
            if pl:
                emit(["clone", pl[0], pl[1]], newv=pl[2])
        elif c < 0.26:
            d = pick_place(lambda x: S.is_node(ts[x]) or r.random() < 0.2)
            if d:
                s = pick_place(lambda x: tkey(ts, x) == tkey(ts, d[2]))
                if s:
                    emit(["copy", d[0], d[1], s[0], s[1]])
        elif c < 0.40:
            pl = pick_place(lambda x: not S.is_node(ts[x]))
            if pl:
                emit(["write", pl[0], pl[1], leaf_value(r, ts[pl[2]])])
        elif c < 0.48:
            ti = r.choice(small)
            if r.random() < 0.15:
                emit(["nil", ti], news=ti)
            else:
                ln = r.choice([0, 1, 2, 3]); cap = ln + r.choice([0, 0, 1, 2, 3])
                if r.random() < 0.03:
                    cap = ln - 1
                emit(["make", ti, ln, cap], news=ti)
        elif c < 0.54:
            pl = pick_place(lambda x: ts[x][0] == "arr")
            if pl:
                emit(["sliceof", pl[0], pl[1]], news=ts[pl[2]][2])
        elif st:
            si = r.randrange(len(st)); et = st[si]; sl = spec.s[si][1]
            ln, cap, off = (sl.len, sl.cap, sl.off) if sl else (0, 0, 0)
            c2 = r.random()
            if c2 < 0.2:
                if r.random() < 0.85:
                    lo = r.randint(0, ln); hi = r.randint(lo, cap) if r.random() < 0.7 else None
                    mx = r.randint(hi if hi is not None else ln, cap) if r.random() < 0.35 else None
                    if hi is None and lo > ln:
                        hi = lo
                else:
                    lo = r.randint(-1, cap + 1); hi = r.choice([None, r.randint(-1, cap + 2)]); mx = r.choice([None, r.randint(-1, cap + 2)])
                emit(["subslice", si, lo, hi, mx], news=et)
            elif c2 < 0.45:
                n = r.choice([0, 1, 1, 2, 3])
                if avoid_known and S.is_node(ts[et]) and ln + n > cap:
                    continue
                items = []
                for _ in range(n):
                    if S.is_node(ts[et]) or r.random() < 0.3:
                        pl = ensure_value_of(tkey(ts, et), et)
                        items.append(["r", pl[0], pl[1]])
                    else:
                        items.append(["z", leaf_value(r, ts[et])])
                emit(["append", si, items], news=et)
            elif c2 < 0.55:
                others = [j for j in range(len(st)) if tkey(ts, st[j]) == tkey(ts, et)]
                sj = r.choice(others)
                s2 = spec.s[sj][1]
                if avoid_known and S.is_node(ts[et]) and ln + (s2.len if s2 else 0) > cap:
                    continue
                emit(["appendslice", si, sj], news=et)
            elif c2 < 0.67:
                others = [j for j in range(len(st)) if tkey(ts, st[j]) == tkey(ts, et)]
                emit(["copyslice", si, r.choice(others)])
            elif c2 < 0.85:
                leafs = [(p, pti) for p, pti in places(ts, et) if not S.is_node(ts[pti])]
                if leafs:
                    p, pti = r.choice(leafs)
                    emit(["swrite", si, r.randint(0, 5), p, leaf_value(r, ts[pti])])
            elif c2 < 0.89:
                emit(["sget", si, r.randint(0, 5)], newv=et)
            elif c2 < 0.93:
                pl = ensure_value_of(tkey(ts, et), et)
                emit(["sset", si, r.randint(0, 5), pl[0], pl[1]])
            else:
                pl = pick_place(lambda x: ts[x][0] == "arr" and tkey(ts, ts[x][2]) == tkey(ts, et))
                if pl and not (avoid_known and off != 0):
                    emit(["arrfromslice", pl[0], pl[1], si])
    return dict(types=ts, ops=ops)


# ---------------------------------------------------------------- Coq terms

def coq_ty(ts, ti):
    t = ts[ti]
    if t[0] == "num":
        return "TNum"
    if t[0] == "str":
        return "TScalar"
    if t[0] == "ref":
        return "TRef"
    if t[0] == "arr":
        return "(TArr %d %s)" % (t[1], coq_ty(ts, t[2]))
    return "(TStruct [%s])" % ";".join(coq_ty(ts, f) for f in t[1])


def nl(p):
    return "[" + ";".join("%d" % i for i in p) + "]%nat"


def z(n):
    return "(%d)%%Z" % n


def oz(n):
    return "None" if n is None else "(Some %s)" % z(n)


def coq_op(ts, op):
    k = op[0]
    if k == "zero":
        return "OZero %s" % coq_ty(ts, op[1])
    if k == "clone":
        return "OClone %d %s" % (op[1], nl(op[2]))
    if k == "copy":
        return "OCopy %d %s %d %s" % (op[1], nl(op[2]), op[3], nl(op[4]))
    if k == "write":
        return "OWrite %d %s %s" % (op[1], nl(op[2]), z(op[3]))
    if k == "nil":
        return "ONil %s" % coq_ty(ts, op[1])
    if k == "make":
        return "OMake %s %s %s" % (coq_ty(ts, op[1]), z(op[2]), z(op[3]))
    if k == "sliceof":
        return "OSliceOf %d %s" % (op[1], nl(op[2]))
    if k == "subslice":
        return "OSubslice %d %s %s %s" % (op[1], z(op[2]), oz(op[3]), oz(op[4]))
    if k == "append":
        return "OAppend %d [%s]" % (op[1], ";".join("IZ %s" % z(it[1]) if it[0] == "z" else "IR %d %s" % (it[1], nl(it[2])) for it in op[2]))
    if k == "appendslice":
        return "OAppendSlice %d %d" % (op[1], op[2])
    if k == "copyslice":
        return "OCopySlice %d %d" % (op[1], op[2])
    if k == "swrite":
        return "OSWrite %d %d %s %s" % (op[1], op[2], nl(op[3]), z(op[4]))
    if k == "sget":
        return "OSGet %d %d" % (op[1], op[2])
    if k == "sset":
        return "OSSet %d %d %d %s" % (op[1], op[2], op[3], nl(op[4]))
    if k == "arrfromslice":
        return "OArrFromSlice %d %s %d" % (op[1], nl(op[2]), op[3])
    raise ValueError(op)


def coq_status(s):
    if s == "ok":
        return "StOk"
    if s == "err":
        return "StErr"
    if s == "skip":
        return "StSkip"
    if isinstance(s, list) and s[0] == "n":
        return "StN %s" % z(s[1])
    return "StStuck"      # jserr etc.: never equal to a model status


KIND = {"arr": 0, "typed": 1, "struct": 2}


def coq_snap(x):
    if isinstance(x, dict):
        if "seen" in x:
            return "SSeen %d" % x["seen"]
        if "id" in x:
            return "SNode %d %d [%s]" % (x["id"], KIND[x["kind"]], ";".join(coq_snap(e) for e in x["e"]))
        return "SBad"
    if isinstance(x, bool) or not isinstance(x, int):
        return "SBad"
    return "SLeaf %s" % z(x)


def coq_ssnap(x):
    if x == "nil":
        return "SSNil"
    return "SSl (%s) %s %s %s" % (coq_snap(x["arr"]), z(x["off"]), z(x["len"]), z(x["cap"]))


def coq_case(case, res):
    ts = case["types"]
    return "{| c_ops := [%s]; c_status := [%s]; c_vsnap := [%s]; c_ssnap := [%s] |}" % (
        ";\n   ".join(coq_op(ts, o) for o in case["ops"]),
        ";".join(coq_status(s) for s in res["status"]),
        ";".join(coq_snap(s) for s in res["vregs"]),
        ";".join(coq_ssnap(s) for s in res["sregs"]))
