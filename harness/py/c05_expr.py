"""C05 — generator of well-typed Go initialiser expressions together with their term in the Coq model
(coq/Model/C05_SideEffect.v).  An expression is a tuple; the first component is the constructor."""

PRELUDE = '''package hse

type MyInt int
type NF func(int) int
type S struct{ f int }
type Ob struct{}

func (Ob) meth(x int) int { return x }

var (
	x, y int = 1, 2
	a        = []int{1, 2, 3}
	sls      [][]int
	m        map[int]int
	bmap     map[bool]int
	p        *int
	ps       *S
	st       S
	pss      []*S
	pls      []*int
	ch       chan int
	chs      []chan int
	i        any
	is       []any
	fn       func(int) int
	fns      []func(int) int
	nf       NF
	nfs      []NF
	ob       Ob
)

'''

LIT, ID = ("lit", "7"), None


def ident(n):
    return ("id", n)


def is_const(e):
    k = e[0]
    if k == "lit":
        return True
    if k == "paren":
        return is_const(e[1])
    if k == "un":
        return e[1] in ("-", "^") and is_const(e[2])
    if k == "bin":
        return is_const(e[2]) and is_const(e[3])
    if k == "call":
        return (not e[1]) and all(is_const(x) for x in e[3])
    return False


def nonconst(r, e):
    return e if not is_const(e) else ident(r.choice(["x", "y"]))


def gen_slice(r, d):
    k = r.random()
    if d <= 0 or k < 0.4:
        return ident("a")
    if k < 0.6:
        return ("slice", gen_slice(r, d - 1), nonconst(r, gen_int(r, d - 1)), nonconst(r, gen_int(r, d - 1)))
    if k < 0.8:
        return ("comp", "[]int", [gen_int(r, d - 1) for _ in range(r.randint(0, 3))])
    return ("idx", ident("sls"), nonconst(r, gen_int(r, d - 1)))


def gen_int(r, d):
    if d <= 0:
        return r.choice([("lit", "7"), ("lit", "3"), ident("x"), ident("y")])
    k = r.randrange(22)
    g = lambda: gen_int(r, d - 1)
    if k == 0:
        return ("lit", r.choice(["7", "3", "0x10"]))
    if k == 1:
        return ident(r.choice(["x", "y"]))
    if k == 2:
        return ("paren", g())
    if k == 3:
        # a call through a value of a NAMED func type: go/types gives Fun a *types.Named, not a *types.Signature
        return r.choice([("call", True, ident("fn"), [g()]), ("call", "named", ident("nf"), [g()]),
                         ("call", "named", ("idx", ident("nfs"), nonconst(r, g())), [g()])])
    if k == 4:
        return ("call", True, ident("len"), [gen_slice(r, d - 1)])
    if k == 5:
        return ("call", True, ("flit", "func() int", [g()]), [])
    if k == 6:
        return ("call", True, ("sel", ident("ob"), "meth"), [g()])
    if k == 7:
        return ("call", True, ("idx", ident("fns"), nonconst(r, g())), [g()])
    if k == 8 and r.random() < 0.3:
        # conversion of a func value to a (named / unnamed) func type, then called: the conversion itself is not a call
        return r.choice([("call", "named", ("call", "convfunc", ident("NF"), [ident("fn")]), [g()]),
                         ("call", True, ("call", "convfunc", ("paren", ident("func(int) int")), [ident("nf")]), [g()])])
    if k == 8:
        return r.choice([("call", False, ident("int"), [g()]),
                         ("call", False, ident("int"), [("call", False, ident("MyInt"), [g()])]),
                         ("call", False, ("paren", ident("int")), [g()])])
    if k == 9:
        return ("un", r.choice(["-", "^"]), g())
    if k == 10:
        return r.choice([("un", "<-", ident("ch")), ("un", "<-", ("idx", ident("chs"), nonconst(r, g())))])
    if k == 11:
        return r.choice([("star", ident("p")), ("star", ("idx", ident("pls"), nonconst(r, g()))), ("star", ("un", "&", ident("x")))])
    if k in (12, 13):
        op = r.choice(["+", "-", "*", "&"])
        return ("bin", op, g(), g())
    if k == 14:
        op = r.choice(["/", "%", "<<", ">>"])
        return ("bin", op, nonconst(r, g()), nonconst(r, g()))
    if k == 15:
        return ("idx", gen_slice(r, d - 1), nonconst(r, g()))
    if k == 16:
        return r.choice([("idx", ident("m"), g()), ("idx", ident("bmap"), ("bin", "==", g(), g()))])
    if k == 17:
        return r.choice([("sel", ident("ps"), "f"), ("sel", ident("st"), "f"), ("sel", ("idx", ident("pss"), nonconst(r, g())), "f"),
                         ("sel", ("comp", "S", [g()]), "f")])
    if k == 18:
        return r.choice([("ta", ident("i"), "int"), ("ta", ("idx", ident("is"), nonconst(r, g())), "int")])
    if k == 19:
        return ("idx", ("slice", gen_slice(r, d - 1), nonconst(r, g()), nonconst(r, g())), nonconst(r, g()))
    if k == 20:
        return ("idx", ("comp", "[]int", [g(), g()]), nonconst(r, g()))
    return ("bin", "+", g(), ("paren", g()))


def gen_top(r):
    d = r.choice([1, 2, 2, 3, 3, 4])
    k = r.random()
    if k < 0.85:
        return gen_int(r, d)
    if k < 0.90:
        return ("flit", "func() int", [gen_int(r, d - 1)])
    if k < 0.94:
        return r.choice([("call", "convfunc", ident("NF"), [ident("fn")]), ("call", "convfunc", ("paren", ident("func(int) int")), [ident("nf")]),
                         ("call", "convfunc", ident("NF"), [("flit", "func(z int) int", [gen_int(r, d - 1)])])])
    return ("comp", "[]func() int", [("flit", "func() int", [gen_int(r, d - 1)]) for _ in range(r.randint(1, 2))])


def to_go(e):
    k = e[0]
    if k == "lit" or k == "id":
        return e[1]
    if k == "paren":
        return "(" + to_go(e[1]) + ")"
    if k == "call":
        return to_go(e[2]) + "(" + ", ".join(to_go(x) for x in e[3]) + ")"
    if k == "un":
        return e[1] + to_go(e[2]) if e[1] != "-" and e[1] != "^" else e[1] + "(" + to_go(e[2]) + ")"
    if k == "star":
        return "*" + to_go(e[1])
    if k == "bin":
        return "(" + to_go(e[2]) + ") " + e[1] + " (" + to_go(e[3]) + ")"
    if k == "idx":
        return to_go(e[1]) + "[" + to_go(e[2]) + "]"
    if k == "slice":
        return to_go(e[1]) + "[" + to_go(e[2]) + ":" + to_go(e[3]) + "]"
    if k == "sel":
        return to_go(e[1]) + "." + e[2]
    if k == "ta":
        return to_go(e[1]) + ".(" + e[2] + ")"
    if k == "comp":
        return e[1] + "{" + ", ".join(to_go(x) for x in e[2]) + "}"
    if k == "flit":
        return e[1] + " { " + "; ".join("return " + to_go(x) for x in e[2]) + " }"
    raise ValueError(k)


UN = {"<-": "UArrow", "-": "UNeg", "^": "UXor", "!": "UNot", "&": "UAddr"}
BIN = {"+": "BAdd", "-": "BSub", "*": "BMul", "/": "BQuo", "%": "BRem", "<<": "BShl", ">>": "BShr", "&": "BAnd", "==": "BEq"}


def to_coq(e):
    """mirror of the go/ast tree: to_go wraps operands of unary -,^ and of binary operators in ParenExpr, so does this"""
    k = e[0]
    L = lambda xs: "[" + "; ".join(to_coq(x) for x in xs) + "]"
    if k == "lit":
        return "ELit"
    if k == "id":
        return "EIdent"
    if k == "paren":
        return "(EParen %s)" % to_coq(e[1])
    if k == "call":
        return "(ECall %s %s %s)" % ({True: "CSig", False: "CConv", "named": "CNamedFunc", "convfunc": "CConvFunc"}[e[1]], to_coq(e[2]), L(e[3]))
    if k == "un":
        inner = to_coq(e[2])
        if e[1] in ("-", "^"):
            inner = "(EParen %s)" % inner
        return "(EUnary %s %s)" % (UN[e[1]], inner)
    if k == "star":
        return "(EStar %s)" % to_coq(e[1])
    if k == "bin":
        return "(EBinary %s (EParen %s) (EParen %s))" % (BIN[e[1]], to_coq(e[2]), to_coq(e[3]))
    if k == "idx":
        return "(EIndex %s %s)" % (to_coq(e[1]), to_coq(e[2]))
    if k == "slice":
        return "(ESlice %s %s %s)" % (to_coq(e[1]), to_coq(e[2]), to_coq(e[3]))
    if k == "sel":
        return "(ESelector %s)" % to_coq(e[1])
    if k == "ta":
        return "(ETypeAssert %s)" % to_coq(e[1])
    if k == "comp":
        return "(EComposite %s)" % L(e[2])
    if k == "flit":
        return "(EFuncLit %s)" % L(e[2])
    raise ValueError(k)


def children(e):
    k = e[0]
    if k in ("lit", "id"):
        return []
    if k in ("paren", "star"):
        return [e[1]]
    if k == "call":
        return [e[2]] + list(e[3])
    if k == "un":
        return [e[2]]
    if k == "bin":
        return [e[2], e[3]]
    if k == "idx":
        return [e[1], e[2]]
    if k == "slice":
        return [e[1], e[2], e[3]]
    if k in ("sel", "ta"):
        return [e[1]]
    if k in ("comp", "flit"):
        return list(e[2])
    raise ValueError(k)


def size(e):
    return 1 + sum(size(c) for c in children(e))


def has_call_or_recv(e):
    """from scratch: does the syntax tree contain a function call (not a conversion) or a receive, anywhere"""
    if e[0] == "call" and (e[1] is True or e[1] == "named"):
        return True
    if e[0] == "un" and e[1] == "<-":
        return True
    return any(has_call_or_recv(c) for c in children(e))


def may_panic(e):
    """evaluation can panic by a node that is neither a call nor a receive (outside function literal bodies)"""
    k = e[0]
    if k == "flit":
        return False
    if k in ("star", "idx", "slice", "sel", "ta"):
        return True
    if k == "bin" and e[1] in ("/", "%", "<<", ">>", "=="):
        return True
    return any(may_panic(c) for c in children(e))
