#!/usr/bin/env python3
"""Runs the repository's test suite (guard off) in the given checkout and compares the set of
passing tests with /root/.vp/BASELINE.json stable_pass.   usage: baseline_cmp.py [repo_dir]"""
import json, os, subprocess, sys
repo = sys.argv[1] if len(sys.argv) > 1 else "/repo"
env = dict(os.environ, GOFLAGS="-mod=mod", GOPROXY="off", GOSUMDB="off", GOTOOLCHAIN="local")
# VERIF_TEST_CACHE=1: let go reuse cached results of packages whose inputs did not change (used when confirming seeded changes)
cnt = [] if os.environ.get("VERIF_TEST_CACHE") == "1" else ["-count=1"]
p = subprocess.run(["go", "test", "-json", "-vet=off"] + cnt + ["-timeout", "60m", "./..."], cwd=repo, env=env,
                   stdout=subprocess.PIPE, stderr=subprocess.DEVNULL)
passed, failed = set(), set()
for line in p.stdout.decode("utf-8", "replace").split("\n"):
    try:
        e = json.loads(line)
    except ValueError:
        continue
    if e.get("Test") and e.get("Action") in ("pass", "fail"):
        (passed if e["Action"] == "pass" else failed).add("%s::%s" % (e["Package"], e["Test"]))
base = set(json.load(open("/root/.vp/BASELINE.json"))["stable_pass"])
missing = sorted(base - passed)
print("baseline %d, passed now %d, baseline tests not passing now: %d" % (len(base), len(passed), len(missing)))
for m in missing[:40]:
    print("  MISSING", m)
print("failed now:", sorted(failed)[:10])
sys.exit(1 if missing else 0)
