"""C06 — typed integer expression trees: generation, Go source, Coq term, and a from-scratch
evaluation of the Go specification in Python (independent of the Coq model and of the compiler).

tree nodes (tuples):  ('X',) ('Y',) ('K',k,c) ('Bin',k,o,a,b) ('Cmp',k,c,a,b,r) ('Un',k,u,a)
                      ('ShV',k,s,a,n) ('ShC',k,s,c,a) ('Conv',k1,k2,a)
"""
KINDS = ["Int8", "Int16", "Int32", "Int64", "Int", "Uint8", "Uint16", "Uint32", "Uint64", "Uint", "Uintptr"]
SIGNED = {"Int8", "Int16", "Int32", "Int64", "Int"}
BITS = {"Int8": 8, "Uint8": 8, "Int16": 16, "Uint16": 16, "Int64": 64, "Uint64": 64, "Int32": 32, "Uint32": 32, "Int": 32, "Uint": 32, "Uintptr": 32}
BINSYM = {"Add": "+", "Sub": "-", "Mul": "*", "Quo": "/", "Rem": "%", "And": "&", "Or": "|", "Xor": "^", "AndNot": "&^"}
CMPSYM = {"Eql": "==", "Neq": "!=", "Lss": "<", "Leq": "<=", "Gtr": ">", "Geq": ">="}
UNSYM = {"Neg": "-", "Not": "^"}
SHSYM = {"Shl": "<<", "Shr": ">>"}
CONST_COUNTS = [0, 1, 5, 7, 8, 15, 16, 31, 32, 33, 40, 63, 64, 70]


def kmin(k):
    return -(1 << (BITS[k] - 1)) if k in SIGNED else 0


def kmax(k):
    return (1 << (BITS[k] - 1)) - 1 if k in SIGNED else (1 << BITS[k]) - 1


def wrap(k, v):
    w = BITS[k]
    m = v % (1 << w)
    if k in SIGNED and m >= 1 << (w - 1):
        m -= 1 << w
    return m


def tquot(a, b):
    q = abs(a) // abs(b)
    return q if (a < 0) == (b < 0) else -q


class GoPanic(Exception):
    pass


def spec_eval(e, x, y, trig=None):
    """value the Go specification defines; raises GoPanic for integer division by zero.
    trig (a list) collects the known-defect trigger classes met while evaluating."""
    t = e[0]
    if t == "X":
        return x
    if t == "Y":
        return y
    if t == "K":
        return e[2]
    if t == "Bin":
        _, k, o, a, b = e
        va, vb = spec_eval(a, x, y, trig), spec_eval(b, x, y, trig)
        if o == "Add":
            return wrap(k, va + vb)
        if o == "Sub":
            return wrap(k, va - vb)
        if o == "Mul":
            return wrap(k, va * vb)
        if o in ("Quo", "Rem"):
            if vb == 0:
                raise GoPanic()
            q = tquot(va, vb)
            if o == "Quo":
                if trig is not None and k in ("Int8", "Int16") and va == kmin(k) and vb == -1:
                    trig.append(k.lower() + "-quo-minint-by-minus1")
                return wrap(k, q)
            r = va - q * vb
            if trig is not None and r == 0 and va < 0 and BITS[k] < 64:
                trig.append("int-negative-zero-leaks-into-float-conversion")
            return r
        if o == "And":
            return wrap(k, va & vb)
        if o == "Or":
            return wrap(k, va | vb)
        if o == "Xor":
            return wrap(k, va ^ vb)
        if o == "AndNot":
            return wrap(k, va & ~vb)
    if t == "Cmp":
        _, k, c, a, b, r = e
        va, vb = spec_eval(a, x, y, trig), spec_eval(b, x, y, trig)
        return int({"Eql": va == vb, "Neq": va != vb, "Lss": va < vb, "Leq": va <= vb, "Gtr": va > vb, "Geq": va >= vb}[c])
    if t == "Un":
        _, k, u, a = e
        va = spec_eval(a, x, y, trig)
        if u == "Neg":
            if trig is not None and k in SIGNED and BITS[k] < 64:
                if va == 0:
                    trig.append("int-negative-zero-leaks-into-float-conversion")
                if va == kmin(k):
                    trig.append("signed-neg-minint-not-wrapped")
            return wrap(k, -va)
        return wrap(k, ~va)
    if t == "ShV":
        _, k, s, a, n = e
        vn = spec_eval(n, x, y, trig)
        assert vn >= 0
        try:
            va = spec_eval(a, x, y, trig)
        except GoPanic:
            if trig is not None and vn >= 32 and BITS[k] < 64 and not (s == "Shr" and k in SIGNED):
                trig.insert(0, "shift-count-ge-32-skips-left-operand-evaluation")
            raise
        if s == "Shl":
            return wrap(k, va << vn) if vn < 128 else 0
        return va >> vn if vn < 128 else (-1 if va < 0 else 0)
    if t == "ShC":
        _, k, s, c, a = e
        try:
            va = spec_eval(a, x, y, trig)
        except GoPanic:
            if trig is not None and c >= 32 and BITS[k] < 64:
                trig.insert(0, "shift-count-ge-32-skips-left-operand-evaluation")
            raise
        if s == "Shl":
            return wrap(k, va << c)
        if trig is not None and c >= 32 and k in SIGNED and BITS[k] < 64 and va < 0:
            trig.append("signed-shr-const-count-ge-32")
        return va >> c
    if t == "Conv":
        return wrap(e[2], spec_eval(e[3], x, y, trig))
    raise ValueError(e)


def has_var(e):
    return e[0] in ("X", "Y") or any(isinstance(c, tuple) and has_var(c) for c in e[1:])


def kind_of(e, base):
    t = e[0]
    if t in ("X", "Y"):
        return base
    if t == "K":
        return e[1]
    if t == "Cmp":
        return e[5]
    if t == "Conv":
        return e[2]
    return e[1]


class Style:
    """how an expression is rendered as Go source.
    prefix 't': the numeric types are aliases of the predeclared types; 'd': DEFINED types (type dInt64 int64).
    leaf 'plain': operands are the parameters x, y;  'index': every operand occurrence is an element expression on a local
    array whose index has a side effect (`ax[pick(&c[N])]`: yields x when evaluated once, the other value when the
    compiler evaluates the operand expression a second time);  'field': a field of a local struct (`sx.f`);
    'call': a call (`fx()`) that counts its evaluations the same way."""
    def __init__(self, prefix="t", leaf="plain"):
        self.prefix, self.leaf, self.n = prefix, leaf, 0

    def var(self, name):
        if self.leaf == "plain":
            return name
        if self.leaf == "field":
            return "s%s.f" % name
        i = self.n
        self.n += 1
        if self.leaf == "index":
            return "a%s[pick(&c[%d])]" % (name, i)
        if self.leaf == "map":
            return "m%s[pick(&c[%d])]" % (name, i)
        return "once(&c[%d], %s, %s)" % (i, name, "y" if name == "x" else "x")


def go(e, st=None):
    st = st or Style()
    t = e[0]
    if t == "X":
        return st.var("x")
    if t == "Y":
        return st.var("y")
    if t == "K":
        return "%s%s(%d)" % (st.prefix, e[1], e[2])
    if t == "Bin":
        a = go(e[3], st)
        return "(%s %s %s)" % (a, BINSYM[e[2]], go(e[4], st))
    if t == "Cmp":
        a = go(e[3], st)
        return "b2i%s%s(%s %s %s)" % (st.prefix, e[5], a, CMPSYM[e[2]], go(e[4], st))
    if t == "Un":
        return "(%s%s)" % (UNSYM[e[2]], go(e[3], st))
    if t == "ShV":
        a = go(e[3], st)
        return "(%s %s %s)" % (a, SHSYM[e[2]], go(e[4], st))
    if t == "ShC":
        return "(%s %s %d)" % (go(e[4], st), SHSYM[e[2]], e[3])
    if t == "Conv":
        return "%s%s(%s)" % (st.prefix, e[2], go(e[3], st))
    raise ValueError(e)


def z(v):
    return str(v) if v >= 0 else "(%d)" % v


def coq(e):
    t = e[0]
    if t == "X":
        return "EX"
    if t == "Y":
        return "EY"
    if t == "K":
        return "(EK %s %s)" % (e[1], z(e[2]))
    if t == "Bin":
        return "(EBin %s %s %s %s)" % (e[1], e[2], coq(e[3]), coq(e[4]))
    if t == "Cmp":
        return "(ECmp %s %s %s %s %s)" % (e[1], e[2], coq(e[3]), coq(e[4]), e[5])
    if t == "Un":
        return "(EUn %s %s %s)" % (e[1], e[2], coq(e[3]))
    if t == "ShV":
        return "(EShV %s %s %s %s)" % (e[1], e[2], coq(e[3]), coq(e[4]))
    if t == "ShC":
        return "(EShC %s %s %s %s)" % (e[1], e[2], z(e[3]), coq(e[4]))
    if t == "Conv":
        return "(EConv %s %s %s)" % (e[1], e[2], coq(e[3]))
    raise ValueError(e)


def consts(k, r, n):
    w = BITS[k]
    cs = {0, 1, 2, 3, 7, 10, kmax(k), kmax(k) - 1, kmin(k), wrap(k, int("55" * (w // 8), 16)), wrap(k, int("AA" * (w // 8), 16)),
          wrap(k, 1 << (w - 2)), wrap(k, (1 << (w // 2)) + 1)}
    if k in SIGNED:
        cs |= {-1, -2, -3, kmin(k) + 1}
    cs = sorted(cs)
    return [r.choice(cs) for _ in range(n)]


def boundary_grid(k, r, nrand):
    w = BITS[k]
    vs = {0, 1, 2, 3, kmax(k), kmax(k) - 1, kmin(k), kmin(k) + 1}
    for j in range(1, w):
        for d in (-1, 0, 1):
            vs.add(wrap(k, (1 << j) + d))
            if k in SIGNED:
                vs.add(wrap(k, -(1 << j) + d))
    vs.add(wrap(k, int("55" * (w // 8), 16)))
    vs.add(wrap(k, int("AA" * (w // 8), 16)))
    vs.add(wrap(k, int("33" * (w // 8), 16)))
    if k in SIGNED:
        vs |= {-1, -2, -3}
    vs = sorted(v for v in vs if kmin(k) <= v <= kmax(k))
    return vs, [r.randint(kmin(k), kmax(k)) for _ in range(nrand)]


def count_expr(k, r):
    """a shift count derived from y: any unsigned kind (negative counts are a permitted difference)"""
    if k not in SIGNED and r.random() < 0.5:
        return ("Y",)
    u = r.choice(["Uint8", "Uint32", "Uint64", "Uint", "Uint16"])
    c = ("Conv", k, u, ("Y",)) if u != k else ("Y",)
    if r.random() < 0.5:
        c = ("Bin", u, "Rem", c, ("K", u, r.choice([71, 33, 65, 40])))
    return c


def basic_exprs(k):
    """one expression per (operator, operands as variables)"""
    es = []
    for o in BINSYM:
        es.append(("Bin", k, o, ("X",), ("Y",)))
    for c in CMPSYM:
        es.append(("Cmp", k, c, ("X",), ("Y",), k))
    for u in UNSYM:
        es.append(("Un", k, u, ("X",)))
    cu = "Uint32" if k != "Uint32" else "Uint64"
    cnt = ("Bin", cu, "Rem", ("Conv", k, cu, ("Y",)), ("K", cu, 71))      # all counts 0..70
    raw = ("Y",) if k not in SIGNED else ("Conv", k, "Uint64" if BITS[k] == 64 else "Uint32", ("Y",))   # huge counts
    for s in SHSYM:
        es.append(("ShV", k, s, ("X",), cnt))
        es.append(("ShV", k, s, ("X",), raw))
    return es


def shape_exprs(k, r, quick):
    """operands as constants, constant shift counts, conversions, nested sub-expressions"""
    es = []
    for o in BINSYM:
        for c in consts(k, r, 3 if quick else 5):
            if not (o in ("Quo", "Rem") and c == 0):
                es.append(("Bin", k, o, ("X",), ("K", k, c)))
            es.append(("Bin", k, o, ("K", k, c), ("Y",)))
    for cm in CMPSYM:
        forced = [r.choice([-1, -2, kmin(k), -3])] if k in SIGNED else [kmax(k)]
        for c in forced + consts(k, r, 1 if quick else 3):
            es.append(("Cmp", k, cm, ("X",), ("K", k, c), k))
            es.append(("Cmp", k, cm, ("K", k, c), ("Y",), k))
    for s in SHSYM:
        for c in CONST_COUNTS + [2, 24, 45, 100]:
            es.append(("ShC", k, s, c, ("X",)))
        for c in consts(k, r, 2):
            es.append(("ShV", k, s, ("K", k, c), count_expr(k, r)))
    for k2 in KINDS:
        if k2 != k:
            es.append(("Conv", k, k2, ("X",)))
            es.append(("Conv", k2, k, ("Conv", k, k2, ("X",))))
            es.append(("Conv", k2, k, ("Bin", k2, r.choice(["Add", "Mul", "Sub", "Xor"]), ("Conv", k, k2, ("X",)), ("Conv", k, k2, ("Y",)))))
    n = 40 if quick else 150
    for _ in range(n):
        es.append(nested(k, k, r, r.choice([2, 2, 3, 3, 4])))
    return es


def nested(base, k, r, depth):
    """random expression of kind k over x, y (of kind base); always contains a variable"""
    if depth <= 0:
        leaf = ("X",) if r.random() < 0.5 else ("Y",)
        return leaf if k == base else ("Conv", base, k, leaf)
    c = r.random()
    sub = lambda kk=k: nested(base, kk, r, depth - 1 - (r.random() < 0.3))
    if c < 0.45:
        o = r.choice(list(BINSYM))
        a = sub()
        if r.random() < 0.25:
            cv = consts(k, r, 1)[0]
            if o in ("Quo", "Rem") and cv == 0:
                cv = 3
            b = ("K", k, cv)
            return ("Bin", k, o, a, b) if r.random() < 0.6 else ("Bin", k, o, b, a)
        return ("Bin", k, o, a, sub())
    if c < 0.55:
        return ("Un", k, r.choice(list(UNSYM)), sub())
    if c < 0.65:
        k2 = r.choice(KINDS)
        return ("Cmp", k2, r.choice(list(CMPSYM)), nested(base, k2, r, depth - 1), nested(base, k2, r, depth - 1), k)
    if c < 0.75:
        return ("ShC", k, r.choice(list(SHSYM)), r.choice(CONST_COUNTS + [2, 3, 24]), sub())
    if c < 0.85:
        u = r.choice(["Uint8", "Uint32", "Uint64", "Uint16"])
        cnt = nested(base, u, r, max(0, depth - 2))
        if r.random() < 0.7:
            cnt = ("Bin", u, "Rem", cnt, ("K", u, r.choice([71, 33, 65, 17])))
        return ("ShV", k, r.choice(list(SHSYM)), sub(), cnt)
    k2 = r.choice([x for x in KINDS if x != k])
    return ("Conv", k2, k, nested(base, k2, r, depth - 1))


GO_ALIAS_JS = {k: k.lower() for k in KINDS}
GO_ALIAS_NATIVE = dict(GO_ALIAS_JS, Int="int32", Uint="uint32", Uintptr="uint32")


def program(base, sections, native):
    """sections: list of (exprs, grid, prefix, leaf).  One row per (expression, x): `<section> <expr index> <x index>: r r r ...`"""
    alias = GO_ALIAS_NATIVE if native else GO_ALIAS_JS
    L = ["package main", "", 'import "math"', ""]
    for k in KINDS:
        L.append("type t%s = %s" % (k, alias[k]))        # aliases of the predeclared types
        L.append("type d%s %s" % (k, alias[k]))          # defined types with the same underlying type
    L.append("")
    for k in KINDS:
        for pf in "td":
            L.append("func b2i%s%s(b bool) %s%s {\n\tif b {\n\t\treturn 1\n\t}\n\treturn 0\n}" % (pf, k, pf, k))
    L.append("""
// pick yields 0 the first time it is called on a counter and 1 afterwards: an operand `a[pick(&c)]` is x when the
// operand expression is evaluated once (as Go requires) and the other value when it is evaluated again.
func pick(c *int) int {
	*c++
	if *c == 1 {
		return 0
	}
	return 1
}

func fmtf(f float64) string {
	if f == 0 {
		if 1/f < 0 {
			return "-0"
		}
		return "0"
	}
	neg := f < 0
	if neg {
		f = -f
	}
	var buf [40]byte
	i := len(buf)
	for f >= 1 && i > 1 {
		d := math.Mod(f, 10)
		i--
		buf[i] = byte('0' + int(d))
		f = math.Floor(f / 10)
	}
	if neg {
		i--
		buf[i] = '-'
	}
	return string(buf[i:])
}
""")
    fi = 0
    for si, (exprs, grid, prefix, leaf) in enumerate(sections):
        T = "%s%s" % (prefix, base)
        L.append("""func once%d(c *int, a, b %s) %s {
	*c++
	if *c == 1 {
		return a
	}
	return b
}
func call%d(f func(x, y %s) string, x, y %s) (r string) {
	defer func() {
		if recover() != nil {
			r = "P"
		}
	}()
	return f(x, y)
}""" % (si, T, T, si, T, T))
        names = []
        for e in exprs:
            rk = kind_of(e, base)
            st = Style(prefix, leaf)
            src = go(e, st)
            if leaf == "call":
                src = src.replace("once(", "once%d(" % si)
            pre = ""
            if leaf in ("index", "map", "call"):
                pre += "var c [%d]int\n\t_ = c\n\t" % max(1, st.n)
            if leaf == "index":
                pre += "ax := [2]%s{x, y}\n\tay := [2]%s{y, x}\n\t_, _ = ax, ay\n\t" % (T, T)
            if leaf == "map":
                pre += "mx := map[int]%s{0: x, 1: y}\n\tmy := map[int]%s{0: y, 1: x}\n\t_, _ = mx, my\n\t" % (T, T)
            if leaf == "field":
                pre += "sx := struct{ f %s }{x}\n\tsy := struct{ f %s }{y}\n\t_, _ = sx, sy\n\t" % (T, T)
            if BITS[rk] == 64:
                body = "%sr := %s\n\treturn fmtf(float64(uint32(r>>32))) + \":\" + fmtf(float64(uint32(r)))" % (pre, src)
            else:
                body = "%sr := %s\n\treturn fmtf(float64(r))" % (pre, src)
            L.append("func e%d(x, y %s) string {\n\t%s\n}" % (fi, T, body))
            names.append("e%d" % fi)
            fi += 1
        L.append("var fns%d = []func(x, y %s) string{%s}" % (si, T, ", ".join(names)))
        L.append("var grid%d = []%s{%s}" % (si, T, ", ".join(str(v) for v in grid)))
    L.append("\nfunc main() {")
    for si in range(len(sections)):
        L.append("""	for i, f := range fns%d {
		for xi, x := range grid%d {
			s := "%d " + fmtf(float64(i)) + " " + fmtf(float64(xi)) + ":"
			for _, y := range grid%d {
				s += " " + call%d(f, x, y)
			}
			println(s)
		}
	}""" % (si, si, si, si, si))
    L.append("}")
    return "\n".join(L) + "\n"
