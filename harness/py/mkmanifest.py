#!/usr/bin/env python3
"""Regenerates /verif/MANIFEST.json from harness/py/props/*.py (each module carries its own
level text) so the manifest always matches what is built."""
import importlib, json, os, re, sys
sys.path.insert(0, os.path.dirname(os.path.abspath(__file__)))
import common as C

ALL = ["C%02d" % i for i in range(1, 21)]
mods = {}
pdir = os.path.join(os.path.dirname(os.path.abspath(__file__)), "props")
for f in sorted(os.listdir(pdir)):
    if re.match(r"c\d+\.py$", f):
        m = importlib.import_module("props." + f[:-3])
        mods[m.ID] = m

checks, na = [], []
for pid in ALL:
    m = mods.get(pid)
    if not m or getattr(m, "NOT_CLAIMED", None):
        na.append(dict(property_id=pid, reason=getattr(m, "NOT_CLAIMED", None) or "check not built yet in this round (planned: DESIGN.md section 3 %s)" % pid))
        continue
    checks.append(dict(
        property_id=pid,
        quick_cmd="./check %s --tier quick" % pid,
        thorough_cmd="./check %s --tier thorough" % pid,
        evidence_file="/verif/evidence/%s.json" % pid,
        replay_cmd_template="./check %s --replay {path}" % pid,
        engine="coq-proof+correspondence",
        level_claimed=dict(category="proof", text=m.LEVEL_TEXT, design_ref="DESIGN.md section 3 " + pid),
        level_note=m.LEVEL_NOTE,
        technique=m.TECHNIQUE,
    ))
man = dict(
    version=1,
    setup_cmd="./check setup",
    hooks=dict(guard="verif",
               enable="go build -tags verif -overlay /verif/.work/overlay_<harness>.json — virtual `//go:build verif` files kept under /verif/harness/go/repo_overlay are mapped into the module by Go's -overlay flag (one overlay per property); /repo itself carries no hook code, so there are no hook commits",
               baseline_off_cmd="cd /repo && go test -vet=off -count=1 ./...",
               source_commits=[], add_only=True),
    engines=[dict(name="coq-proof+correspondence", path="/verif/harness/py/check.py",
                  serves_properties=[c["property_id"] for c in checks],
                  kind_free_text="Coq 8.16.1 theorems about hand-written executable Gallina models (coq/Model, coq/Proofs, coq/Props), tables regenerated from /repo into coq/Gen on every run, and a differential correspondence check model-vs-implementation on generated inputs (vm_compute inside coqc)")],
    checks=checks,
    not_applicable=na,
    notes="All checks rebuild gopherjs and the overlay harnesses from /repo's working tree on every run, regenerate coq/Gen tables from the sources, rebuild the Coq theorems (full .vo) and run the model/implementation correspondence. /repo carries 40 unguarded `fix:` commits for genuine defects (known_findings.txt); recorded findings are in known_findings.d/. See DESIGN.md and reports/.",
)
with open(os.path.join(C.VERIF, "MANIFEST.json"), "w") as f:
    json.dump(man, f, indent=1)
print("claimed:", [c["property_id"] for c in checks], "not claimed:", [n["property_id"] for n in na])
