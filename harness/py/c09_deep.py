"""C09 helper: DEEP type terms (constructor depth 4..7, near copies with one small mutation) and LARGE embedding graphs.
Same JSON family format as c09_fam (decls / univ / probes); every random choice comes from the `r` argument."""
import json
import c09_fam as F

LEAF_BASIC = [F.B_INT, F.B_STRING, F.B_BOOL, F.B_F64]
DIRS = [(False, False), (True, False), (False, True)]          # (send, recv); never both
FNAMES = ["A", "B", "a", "b", "F", "x"]
TAGS = ["", "k", "a$b", "t$B,1,", "t,0$B,1,,0", "\\", "\\$", "$", "a\\\\$b", ",", "x,1", "\"q\"", "a\\", "\\,0$"]
INAMES = ["M", "N", "m", "n"]
UPPER = "ABCDEFGHIJKLMNOPQRSTUVWXYZ"
BAD = (",", "$", "\\")


def _cp(t):
    return json.loads(json.dumps(t))


def _decl(name, under, meths=(), pkg="main", pkgname="main", local=False, fn=None):
    d = dict(str=pkgname + "." + name, pkg=pkg, name=name, exported=True, local=local, under=under, meths=list(meths))
    if fn: d["fn"] = fn
    return d


# ------------------------------------------------------------------ statistics / well-formedness

def _children(t):
    k = t["k"]
    if k in ("basic", "named"): return []
    if k in ("ptr", "slice", "array", "chan"): return [t["e"]]
    if k == "map": return [t["key"], t["e"]]
    if k == "func": return list(t["ps"]) + list(t["rs"])
    if k == "struct": return [f["t"] for f in t["fs"]]
    if k == "iface": return [m["sig"] for m in t["ms"]]
    raise ValueError(k)


def max_depth(t):
    """constructor depth of a term (leaf = 0)"""
    if t["k"] in ("basic", "named"): return 0
    return 1 + max([max_depth(c) for c in _children(t)] + [0])


def _clean(s):
    return isinstance(s, str) and not any(c in s for c in BAD)


def _wf(t, ndecl):
    k = t.get("k")
    if k == "basic": return isinstance(t["i"], int) and 0 <= t["i"] < 18
    if k == "named": return isinstance(t["d"], int) and 0 <= t["d"] < ndecl
    if k in ("ptr", "slice"): return _wf(t["e"], ndecl)
    if k == "array": return isinstance(t["n"], int) and t["n"] >= 0 and _wf(t["e"], ndecl)
    if k == "map": return _wf(t["key"], ndecl) and _wf(t["e"], ndecl)
    if k == "chan": return not (t["send"] and t["recv"]) and _wf(t["e"], ndecl)
    if k == "func": return all(_wf(x, ndecl) for x in t["ps"]) and all(_wf(x, ndecl) for x in t["rs"])
    if k == "struct":
        if not _clean(t["pkg"]): return False
        allexp = True
        for f in t["fs"]:
            nm = f["name"]
            if not _clean(nm): return False
            if f["exp"] != (nm[:1] != "" and nm[:1] in UPPER): return False
            if not f["exp"]: allexp = False
            if not _wf(f["t"], ndecl): return False
        return (t["pkg"] == "") == allexp
    if k == "iface":
        for m in t["ms"]:
            if not _clean(m["name"]) or not _clean(m["pkg"]): return False
            if m["sig"].get("k") != "func" or not _wf(m["sig"], ndecl): return False
        return True
    return False


def py_wf(fam):
    """one bool per universe term: independent well-formedness check"""
    n = len(fam["decls"])
    return [_wf(t, n) for t in fam["univ"]]


# ------------------------------------------------------------------ deep terms

def _leaf(r, nd):
    if r.random() < 0.4: return F.named(r.randrange(nd))
    return F.basic(r.choice(LEAF_BASIC))


def _key(r, nd, depth):
    """comparable key type without slice/map/func anywhere inside"""
    if depth <= 0: return _leaf(r, nd)
    c = r.choice(["ptr", "chan", "array"] if depth == 1 else ["ptr", "chan"])
    if c == "array": return F.array(r.randint(0, 3), F.basic(r.choice(LEAF_BASIC)))
    if c == "ptr": return F.ptr(_key(r, nd, depth - 1))
    s, v = r.choice(DIRS)
    return F.chan(_key(r, nd, depth - 1), s, v)


def _small(r, depth):
    return r.randint(0, max(0, min(2, depth - 1)))


def _gen(r, names, depth):
    nd = len(names)
    if depth <= 0: return _leaf(r, nd)
    cons = ["ptr", "slice", "array", "chan", "map", "func", "struct"]
    if 2 <= depth <= 3: cons += ["iface", "iface"]
    c = r.choice(cons)
    if c == "ptr": return F.ptr(_gen(r, names, depth - 1))
    if c == "slice": return F.slice_(_gen(r, names, depth - 1))
    if c == "array": return F.array(r.randint(0, 3), _gen(r, names, depth - 1))
    if c == "chan":
        s, v = r.choice(DIRS)
        return F.chan(_gen(r, names, depth - 1), s, v)
    if c == "map":
        if r.random() < 0.25:
            return F.map_(_key(r, nd, depth - 1), _gen(r, names, _small(r, depth)))
        return F.map_(_key(r, nd, _small(r, depth)), _gen(r, names, depth - 1))
    if c == "func":
        np_, nr = r.randint(0, 3), r.randint(0, 2)
        if np_ + nr == 0:
            if r.random() < 0.5: np_ = 1
            else: nr = 1
        main_i = r.randrange(np_ + nr)
        xs = [_gen(r, names, depth - 1 if i == main_i else _small(r, depth)) for i in range(np_ + nr)]
        ps, rs = xs[:np_], xs[np_:]
        if ps and ps[-1]["k"] != "slice" and r.random() < 0.35 and (main_i != np_ - 1):
            ps[-1] = F.slice_(_gen(r, names, max(0, _small(r, depth) - 1)))
        v = bool(ps) and ps[-1]["k"] == "slice" and r.random() < 0.5
        return F.func(ps, rs, v)
    if c == "struct":
        nf = r.randint(1, 3)
        main_i = r.randrange(nf)
        used, fs = set(), []
        for i in range(nf):
            t = _gen(r, names, depth - 1 if i == main_i else _small(r, depth))
            base = t if t["k"] == "named" else (t["e"] if (t["k"] == "ptr" and t["e"]["k"] == "named") else None)
            if base is not None and names[base["d"]] not in used and r.random() < 0.7:
                nm, emb = names[base["d"]], r.random() < 0.7          # struct{L} or struct{L L}
            else:
                nm, emb = r.choice([x for x in FNAMES if x not in used]), False
            used.add(nm)
            tag = r.choice(TAGS) if r.random() < 0.6 else ""
            fs.append(F.field(nm, t, emb=emb, tag=tag))
        return F.struct(fs, r.choice(["main", F.QPKG]))
    # iface
    ms = [F.imeth(nm, _cp(r.choice(F.SIGS)), r.choice(["main", F.QPKG])) for nm in r.sample(INAMES, r.randint(0, 2))]
    return F.iface(ms)


def _walk(t, d, out):
    out.append((t, d))
    for c in _children(t):
        _walk(c, d + 1, out)


def _muts(r, t, names):
    """list of closures, each applying one small mutation to node t (in place)"""
    k, out = t["k"], []
    if k == "array":
        def m_arr():
            t["n"] = r.choice([x for x in range(4) if x != t["n"]])
        out.append(m_arr)
    elif k == "chan":
        def m_chan():
            t["send"], t["recv"] = r.choice([x for x in DIRS if x != (t["send"], t["recv"])])
        out.append(m_chan)
    elif k == "basic":
        if t["i"] in (F.B_INT, F.B_STRING):
            def m_leaf():
                t["i"] = F.B_STRING if t["i"] == F.B_INT else F.B_INT
            out.append(m_leaf)
    elif k == "named":
        if t["d"] in (0, 1) and len(names) >= 2 and names[0] == names[1]:
            def m_named():
                t["d"] = 1 - t["d"]
            out.append(m_named)
    elif k == "func":
        if t["ps"] and t["ps"][-1]["k"] == "slice":
            def m_var():
                t["v"] = not t["v"]
            out.append(m_var)
    elif k == "struct":
        fs = t["fs"]

        def m_tag():
            f = r.choice(fs)
            f["tag"] = r.choice([x for x in TAGS if x != f["tag"]])
        out.append(m_tag)
        togg = []
        for f in fs:
            b = f["t"] if f["t"]["k"] == "named" else (f["t"]["e"] if (f["t"]["k"] == "ptr" and f["t"]["e"]["k"] == "named") else None)
            if b is not None and names[b["d"]] == f["name"]:
                togg.append(f)
        if togg:
            def m_emb():
                f = r.choice(togg)
                f["emb"] = not f["emb"]
            out.append(m_emb)
        if any(not f["exp"] for f in fs):
            def m_pkg():
                t["pkg"] = F.QPKG if t["pkg"] == "main" else "main"
            out.append(m_pkg)
        if len(fs) >= 2:
            def m_swap():
                i, j = r.sample(range(len(fs)), 2)
                fs[i], fs[j] = fs[j], fs[i]
            out.append(m_swap)
    elif k == "iface":
        un = [m for m in t["ms"] if m["pkg"] != ""]
        if un:
            def m_mpkg():
                m = r.choice(un)
                m["pkg"] = F.QPKG if m["pkg"] == "main" else "main"
                t["ms"].sort(key=F.mid)
            out.append(m_mpkg)
    return out


def _mutate(r, t, names):
    """copy of t with ONE small mutation, preferably deep inside; None when nothing applies"""
    for _ in range(20):
        c = _cp(t)
        nodes = []
        _walk(c, 0, nodes)
        cands = [(n, d) for (n, d) in nodes if _muts(r, n, names)]
        if not cands: return None
        deep = [x for x in cands if x[1] >= 2]
        n, _d = r.choice(deep if (deep and r.random() < 0.8) else cands)
        r.choice(_muts(r, n, names))()
        if not F.ident(c, t):
            return c
    return None


def gen_deep_terms(r, quick=True):
    under = lambda: F.struct([F.field("x", F.basic(F.B_INT))], "main")
    decls = [_decl("L", under(), local=True, fn="loc0"), _decl("L", under(), local=True, fn="loc1")]
    if r.random() < 0.6:
        decls.append(_decl("T", under()))
    names = [d["name"] for d in decls]
    U = []
    nbase = r.randint(14, 18)
    while len(U) < nbase:
        t = _gen(r, names, r.randint(4, 7))
        if 4 <= max_depth(t) <= 7:
            U.append(t)
    groups = []
    chosen = sorted(r.sample(range(nbase), (nbase + r.choice([0, 1])) // 2))
    for i in chosen:
        g = [i]
        U.append(_cp(U[i])); g.append(len(U) - 1)                    # (a) exact copy
        m = _mutate(r, U[i], names)
        if m is not None:
            U.append(m); g.append(len(U) - 1)                        # (b) one small mutation
            if r.random() < 0.6:
                U.append(_cp(m)); g.append(len(U) - 1)               # an exact copy of the near copy
        groups.append(g)
    n = len(U)
    if n <= 30:
        pairs = [(i, j) for i in range(n) for j in range(i, n)]
    else:
        want = 400 if quick else 800
        must = set((i, i) for i in range(n))
        for g in groups:
            for a in g:
                for b in g:
                    if a < b: must.add((a, b))
        rest = [(i, j) for i in range(n) for j in range(i + 1, n) if (i, j) not in must]
        extra = r.sample(rest, max(0, min(len(rest), want - len(must))))
        pairs = sorted(must | set(extra))
    return dict(decls=decls, univ=U, probes=[["ident", i, j] for (i, j) in pairs])


# ------------------------------------------------------------------ large embedding graphs

def gen_graph(r, quick=True):
    n = r.randint(9, 14)
    shape = r.choice(["chain", "fan", "dag", "deepdiamond"])
    edges = [[] for _ in range(n)]                 # edges[i] = list of (j, byptr), j < i, each j at most once
    bp = lambda: r.random() < 0.4
    if shape == "chain":
        for i in range(1, n): edges[i].append((i - 1, bp()))
    elif shape == "fan":
        for i in range(1, n - 1):
            if r.random() < 0.3: edges[i].append((r.randrange(i), bp()))
        for j in sorted(r.sample(range(n - 1), r.randint(n // 2, n - 1))):
            edges[n - 1].append((j, bp()))
    elif shape == "dag":
        for i in range(1, n):
            for j in sorted(r.sample(range(i), min(i, r.randint(0, 3)))):
                edges[i].append((j, bp()))
    else:
        for i in range(1, n): edges[i].append((i - 1, bp()))
        for _ in range(r.randint(2, 5)):
            i = r.randint(2, n - 1)
            j = r.randrange(i - 1)
            if all(j != x for x, _ in edges[i]):
                edges[i].append((j, bp()))
    decls = []
    for i in range(n):
        fs = [F.field("G%d" % j, F.ptr(F.named(j)) if p else F.named(j), emb=True) for (j, p) in edges[i]]
        if r.random() < 0.4:
            fs.append(F.field("x", F.basic(F.B_INT)))
        r.shuffle(fs)
        ms = [dict(name=nm, pkg="", sig=_cp(F.SIGS[1] if r.random() < 0.2 else F.SIGS[0]), ptr=r.random() < 0.35)
              for nm in sorted(r.sample(["M", "N", "P"], r.choice([0, 1, 1, 2])))]
        decls.append(_decl("G%d" % i, F.struct(fs, "main"), ms))
    U = []
    for i in range(n - 4, n):
        U.append(F.named(i)); U.append(F.ptr(F.named(i)))
    nconc = len(U)
    s0 = lambda: _cp(F.SIGS[0])
    U.append(F.iface([F.imeth("M", s0())]))
    U.append(F.iface([F.imeth("M", s0()), F.imeth("N", s0())]))
    U.append(F.iface([F.imeth("N", s0()), F.imeth("P", s0())]))
    probes = [["mset", i] for i in range(nconc)]
    for i in range(nconc):
        for j in range(nconc, len(U)):
            probes.append(["assert", i, j])
    r.shuffle(probes)
    return dict(decls=decls, univ=U, probes=probes, shape=shape)
