"""C08 helpers: defer-program AST (same shape as coq/Model/C08_Panic.v), generator, Go printer, Coq printer,
trace parser; Go sources of the fixed palette / evaluation-order programs and the table-driven guard program."""
import re

# ------------------------------------------------------------------ palette of panicking operations
# kind -> (go statement, message prefix after stripping "runtime error: ", class id used by the model comparison)
PALETTE = {
    0: ("_ = gs[gi]", "index out of range", 0),
    1: ("_ = gs[gi:]", "slice bounds out of range", 1),
    2: ("gm[\"a\"] = 1", "assignment to entry in nil map", 2),
    3: ("_ = gp.v", "invalid memory address or nil pointer dereference", 3),
    4: ("gf()", "invalid memory address or nil pointer dereference", 3),
    5: ("_ = gi / gz", "integer divide by zero", 5),
    6: ("_ = ge.(string)", "interface conversion:", 6),
    7: ("_ = gu == gu", "comparing uncomparable type", 7),
    8: ("_ = make([]int, gneg)", "makeslice: len out of range", 8),
    9: ("_ = make([]int, gbig)", "makeslice: len out of range", 8),
    10: ("_ = (*[4]int)(gs)", "cannot convert slice with length", 10),
    12: ("close(gcc)", "close of closed channel", 12),
    13: ("gcc <- 1", "send on closed channel", 13),
    14: ("select {\ncase gcc <- 1:\ndefault:\n}", "send on closed channel", 13),
    15: ("_ = gub == gub", "comparing uncomparable type", 7),
}
KINDS = sorted(PALETTE)
NONBLOCKING_KINDS = [k for k in KINDS if k not in (13, 14)]      # a channel send makes the function blocking


def msg_class(msg):
    m = msg[len("runtime error: "):] if msg.startswith("runtime error: ") else msg
    for k in KINDS:
        if m.startswith(PALETTE[k][1]):
            return PALETTE[k][2]
    return None


GLOBALS = '''
type rtErr interface{ RuntimeError() }
type pt struct{ v int }

var (
	gs        = []int{1, 2, 3}
	gi        = 5
	gz        = 0
	gm        map[string]int
	gp        *pt
	gf        func()
	ge        interface{} = 1
	gu        interface{} = []int{1}
	gub       interface{} = struct {
		_ []byte
		x int
	}{x: 1}
	gneg            = -1
	gbig      int64 = 1 << 62
	gcc       chan int
	blk       = func() {}
	req       = make(chan bool)
	ack       = make(chan bool)
)
'''

# ------------------------------------------------------------------ AST
# stmt: ("trace", t) ("tracex",) ("setx", n) ("setr", n) ("recover",) ("call", f) ("callclo", body)
#       ("defer", f) ("deferclo", body) ("panic", ("int", n) | ("rt", k)) ("return",) ("goexit",)


def gen_program(r, opts):
    """opts: goexit (bool), kinds (list of allowed rt kinds), calm (float: bias against panics in deferred closures)"""
    nfun = r.choice([1, 1, 2, 2, 3, 4, 5])
    tcount = [0]

    def body(fi, depth, in_deferred, budget):
        n = r.choice([1, 2, 2, 3, 3, 4, 5, 6]) if depth == 0 else r.choice([1, 1, 2, 2, 3, 4])
        out, ndef = [], 0
        for _ in range(n):
            if budget[0] <= 0:
                break
            budget[0] -= 1
            w = [("trace", 3.0), ("tracex", 0.8), ("setx", 0.8), ("setr", 1.5), ("recover", 2.5 if in_deferred else 0.8),
                 ("call", 1.5 if fi + 1 < nfun else 0), ("callclo", 1.2 if depth < 5 else 0),
                 ("defer", 1.0 if (fi + 1 < nfun and ndef < 4) else 0), ("deferclo", 3.0 if (depth < 5 and ndef < 4) else 0),
                 ("panic", (2.0 * (opts["calm"] if in_deferred else 1.0))), ("return", 0.4),
                 ("goexit", 0.5 if opts["goexit"] else 0),
                 ("block", (opts.get("block", 0.0) * (2.0 if in_deferred else 1.0)))]
            tot = sum(x for _, x in w)
            u, acc, kind = r.random() * tot, 0.0, "trace"
            for k, x in w:
                acc += x
                if u < acc:
                    kind = k
                    break
            if kind == "trace":
                tcount[0] += 1
                out.append(("trace", tcount[0]))
            elif kind == "tracex":
                out.append(("tracex",))
            elif kind == "setx":
                out.append(("setx", r.randint(1, 9)))
            elif kind == "setr":
                out.append(("setr", r.randint(10, 19)))
            elif kind == "recover":
                out.append(("recover",))
            elif kind == "call":
                out.append(("call", r.randint(fi + 1, nfun - 1)))
            elif kind == "callclo":
                out.append(("callclo", body(fi, depth + 1, False, budget)))
            elif kind == "defer":
                ndef += 1
                out.append(("defer", r.randint(fi + 1, nfun - 1)))
            elif kind == "deferclo":
                ndef += 1
                out.append(("deferclo", body(fi, depth + 1, True, budget)))
            elif kind == "panic":
                if r.random() < 0.5 or not opts["kinds"]:
                    out.append(("panic", ("int", r.randint(1, 9))))
                else:
                    out.append(("panic", ("rt", r.choice(opts["kinds"]))))
            elif kind == "return":
                out.append(("return",))
            elif kind == "goexit":
                out.append(("goexit",))
            elif kind == "block":
                out.append(("block",))
        return out

    prog = []
    for fi in range(nfun):
        b = body(fi, 0, False, [r.choice([6, 10, 14, 20])])
        if r.random() < opts.get("unnamed", 0.35):
            # unnamed result: `return r` fixes the value; deferred closures changing r afterwards must not show
            b = [("retr",) if s_[0] == "return" else s_ for s_ in b] + [("retr",)]
        prog.append(b)
    return prog


def depth_of(body):
    d = 0
    for s in body:
        if s[0] in ("callclo", "deferclo"):
            d = max(d, 1 + depth_of(s[1]))
    return d


def count_kind(body, kind):
    n = 0
    for s in body:
        if s[0] == kind:
            n += 1
        if s[0] in ("callclo", "deferclo"):
            n += count_kind(s[1], kind)
    return n


def rt_kinds(body):
    ks = set()
    for s in body:
        if s[0] == "panic" and s[1][0] == "rt":
            ks.add(s[1][1])
        if s[0] in ("callclo", "deferclo"):
            ks |= rt_kinds(s[1])
    return ks


# ------------------------------------------------------------------ printers

def go_body(body, ind, force_blocking):
    L = []
    t = "\t" * ind
    if force_blocking:
        L.append(t + "blk()")
    for s in body:
        k = s[0]
        if k == "trace":
            L.append(t + 'println("t", %d)' % s[1])
        elif k == "tracex":
            L.append(t + 'println("x", x, r)')
        elif k == "setx":
            L.append(t + "x = %d" % s[1])
        elif k == "setr":
            L.append(t + "r = %d" % s[1])
        elif k == "recover":
            L.append(t + "rec(recover())")
        elif k == "call":
            L.append(t + "x = f%d(x)" % s[1])
        elif k == "callclo":
            L.append(t + "func() {")
            L += go_body(s[1], ind + 1, force_blocking)
            L.append(t + "}()")
        elif k == "defer":
            L.append(t + "defer f%d(x)" % s[1])
        elif k == "deferclo":
            L.append(t + "defer func() {")
            L += go_body(s[1], ind + 1, force_blocking)
            L.append(t + "}()")
        elif k == "panic":
            if s[1][0] == "int":
                L.append(t + 'panic("p%d")' % s[1][1])
            else:
                L.append(t + PALETTE[s[1][1]][0])
        elif k == "return":
            L.append(t + "return")
        elif k == "goexit":
            L.append(t + "runtime.Goexit()")
        elif k == "block":
            L.append(t + "req <- true")
            L.append(t + "<-ack")
        elif k == "retr":
            L.append(t + "return r")
    return L


def go_program(prog, flavour):
    """flavour: dict(msg: bool (rec prints the message => rec is a blocking function), force_blocking: bool)"""
    L = ["package main", "", 'import "runtime"', "", "var _ = runtime.GOOS", GLOBALS]
    if flavour["msg"]:
        L.append('''func rec(v interface{}) {
	if v == nil {
		println("rec nil")
		return
	}
	if s, ok := v.(string); ok {
		println("rec str", s)
		return
	}
	e, isErr := v.(error)
	_, isRt := v.(rtErr)
	if isErr {
		println("rec rt", isRt, e.Error())
		return
	}
	println("rec other")
}
''')
    else:
        L.append('''func rec(v interface{}) {
	if v == nil {
		println("rec nil")
		return
	}
	if s, ok := v.(string); ok {
		println("rec str", s)
		return
	}
	_, isErr := v.(error)
	_, isRt := v.(rtErr)
	if isErr {
		println("rec rt", isRt)
		return
	}
	println("rec other")
}
''')
    for i, b in enumerate(prog):
        if is_unnamed(b):
            L.append("func f%d(a int) int {" % i)
            L.append("\tx := a")
            L.append("\tr := 0")
            L.append("\t_, _ = x, r")
            L += go_body(b, 1, flavour["force_blocking"])
        else:
            L.append("func f%d(a int) (r int) {" % i)
            L.append("\tx := a")
            L.append("\t_ = x")
            L += go_body(b, 1, flavour["force_blocking"])
            L.append("\treturn")
        L.append("}")
        L.append("")
    L.append('''func main() {
	defer println("main deferred")
	gcc = make(chan int)
	close(gcc)
	done := make(chan bool, 1)
	go func() { // partner of the `block` statements: every request really suspends the requester
		for {
			<-req
			ack <- true
		}
	}()
	go func() {
		defer func() { done <- true }()
		x := f0(0)
		println("x", x, 0)
	}()
	<-done
	runtime.Gosched()
	println("main done")
}
''')
    return "\n".join(L)


def is_unnamed(body):
    return any(s_[0] == "retr" for s_ in body)


def coq_pval(v):
    return "(PInt %d)" % v[1] if v[0] == "int" else "(PRt %d%%N)" % v[1]


def coq_body(body):
    out = []
    for s in body:
        k = s[0]
        if k == "trace":
            out.append("STrace %d" % s[1])
        elif k == "tracex":
            out.append("STraceX")
        elif k == "setx":
            out.append("SSetX %d" % s[1])
        elif k == "setr":
            out.append("SSetR %d" % s[1])
        elif k == "recover":
            out.append("SRecover")
        elif k == "call":
            out.append("SCall %d%%nat" % s[1])
        elif k == "callclo":
            out.append("SCallClo %s" % coq_body(s[1]))
        elif k == "defer":
            out.append("SDefer %d%%nat" % s[1])
        elif k == "deferclo":
            out.append("SDeferClo %s" % coq_body(s[1]))
        elif k == "panic":
            out.append("SPanic %s" % coq_pval(s[1]))
        elif k == "return":
            out.append("SReturn")
        elif k == "goexit":
            out.append("SGoexit")
        elif k == "block":
            out.append("SBlock")
        elif k == "retr":
            out.append("SRetR")
    return "[" + "; ".join(out) + "]"


def coq_program(prog):
    return "[" + "; ".join(coq_body(b) for b in prog) + "]"


# ------------------------------------------------------------------ observation parsing

def parse_run(trace_text, err_text, rc, single_kind, who):
    """-> (events, final, problems).  events: list of tuples; final: ("normal",) | ("fatal", pval) | ("crash",)
    trace_text: the stream that carries println output; err_text: the stream with the fatal message."""
    ev, problems = [], []
    done = False
    for line in trace_text.split("\n"):
        line = line.rstrip("\r")
        if not line.strip():
            continue
        w = line.split(" ")
        isint = lambda t: re.fullmatch(r"-?\d+", t) is not None
        if w[0] == "t" and len(w) == 2 and isint(w[1]):
            ev.append(("trace", int(w[1])))
        elif w[0] == "x" and len(w) == 3 and isint(w[1]) and isint(w[2]):
            ev.append(("tracex", int(w[1]), int(w[2])))
        elif w[0] in ("t", "x"):
            ev.append(("garbage", line))          # e.g. `x undefined 0`: a value that is not an integer
            problems.append(("garbled-value", line))
        elif line == "rec nil":
            ev.append(("rec", None))
        elif w[:2] == ["rec", "str"] and re.fullmatch(r"p\d+", w[2] if len(w) > 2 else ""):
            ev.append(("rec", ("int", int(w[2][1:]))))
        elif w[:2] == ["rec", "rt"]:
            if w[2] != "true":
                problems.append(("runtime-error-not-runtime.Error", line))
            if len(w) > 3:
                c = msg_class(" ".join(w[3:]))
                if c is None:
                    problems.append(("unknown-runtime-error-message", line))
                    c = 99
                ev.append(("rec", ("rt", c)))
            else:
                ev.append(("rec", ("rt", single_kind if single_kind is not None else 99)))
        elif line == "main done":
            done = True
        elif line == "main deferred":
            pass
        elif who == "go" and (line.startswith("panic:") or line.startswith("\tpanic:") or line.startswith("goroutine ") or
                              line.startswith("main.") or line.startswith("\t") or line.startswith("exit status") or
                              line.startswith("created by") or line.startswith("[signal") or line.startswith("runtime.") or line.startswith("panic(")):
            pass
        else:
            problems.append(("unparsed-line", line))
    if done and rc == 0:
        return ev, ("normal",), problems
    # fatal
    msg = None
    if who == "go":
        ms = re.findall(r"^\s*panic: (.*?)(?: \[recovered\])?$", err_text, re.M)
        if ms:
            msg = ms[-1]
        if msg and msg.startswith("main.") or False:
            pass
    else:
        m = re.search(r"^Error: (.*)$", err_text, re.M)
        if m:
            msg = m.group(1)
        elif re.search(r"Uncaught null|^null$|throw null", err_text, re.M) or "null" in err_text[:400]:
            return ev, ("crash",), problems
    if msg is None:
        problems.append(("no-final-status", "rc=%s stderr=%s" % (rc, err_text[-300:])))
        return ev, ("crash",), problems
    # go prints error values as e.g. `panic: runtime error: ...` and strings as `panic: p3`; goexit'd etc.
    msg = re.sub(r"^main\.\w+\{.*$", msg, msg)
    mm = re.fullmatch(r'"?p(\d+)"?', msg.strip())
    if mm:
        return ev, ("fatal", ("int", int(mm.group(1)))), problems
    c = msg_class(msg.strip())
    if c is None:
        problems.append(("unknown-fatal-message", msg))
        c = 99
    return ev, ("fatal", ("rt", c)), problems


def coq_event(e):
    if e[0] == "trace":
        return "ETrace %d" % e[1]
    if e[0] == "tracex":
        return "ETraceX (%d) (%d)" % (e[1], e[2])
    if e[0] == "rec":
        return "ERec None" if e[1] is None else "ERec (Some %s)" % coq_pval(e[1])
    raise ValueError(e)


def coq_final(f):
    return {"normal": "FNormal", "crash": "FCrash"}.get(f[0]) or "FFatal %s" % coq_pval(f[1])


def coq_obs(ev, fin):
    return "([" + "; ".join(coq_event(e) for e in ev) + "], " + coq_final(fin) + ")"


# ------------------------------------------------------------------ fixed programs

PALETTE_PROGRAM = '''package main

import "runtime"

type rtErr interface{ RuntimeError() }
type pt struct{ v int }
type myErr struct{ s string }

func (e *myErr) Error() string { return e.s }

// structs whose ONLY uncomparable field is blank (the `_ [0]func()` / `_ []byte` idiom)
type blankSlice struct {
	_ []byte
	x int
}
type blankFuncs struct {
	_ [0]func()
	x int
}

type stringer interface{ String() string }
type withM struct{}

func (withM) M() {}

var (
	gs         = []int{1, 2, 3}
	gi         = 5
	gneg1      = -1
	gz         = 0
	gz8  int8  = 0
	gzu  uint  = 0
	gz64 int64 = 0
	gzu64 uint64 = 0
	g7   int64 = 7
	g1         = 1
	gk1  int64 = 1
	gku1 uint64 = 1
	gm   map[string]int
	gp   *pt
	gpi  *int
	gpa  *[3]int
	gf   func()
	ge   interface{} = 1
	genil interface{}
	gu   interface{} = []int{1}
	gum  interface{} = map[int]int{}
	gus  interface{} = struct{ f []int }{}
	gub1 interface{} = blankSlice{x: 1}
	gub2 interface{} = blankFuncs{x: 1}
	gub3 interface{} = [2]blankSlice{}
	gmk        = map[interface{}]int{}
	gfull chan int
	gneg       = -1
	gbig int64 = 1 << 62
	gnc  chan int
	gcc  chan int
	garr [3]int
	gstr = "abc"
	gerr = &myErr{"custom"}
)

func try(name string, f func()) {
	defer func() {
		v := recover()
		if v == nil {
			println(name, "no-panic")
			return
		}
		e, isErr := v.(error)
		_, isRt := v.(rtErr)
		_, isRE := v.(runtime.Error)
		msg := ""
		if isErr {
			msg = e.Error()
		}
		println(name, "panic", isErr, isRt, isRE, msg)
	}()
	f()
}

// tryv: f must either panic (reported like try) or return want
func tryv(name string, want int, f func() int) {
	defer func() {
		v := recover()
		if v == nil {
			return
		}
		e, isErr := v.(error)
		_, isRt := v.(rtErr)
		_, isRE := v.(runtime.Error)
		msg := ""
		if isErr {
			msg = e.Error()
		}
		println(name, "panic", isErr, isRt, isRE, msg)
	}()
	println(name, "value", f() == want)
}

func value(name string, p interface{}, same func(v interface{}) bool) {
	defer func() {
		v := recover()
		println(name, "value-unchanged", same(v))
	}()
	panic(p)
}

func main() {
	gcc = make(chan int)
	close(gcc)
	gfull = make(chan int, 1)
	gfull <- 1
	close(gfull)
	try("index-slice", func() { _ = gs[gi] })
	try("index-slice-neg", func() { _ = gs[gneg1] })
	try("index-array", func() { _ = garr[gi] })
	try("index-string", func() { _ = gstr[gi] })
	try("index-store", func() { gs[gi] = 1 })
	try("slice-low", func() { _ = gs[gi:] })
	try("slice-high", func() { _ = gs[:gi] })
	try("slice-3", func() { _ = gs[1:2:gi] })
	try("slice-inverted", func() { _ = gs[2:gi-4] })
	try("slice-array", func() { _ = garr[:gi] })
	try("slice-string-high", func() { _ = gstr[:gi] })
	try("slice-string-lowhigh", func() { _ = gstr[2:gi-4] })
	try("nilmap-store", func() { gm["a"] = 1 })
	try("nilmap-incr", func() { gm["a"]++ })
	try("nilptr-field-read", func() { _ = gp.v })
	try("nilptr-field-write", func() { gp.v = 1 })
	try("nilptr-deref-int", func() { _ = *gpi })
	try("nilptr-store-int", func() { *gpi = 1 })
	try("nilptr-array-index", func() { _ = gpa[1] })
	try("nilfunc-call", func() { gf() })
	try("div-int", func() { _ = gi / gz })
	try("rem-int", func() { _ = gi % gz })
	try("div-int8", func() { _ = int8(gi) / gz8 })
	try("div-uint", func() { _ = uint(gi) / gzu })
	try("rem-uint", func() { _ = uint(gi) % gzu })
	try("div-int64", func() { _ = g7 / gz64 })
	try("rem-int64", func() { _ = g7 % gz64 })
	try("div-uint64", func() { _ = uint64(g7) / gzu64 })
	try("assert-concrete", func() { _ = ge.(string) })
	try("assert-iface", func() { _ = ge.(stringer) })
	try("assert-nil", func() { _ = genil.(int) })
	try("compare-slice", func() { _ = gu == gu })
	try("compare-map", func() { _ = gum == gum })
	try("compare-struct-with-slice", func() { _ = gus == gus })
	try("compare-struct-blank-slice", func() { _ = gub1 == gub1 })
	try("compare-struct-blank-funcarray", func() { _ = gub2 == gub2 })
	try("compare-array-of-blank-struct", func() { _ = gub3 == gub3 })
	try("mapkey-slice", func() { gmk[gu] = 1 })
	try("mapkey-struct-blank-slice", func() { gmk[gub1] = 1 })
	try("mapkey-struct-blank-funcarray-read", func() { _ = gmk[gub2] })
	try("make-slice-neg", func() { _ = make([]int, gneg) })
	try("make-slice-cap-lt-len", func() { _ = make([]int, gi, gi-1) })
	try("make-slice-big", func() { _ = make([]int, gbig) })
	try("make-chan-neg", func() { _ = make(chan int, gneg) })
	try("slice2arr-short", func() { _ = (*[4]int)(gs) })
	try("close-nil", func() { close(gnc) })
	try("close-closed", func() { close(gcc) })
	try("send-closed", func() { gcc <- 1 })
	try("send-closed-full", func() { gfull <- 1 })
	try("select-send-closed-default", func() {
		select {
		case gcc <- 1:
			println("sent")
		default:
			println("default taken")
		}
	})
	try("select-send-closed-full-default", func() {
		select {
		case gfull <- 1:
			println("sent")
		default:
			println("default taken")
		}
	})
	try("select-send-closed-nodefault", func() {
		select {
		case gcc <- 1:
			println("sent")
		}
	})
	tryv("addr-slice-var-in", 2, func() int { p := &gs[g1]; return *p })
	tryv("addr-slice-var-out", 0, func() int { p := &gs[gi]; return *p })
	tryv("addr-slice-var-neg", 0, func() int { p := &gs[gneg1]; return *p })
	tryv("addr-slice-const-in", 3, func() int { p := &gs[2]; return *p })
	tryv("addr-slice-const-out", 0, func() int { p := &gs[7]; return *p })
	tryv("addr-array-var-in", 0, func() int { p := &garr[g1]; return *p })
	tryv("addr-array-var-out", 0, func() int { p := &garr[gi]; return *p })
	tryv("addr-slice-unused-out", 0, func() int { p := &gs[gi]; _ = p; return 0 })
	tryv("addr-slice-int64-in", 2, func() int { p := &gs[gk1]; return *p })
	tryv("addr-slice-int64-out", 0, func() int { p := &gs[g7]; return *p })
	tryv("addr-slice-uint64-in", 2, func() int { p := &gs[gku1]; return *p })
	tryv("addr-array-int64-in", 0, func() int { p := &garr[gk1]; return *p })
	tryv("addr-array-int64-out", 0, func() int { p := &garr[g7]; return *p })
	value("explicit-int", 42, func(v interface{}) bool { n, ok := v.(int); return ok && n == 42 })
	value("explicit-string", "boom", func(v interface{}) bool { s, ok := v.(string); return ok && s == "boom" })
	value("explicit-error-ptr", gerr, func(v interface{}) bool { e, ok := v.(*myErr); return ok && e == gerr && e.Error() == "custom" })
	value("explicit-struct", pt{3}, func(v interface{}) bool { s, ok := v.(pt); return ok && s.v == 3 })
	value("explicit-float", 1.5, func(v interface{}) bool { f, ok := v.(float64); return ok && f == 1.5 })
	value("explicit-error-iface", error(gerr), func(v interface{}) bool { e, ok := v.(error); return ok && e == error(gerr) })
	println("end")
}
'''

# name -> message prefix expected by the Go specification / runtime (after stripping "runtime error: ")
PALETTE_EXPECT = {
    "index-slice": "index out of range", "index-slice-neg": "index out of range", "index-array": "index out of range",
    "index-string": "index out of range", "index-store": "index out of range",
    "slice-low": "slice bounds out of range", "slice-high": "slice bounds out of range", "slice-3": "slice bounds out of range",
    "slice-inverted": "slice bounds out of range", "slice-array": "slice bounds out of range",
    "slice-string-high": "slice bounds out of range", "slice-string-lowhigh": "slice bounds out of range",
    "nilmap-store": "assignment to entry in nil map", "nilmap-incr": "assignment to entry in nil map",
    "nilptr-field-read": "invalid memory address or nil pointer dereference",
    "nilptr-field-write": "invalid memory address or nil pointer dereference",
    "nilptr-deref-int": "invalid memory address or nil pointer dereference",
    "nilptr-store-int": "invalid memory address or nil pointer dereference",
    "nilptr-array-index": "invalid memory address or nil pointer dereference",
    "nilfunc-call": "invalid memory address or nil pointer dereference",
    "div-int": "integer divide by zero", "rem-int": "integer divide by zero", "div-int8": "integer divide by zero",
    "div-uint": "integer divide by zero", "rem-uint": "integer divide by zero", "div-int64": "integer divide by zero",
    "rem-int64": "integer divide by zero", "div-uint64": "integer divide by zero",
    "assert-concrete": "interface conversion:", "assert-iface": "interface conversion:", "assert-nil": "interface conversion:",
    "compare-slice": "comparing uncomparable type", "compare-map": "comparing uncomparable type",
    "compare-struct-with-slice": "comparing uncomparable type",
    "compare-struct-blank-slice": "comparing uncomparable type", "compare-struct-blank-funcarray": "comparing uncomparable type",
    "compare-array-of-blank-struct": "comparing uncomparable type",
    "mapkey-slice": "hash of unhashable type", "mapkey-struct-blank-slice": "hash of unhashable type",
    "mapkey-struct-blank-funcarray-read": "hash of unhashable type",
    "send-closed-full": "send on closed channel", "select-send-closed-default": "send on closed channel",
    "select-send-closed-full-default": "send on closed channel", "select-send-closed-nodefault": "send on closed channel",

    "make-slice-neg": "makeslice: len out of range", "make-slice-cap-lt-len": "makeslice: cap out of range",
    "make-slice-big": "makeslice: len out of range", "make-chan-neg": "makechan: size out of range",
    "slice2arr-short": "cannot convert slice with length",
    "close-nil": "close of nil channel", "close-closed": "close of closed channel", "send-closed": "send on closed channel",
}
# &s[i] / &arr[i]: name -> "panic" (index out of range) | "value"
PALETTE_ADDR = {
    "addr-slice-var-in": "value", "addr-slice-var-out": "panic", "addr-slice-var-neg": "panic", "addr-slice-const-in": "value",
    "addr-slice-const-out": "panic", "addr-array-var-in": "value", "addr-array-var-out": "panic", "addr-slice-unused-out": "panic",
    "addr-slice-int64-in": "value", "addr-slice-int64-out": "panic", "addr-slice-uint64-in": "value",
    "addr-array-int64-in": "value", "addr-array-int64-out": "panic",
}
PALETTE_VALUES = ["explicit-int", "explicit-string", "explicit-error-ptr", "explicit-struct", "explicit-float", "explicit-error-iface"]

ORDER_PROGRAM = '''package main

type pt struct{ v int }

var (
	gs = []int{1, 2, 3}
	gm map[string]int
	gp *pt
	gf func()
)

func tr(s string, v int) int { println("eval", s); return v }
func trs(s string) []int  { println("eval", s); return gs }
func trk(s string) string { println("eval", s); return s }
func sink(a, b int)       { println("sink", a, b) }

func try(name string, f func()) {
	defer func() {
		v := recover()
		println(name, "recovered", v != nil)
	}()
	println(name, "begin")
	f()
	println(name, "end")
}

func main() {
	try("index-store", func() { trs("a")[tr("i", 5)] = tr("v", 1) })
	try("nilmap-store", func() { gm[trk("k")] = tr("v", 1) })
	try("div", func() { _ = tr("x", 1) / tr("y", 0) })
	try("nilptr-store", func() { gp.v = tr("v", 1) })
	try("before-after", func() { println("before"); _ = gs[tr("i", 7)]; println("after") })
	try("defer-args-at-defer", func() {
		x := 1
		defer sink(tr("arg", x), x)
		x = 2
		println("body", x)
	})
	try("defer-arg-panics-at-defer", func() {
		defer println("earlier deferred")
		defer sink(gs[tr("i", 9)], 0)
		println("not reached")
	})
	try("defer-nil-func", func() {
		defer println("earlier deferred")
		defer gf()
		println("body")
	})
	try("call-arg-panic", func() { sink(tr("a", 1), gs[tr("i", 9)]) })
	try("lifo", func() {
		for i := 0; i < 4; i++ {
			defer println("deferred", i)
		}
	})
	try("method-value-nil", func() {
		var p *pt
		defer func() { println("inner", recover() != nil) }()
		_ = p.v
	})
	println("end")
}
'''
