"""C05 phase 4 — generator of ABSTRACT programs for the recorder correspondence.

One abstract program is rendered twice: as Go source (compiled by the real compiler through `h_c05 link`, which dumps the DCE
names and dependencies of every Decl) and as a Coq term of type Model.C05_Record.prog (the mirrored recorder computes names and
dependencies).  The programs are never run: bodies are `for {}` so that only the generated mentions are translated.

Types are tuples: ('b',name) ('n',name,[targs]) ('p',t) ('s',t) ('m',k,v) ('f',[params],variadic,[results]) ('tp',i).
"""

PKG = "verifprog"
ALIAS = {"byte": "uint8", "rune": "int32", "uint8": "byte", "int32": "rune"}
BASIC_COQ = {"int": "BInt", "string": "BString", "bool": "BBool", "float64": "BFloat64", "uint8": "BUint8", "byte": "BByte",
             "int32": "BInt32", "rune": "BRune"}


def go_type(t, tp=("P0", "P1")):
    k = t[0]
    if k == "b":
        return t[1]
    if k == "n":
        return t[1] + ("[" + ", ".join(go_type(a, tp) for a in t[2]) + "]" if t[2] else "")
    if k == "p":
        return "*" + go_type(t[1], tp)
    if k == "s":
        return "[]" + go_type(t[1], tp)
    if k == "m":
        return "map[" + go_type(t[1], tp) + "]" + go_type(t[2], tp)
    if k == "f":
        return "func" + go_sig(t[1], t[2], t[3], tp)
    if k == "tp":
        return tp[t[1]]
    raise ValueError(t)


def go_sig(ps, va, rs, tp=("P0", "P1"), names=False):
    parts = []
    for i, p in enumerate(ps):
        s = ("..." + go_type(p[1], tp)) if (va and i == len(ps) - 1) else go_type(p, tp)
        parts.append(("a%d " % i if names else "") + s)
    res = ""
    if len(rs) == 1:
        res = " " + go_type(rs[0], tp)
    elif len(rs) > 1:
        res = " (" + ", ".join(go_type(x, tp) for x in rs) + ")"
    return "(" + ", ".join(parts) + ")" + res


def coq_str(s):
    return '"' + s + '"'


def coq_tl(ts):
    return "(TL [" + "; ".join(coq_type(x) for x in ts) + "])"


def coq_type(t):
    k = t[0]
    if k == "b":
        return "(TBasic %s)" % BASIC_COQ[t[1]]
    if k == "n":
        return "(TNamed %s %s %s)" % (coq_str(PKG), coq_str(t[1]), coq_tl(t[2]))
    if k == "p":
        return "(TPtr %s)" % coq_type(t[1])
    if k == "s":
        return "(TSlice %s)" % coq_type(t[1])
    if k == "m":
        return "(TMap %s %s)" % (coq_type(t[1]), coq_type(t[2]))
    if k == "f":
        return "(TFunc %s %s %s)" % (coq_tl(t[1]), "true" if t[2] else "false", coq_tl(t[3]))
    if k == "tp":
        return "(TParam %d)" % t[1]
    raise ValueError(t)


def coq_sig(s):
    return "(Sg %s %s %s)" % (coq_tl(s[0]), "true" if s[1] else "false", coq_tl(s[2]))


def subst(ta, t):
    k = t[0]
    if k == "b":
        return t
    if k == "n":
        return ("n", t[1], [subst(ta, a) for a in t[2]])
    if k in ("p", "s"):
        return (k, subst(ta, t[1]))
    if k == "m":
        return ("m", subst(ta, t[1]), subst(ta, t[2]))
    if k == "f":
        return ("f", [subst(ta, a) for a in t[1]], t[2], [subst(ta, a) for a in t[3]])
    if k == "tp":
        return ta[t[1]] if t[1] < len(ta) else t
    raise ValueError(t)


def subst_sig(ta, s):
    return ([subst(ta, a) for a in s[0]], s[1], [subst(ta, a) for a in s[2]])


def respell(r, t):
    """the same type with byte/uint8, rune/int32 spelled the other way at random places"""
    k = t[0]
    if k == "b":
        return ("b", ALIAS[t[1]]) if t[1] in ALIAS and r.random() < 0.5 else t
    if k == "n":
        return t
    if k in ("p", "s"):
        return (k, respell(r, t[1]))
    if k == "m":
        return ("m", respell(r, t[1]), respell(r, t[2]))
    if k == "f":
        return ("f", [respell(r, a) for a in t[1]], t[2], [respell(r, a) for a in t[3]])
    return t


def coq_ref(x):
    k = x[0]
    if k == "func":
        return "RFunc %s %s %s" % (coq_str(PKG), coq_str(x[1]), coq_tl(x[2]))
    if k == "var":
        return "RVar %s %s" % (coq_str(PKG), coq_str(x[1]))
    if k == "type":
        return "RType %s" % coq_type(x[1])
    if k == "meth":
        return "RMeth %s %s %s %s %s" % (coq_type(x[1]), "true" if x[4] else "false", coq_str(PKG), coq_str(x[2]), coq_sig(x[3]))
    if k == "methexpr":
        return "RMethExpr %s %s %s %s" % (coq_type(x[1]), coq_str(PKG), coq_str(x[2]), coq_sig(x[3]))
    if k in ("imeth", "imethexpr"):
        i = "(Some (%s, %s))" % (coq_str(PKG), coq_str(x[1])) if x[1] else "None"
        return "%s %s %s %s %s" % ("RIMeth" if k == "imeth" else "RIMethExpr", i, coq_str(PKG), coq_str(x[2]), coq_sig(x[3]))
    raise ValueError(x)


class Gen:
    def __init__(self, r, alias_rate=0.15):
        self.r = r
        self.alias_rate = alias_rate
        self.structs = []      # dict(name, embed, fields=[(fname, type)], methods=[(mname, ptr, sig)])
        self.generics = []     # dict(name, ntp, fields, methods)
        self.ifaces = []       # dict(name, methods=[(mname, sig)])
        self.gfuncs = []       # dict(name, ntp)
        self.vars = []         # dict(name, init (go), refs)
        self.funcs = []        # dict(name, params, stmts=[(go, refs)])
        self.insts = {}        # generic type name -> list of targs lists
        self.finsts = {}       # generic func name -> list of targs lists

    # ---- types
    def ground(self, depth=0, named=True):
        r = self.r
        c = r.random()
        if c < 0.35 or depth >= 2:
            return ("b", r.choice(["int", "string", "bool", "float64", "uint8", "int32"] + (["byte", "rune"] if r.random() < self.alias_rate else [])))
        if c < 0.6 and named and self.structs:
            return ("n", r.choice(self.structs)["name"], [])
        if c < 0.68 and named and self.ifaces:
            return ("n", r.choice(self.ifaces)["name"], [])
        if c < 0.76:
            return ("p", self.ground(depth + 1, named))
        if c < 0.86:
            return ("s", self.ground(depth + 1, named))
        if c < 0.92:
            return ("m", ("b", r.choice(["int", "string"])), self.ground(depth + 1, named))
        if c < 0.96 and named and self.generics and depth == 0:
            return self.inst_type()
        return ("f", [self.ground(depth + 1, named) for _ in range(r.randint(0, 2))], False, [self.ground(depth + 1, named) for _ in range(r.randint(0, 2))])

    def targ(self):
        r = self.r
        c = r.random()
        if c < 0.5:
            return ("b", r.choice(["int", "string", "bool", "uint8"]))
        if c < 0.75 and self.structs:
            return ("n", r.choice(self.structs)["name"], [])
        if c < 0.9:
            return ("s", ("b", r.choice(["int", "string"])))
        return ("p", ("b", "int"))

    def inst_type(self, g=None):
        g = g or self.r.choice(self.generics)
        known = self.insts.setdefault(g["name"], [])
        if known and self.r.random() < 0.6:
            ta = self.r.choice(known)
        else:
            ta = [self.targ() for _ in range(g["ntp"])]
            if ta not in known:
                known.append(ta)
        return ("n", g["name"], ta)

    def sig(self, generic_ntp=0):
        r = self.r
        def t():
            if generic_ntp and r.random() < 0.6:
                x = ("tp", r.randrange(generic_ntp))
                return x if r.random() < 0.6 else ("s", x)
            return self.ground(1)
        ps = [t() for _ in range(r.randint(0, 2))]
        va = False
        if ps and r.random() < 0.2:
            va = True
            ps[-1] = ("s", ps[-1])
        return (ps, va, [t() for _ in range(r.choice([0, 1, 1, 2]))])

    # ---- declarations
    def build(self):
        r = self.r
        for i in range(r.randint(2, 4)):
            self.structs.append(dict(name="S%d" % i, embed=None, fields=[], methods=[]))
        for i in range(r.randint(1, 2)):
            self.generics.append(dict(name="G%d" % i, ntp=r.randint(1, 2), fields=[], methods=[]))
        for i in range(r.randint(1, 3)):
            self.ifaces.append(dict(name="I%d" % i, methods=[]))
        for i in range(r.randint(1, 2)):
            self.gfuncs.append(dict(name="GF%d" % i, ntp=r.randint(1, 2)))
        # method table for non-generic types: a name has ONE signature (up to spelling)
        names = ["m0", "m1", "M2", "M3", "w4", "W5"]
        table = {n: self.sig() for n in names}
        for i, s in enumerate(self.structs):
            if i > 0 and r.random() < 0.5:
                s["embed"] = self.structs[r.randrange(i)]["name"]
            for j in range(r.randint(0, 2)):
                # fields: earlier structs by value, anything behind a pointer / slice / map
                c = r.random()
                if c < 0.3 and i > 0:
                    t = ("n", self.structs[r.randrange(i)]["name"], [])
                elif c < 0.5:
                    snap = {k: list(v) for k, v in self.insts.items()}
                    t = self.inst_type()
                    if not all(a[0] != "n" or int(a[1][1:]) < i for a in t[2]):
                        self.insts = snap
                        t = ("b", "int")
                else:
                    t = r.choice([("p", self.ground(1)), ("s", self.ground(1)), ("m", ("b", "string"), self.ground(1)), self.ground(2, named=False)])
                s["fields"].append(("f%d" % j, t))
            for n in r.sample(names, r.randint(0, 3)):
                sg = table[n]
                if r.random() < self.alias_rate:
                    sg = ([respell(r, a) for a in sg[0]], sg[1], [respell(r, a) for a in sg[2]])
                s["methods"].append((n, r.random() < 0.5, sg))
        for g in self.generics:
            for j in range(r.randint(1, 2)):
                x = ("tp", r.randrange(g["ntp"]))
                g["fields"].append(("f%d" % j, r.choice([x, ("s", x), ("b", "int"), ("m", ("b", "string"), x)])))
            for n in r.sample(["get", "Put", "each", "Len"], r.randint(1, 3)):
                g["methods"].append((n, r.random() < 0.5, self.sig(g["ntp"])))
        for it in self.ifaces:
            for n in r.sample(names, r.randint(1, 2)):
                sg = table[n]
                if r.random() < self.alias_rate:
                    sg = ([respell(r, a) for a in sg[0]], sg[1], [respell(r, a) for a in sg[2]])
                it["methods"].append((n, sg))
        forced = []
        for g in self.generics:          # every generic type has an instance
            if not self.insts.get(g["name"]):
                forced.append(("p", self.inst_type(g)))
        nf = r.randint(2, 5)
        fnames = ["f%d" % i for i in range(nf)]
        for i in range(r.randint(0, 3)):
            c = r.random()
            if c < 0.4:
                self.vars.append(dict(name="v%d" % i, init="%d" % i, refs=[]))
            elif c < 0.7:
                t = self.ground(0)
                self.vars.append(dict(name="v%d" % i, init="(*%s)(nil)" % go_type(t), refs=[("type", ("p", t))]))
            else:
                f = fnames[-1]          # the last function mentions neither variables nor functions: no initialisation cycle
                self.vars.append(dict(name="v%d" % i, init=f, refs=[("func", f, [])]))
        for fn in fnames:
            params = []
            for j in range(r.randint(0, 3)):
                c = r.random()
                if c < 0.45:
                    t = ("n", r.choice(self.structs)["name"], [])
                    t = t if r.random() < 0.6 else ("p", t)
                elif c < 0.7:
                    t = ("n", r.choice(self.ifaces)["name"], [])
                elif c < 0.8:
                    it = r.choice(self.ifaces)
                    t = ("anon", it["methods"])
                else:
                    t = self.inst_type()
                    t = t if r.random() < 0.6 else ("p", t)
                params.append(("p%d" % j, t))
            stmts = [self.stmt(fnames, params, leaf=(fn == fnames[-1])) for _ in range(r.randint(1, 6))]
            self.funcs.append(dict(name=fn, params=params, stmts=[s for s in stmts if s]))
        for t in forced:
            self.funcs[0]["stmts"].append(("_ = (%s)(nil)" % go_type(t), [("type", t)]))
        for gf in self.gfuncs:           # every generic function has an instance
            if not self.finsts.get(gf["name"]):
                self.funcs[0]["stmts"].append(self.gfunc_stmt(gf))
        k = r.randint(1, len(fnames))
        self.main_refs = r.sample(fnames, k)

    # ---- method lookup
    def struct(self, name):
        return next(s for s in self.structs if s["name"] == name)

    def lookup(self, t):
        """methods selectable on a value of named type t: list of (mname, declaring type, instantiated signature)"""
        name, ta = t[1], t[2]
        out, seen = [], set()
        if name.startswith("G"):
            g = next(x for x in self.generics if x["name"] == name)
            return [(n, t, subst_sig(ta, sg), not ptr) for n, ptr, sg in g["methods"]]
        cur = name
        while cur:
            s = self.struct(cur)
            for n, ptr, sg in s["methods"]:
                if n not in seen:
                    seen.add(n)
                    out.append((n, ("n", cur, []), sg, not ptr))
            cur = s["embed"]
        return out

    def gfunc_stmt(self, gf=None):
        gf = gf or self.r.choice(self.gfuncs)
        known = self.finsts.setdefault(gf["name"], [])
        if known and self.r.random() < 0.5:
            ta = self.r.choice(known)
        else:
            ta = [self.targ() for _ in range(gf["ntp"])]
            if ta not in known:
                known.append(ta)
        return ("_ = %s[%s]" % (gf["name"], ", ".join(go_type(a) for a in ta)), [("func", gf["name"], ta)])

    def stmt(self, fnames, params, leaf=False):
        r = self.r
        c = r.random()
        if leaf and (c < 0.12 or 0.2 <= c < 0.28):
            c = 0.3
        if c < 0.12:
            f = r.choice(fnames)
            return ("_ = " + f, [("func", f, [])])
        if c < 0.2:
            return self.gfunc_stmt()
        if c < 0.28 and self.vars:
            v = r.choice(self.vars)["name"]
            return ("_ = " + v, [("var", v)])
        if c < 0.42:
            t = self.ground(0)
            return ("_ = (*%s)(nil)" % go_type(t), [("type", ("p", t))])
        if c < 0.75 and params:
            pn, pt = r.choice(params)
            base = pt[1] if pt[0] == "p" else pt
            if base[0] == "anon":
                n, sg = r.choice(base[1])
                return ("_ = %s.%s" % (pn, n), [("imeth", None, n, sg)])
            if base[1].startswith("I"):
                it = next(x for x in self.ifaces if x["name"] == base[1])
                n, sg = r.choice(it["methods"])
                return ("_ = %s.%s" % (pn, n), [("imeth", base[1], n, sg)])
            ms = self.lookup(base)
            if not ms:
                return None
            n, decl, sg, valrecv = r.choice(ms)
            return ("_ = %s.%s" % (pn, n), [("meth", decl, n, sg, valrecv)])
        if c < 0.88:
            # method expression on a directly declared method
            if r.random() < 0.3 and self.generics:
                t = self.inst_type()
            else:
                t = ("n", r.choice(self.structs)["name"], [])
            own = [m for m in self.lookup(t) if m[1] == t]
            if not own:
                return None
            n, decl, sg, _ = r.choice(own)
            return ("_ = (*%s).%s" % (go_type(t), n), [("methexpr", ("p", t), n, sg)])
        it = r.choice(self.ifaces)
        n, sg = r.choice(it["methods"])
        return ("_ = %s.%s" % (it["name"], n), [("imethexpr", it["name"], n, sg)])

    def zero_closure(self, fields, depth=0):
        """the types the constructor / zero value of a struct mentions: its field types and, for fields that are structs BY VALUE,
        theirs (the translator expands the zero value of a nested struct in place)"""
        out = []
        for t in fields:
            if depth > 0 and not ((t[0] == "n" and t[1][0] in "SG") or t[0] in ("p", "s")):
                continue                     # zero values 0 / false / $ifaceNil / nil func name no type; ptrType.nil, sliceType.nil and a struct do
            out.append(t)
            if t[0] == "n" and depth < 8:
                if t[1].startswith("S"):
                    s = self.struct(t[1])
                    sub = ([("n", s["embed"], [])] if s["embed"] else []) + [x for _, x in s["fields"]]
                    out += self.zero_closure(sub, depth + 1)
                elif t[1].startswith("G"):
                    g = next(x for x in self.generics if x["name"] == t[1])
                    out += self.zero_closure([subst(t[2], x) for _, x in g["fields"]], depth + 1)
        return out

    # ---- rendering
    def go(self):
        o = ["package main", ""]
        tp = lambda n: "[" + ", ".join("P%d any" % i for i in range(n)) + "]"
        tpu = lambda n: "[" + ", ".join("P%d" % i for i in range(n)) + "]"
        for s in self.structs:
            o.append("type %s struct {" % s["name"])
            if s["embed"]:
                o.append("\t" + s["embed"])
            o += ["\t%s %s" % (f, go_type(t)) for f, t in s["fields"]]
            o.append("}")
            for n, ptr, sg in s["methods"]:
                o.append("func (r %s%s) %s%s { for {} }" % ("*" if ptr else "", s["name"], n, go_sig(sg[0], sg[1], sg[2], names=True)))
        for g in self.generics:
            o.append("type %s%s struct {" % (g["name"], tp(g["ntp"])))
            o += ["\t%s %s" % (f, go_type(t)) for f, t in g["fields"]]
            o.append("}")
            for n, ptr, sg in g["methods"]:
                o.append("func (r %s%s%s) %s%s { for {} }" % ("*" if ptr else "", g["name"], tpu(g["ntp"]), n, go_sig(sg[0], sg[1], sg[2], names=True)))
        for it in self.ifaces:
            o.append("type %s interface {" % it["name"])
            o += ["\t%s%s" % (n, go_sig(sg[0], sg[1], sg[2])) for n, sg in it["methods"]]
            o.append("}")
        for gf in self.gfuncs:
            o.append("func %s%s(%s) { for {} }" % (gf["name"], tp(gf["ntp"]), ", ".join("a%d P%d" % (i, i) for i in range(gf["ntp"]))))
        for v in self.vars:
            o.append("var %s = %s" % (v["name"], v["init"]))
        for f in self.funcs:
            ps = []
            for pn, pt in f["params"]:
                if pt[0] == "anon":
                    ps.append("%s interface { %s }" % (pn, "; ".join(n + go_sig(sg[0], sg[1], sg[2]) for n, sg in pt[1])))
                else:
                    ps.append("%s %s" % (pn, go_type(pt)))
            o.append("func %s(%s) {" % (f["name"], ", ".join(ps)))
            o += ["\t" + s for s, _ in f["stmts"]]
            o.append("}")
        o.append("func main() {")
        o += ["\t_ = " + f for f in self.main_refs]
        o.append("}")
        return "\n".join(o) + "\n"

    def coq(self):
        ds = []
        def G(kind, name, targs, root, refs):
            ds.append("G (%s) %s %s %s %s [%s]" % (kind, coq_str(PKG), coq_str(name), coq_tl(targs), "true" if root else "false",
                                                   "; ".join(coq_ref(x) for x in refs)))
        for s in self.structs:
            G("KHolder 0", s["name"], [], False, [])
            fields = ([("n", s["embed"], [])] if s["embed"] else []) + [t for _, t in s["fields"]]
            G("KType %s" % coq_tl(self.zero_closure(fields)), s["name"], [], False, [])
            for n, ptr, sg in s["methods"]:
                G("KMethod %s %s" % (coq_str(n), coq_sig(sg)), s["name"], [], False, [])
        for g in self.generics:
            G("KHolder %d" % g["ntp"], g["name"], [], False, [])
            for ta in self.insts.get(g["name"], []):
                G("KType %s" % coq_tl(self.zero_closure([subst(ta, t) for _, t in g["fields"]])), g["name"], ta, False, [])
                for n, ptr, sg in g["methods"]:
                    G("KMethod %s %s" % (coq_str(n), coq_sig(sg)), g["name"], ta, False, [])
        for it in self.ifaces:
            G("KHolder 0", it["name"], [], False, [])
            G("KType %s" % coq_tl([("f", sg[0], sg[1], sg[2]) for _, sg in it["methods"]]), it["name"], [], False, [])
        for gf in self.gfuncs:
            G("KHolder %d" % gf["ntp"], gf["name"], [], False, [])
            for ta in self.finsts.get(gf["name"], []):
                G("KFunc", gf["name"], ta, False, [])
        for v in self.vars:
            G("KVar", v["name"], [], False, v["refs"])
        for f in self.funcs:
            G("KHolder 0", f["name"], [], False, [])
            G("KFunc", f["name"], [], False, [x for _, refs in f["stmts"] for x in refs])
        G("KHolder 0", "main", [], False, [])
        G("KFunc", "main", [], True, [("func", f, []) for f in self.main_refs])
        return "[ " + ";\n    ".join(ds) + " ]"


def gen(r, alias_rate=0.15):
    g = Gen(r, alias_rate)
    g.build()
    return g


def real_rdecls(dump):
    """projection of the real dump: Decls of the main package; anonymous-type Decls collapsed into their users"""
    pkg = [p for p in dump if p["path"] == PKG]
    if not pkg:
        return None
    decls = pkg[0]["decls"]
    anon = {d["obj"]: d["deps"] for d in decls if d["full_name"].startswith("anonType:")}
    def expand(deps, seen):
        out = set()
        for x in deps:
            if x in anon:
                if x not in seen:
                    out |= expand(anon[x], seen | {x})
            else:
                out.add(x)
        return out
    tags = {"typeVar": "holder", "funcVar": "holder", "type": "type", "func": "func", "var": "var"}
    out = []
    for d in decls:
        k = d["full_name"].split(":", 1)[0]
        if k in tags:
            out.append(dict(tag=tags[k], obj=d["obj"], meth=d["meth"], deps=sorted(expand(d["deps"], frozenset())), sel=bool(d["selected"]),
                            full_name=d["full_name"]))
    return out


def coq_real(rs):
    return "[ " + ";\n    ".join("R %s %s %s [%s] %s" % (coq_str(x["tag"]), coq_str(x["obj"]), coq_str(x["meth"]),
                                                       "; ".join(coq_str(y) for y in x["deps"]), "true" if x["sel"] else "false") for x in rs) + " ]"
