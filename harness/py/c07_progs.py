"""C07 — alias-probe Go programs (tie 2).  Every probe exercises ONE copying or aliasing context of the property
text on a random struct/array shape, mutates on each side and prints a hash of both sides; the compiled program's
output (real compiler + node) is compared line by line with native Go."""

M = 1000003


class Types:
    """random named struct/array types with fill_/dump_ helpers that only use pointers (no copying contexts)"""

    def __init__(self, r, prefix):
        self.r, self.prefix, self.n = r, prefix, 0
        self.decls = []
        self.info = {}     # name -> dict(kind, paths, refpaths)

    def fresh(self):
        self.n += 1
        return "%s_%d" % (self.prefix, self.n)

    def make(self, depth, kind=None):
        r = self.r
        name = self.fresh()
        kind = kind or r.choice(["struct", "struct", "array"])
        fill, dump, paths, refpaths = [], [], [], []
        mix = lambda e: "h = (h*31 + %s) %% %d" % (e, M)
        if kind == "array":
            n = r.randint(1, 3)
            if depth > 0 and r.random() < 0.6:
                el = self.make(depth - 1)
                self.decls.append("type %s [%d]%s" % (name, n, el))
                fill.append("for i := 0; i < %d; i++ { s = fill_%s(&p[i], s) }" % (n, el))
                dump.append("for i := 0; i < %d; i++ { h = dump_%s(&p[i], h) }" % (n, el))
                for i in range(n):
                    paths += ["[%d]%s" % (i, q) for q in self.info[el]["paths"]]
                    refpaths += [(k, "[%d]%s" % (i, q)) for k, q in self.info[el]["refpaths"]]
            else:
                self.decls.append("type %s [%d]int" % (name, n))
                fill.append("for i := 0; i < %d; i++ { p[i] = s; s++ }" % n)
                dump.append("for i := 0; i < %d; i++ { %s }" % (n, mix("p[i]")))
                paths += ["[%d]" % i for i in range(n)]
        else:
            nf = r.randint(1, 5)
            fields = []
            have_int = False
            for i in range(nf):
                f = "f%d" % i
                c = r.random()
                if c < 0.3 or (i == nf - 1 and not have_int and not paths):
                    fields.append("%s int" % f); have_int = True
                    fill.append("p.%s = s; s++" % f); dump.append(mix("p.%s" % f)); paths.append("." + f)
                elif c < 0.38:
                    fields.append("%s string" % f)
                    fill.append('p.%s = "v"' % f); dump.append(mix("len(p.%s)" % f))
                elif c < 0.62 and depth > 0:
                    el = self.make(depth - 1)
                    emb = self.info[el]["kind"] == "struct" and r.random() < 0.4
                    if emb:
                        fields.append(el); f = el
                    else:
                        fields.append("%s %s" % (f, el))
                    fill.append("s = fill_%s(&p.%s, s)" % (el, f)); dump.append("h = dump_%s(&p.%s, h)" % (el, f))
                    paths += [".%s%s" % (f, q) for q in self.info[el]["paths"]]
                    refpaths += [(k, ".%s%s" % (f, q)) for k, q in self.info[el]["refpaths"]]
                elif c < 0.72:
                    n = r.randint(1, 3)
                    if depth > 0 and r.random() < 0.5:
                        el = self.make(depth - 1)
                        fields.append("%s [%d]%s" % (f, n, el))
                        fill.append("for i := 0; i < %d; i++ { s = fill_%s(&p.%s[i], s) }" % (n, el, f))
                        dump.append("for i := 0; i < %d; i++ { h = dump_%s(&p.%s[i], h) }" % (n, el, f))
                        for k in range(n):
                            paths += [".%s[%d]%s" % (f, k, q) for q in self.info[el]["paths"]]
                    else:
                        fields.append("%s [%d]int" % (f, n))
                        fill.append("for i := 0; i < %d; i++ { p.%s[i] = s; s++ }" % (n, f))
                        dump.append("for i := 0; i < %d; i++ { %s }" % (n, mix("p.%s[i]" % f)))
                        paths += [".%s[%d]" % (f, k) for k in range(n)]
                elif c < 0.82:
                    fields.append("%s *int" % f)
                    fill.append("p.%s = new(int); *p.%s = s; s++" % (f, f))
                    dump.append("if p.%s != nil { %s }" % (f, mix("*p.%s" % f)))
                    refpaths.append(("ptr", "." + f))
                elif c < 0.92:
                    fields.append("%s []int" % f)
                    fill.append("p.%s = []int{s, s + 1}; s += 2" % f)
                    dump.append("for i := 0; i < len(p.%s); i++ { %s }" % (f, mix("p.%s[i]" % f)))
                    refpaths.append(("slice", "." + f))
                else:
                    fields.append("%s map[int]int" % f)
                    fill.append("p.%s = map[int]int{0: s}; s++" % f)
                    dump.append(mix("p.%s[0]" % f))
                    refpaths.append(("map", "." + f))
            if not paths:
                fields.append("fz int"); fill.append("p.fz = s; s++"); dump.append(mix("p.fz")); paths.append(".fz")
            self.decls.append("type %s struct {\n\t%s\n}" % (name, "\n\t".join(fields)))
        p0 = self.r.choice(paths)
        self.decls.append("func fill_%s(p *%s, s int) int {\n\t%s\n\treturn s\n}" % (name, name, "\n\t".join(fill)))
        self.decls.append("func dump_%s(p *%s, h int) int {\n\t%s\n\treturn h\n}" % (name, name, "\n\t".join(dump)))
        self.decls.append("func d_%s(p *%s) int { return dump_%s(p, 7) }" % (name, name, name))
        self.decls.append("func dv_%s(v %s) int { return dump_%s(&v, 7) }" % (name, name, name))
        self.decls.append("func (t %s) Get() int { return dump_%s(&t, 7) }" % (name, name))
        self.decls.append("func (t %s) Mut() int { t%s += 777; return dump_%s(&t, 7) }" % (name, p0, name))
        self.decls.append("func (t *%s) PMut() { t%s = 888 }" % (name, p0))
        self.decls.append("func ret_%s(p *%s) %s { return *p }" % (name, name, name))
        self.decls.append("func getg_%s() %s { return g_%s }" % (name, name, name))
        self.decls.append("func vf_%s(xs ...%s) []%s { return xs }" % (name, name, name))
        self.decls.append("var g_%s %s" % (name, name))
        self.info[name] = dict(kind=kind, paths=paths, refpaths=refpaths)
        return name


def refmut(kind, base, path, v):
    if kind == "ptr":
        return "*%s%s = %d" % (base, path, v)
    return "%s%s[0] = %d" % (base, path, v)


# context name -> template.  {T} type, {P}/{Q} int-leaf paths, {V}/{W} fresh values, {id} probe id,
# {RB} = optional mutation through a reference field of b (shallow-copy check), {TAIL} = standard two-sided probe.
TAIL = """println({id}, 0, d_{T}(&a), d_{T}(&b))
a{P} = {V}
println({id}, 1, d_{T}(&a), d_{T}(&b))
b{Q} = {W}
println({id}, 2, d_{T}(&a), d_{T}(&b))
{RB}
println({id}, 3, d_{T}(&a), d_{T}(&b))"""

COPY = {
    "assign": "var b {T}\nb = a\n{TAIL}",
    "define": "b := a\n{TAIL}",
    "pass": "func(b {T}) {{\n{TAIL}\n}}(a)",
    "return": "b := ret_{T}(&a)\n{TAIL}",
    "return-assign": "var b {T}\nb = ret_{T}(&a)\n{TAIL}",
    "return-pkgvar": "g_{T} = a\nb := getg_{T}()\nprintln({id}, 0, d_{T}(&g_{T}), d_{T}(&b))\ng_{T}{P} = {V}\nprintln({id}, 1, d_{T}(&g_{T}), d_{T}(&b))\nb{Q} = {W}\nprintln({id}, 2, d_{T}(&g_{T}), d_{T}(&b))\nvar c {T} = getg_{T}()\nc{P} = 5\nprintln({id}, 3, d_{T}(&g_{T}), d_{T}(&c))",
    "return-elem": "s := []{T}{{a, a}}\nw := struct {{\nf {T}\n}}{{a}}\nm := map[int]{T}{{1: a}}\nat := func(i int) {T} {{ return s[i] }}\nfld := func() {T} {{ return w.f }}\nmel := func() {T} {{ return m[1] }}\nb := at(1)\ns[1]{P} = {V}\nprintln({id}, 0, d_{T}(&s[1]), d_{T}(&b))\nb{Q} = {W}\nprintln({id}, 1, d_{T}(&s[1]), d_{T}(&b))\nc := fld()\nc{P} = {V}\nprintln({id}, 2, d_{T}(&w.f), d_{T}(&c))\ne := mel()\ne{Q} = {W}\nprintln({id}, 3, dv_{T}(m[1]), d_{T}(&e))",
    "conversion-define": "type alt {T}\nb := alt(a)\nc := {T}(b)\na{P} = {V}\nprintln({id}, 0, d_{T}(&a), d_{T}((*{T})(&b)), d_{T}(&c))\nb{Q} = {W}\nprintln({id}, 1, d_{T}(&a), d_{T}((*{T})(&b)), d_{T}(&c))",
    "closure-return": "f := func() {T} {{ return a }}\nb := f()\n{TAIL}",
    "deref": "pa := &a\nb := *pa\n{TAIL}",
    "deref-assign": "pb := new({T})\n*pb = a\nb := *pb\npb{Q} = 5\n{TAIL}",
    "range-slice": "s := make([]{T}, 2)\ns[1] = a\nfor i, b := range s {{\nif i == 1 {{\nprintln({id}, 0, d_{T}(&s[1]), d_{T}(&b))\ns[1]{P} = {V}\nprintln({id}, 1, d_{T}(&s[1]), d_{T}(&b))\nb{Q} = {W}\nprintln({id}, 2, d_{T}(&s[1]), d_{T}(&b))\n}}\n}}",
    "range-array-elem": "var arr [2]{T}\narr[1] = a\nfor i, b := range arr {{\nif i == 1 {{\nprintln({id}, 0, d_{T}(&arr[1]), d_{T}(&b))\nb{Q} = {W}\nprintln({id}, 2, d_{T}(&arr[1]), d_{T}(&b))\n}}\n}}",
    "range-array-snapshot": "var arr [2]{T}\narr[1] = a\nfor i, b := range arr {{\nif i == 0 {{\narr[1]{P} = {V}\n}} else {{\nprintln({id}, 0, d_{T}(&arr[1]), d_{T}(&b))\n}}\n}}",
    "range-ptr-array": "var arr [2]{T}\narr[1] = a\nfor i, b := range &arr {{\nif i == 0 {{\narr[1]{P} = {V}\n}} else {{\nprintln({id}, 0, d_{T}(&arr[1]), d_{T}(&b))\nb{Q} = {W}\nprintln({id}, 1, d_{T}(&arr[1]), d_{T}(&b))\n}}\n}}",
    "range-map": "m := map[int]{T}{{1: a}}\nfor _, b := range m {{\nb{Q} = {W}\nprintln({id}, 0, dv_{T}(m[1]), d_{T}(&b))\n}}",
    "chan": "ch := make(chan {T}, 1)\nch <- a\na{P} = {V}\nb := <-ch\n{TAIL}",
    "chan-unbuffered": "ch := make(chan {T})\ngo func() {{ ch <- a }}()\nb := <-ch\n{TAIL}",
    "select-send": "ch := make(chan {T}, 1)\nselect {{\ncase ch <- a:\n}}\na{P} = {V}\nvar b {T}\nselect {{\ncase b = <-ch:\n}}\n{TAIL}",
    "map-store": "m := map[int]{T}{{}}\nm[1] = a\na{P} = {V}\nprintln({id}, 0, d_{T}(&a), dv_{T}(m[1]))\nb := m[1]\nb{Q} = {W}\nprintln({id}, 1, dv_{T}(m[1]), d_{T}(&b))",
    "slice-store": "s := make([]{T}, 2)\ns[1] = a\na{P} = {V}\nprintln({id}, 0, d_{T}(&a), d_{T}(&s[1]))\ns[1]{Q} = {W}\nprintln({id}, 1, d_{T}(&a), d_{T}(&s[1]))",
    "array-store": "var arr [2]{T}\narr[1] = a\na{P} = {V}\nprintln({id}, 0, d_{T}(&a), d_{T}(&arr[1]))\narr[1]{Q} = {W}\nprintln({id}, 1, d_{T}(&a), d_{T}(&arr[1]))\nbrr := arr\nbrr[1]{P} = 3\nprintln({id}, 2, d_{T}(&brr[1]), d_{T}(&arr[1]))",
    "field-store": "var w struct {{\npre int\nf {T}\n}}\nw.f = a\na{P} = {V}\nprintln({id}, 0, d_{T}(&a), d_{T}(&w.f))\nw.f{Q} = {W}\nprintln({id}, 1, d_{T}(&a), d_{T}(&w.f))\nw2 := w\nw2.f{P} = 3\nprintln({id}, 2, d_{T}(&w2.f), d_{T}(&w.f))",
    "lit-struct": "w := struct {{\npre int\nf {T}\n}}{{f: a}}\na{P} = {V}\nprintln({id}, 0, d_{T}(&a), d_{T}(&w.f))\nw.f{Q} = {W}\nprintln({id}, 1, d_{T}(&a), d_{T}(&w.f))",
    "lit-ptr-struct": "w := &struct {{\npre int\nf {T}\n}}{{1, a}}\na{P} = {V}\nprintln({id}, 0, d_{T}(&a), d_{T}(&w.f))\nw.f{Q} = {W}\nprintln({id}, 1, d_{T}(&a), d_{T}(&w.f))",
    "lit-slice": "s := []{T}{{a, a}}\na{P} = {V}\nprintln({id}, 0, d_{T}(&a), d_{T}(&s[0]), d_{T}(&s[1]))\ns[1]{Q} = {W}\nprintln({id}, 1, d_{T}(&a), d_{T}(&s[0]), d_{T}(&s[1]))",
    "lit-array": "arr := [2]{T}{{a, a}}\na{P} = {V}\nprintln({id}, 0, d_{T}(&a), d_{T}(&arr[0]), d_{T}(&arr[1]))\narr[1]{Q} = {W}\nprintln({id}, 1, d_{T}(&a), d_{T}(&arr[0]), d_{T}(&arr[1]))",
    "lit-map": "m := map[int]{T}{{1: a}}\na{P} = {V}\nprintln({id}, 0, d_{T}(&a), dv_{T}(m[1]))",
    "box-iface": "var i interface{{}} = a\na{P} = {V}\nb := i.({T})\nprintln({id}, 0, d_{T}(&a), d_{T}(&b))",
    "box-iface-return": "var i interface{{}} = ret_{T}(&a)\nb := i.({T})\n{TAIL}",
    "unbox": "var i interface{{}} = ret_{T}(&a)\nb := i.({T})\nb{Q} = {W}\nc := i.({T})\nprintln({id}, 0, d_{T}(&b), d_{T}(&c))\nswitch v := i.(type) {{\ncase {T}:\nv{P} = {V}\nc2 := i.({T})\nprintln({id}, 1, d_{T}(&v), d_{T}(&c2))\n}}\nif v, ok := i.({T}); ok {{\nv{P} = {W}\nc3 := i.({T})\nprintln({id}, 2, d_{T}(&v), d_{T}(&c3))\n}}",
    "method-value": "f := a.Get\na{P} = {V}\nprintln({id}, 0, d_{T}(&a), f())",
    "method-value-ptr": "pa := &a\nf := pa.Get\na{P} = {V}\nprintln({id}, 0, d_{T}(&a), f())",
    "method-expr": "f := {T}.Mut\nr := f(a)\nprintln({id}, 0, d_{T}(&a), r)",
    "value-receiver": "r := a.Mut()\nprintln({id}, 0, d_{T}(&a), r)\npa := &a\nr = pa.Mut()\nprintln({id}, 1, d_{T}(&a), r)\ns := []{T}{{a}}\nr = s[0].Mut()\nprintln({id}, 3, d_{T}(&s[0]), r)\nm := map[int]{T}{{1: a}}\nr = m[1].Mut()\nprintln({id}, 4, dv_{T}(m[1]), r)\nr = ret_{T}(&a).Mut()\nprintln({id}, 5, d_{T}(&a), r)",
    "value-receiver-ptr-iface": "var k interface{{ Mut() int }} = &a\nr := k.Mut()\nprintln({id}, 0, d_{T}(&a), r)",
    "value-receiver-iface": "var k interface{{ Mut() int }} = ret_{T}(&a)\nr1 := k.Mut()\nr2 := k.Mut()\nprintln({id}, 0, r1, r2)",
    "value-receiver-embedded-iface": "w := struct {{\n{T}\n}}{{a}}\nvar k interface{{ Mut() int }} = &w\nr := k.Mut()\nprintln({id}, 0, d_{T}(&w.{T}), r)",
    "method-expr-ptr": "f := (*{T}).Mut\nr := f(&a)\nprintln({id}, 0, d_{T}(&a), r)",
    "method-value-mut": "f := a.Mut\nr1 := f()\nr2 := f()\nprintln({id}, 0, d_{T}(&a), r1, r2)",
    "defer-arg": "func() {{\ndefer func(b {T}) {{ println({id}, 0, d_{T}(&a), d_{T}(&b)) }}(a)\na{P} = {V}\n}}()",
    "go-arg": "done := make(chan int)\ngate := make(chan int)\ngo func(b {T}) {{\n<-gate\nprintln({id}, 0, d_{T}(&a), d_{T}(&b))\ndone <- 1\n}}(a)\na{P} = {V}\ngate <- 1\n<-done",
    "swap": "var b {T}\nfill_{T}(&b, 500)\na, b = b, a\n{TAIL}",
    "swap-elems": "s := make([]{T}, 2)\ns[0] = a\nfill_{T}(&s[1], 500)\ns[0], s[1] = s[1], s[0]\nprintln({id}, 0, d_{T}(&s[0]), d_{T}(&s[1]))\ns[0]{P} = {V}\nprintln({id}, 1, d_{T}(&s[0]), d_{T}(&s[1]))",
    "variadic": "s := vf_{T}(a, a)\na{P} = {V}\nprintln({id}, 0, d_{T}(&a), d_{T}(&s[0]), d_{T}(&s[1]))\ns[0]{Q} = {W}\nprintln({id}, 1, d_{T}(&a), d_{T}(&s[0]), d_{T}(&s[1]))",
    "append-value": "s := make([]{T}, 0, 2)\ns = append(s, a)\na{P} = {V}\nprintln({id}, 0, d_{T}(&a), d_{T}(&s[0]))\ns = append(s, a, a)\na{Q} = {W}\nprintln({id}, 1, d_{T}(&a), d_{T}(&s[1]), d_{T}(&s[2]))",
    "copy-builtin": "src := make([]{T}, 2)\nsrc[0] = a\ndst := make([]{T}, 2)\ncopy(dst, src)\nsrc[0]{P} = {V}\nprintln({id}, 0, d_{T}(&src[0]), d_{T}(&dst[0]))\ncopy(src[1:], src)\nsrc[0]{Q} = {W}\nprintln({id}, 1, d_{T}(&src[0]), d_{T}(&src[1]))",
    "multi-return": "f := func() ({T}, int) {{ return a, 1 }}\nb, _ := f()\n{TAIL}",
    "pkgvar": "g_{T} = a\na{P} = {V}\nprintln({id}, 0, d_{T}(&a), d_{T}(&g_{T}))\nb := g_{T}\ng_{T}{Q} = {W}\nprintln({id}, 1, d_{T}(&b), d_{T}(&g_{T}))",
    "nested-array-copy": "x := [2]{T}{{a, a}}\ny := x\ny[0]{P} = {V}\nx[1]{Q} = {W}\nprintln({id}, 0, d_{T}(&x[0]), d_{T}(&x[1]), d_{T}(&y[0]), d_{T}(&y[1]))",
    "slice-to-array": "s := make([]{T}, 3)\ns[1] = a\narr := [2]{T}(s[1:])\nprintln({id}, 0, d_{T}(&arr[0]), d_{T}(&s[1]))\narr[0]{P} = {V}\nprintln({id}, 1, d_{T}(&arr[0]), d_{T}(&s[1]))",
    "slice-to-array-off0": "s := make([]{T}, 3)\ns[0] = a\narr := [2]{T}(s)\nprintln({id}, 0, d_{T}(&arr[0]), d_{T}(&s[0]))\narr[0]{P} = {V}\nprintln({id}, 1, d_{T}(&arr[0]), d_{T}(&s[0]))",
    "append-grow-elems": "s := make([]{T}, 1, 1)\ns[0] = a\ns2 := append(s, a)\ns2[0]{P} = {V}\nprintln({id}, 0, d_{T}(&s[0]), d_{T}(&s2[0]))",
}

ALIAS = {
    "ptr-field": "p := &a{P}\n*p = {V}\nprintln({id}, 0, d_{T}(&a), *p)\na{P} = {W}\nprintln({id}, 1, d_{T}(&a), *p)\nb := a\n*p = 3\nprintln({id}, 2, d_{T}(&a), d_{T}(&b))",
    "ptr-whole": "p := &a\nq := &a{P}\np{Q} = {V}\nprintln({id}, 0, d_{T}(&a), d_{T}(p), *q)\nvar z {T}\n*p = z\nprintln({id}, 1, d_{T}(&a), *q)\n*q = {W}\nprintln({id}, 2, d_{T}(&a), d_{T}(p))",
    "ptr-slice-elem": "s := make([]{T}, 2)\ns[1] = a\np := &s[1]\np{P} = {V}\nprintln({id}, 0, d_{T}(&s[1]), d_{T}(p))\ns[1]{Q} = {W}\nprintln({id}, 1, d_{T}(&s[1]), d_{T}(p))\nq := &s[1]{P}\n*q = 4\nprintln({id}, 2, d_{T}(&s[1]), d_{T}(p), p == &s[1])",
    "ptr-array-elem": "var arr [2]{T}\narr[1] = a\np := &arr[1]\np{P} = {V}\nprintln({id}, 0, d_{T}(&arr[1]), d_{T}(p))\npa := &arr\npa[1]{Q} = {W}\nprintln({id}, 1, d_{T}(&arr[1]), d_{T}(p))\nsl := arr[:]\nsl[1]{P} = 6\nprintln({id}, 2, d_{T}(&arr[1]), d_{T}(p))",
    "ptr-pkgvar": "fill_{T}(&g_{T}, 40)\np := &g_{T}\np{P} = {V}\nprintln({id}, 0, d_{T}(&g_{T}), d_{T}(p))\nq := &g_{T}{Q}\n*q = {W}\nprintln({id}, 1, d_{T}(&g_{T}), d_{T}(p))",
    "subslice": "s := make([]{T}, 3, 5)\nfor i := range s {{ fill_{T}(&s[i], 100*i) }}\ns2 := s[1:2]\ns2[0]{P} = {V}\nprintln({id}, 0, d_{T}(&s[1]), d_{T}(&s2[0]), len(s2), cap(s2))\ns3 := append(s2, a)\nprintln({id}, 1, d_{T}(&s[2]), d_{T}(&s3[1]), len(s3), cap(s3))\ns3[1]{Q} = {W}\nprintln({id}, 2, d_{T}(&s[2]), d_{T}(&s3[1]))\ns4 := s[:4]\nprintln({id}, 3, d_{T}(&s4[3]), len(s4), cap(s4))\ns5 := s[1:2:2]\ns6 := append(s5, a)\ns6[1]{P} = 9\nprintln({id}, 4, d_{T}(&s[2]), d_{T}(&s6[1]), len(s6))",
    "subslice-int": "s := []int{{1, 2, 3, 4}}\nt := s[1:3]\nt[0] = {V}\nu := append(t, {W})\nprintln({id}, 0, s[1], s[3], u[2], len(u), cap(u))\nv := append(s, 5)\nv[0] = 9\nprintln({id}, 1, s[0], v[0], len(v), cap(v) >= 5)\nw := append(s[:2:2], 7)\nw[0] = 8\nprintln({id}, 2, s[0], s[2], w[0], w[2])\nn := copy(s[1:], s)\nprintln({id}, 3, n, s[0], s[1], s[2], s[3])\nn = copy(s, s[2:])\nprintln({id}, 4, n, s[0], s[1], s[2], s[3])",
    "closure-capture": "f := func() {{ a{P} = {V} }}\ng := func() int {{ return d_{T}(&a) }}\nf()\nprintln({id}, 0, d_{T}(&a), g())\na{Q} = {W}\nprintln({id}, 1, d_{T}(&a), g())\nh := func() {T} {{ return a }}\nvar z {T}\na = z\nb := h()\nprintln({id}, 2, d_{T}(&a), d_{T}(&b))",
    "map-of-ptr": "m := map[int]*{T}{{1: &a}}\nm[1]{P} = {V}\nprintln({id}, 0, d_{T}(&a), d_{T}(m[1]))\na{Q} = {W}\nprintln({id}, 1, d_{T}(&a), d_{T}(m[1]))",
    "chan-of-ptr": "ch := make(chan *{T}, 1)\nch <- &a\np := <-ch\np{P} = {V}\nprintln({id}, 0, d_{T}(&a), d_{T}(p), p == &a)",
    "slice-of-ptr": "s := []*{T}{{&a, &a}}\ns[0]{P} = {V}\nprintln({id}, 0, d_{T}(&a), d_{T}(s[1]))\nt := append(s, &a)\nt[2]{Q} = {W}\nprintln({id}, 1, d_{T}(&a), d_{T}(s[0]))",
    "ptr-receiver": "a.PMut()\nprintln({id}, 0, d_{T}(&a))\nvar z {T}\na = z\nf := a.PMut\nf()\nprintln({id}, 1, d_{T}(&a))\nvar k interface{{ PMut() }} = &a\na = z\nk.PMut()\nprintln({id}, 2, d_{T}(&a))",
    "struct-of-ptr": "w := struct{{ p *{T} }}{{&a}}\nw2 := w\nw2.p{P} = {V}\nprintln({id}, 0, d_{T}(&a), d_{T}(w.p))",
    "map-value-is-copy": "m := map[int]{T}{{1: a}}\nm2 := m\nb := m[1]\nb{P} = {V}\nm2[1] = b\nprintln({id}, 0, dv_{T}(m[1]), dv_{T}(m2[1]), d_{T}(&a))",
    "ptr-elem-index64": "var cells [3]int\nvar k uint64 = 1\np := &cells[k]\n*p = {V}\nprintln({id}, 0, cells[1], p == &cells[1])\nsl := []int{{1, 2, 3}}\nvar j int64 = 2\nq := &sl[j]\n*q = {W}\nprintln({id}, 1, sl[2], q == &sl[2])\nsl[j] = 4\nprintln({id}, 2, *q)\nss := make([]{T}, 2)\nss[1] = a\nr := &ss[k]\nr{P} = {V}\nprintln({id}, 3, d_{T}(&ss[1]), d_{T}(r))\nvar as [2]{T}\nr2 := &as[j-1]\nr2{Q} = {W}\nprintln({id}, 4, d_{T}(&as[1]), d_{T}(r2))",
    "copy-overlap-untyped": "s := []string{{\"a\", \"b\", \"c\", \"d\", \"e\"}}\nn := copy(s[1:], s)\nprintln({id}, 0, n, s[0]+s[1]+s[2]+s[3]+s[4])\nn = copy(s, s[2:])\nprintln({id}, 1, n, s[0]+s[1]+s[2]+s[3]+s[4])\nps := []*{T}{{&a, nil, nil, &a}}\ncopy(ps[1:], ps[:2])\nprintln({id}, 2, ps[0] == &a, ps[1] == &a, ps[2] == nil, ps[3] == &a)\nt := append(s[:1], s[2:4]...)\nprintln({id}, 3, len(t), s[0]+s[1]+s[2]+s[3]+s[4])\nvs := make([]{T}, 4)\nfor i := range vs {{ fill_{T}(&vs[i], 10*i) }}\ncopy(vs[1:], vs)\nprintln({id}, 4, d_{T}(&vs[0]), d_{T}(&vs[1]), d_{T}(&vs[2]), d_{T}(&vs[3]))\nvs[1]{P} = {V}\nprintln({id}, 5, d_{T}(&vs[0]), d_{T}(&vs[1]), d_{T}(&vs[2]))",
    "array-ptr-of-subslice": "s := []{NT}{{10, 11, 12, 13, 14, 15, 16}}\nap := (*[{N}]{NT})(s[{K}:])\np0 := &s[{I}]\nq0 := &ap[{J}]\n*p0 = 100\n*q0 = 101\nprintln({id}, 0, int(s[0]), int(s[1]), int(s[2]), int(s[3]), int(s[4]), int(s[5]), int(s[6]), int(*p0), int(*q0), p0 == q0)\np1 := &s[{K}+{J2}]\nq1 := &ap[{J2}]\n*q1 = 102\nprintln({id}, 1, p1 == q1, int(*p1), int(s[{K}+{J2}]), int(ap[{J2}]))\nap[{J}] = 103\nprintln({id}, 2, int(s[{K}+{J}]), int(*q0))\nt := s[{K}:]\nr := &t[{J}]\nprintln({id}, 3, r == q0, r == &s[{K}+{J}], int(*r))\nbp := (*[{N}]{NT})(s)\nb0 := &bp[{I}]\nprintln({id}, 4, b0 == p0, int(*b0))\nvar arr [4]{NT}\nsl := arr[1:]\nx0 := &sl[{J}]\ny0 := &arr[{J}+1]\n*x0 = 7\nprintln({id}, 5, x0 == y0, int(arr[{J}+1]), int(*y0))",
    "ptr-conversion": "type alt {T}\nq := (*alt)(&a)\nb := {T}(*q)\n(*{T})(q){P} = {V}\nprintln({id}, 0, d_{T}(&a), d_{T}((*{T})(q)), d_{T}(&b))",
}

# contexts that share a root cause report under one signature
SIGNATURE = {
    "box-iface": "box-into-interface-does-not-copy", "box-iface-return": "box-into-interface-does-not-copy",
    "range-array-snapshot": "range-over-array-value-does-not-copy",
    "value-receiver-ptr-iface": "value-receiver-indirect-call-does-not-copy", "value-receiver-iface": "value-receiver-indirect-call-does-not-copy",
    "value-receiver-embedded-iface": "value-receiver-indirect-call-does-not-copy", "method-expr-ptr": "value-receiver-indirect-call-does-not-copy",
    "method-value-mut": "value-receiver-indirect-call-does-not-copy",
}


def signature(ctx):
    return SIGNATURE.get(ctx, "ctx-" + ctx)


def gen_program(r, pidx, nprobes, contexts=None):
    """returns (source, probes) where probes[id] = dict(ctx, type kind, code)"""
    tg = Types(r, "T%d" % pidx)
    names = list(COPY.items()) + list(ALIAS.items())
    probes, funcs = {}, []
    vctr = [1000]

    def val():
        vctr[0] += 1
        return vctr[0]
    for k in range(nprobes):
        ctx, tmpl = names[(k + pidx * 7) % len(names)] if contexts is None else (contexts[k % len(contexts)], dict(names)[contexts[k % len(contexts)]])
        T = tg.make(r.randint(0, 2))
        info = tg.info[T]
        pid = pidx * 1000 + k
        P, Q = r.choice(info["paths"]), r.choice(info["paths"])
        RB = ""
        if info["refpaths"]:
            kind, rp = r.choice(info["refpaths"])
            RB = refmut(kind, "b", rp, val())
        N = r.randint(1, 3)
        K = r.randint(1, 7 - N)
        sub = dict(T=T, P=P, Q=Q, V=val(), W=val(), id=pid, RB=RB,
                   NT=r.choice(["int", "int32", "uint8", "int16", "uint16", "uint32", "int8"]), N=N, K=K,
                   I=r.randint(0, N - 1), J=r.randint(0, N - 1), J2=r.randint(0, N - 1))
        tail = TAIL.format(**sub)
        body = tmpl.format(TAIL=tail, **sub)
        code = "func p%d() {\n\tvar a %s\n\tfill_%s(&a, %d)\n\t%s\n\t_ = a\n}" % (pid, T, T, r.randint(1, 50), body.replace("\n", "\n\t"))
        funcs.append(code)
        probes[pid] = dict(ctx=ctx, kind=info["kind"], type=T, code=code)
    main = ["func run(id int, f func()) {", "\tdefer func() {", "\t\tif r := recover(); r != nil {", "\t\t\tprintln(id, -1, -1)", "\t\t}", "\t}()", "\tf()", "}", "",
            "func main() {"] + ["\trun(%d, p%d)" % (pid, pid) for pid in sorted(probes)] + ["}"]
    src = "package main\n\n" + "\n\n".join(tg.decls) + "\n\n" + "\n\n".join(funcs) + "\n\n" + "\n".join(main) + "\n"
    return src, probes
