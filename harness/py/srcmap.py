"""Minimal source map v3 decoder (VLQ) — used by C19 program-level checks."""
import json

B64 = {c: i for i, c in enumerate("ABCDEFGHIJKLMNOPQRSTUVWXYZabcdefghijklmnopqrstuvwxyz0123456789+/")}


def vlq(seg):
    out, shift, val = [], 0, 0
    for ch in seg:
        d = B64[ch]
        val |= (d & 31) << shift
        if d & 32:
            shift += 5
        else:
            out.append(-(val >> 1) if val & 1 else val >> 1)
            shift, val = 0, 0
    return out


def decode(path):
    """returns (sources, names, mappings) with mappings = list of
    dict(gen_line(1-based), gen_col, src(index or None), line(1-based), col, name)"""
    return decode_obj(json.load(open(path)))


def decode_obj(m):
    res = []
    src = line = col = name = 0
    for gl, group in enumerate(m["mappings"].split(";"), 1):
        gc = 0
        if not group:
            continue
        for seg in group.split(","):
            f = vlq(seg)
            gc += f[0]
            e = dict(gen_line=gl, gen_col=gc, src=None, line=None, col=None, name=None)
            if len(f) >= 4:
                src += f[1]; line += f[2]; col += f[3]
                e.update(src=src, line=line + 1, col=col)
            if len(f) >= 5:
                name += f[4]
                e["name"] = name
            res.append(e)
    return m["sources"], m.get("names", []), res
