"""C20 — generators: build configurations / import paths, and import-free Go packages that
together contain every AST node kind registered by compiler/sources/serializer.go (except Bad*)."""

# ---------------------------------------------------------------- configurations

GOOS = ["linux", "js", "darwin", "windows", "wasip1"]
GOARCH = ["js", "wasm", "ecmascript", "amd64"]
ROOTS = ["/usr/local/go", "/usr/lib/go-1.20", "/opt/go", "/home/u/sdk/go1.20.14", "C:\\Go", "/usr/local/go1"]
PATHS = ["/home/u/go", "/go", "/home/u/go:/srv/go", "/home/u/go2", ""]
TAGS = [None, [], ["netgo"], ["netgo", "purego"], ["purego", "netgo"], ["netgo,purego"], ["a", "b", "c"], ["ab", "c"], ["a", "bc"], [""]]
VERSIONS = ["1.20.0+go1.20.14", "1.19.0-beta2+go1.19.13", "1.18.0+go1.18.10", "1.20.0+go1.20.1", "1.20.0"]
IPS = ["a/b", "a/b_test", "a", "b", "a/b/c", "github.com/x/y", "github.com/x/y_test", "main", "p", "p_test", "x.y/z-1", "runtime",
       "internal/abi", "golang.org/x/tools/go/packages"]
FIELDS = ["goos", "goarch", "goroot", "gopath", "tags", "version"]
POOL = dict(goos=GOOS, goarch=GOARCH, goroot=ROOTS, gopath=PATHS, tags=TAGS, version=VERSIONS)

# adversarial pieces for the key stream: quotes, backslashes, separators of the %#v syntax, path elements
NASTY = ['"', '\\', '", GOARCH:"', '"}', '}/', '/', '//', '/./', '/../', '..', '.', ' ', ',', ', ', '{', '}', '(nil)', '[]string{',
         '\n', '\t', '\x01', '\x7f', '\x1f', '\a', '\b', '\f', '\r', '\v', 'a', 'b', 'linux', '_test', 'package', '\\"', '\\\\', "'", '`', '%', '\x10']


def base_cfg(r):
    return dict(goos=r.choice(GOOS), goarch=r.choice(GOARCH), goroot=r.choice(ROOTS), gopath=r.choice(PATHS),
                tags=r.choice(TAGS), version=r.choice(VERSIONS), tested="", nil=False)


def vary(r, c, field):
    """a configuration that differs from c in exactly the given field"""
    d = dict(c)
    if field == "tested":
        d["tested"] = r.choice([x for x in IPS if x != c["tested"]])
        return d
    d[field] = r.choice([v for v in POOL[field] if v != c[field]])
    return d


def nasty_string(r, maxparts=4):
    return "".join(r.choice(NASTY) for _ in range(r.randint(0, maxparts)))


def nasty_cfg(r):
    c = base_cfg(r)
    for f in r.sample(["goos", "goarch", "goroot", "gopath", "version"], r.randint(1, 3)):
        c[f] = nasty_string(r)
    if r.random() < 0.5:
        c["tags"] = r.choice([None, [], [nasty_string(r, 2)], [nasty_string(r, 2), nasty_string(r, 2)], ["a", "b"], ['a", "b']])
    if r.random() < 0.3:
        c["tested"] = r.choice(IPS + [""])
    return c


def nasty_ip(r):
    k = r.random()
    if k < 0.3:
        return r.choice(IPS)
    if k < 0.4:
        return ""
    return r.choice(["", "a", "a/b", "x"]) + nasty_string(r, 3) + r.choice(["", "a", "_test"])


# ---------------------------------------------------------------- Go packages

def gen_package(r, idx):
    """returns (files: list of {name,text}, jsfiles) — no imports, everything used or exported"""
    n = [idx * 100]

    def u():
        n[0] += 1
        return n[0]

    K = lambda: r.randint(0, 99)
    S = lambda: r.choice(['"a"', '"x\\ty"', '`raw`', '"\\u00e9"', '""', '"/* c */"'])
    feats = []

    def f_struct():
        i = u()
        return """
// T%(i)d is documented.
type T%(i)d struct {
	A    int    // trailing comment
	B, C string `json:"b,omitempty"`
	next *T%(i)d
	fn   func(int, ...string) (bool, error)
	m    map[string][]int
	ch   chan<- int
	arr  [%(k)d]byte
}

/* block comment before method */
func (t *T%(i)d) M(x int) (r int, err error) {
	defer func() {
		if e := recover(); e != nil {
			r = -%(k2)d
		}
	}()
	if t == nil || t.next == nil {
		return x + %(k)d, nil
	} else if x > %(k2)d {
		return t.next.M(x - 1)
	}
	return len(t.B) + len(t.arr), nil
}
""" % dict(i=i, k=K() + 1, k2=K())

    def f_generic():
        i = u()
        return """
type Num%(i)d interface {
	~int | ~float64
}

type Pair%(i)d[A any, B comparable] struct {
	a A
	b B
}

func (p Pair%(i)d[A, B]) Key() B { return p.b }

func Sum%(i)d[K comparable, V Num%(i)d](m map[K]V, ks ...K) V {
	var s V
	for _, k := range ks {
		s += m[k]
	}
	return s
}

func UseGen%(i)d() int {
	p := Pair%(i)d[int, string]{a: %(k)d, b: %(s)s}
	_ = p.Key()
	return Sum%(i)d[string, int](map[string]int{"a": %(k)d, "b": 2}, "a", "b") + Sum%(i)d(map[int]int{1: 1}, 1)
}
""" % dict(i=i, k=K(), s=S())

    def f_chan():
        i = u()
        return """
func Chans%(i)d(n int) int {
	c := make(chan int, 1)
	var ro <-chan int = c
	done := make(chan struct{})
	go func() {
		c <- n + %(k)d
		close(done)
	}()
	<-done
	select {
	case v, ok := <-ro:
		if ok {
			return v
		}
	case c <- 2:
	default:
	}
	return 0
}
""" % dict(i=i, k=K())

    def f_switch():
        i = u()
        return """
type Str%(i)d interface {
	String() string
}

func Sw%(i)d(x interface{}) int {
	switch v := x.(type) {
	case int:
		return v
	case string, []byte:
		return %(k)d
	case Str%(i)d:
		return len(v.String())
	case nil:
	default:
		_ = v
	}
	if s, ok := x.(Str%(i)d); ok {
		_ = s
	}
	switch y := %(k)d; {
	case y > 5:
		fallthrough
	case x == nil:
		return 1
	default:
	}
	switch x {
	case 1, %(k2)d:
		return 2
	}
	return 0
}
""" % dict(i=i, k=K(), k2=K() + 2)

    def f_loops():
        i = u()
        return """
func Loops%(i)d(n int) (s int) {
L:
	for i := 0; i < n; i++ {
		if i%%2 == 0 {
			continue L
		}
		s += i
		if s > %(k)d {
			break L
		}
	}
	for n > 0 {
		n--
	}
	for {
		break
	}
	for i := range [3]int{} {
		s += i
	}
	for range "ab" {
		s++
	}
	goto end
end:
	;
	return
}
""" % dict(i=i, k=K())

    def f_slices():
        i = u()
        return """
var V%(i)d = []struct{ X, Y int }{{1, 2}, {X: %(k)d}}

var M%(i)d = map[string]*[2]int{"k": {1, 2}, %(s)s: nil}

func Slices%(i)d(a []int) []int {
	if len(a) < 4 {
		a = append(a, 0, 0, 0, 0)
	}
	b := a[1:3:4]
	var arr [4]int
	arr[0] = (a[0] + %(k)d) * -a[1] &^ 3
	arr[1] = ^a[2] << 2 >> 1
	p := &arr
	(*p)[2] += V%(i)d[0].X
	f := 1.5e3 + float64(len(M%(i)d))
	c := complex(f, 2) + 3i
	r := 'x'
	_, _, _ = c, r, a[:]
	return append(b, arr[:]...)
}
""" % dict(i=i, k=K(), s=S())

    def f_decls():
        i = u()
        return """
const (
	C%(i)da = iota * %(k)d
	C%(i)db
	C%(i)dc uint8 = 1 << iota
)

type (
	E%(i)d  int
	F%(i)d  = func(E%(i)d) E%(i)d
	IF%(i)d interface {
		Str%(i)dx
		Do(x, y int) (z int)
	}
	Str%(i)dx interface{ String() string }
)

func (e E%(i)d) String() string { return %(s)s }

func Decls%(i)d() F%(i)d {
	const c = C%(i)db
	var x, y = 1, "s"
	var z int
	type local struct{ E%(i)d }
	l := local{E%(i)d(c)}
	_, _, _ = x, y, z
	var fn F%(i)d = func(e E%(i)d) E%(i)d { return e + l.E%(i)d }
	return fn
}

func Ret%(i)d(f func(int) int) func() (int, string) {
	return func() (int, string) { return f(%(k)d), E%(i)d(1).String() }
}
""" % dict(i=i, k=K() + 1, s=S())

    def f_embed_js():
        i = u()
        return """
type Node%(i)d struct {
	*Node%(i)d
	val  interface{ Get() int }
	kids []*Node%(i)d
}

func (n *Node%(i)d) Walk(f func(*Node%(i)d) bool) {
	if n == nil || !f(n) {
		return
	}
	for _, k := range n.kids {
		k.Walk(f)
	}
	func() { defer n.Node%(i)d.Walk(f) }()
}

func Lit%(i)d() *Node%(i)d {
	return &Node%(i)d{kids: []*Node%(i)d{{}, nil}}
}
""" % dict(i=i)

    def f_linkname():
        i = u()
        return """
// ext%(i)d is implemented elsewhere.
//
//go:linkname ext%(i)d verif/other.Impl%(k)d
func ext%(i)d(x int) int

func UseExt%(i)d() int { return ext%(i)d(%(k)d) }
""" % dict(i=i, k=K())

    def f_detached_comment():
        i = u()
        return """
// a free-floating comment %(i)d: not attached to any declaration

func Floating%(i)d() int {
	// a comment inside a body
	x := %(k)d /* inline */ + 1

	// another one, followed by a blank line

	return x
}
""" % dict(i=i, k=K())

    pool = [f_linkname, f_detached_comment, f_struct, f_generic, f_chan, f_switch, f_loops, f_slices, f_decls, f_embed_js]
    nfiles = r.randint(1, 3)
    files = []
    chosen = [r.choice(pool) for _ in range(r.randint(2, 6))]
    if idx < len(pool):
        chosen.append(pool[idx])           # every feature appears in the first packages
    if idx % 5 == 0:
        chosen = [f for f in pool]          # and a few packages have everything
    r.shuffle(chosen)
    per = [[] for _ in range(nfiles)]
    for j, f in enumerate(chosen):
        per[j % nfiles].append(f())
    pkgname = r.choice(["pkg", "main", "lib"])
    for j in range(nfiles):
        head = "// Package comment %d.\n" % idx if j == 0 and r.random() < 0.7 else ""
        if r.random() < 0.3:
            head = "//go:build !ignore\n\n" + head
        body = "".join(per[j])
        if "go:linkname" in body:
            body = '\nimport _ "unsafe" // for go:linkname\n' + body
        if pkgname == "main" and j == 0:
            body += "\nfunc main() {}\n"
        files.append(dict(name=r.choice(["a", "b", "z", "m"]) + "%d.go" % j, text=head + "package %s\n" % pkgname + body))
    js = []
    if r.random() < 0.4:
        js.append(dict(name="x%d.inc.js" % idx, text="$global.verif%d = %d;\n" % (idx, r.randint(0, 9))))
    return files, js
