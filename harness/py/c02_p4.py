"""C02 phase 4 — generators and Coq printers for the extended fragments.
(b) range programs (coq/Model/C02_P4_Range.v):  stmt ('range', lbl|None, key|None, ref, iv, len_expr, [s]) on top of the
    MiniGo AST of c02_minigo.py; ref/iv are the hidden frame slots `_ref`/`_i` (never read or written by the program)."""
import c02_minigo as G


class RangeGen(G.Gen):
    """MiniGo generator in which loops are range loops half of the time"""

    def hidden(self):
        x = self.nloc
        self.nloc += 1
        return x

    def forstmt(self, depth):
        r = self.r
        if r.random() < 0.45:
            return G.Gen.forstmt(self, depth)
        key = self.newlocal(assignable=False) if r.random() < 0.75 else None
        ref, iv = self.hidden(), self.hidden()
        a = self.leaf()
        for _ in range(3):              # prefer a variable or a global: the body can then overwrite what the length was computed from
            if a[0] == "c":
                a = self.leaf()
        ln = ("b", "%", ("b", "+", ("b", "*", a, a), ("c", r.randint(0, 3))), ("c", 4))
        self.nlabel += 1
        lp = dict(label=self.nlabel, used=False)
        self.loops.append(lp)
        body = self.block(depth + 1)
        if r.random() < 0.5:
            tgt = r.randrange(len(self.loops))
            kind = r.choice(["continue", "continue", "break"])
            if tgt == len(self.loops) - 1 and r.random() < 0.6:
                br = (kind, None)
            else:
                self.loops[tgt]["used"] = True
                br = (kind, self.loops[tgt]["label"])
            body.insert(r.randint(0, len(body)), ("if", self.bexpr(0), [br]))
        self.loops.pop()
        if r.random() < 0.6:
            # the length is captured once: overwrite its operand inside the body
            if a[0] == "v" and a[1] in self.assignable:
                body.insert(r.randint(0, len(body)), ("assign", a[1], self.bounded(1)))
            elif a[0] == "g":
                body.insert(r.randint(0, len(body)), ("gassign", a[1], self.bounded(1)))
        return [("range", lp["label"] if lp["used"] else None, key, ref, iv, ln, body)]

    def stmt(self, depth):
        # more loops than the stage-1 generator
        if depth < 3 and len(self.loops) < 2 and self.r.random() < 0.12:
            self.budget -= 1
            return self.forstmt(depth)
        return G.Gen.stmt(self, depth)


def generate_range(r, size=14):
    return RangeGen(r, size).program()


def has_kind(p, kind):
    def walk(body):
        for s in body:
            if s[0] == kind:
                return True
            for part in s[1:]:
                if isinstance(part, list) and part and isinstance(part[0], tuple) and walk(part):
                    return True
        return False
    return any(walk(fn["body"]) for fn in p["fns"])


# ------------------------------------------------------------------ Coq printer: rstmt

def r_block(body):
    if not body:
        return "RSkip"
    if len(body) == 1:
        return r_stmt(body[0])
    return "(RSeq %s %s)" % (r_stmt(body[0]), r_block(body[1:]))


def r_stmt(s):
    t = s[0]
    e, nc, opt = G.coq_expr, G.nc, G.coq_opt
    if t == "assign":
        return "(RAssign %s %s)" % (nc(s[1]), e(s[2]))
    if t == "gassign":
        return "(RGAssign %s %s)" % (nc(s[1]), e(s[2]))
    if t == "print":
        return "(RPrint %s)" % e(s[1])
    if t == "yield":
        return "RYield"
    if t == "call":
        return "(RCall %s %s [%s])" % (opt(s[1]), nc(s[2]), "; ".join(e(a) for a in s[3]))
    if t == "if":
        return "(RIf %s %s)" % (e(s[1]), r_block(s[2]))
    if t == "ifelse":
        return "(RIfElse %s %s %s)" % (e(s[1]), r_block(s[2]), r_block(s[3]))
    if t == "for":
        _, lbl, init, c, post, body = s
        return "(RFor %s %s %s %s %s)" % (opt(lbl), r_stmt(init) if init else "RSkip", e(c), r_stmt(post) if post else "RSkip", r_block(body))
    if t == "range":
        _, lbl, key, ref, iv, ln, body = s
        return "(RRange false %s %s %s %s %s %s)" % (opt(lbl), opt(key), nc(ref), nc(iv), e(ln), r_block(body))
    if t == "break":
        return "(RBreak %s)" % opt(s[1])
    if t == "continue":
        return "(RContinue %s)" % opt(s[1])
    if t == "return":
        return "(RReturn %s)" % e(s[1])
    raise ValueError(t)


def r_prog(p):
    return "[%s]" % ";\n   ".join("{| rf_nparams := %s; rf_body := %s |}" % (G.nc(fn["np"]), r_block(fn["body"])) for fn in p["fns"])
