"""C02 — generators for programs OUTSIDE the modelled fragment.

(1) rich_program(r): a runnable two-package Go program in which (almost) every integer
    sub-expression may be wrapped in a "yielding identity" W(k, e): a call — of a rotating
    kind — that yields to the scheduler iff bit k of the mask is set, prints (k, e) and returns e.
    Call kinds: direct, pointer/value method, method value, method expression, interface,
    function value, function literal, cross-package, generic instance, deferred.
    Places: loop init/cond/post, switch tags and case lists, && / || right operands, call
    arguments after a side-effecting earlier argument, composite literals, index expressions,
    range bodies with closures capturing the loop variable, goto loops, deferred calls during
    return and during panic with named results, recover.
    Single goroutine apart from yield's helper.  All values stay below 2^31.

(2) graph_program(r): a compile-only program whose functions call each other in all the ways the
    blocking analysis distinguishes; returns the source and the call graph as the analysis should
    see it (nodes: declared functions/methods/instances first, then function literals).
"""

M = 997
KINDS = ["direct", "pmeth", "vmeth", "mval", "mexpr", "iface", "fval", "lit", "xpkg", "generic", "xgeneric", "ifacev"]

Q_SRC = """package q

var Mask int

func Yield(k int) {
	if Mask&(1<<uint(k%30)) != 0 {
		c := make(chan bool, 1)
		go func() { c <- true }()
		<-c
	}
}

func Yv(k int, v int) int {
	Yield(k)
	println(k, v)
	return v
}

func GId[X any](k int, v X) X {
	Yield(k)
	println(k)
	return v
}

type Acc struct{ S int }

func (a *Acc) Add(k, v int) int {
	Yield(k)
	a.S = (a.S + v) % 997
	return a.S
}
"""

Q_SRC_DIRECT = Q_SRC.replace("""	if Mask&(1<<uint(k%30)) != 0 {
		c := make(chan bool, 1)
		go func() { c <- true }()
		<-c
	}
""", "")

PRELUDE = """package main

import "verifprog/q"

var g [4]int

type T struct{ n int }

func (t *T) PId(k, v int) int { q.Yield(k); t.n++; println(k, v); return v }
func (t T) VId(k, v int) int  { q.Yield(k); println(k, v, t.n); return v }

type U int

func (u U) PId(k, v int) int { q.Yield(k); println(k, v, int(u)); return v }

type I interface{ PId(k, v int) int }

func gid[X any](k int, v X) X { q.Yield(k); println(k); return v }
func yv(k, v int) int         { q.Yield(k); println(k, v); return v }
func nb(v int) int            { println(-1, v); return v }
func abs2(v int) int {
	if v < 0 {
		v = -v
	}
	return v % 2
}
"""


# kinds whose callee is resolved statically, so that with an empty Yield nothing in the program is blocking.
# A directly called function literal is NOT in this list: FuncInfo.Visit leaves the FuncLit (and the call expression
# around it) on its visitor stack, a later markBlocking then marks that call expression Blocking as well, and in the
# direct build the call is hoisted past earlier non-blocking calls (the recorded hoisting finding, in disguise).
STATIC_KINDS = ["direct", "pmeth", "vmeth", "mexpr", "xpkg", "generic", "xgeneric"]


class Rich:
    def __init__(self, r, static_only=False):
        self.r = r
        self.procs = []
        self.void = False
        self.kinds = STATIC_KINDS if static_only else KINDS
        self.static_only = static_only
        self.site = 0
        self.cov = {}

    def k(self):
        self.site += 1
        return self.site - 1

    def hit(self, key):
        self.cov[key] = self.cov.get(key, 0) + 1

    # ---- the yielding identity
    def W(self, e, kind=None):
        r = self.r
        kind = kind or r.choice(self.kinds)
        self.hit("call:" + kind)
        k = self.k()
        if kind == "direct":
            return "yv(%d, %s)" % (k, e)
        if kind == "pmeth":
            return "tp.PId(%d, %s)" % (k, e)
        if kind == "vmeth":
            return "tv.VId(%d, %s)" % (k, e)
        if kind == "mval":
            return "mv(%d, %s)" % (k, e)
        if kind == "mexpr":
            return "(*T).PId(tp, %d, %s)" % (k, e)
        if kind == "iface":
            return "it.PId(%d, %s)" % (k, e)
        if kind == "ifacev":
            return "iu.PId(%d, %s)" % (k, e)
        if kind == "fval":
            return "fv(%d, %s)" % (k, e)
        if kind == "lit":
            return "func(a int) int { q.Yield(%d); println(%d, a); return a }(%s)" % (k, k, e)
        if kind == "xpkg":
            return "q.Yv(%d, %s)" % (k, e)
        if kind == "generic":
            return "gid[int](%d, %s)" % (k, e)
        if kind == "xgeneric":
            return "q.GId(%d, %s)" % (k, e)
        raise ValueError(kind)

    # ---- expressions
    def leaf(self):
        r = self.r
        c = r.random()
        if c < 0.4:
            v = r.randint(-9, 9)
            return str(v) if v >= 0 else "(%d)" % v
        if c < 0.9:
            return r.choice(self.vars)
        return "g[%d]" % r.randrange(4)

    def E(self, d=2, w=0.45):
        """int expression of magnitude < ~10^7"""
        r = self.r
        if d == 0 or r.random() < 0.25:
            e = self.leaf()
        else:
            op = r.choice(["+", "-", "+", "-", "*"])
            if op == "*":
                e = "(%s * %s)" % (self.leaf(), self.leaf())
                return self.W(e) if r.random() < w * 0.5 else e
            e = "(%s %s %s)" % (self.E(d - 1, w), op, self.E(d - 1, w))
        if r.random() < w:
            return self.W(e)
        return e

    def B(self, d=2):
        """boolean expression"""
        r = self.r
        c = r.random()
        if d > 0 and c < 0.35:
            op = r.choice(["&&", "||"])
            self.hit("logic:" + op)
            return "(%s %s %s)" % (self.B(d - 1), op, self.B(d - 1))
        if d > 0 and c < 0.42:
            return "!%s" % self.B(d - 1)
        v = r.choice(self.vars)          # a variable on the left: never a constant expression
        if r.random() < 0.3:
            v = self.W(v)
        return "(%s %s %s)" % (v, r.choice(["<", "<=", "==", "!=", ">"]), self.E(1))

    def bounded(self, d=2):
        return "%s %% %d" % (self.E(d), M)

    # ---- statements
    def block(self, depth, ind, n=None):
        r = self.r
        out = []
        for _ in range(n or r.randint(1, 3)):
            out += self.stmt(depth, ind)
        return out

    def lhs(self):
        return self.r.choice(self.assignable)

    def stmt(self, depth, ind):
        r = self.r
        pad = "\t" * ind
        self.budget -= 1
        c = r.random()
        deep = depth >= 3 or self.budget <= 0
        if c < 0.14:
            return [pad + "%s = %s" % (self.lhs(), self.bounded())]
        if c < 0.20:
            self.hit("stmt:opassign")
            x = self.lhs()
            return [pad + "%s = (%s + %s) %% %d" % (x, x, self.E(1), M)]
        if c < 0.27:
            return [pad + "println(%s)" % self.E(2)]
        if c < 0.32:
            self.hit("stmt:multiassign")
            a, b = r.sample(self.assignable, 2)
            return [pad + "%s, %s = %s, %s" % (a, b, self.bounded(1), self.bounded(1))]
        if c < 0.37:
            self.hit("stmt:globals")
            # (the index stays call-free: an assignment whose left operand contains a call and whose right side contains a
            #  blocking call is the recorded finding assign-rhs-blocking-call-before-lhs-operand-call; see the probes)
            if r.random() < 0.5:
                return [pad + "g[%s] = %s" % (self.W(str(r.randrange(4))), self.leaf())]
            return [pad + "g[%d] = %s" % (r.randrange(4), self.bounded(1))]
        if c < 0.40 and self.procs:
            self.hit("stmt:proc-call")
            return [pad + "%s(%s, %s)" % (r.choice(self.procs), self.bounded(1), self.bounded(1))]
        if c < 0.43 and self.callees:
            # call of another generated function: a side-effecting NON-blocking earlier argument, a blocking later one
            self.hit("stmt:call-args-order")
            f = r.choice(self.callees)
            a1 = "nb(%d)" % r.randint(0, 9) if r.random() < 0.6 else self.bounded(1)
            return [pad + "%s = %s(%s, %s)" % (self.lhs(), f, a1, self.bounded(1))]
        if c < 0.48:
            self.hit("stmt:composite")
            k2 = r.random()
            if k2 < 0.4:
                return [pad + "sl = []int{%s, %s}" % (self.E(1, 0.8), self.E(1, 0.8)),
                        pad + "%s = (sl[%s] - sl[1]) %% %d" % (self.lhs(), "abs2(%s)" % self.E(1, 0.8), M)]
            if k2 < 0.7:
                return [pad + "tv = T{%s %% 7}" % self.E(1, 0.9), pad + "println(tv.n)"]
            return [pad + "ar = [2]int{%s, %s}" % (self.E(1, 0.8), self.E(1, 0.8)),
                    pad + "ar[abs2(%s)] = %s" % (self.E(1, 0.8), self.leaf()), pad + "println(ar[0], ar[1])"]
        if c < 0.52:
            self.hit("stmt:closure-call")
            x = self.lhs()
            return [pad + "func() {", pad + "\t%s = %s" % (x, self.bounded(1)), pad + "}()"]
        if c < 0.56:
            self.hit("stmt:acc")
            return [pad + "println(acc.Add(%d, %s))" % (self.k(), self.E(1))]
        if deep:
            return [pad + "println(%s)" % self.E(1)]
        if c < 0.68:
            self.hit("stmt:if")
            L = [pad + "if %s {" % self.B()]
            L += self.block(depth + 1, ind + 1)
            k2 = r.random()
            if k2 < 0.35:
                self.hit("stmt:else-if")
                L.append(pad + "} else if %s {" % self.B(1))
                L += self.block(depth + 1, ind + 1)
            if k2 < 0.7:
                L.append(pad + "} else {")
                L += self.block(depth + 1, ind + 1)
            L.append(pad + "}")
            return L
        if c < 0.80 and len(self.loops) < 2:
            return self.forstmt(depth, ind)
        if c < 0.88:
            return self.switchstmt(depth, ind)
        if c < 0.93 and len(self.loops) < 2:
            return self.rangestmt(depth, ind)
        if c < 0.96 and depth == 0 and self.may_goto:
            return self.gotostmt(depth, ind)
        if self.loops:
            tgt = r.randrange(len(self.loops))
            lp = self.loops[tgt]
            kind = r.choice(["break", "continue"])
            if lp["kind"] == "switch":
                kind = "break"
            if tgt == len(self.loops) - 1 and r.random() < 0.5 and not (kind == "continue" and lp["kind"] == "switch"):
                br = kind
            else:
                lp["used"] = True
                br = "%s %s" % (kind, lp["label"])
            self.hit("stmt:" + kind)
            return [pad + "if %s {" % self.B(1), pad + "\t" + br, pad + "}"]
        if self.panicky and r.random() < 0.5:
            self.hit("stmt:panic")
            return [pad + "if %s {" % self.B(1), pad + "\tpanic(%s)" % self.E(1, 0.8), pad + "}"]
        self.hit("stmt:early-return")
        if self.void:
            return [pad + "if %s {" % self.B(1), pad + "\treturn", pad + "}"]
        return [pad + "if %s {" % self.B(1), pad + "\treturn %s" % self.bounded(1), pad + "}"]

    def newlabel(self):
        self.nlabel += 1
        return "L%d" % self.nlabel

    def forstmt(self, depth, ind):
        r = self.r
        pad = "\t" * ind
        self.hit("stmt:for")
        self.nvar += 1
        i = "i%d" % self.nvar
        lp = dict(label=self.newlabel(), used=False, kind="for")
        init = self.W(str(r.randint(0, 1))) if r.random() < 0.6 else str(r.randint(0, 1))
        bound = self.W(str(r.randint(1, 3))) if r.random() < 0.6 else str(r.randint(1, 3))
        cond = "%s < %s" % (i, bound)
        if r.random() < 0.25:
            self.hit("for:cond-logic")
            cond = "%s && %s" % (cond, self.B(0))
        step = self.W("1") if r.random() < 0.6 else "1"
        self.loops.append(lp)
        self.vars.append(i)
        body = self.block(depth + 1, ind + 1)
        if r.random() < 0.3:
            # closures capturing the loop variable (Go <= 1.21 semantics: one variable per loop)
            self.hit("for:closure-capture")
            body.append("\t" * (ind + 1) + "fs = append(fs, func() int { return %s })" % self.W("%s*10 + %s" % (i, self.leaf())))
        self.vars.remove(i)
        self.loops.pop()
        L = []
        if lp["used"]:
            L.append(pad + lp["label"] + ":")
        L.append(pad + "for %s := %s; %s; %s += %s {" % (i, init, cond, i, step))
        L += body
        L.append(pad + "}")
        return L

    def rangestmt(self, depth, ind):
        r = self.r
        pad = "\t" * ind
        self.hit("stmt:range")
        self.nvar += 1
        i, x = "i%d" % self.nvar, "e%d" % self.nvar
        lp = dict(label=self.newlabel(), used=False, kind="for")
        c = r.random()
        if c < 0.5:
            src = "[]int{%s, %s, %s}" % (self.E(1, 0.7), self.E(0), self.E(1, 0.7))
        elif c < 0.75:
            src = "[2]int{%s, %s}" % (self.E(1, 0.7), self.E(1, 0.7))
        else:
            src = None
        self.loops.append(lp)
        self.vars += [i, x]
        body = ["\t" * (ind + 1) + "_, _ = %s, %s" % (i, x)] + self.block(depth + 1, ind + 1)
        if r.random() < 0.5:
            self.hit("range:closure-capture")
            body.append("\t" * (ind + 1) + "fs = append(fs, func() int { %s += %s; return %s })" % (x, i, self.W("%s %% %d" % (x, M))))
        self.vars.remove(i)
        self.vars.remove(x)
        self.loops.pop()
        L = []
        if lp["used"]:
            L.append(pad + lp["label"] + ":")
        if src is None:
            self.hit("range:string")
            L.append(pad + "for %s, c%s := range \"aé%s\" {" % (i, x, "z" * r.randint(0, 2)))
            L.append(pad + "\t%s := int(c%s) %% 50" % (x, x))
        else:
            L.append(pad + "for %s, %s := range %s {" % (i, x, src))
        L += body
        L.append(pad + "}")
        return L

    def switchstmt(self, depth, ind):
        r = self.r
        pad = "\t" * ind
        self.hit("stmt:switch")
        lp = dict(label=self.newlabel(), used=False, kind="switch")
        tagless = r.random() < 0.3
        self.loops.append(lp)
        n = r.randint(1, 3)
        cl = []
        pool = list(range(-2, 5))
        r.shuffle(pool)
        for ci in range(n):
            if tagless:
                cl.append(pad + "case %s:" % self.B(1))
            else:
                vals = []
                for _ in range(r.randint(1, 2)):
                    c2 = r.random()
                    if c2 < 0.4:
                        vals.append(str(pool.pop()))       # distinct constants only (duplicates do not compile)
                    elif c2 < 0.8:
                        vals.append(self.W(str(r.randint(-2, 4))))
                    else:
                        vals.append(r.choice(self.vars))
                cl.append(pad + "case %s:" % ", ".join(vals))
            cl += self.block(depth + 1, ind + 1, n=r.randint(1, 2))
            if ci < n - 1 and r.random() < 0.25:
                self.hit("switch:fallthrough")
                cl.append(pad + "\tfallthrough")
        if r.random() < 0.6:
            cl.append(pad + "default:")
            cl += self.block(depth + 1, ind + 1, n=1)
        self.loops.pop()
        L = []
        if lp["used"]:
            L.append(pad + lp["label"] + ":")
        if tagless:
            L.append(pad + "switch {")
        else:
            L.append(pad + "switch %s %% 5 {" % self.E(1, 0.8))
        return L + cl + [pad + "}"]

    def gotostmt(self, depth, ind):
        r = self.r
        pad = "\t" * ind
        self.hit("stmt:goto")
        lab = self.newlabel()
        self.nvar += 1
        i = "i%d" % self.nvar
        self.prologue.append("\tvar %s int" % i)
        self.prologue.append("\t_ = %s" % i)
        self.vars.append(i)
        saved, self.may_goto = self.may_goto, False
        body = self.block(depth + 2, ind + 1, n=r.randint(1, 2))
        self.may_goto = saved
        self.vars.remove(i)
        return [pad + "%s = 0" % i, pad[:-1] + lab + ":", pad + "if %s < %s {" % (i, self.W(str(r.randint(1, 3))))] + body + \
               [pad + "\t%s++" % i, pad + "\tgoto %s" % lab, pad + "}"]

    # ---- functions
    def function(self, idx, callees, void=False):
        r = self.r
        self.void = void
        self.callees = callees
        self.vars = ["a", "b", "x0", "x1", "x2"]
        self.assignable = ["x0", "x1", "x2"]
        self.loops = []
        self.nlabel = 0
        self.nvar = 0
        self.budget = 12
        self.prologue = []
        self.may_goto = True
        has_defer = r.random() < 0.6
        # unnamed results matter: with a blocking deferred call the returned value only survives the suspension
        # through the re-executed `return $r` case (statements.go, issue 603); named results go another way
        named = r.random() < (0.55 if has_defer else 0.3)
        if void:
            # a procedure: no results, control falls off the end of the body (the translator synthesises the final
            # return), usually with deferred calls that suspend while the function is being left
            has_defer = r.random() < 0.85
            named = False
        # panics only with named results: with unnamed results any suspension of a deferred call after a recovered
        # panic loses the zero result (recorded finding suspend-in-deferred-after-recover-loses-zero-results, see the probes)
        self.panicky = has_defer and named and r.random() < 0.7
        name = ("p%d" if void else "r%d") % idx
        L = []
        if void:
            L.append("func %s(a, b int) {" % name)
        else:
            L.append("func %s(a, b int) (res int) {" % name if named else "func %s(a, b int) int {" % name)
        L.append("\tvar x0, x1, x2 int")
        L.append("\tvar sl []int")
        L.append("\tvar ar [2]int")
        L.append("\tvar fs []func() int")
        L.append("\ttp := &T{}")
        L.append("\ttv := T{1}")
        L.append("\tvar it I = tp")
        L.append("\tvar iu I = U(%d)" % r.randint(1, 5))
        L.append("\tmv := tp.PId")
        L.append("\tfv := yv")
        L.append("\tacc := &q.Acc{}")
        L.append("\t_, _, _, _, _, _, _, _, _, _, _, _ = x0, x1, x2, sl, ar, fs, tv, it, iu, mv, fv, acc")
        body = []
        if has_defer:
            self.hit("fn:defer-void" if void else "fn:defer-named" if named else "fn:defer-unnamed")
            for _ in range(r.randint(1, 3)):
                c = r.random()
                if c < 0.35 and named:
                    self.hit("defer:closure-named-result")
                    body.append("\tdefer func() {")
                    body.append("\t\tres = (res + %s) %% %d" % (self.E(1, 0.9), M))
                    body.append("\t\tprintln(res)")
                    body.append("\t}()")
                elif c < 0.35:
                    self.hit("defer:closure")
                    body.append("\tdefer func() {")
                    body.append("\t\tprintln(%s)" % self.E(1, 0.9))
                    body.append("\t}()")
                elif c < 0.5:
                    self.hit("defer:method")
                    body.append("\tdefer tp.PId(%d, %s)" % (self.k(), self.E(1)))
                elif c < 0.6:
                    self.hit("defer:xpkg")
                    body.append("\tdefer q.Yield(%d)" % self.k())
                elif c < 0.7 and not self.static_only:
                    self.hit("defer:mval")
                    body.append("\tdefer mv(%d, %s)" % (self.k(), self.E(1)))
                elif c < 0.8 and not self.static_only:
                    self.hit("defer:iface")
                    body.append("\tdefer it.PId(%d, %s)" % (self.k(), self.E(1)))
                else:
                    self.hit("defer:arg-eval")
                    body.append("\tdefer yv(%d, %s)" % (self.k(), self.E(1, 0.9)))
            if self.panicky:
                self.hit("defer:recover")
                # registered last = runs first; it must not suspend before recover() (recorded finding
                # defer-suspend-during-panic-drops-remaining-defers, see the probes); suspending after recover() is fine
                body.append("\tdefer func() {")
                body.append("\t\tif e := recover(); e != nil {")
                if named:
                    body.append("\t\t\tres = (%s + e.(int)) %% %d" % (self.W("res"), M))
                    body.append("\t\t\tprintln(res)")
                else:
                    body.append("\t\t\tprintln(%s)" % self.W("e.(int)"))
                body.append("\t\t}")
                body.append("\t}()")
        main_block = self.block(0, 1, n=r.randint(3, 5))
        if not void and self.procs:
            # every procedure is called at least once from every function
            for pn in self.procs:
                self.hit("stmt:proc-call")
                main_block.insert(r.choice([0, len(main_block)]), "\t%s(%s, %s)" % (pn, self.bounded(1), self.bounded(1)))
        body += main_block
        body.append("\tfor _, f := range fs {")
        body.append("\t\tx0 = (x0*3 + f()) % 997")
        body.append("\t}")
        if self.panicky and r.random() < 0.4:
            self.hit("stmt:panic-last")
            body.append("\tif %s {" % self.B(1))
            body.append("\t\tpanic(%s)" % self.W("x0"))
            body.append("\t}")
        if void:
            body.append("\tg[%d] = (g[%d] + x0 + %s) %% %d" % (idx % 4, idx % 4, self.E(1), M))
            if r.random() < 0.5:
                body.append("\tprintln(%s)" % self.E(1, 0.8))      # the last statement before the closing brace suspends
        else:
            body.append("\treturn %s" % self.bounded())
        return "\n".join(L + self.prologue + body + ["}"]) + "\n"


def rich_program(r, masks, static_only=False):
    g = Rich(r, static_only)
    nf = r.randint(1, 3)
    nproc = r.randint(1, 2)
    g.procs = []
    procs = [g.function(i, [], void=True) for i in range(nproc)]
    g.procs = ["p%d" % i for i in range(nproc)]
    fns = [None] * nf
    for i in reversed(range(nf)):
        fns[i] = g.function(i, ["r%d" % j for j in range(i + 1, nf)])
    fns = procs + fns
    main = ["func main() {",
            "\tmasks := [...]int{%s}" % ", ".join(str(m) for m in masks),
            "\tfor _, m := range masks {",
            "\t\tq.Mask = m",
            "\t\tg = [4]int{}",
            "\t\tprintln(-77777777)",
            "\t\tr := r0(%d, %d)" % (r.randint(-5, 5), r.randint(-5, 5)),
            "\t\tprintln(-77777777)",
            "\t\tprintln(r, g[0], g[1], g[2], g[3])",
            "\t}",
            "}"]
    src = PRELUDE + "\n" + "\n".join(fns) + "\n" + "\n".join(main) + "\n"
    return dict(files={"main.go": src, "q/q.go": Q_SRC}, files_direct={"main.go": src, "q/q.go": Q_SRC_DIRECT},
                cov=g.cov, sites=g.site, static_only=static_only)


# ------------------------------------------------------------------ probes for the evaluation-order finding

PROBE_TEMPLATE = """package main

var mask int

func yield(k int) {%s
}

func yv(k, v int) int { yield(k); println(k, v); return v }
func nb(v int) int    { println(-1, v); return v }

type T struct{ a, b int }
type R struct{ n int }

func (r R) M(v int) int { return r.n + v }
func mk(v int) R        { println(-2, v); return R{v} }
func two(v int) (int, int) {
	return %s
}

func main() {
	masks := [...]int{%s}
	for _, m := range masks {
		mask = m
		println(-77777777)
		var arr [3]int
%s
		println(-77777777)
		println(arr[0])
	}
}
"""

PROBES = {
    "binary": ("nb(1), 0", "\t\tx := nb(1) + yv(0, 2)\n\t\tprintln(x)"),
    "struct-literal": ("nb(1), 0", "\t\tt := T{nb(3), yv(0, 4)}\n\t\tprintln(t.a, t.b)"),
    "slice-literal": ("nb(1), 0", "\t\ta := []int{nb(5), yv(0, 6)}\n\t\tprintln(a[0], a[1])"),
    "index-assign": ("nb(1), 0", "\t\tarr[nb(1)] = yv(0, 7)\n\t\tprintln(arr[1])"),
    "receiver": ("nb(1), 0", "\t\tprintln(mk(2).M(yv(0, 3)))"),
    "return-list": ("nb(8), yv(0, 9)", "\t\ta, b := two(0)\n\t\tprintln(a, b)"),
    # controls: the translator does preserve the order here
    "control-call-args": ("nb(1), 0", "\t\ta, b := two(0)\n\t\tc := func(p, q int) int { return p*10 + q }(nb(1), yv(0, 2))\n\t\tprintln(a, b, c)"),
    "control-multi-assign": ("nb(1), 0", "\t\tvar a, b int\n\t\ta, b = nb(1), yv(0, 2)\n\t\tprintln(a, b)"),
}
YIELD_BODY = """
	if mask&(1<<uint(k)) != 0 {
		c := make(chan bool, 1)
		go func() { c <- true }()
		<-c
	}"""


def probe_program(name, masks, blocking=True):
    ret, body = PROBES[name]
    return PROBE_TEMPLATE % (YIELD_BODY if blocking else "", ret, ", ".join(str(m) for m in masks), body)


# ------------------------------------------------------------------ compile-only call graph programs

def graph_program(r):
    """-> dict(files=..., names=[decl full names in node order], graph=[(direct, [callee idx])], nnamed=int)"""
    npk = r.randint(3, 5)       # functions in package q
    nmain = r.randint(4, 8)     # functions in package main
    nodes = []                  # dict(pkg, name(decl full name), call(expr text from main), callq (expr text from q), direct, callees)

    def add(pkg, decl, call_main, call_q):
        nodes.append(dict(pkg=pkg, decl=decl, call_main=call_main, call_q=call_q, direct=False, callees=[], body=[]))
        return len(nodes) - 1

    qf = [add("q", "func:verifprog/q.F%d" % i, "q.F%d()" % i, "F%d()" % i) for i in range(npk)]
    qm = add("q", "func:verifprog/q.(*S).M", "(&q.S{}).M()", "(&S{}).M()")
    qg = add("q", "func:verifprog/q.G<int>", "q.G[int]()", "G[int]()")
    mf = [add("main", "func:..m%d" % i, "m%d()" % i, None) for i in range(nmain)]
    mm = add("main", "func:..(*T).M", "(&T{}).M()", None)
    mv = add("main", "func:..V.N", "V(1).N()", None)
    mg = add("main", "func:..gen<int>", "gen[int]()", None)
    nnamed = len(nodes)
    lits = []

    def calltext(caller, callee):
        return nodes[callee]["call_q"] if nodes[caller]["pkg"] == "q" else nodes[callee]["call_main"]

    def targets_for(i):
        if nodes[i]["pkg"] == "q":
            return [j for j in range(nnamed) if nodes[j]["pkg"] == "q"]
        if i == mg:
            # a qualified generic instance called inside a generic function makes the compiler panic
            # ("Substituting types.Signatures with generic functions", DESIGN.md finding F12, property C04)
            return [j for j in range(nnamed) if j != qg]
        return list(range(nnamed))

    kinds_used = {}
    # Half of the programs are sparse: one or two call chains through the functions in an order unrelated to the
    # declaration order (every link against the declaration order costs the fixpoint iteration one more pass), each
    # link of a random edge kind, ending in one blocking operation; everything else stays empty.  The other half are
    # dense random graphs.
    chain_next = {}
    sparse = r.random() < 0.5
    if sparse:
        for _ in range(r.randint(1, 2)):
            pool = [j for j in range(nnamed) if j not in chain_next]
            r.shuffle(pool)
            path = []
            for j in pool[:r.randint(2, 6)]:
                if not path or j in targets_for(path[-1]):
                    path.append(j)
            for a, b in zip(path, path[1:]):
                chain_next[a] = b
            if path:
                chain_next[path[-1]] = -1        # the end of the chain blocks directly
    for i in range(nnamed):
        nd = nodes[i]
        # mostly one statement per function, so that a function's flag depends on that single edge / operation
        nst = r.choice([0, 1, 1, 1, 1, 2, 2, 3])
        if sparse:
            nst = 1 if i in chain_next else 0
        for _ in range(nst):
            c = r.random()
            tg = r.choice(targets_for(i))
            if sparse:
                if chain_next[i] == -1:
                    c = r.choice([0.72, 0.78, 0.86, 0.62, 0.99])      # a blocking operation of some kind
                else:
                    tg = chain_next[i]
                    c = r.choice([0.1, 0.4, 0.5, 0.5, 0.95])          # static / defer / literal call / deferred literal
            ct = calltext(i, tg)

            def use(kind):
                kinds_used[kind] = kinds_used.get(kind, 0) + 1
            if c < 0.26:
                use("static"); nd["body"].append(ct); nd["callees"].append(tg)
            elif c < 0.34:
                use("go"); nd["body"].append("go " + ct)
            elif c < 0.46:
                use("defer"); nd["body"].append("defer " + ct); nd["callees"].append(tg)
            elif c < 0.54:
                use("literal-call")
                li = len(nodes) + len(lits)
                lits.append(dict(direct=False, callees=[tg], owner=i))
                nd["body"].append("func() { %s }()" % ct); nd["callees"].append(li)
            elif c < 0.60:
                use("literal-var"); nd["body"].append("fv%d := func() { %s }; _ = fv%d" % (len(nd["body"]), ct, len(nd["body"])))
                lits.append(dict(direct=False, callees=[tg], owner=i))
            elif c < 0.66:
                use("var-call"); nd["body"].append("fx%d := func() {}; fx%d()" % (len(nd["body"]), len(nd["body"])))
                lits.append(dict(direct=False, callees=[], owner=i))
                nd["direct"] = True
            elif c < 0.71:
                use("iface-call"); nd["body"].append("var ii interface{ M() } = &%sS2{}; ii.M()" % ("" if nd["pkg"] == "q" else "q."))
                nd["direct"] = True
            elif c < 0.76:
                use("recv"); nd["body"].append("<-ch"); nd["direct"] = True
            elif c < 0.80:
                use("send"); nd["body"].append("ch <- 1"); nd["direct"] = True
            elif c < 0.84:
                use("select-default"); nd["body"].append("select {\n\t\tcase <-ch:\n\t\tdefault:\n\t\t}")
            elif c < 0.88:
                use("select-blocking"); nd["body"].append("select {\n\t\tcase <-ch:\n\t\t}"); nd["direct"] = True
            elif c < 0.91:
                use("range-chan"); nd["body"].append("for range ch {\n\t\t}"); nd["direct"] = True
            elif c < 0.94:
                use("builtin-conv"); nd["body"].append("_ = len([]int{int(int8(3))})")
            elif c < 0.97:
                use("defer-literal")
                li = len(nodes) + len(lits)
                lits.append(dict(direct=False, callees=[tg], owner=i))
                nd["body"].append("defer func() { %s }()" % ct); nd["callees"].append(li)
            else:
                use("method-value-call"); nd["body"].append("mvv%d := (&%sS2{}).M; mvv%d()" % (len(nd["body"]), "" if nd["pkg"] == "q" else "q.", len(nd["body"])))
                nd["direct"] = True

    def body(nd):
        return "\n".join("\tif ch != nil {\n\t\t%s\n\t}" % b for b in nd["body"])

    qsrc = ["package q", "", "var ch chan int", "", "type S struct{}", "type S2 struct{}", "", "func (s *S2) M() {}", ""]
    for i in qf:
        qsrc.append("func F%d() {\n%s\n}\n" % (qf.index(i), body(nodes[i])))
    qsrc.append("func (s *S) M() {\n%s\n}\n" % body(nodes[qm]))
    qsrc.append("func G[X any]() {\n%s\n}\n" % body(nodes[qg]))
    msrc = ["package main", "", 'import "verifprog/q"', "", "var ch chan int", "var _ = q.S2{}", "", "type T struct{}", "type V int", ""]
    for i in mf:
        msrc.append("func m%d() {\n%s\n}\n" % (mf.index(i), body(nodes[i])))
    msrc.append("func (t *T) M() {\n%s\n}\n" % body(nodes[mm]))
    msrc.append("func (v V) N() {\n%s\n}\n" % body(nodes[mv]))
    msrc.append("func gen[X any]() {\n%s\n}\n" % body(nodes[mg]))
    # main references everything so that nothing is unused; never runs any of it
    msrc.append("func main() {\n\tif ch != nil {\n%s\n\t}\n}\n" % "\n".join("\t\t" + nodes[i]["call_main"] for i in range(nnamed)))
    graph = [(nd["direct"], nd["callees"]) for nd in nodes] + [(l["direct"], l["callees"]) for l in lits]
    # visiting order of the analysis (Info.allInfos, packages in dependency order): a function, then its literals
    order = []
    for i in range(nnamed):
        order.append(i)
        order += [nnamed + k for k, l in enumerate(lits) if l["owner"] == i]
    return dict(order=order, files={"main.go": "\n".join(msrc), "q/q.go": "\n".join(qsrc)}, names=[nd["decl"] for nd in nodes],
                graph=graph, nnamed=nnamed, kinds=kinds_used)


# ------------------------------------------------------------------ expression statements (Model/C02_Hoist.v)

HOIST_PRELUDE = """package main

var mask int

func yield(k int) {@YIELD@
}

func b0(id int) int                { yield(id % 30); println(id); return 1 }
func b1(id, a int) int             { yield(id % 30); println(id); return a + 1 }
func b2(id, a, b int) int          { yield(id % 30); println(id); return a + b }
func b3(id, a, b, c int) int       { yield(id % 30); println(id); return a + b + c }
func b4(id, a, b, c, d int) int    { yield(id % 30); println(id); return a + b + c + d }
func b5(id, a, b, c, d, e int) int { yield(id % 30); println(id); return a + b + c + d + e }
func n0(id int) int                { println(id); return 1 }
func n1(id, a int) int             { println(id); return a + 1 }
func n2(id, a, b int) int          { println(id); return a + b }
func n3(id, a, b, c int) int       { println(id); return a + b + c }
func n4(id, a, b, c, d int) int    { println(id); return a + b + c + d }
func n5(id, a, b, c, d, e int) int { println(id); return a + b + c + d + e }

type R struct{ k int }

func (r *R) vb(id int, xs ...int) int { yield(id % 30); println(id); return len(xs) + r.k }
func (r *R) vn(id int, xs ...int) int { println(id); return len(xs) + r.k }

// the target of `defer` / `go` statements: its own execution is not observed, only that of its operands
func sink(xs ...int) {}
"""


def gen_hexpr(r, d, ids, all_blocking=False):
    """('leaf',) | ('bin', a, b) | ('call', blk, id, [args], form)   form: 'direct' | 'vmeth' (variadic method)"""
    c = r.random()
    if d == 0 or c < 0.15:
        return ("leaf",)
    if c < 0.45:
        return ("bin", gen_hexpr(r, d - 1, ids, all_blocking), gen_hexpr(r, d - 1, ids, all_blocking))
    args = gen_hargs(r, d, ids, all_blocking)
    ids[0] += 1
    return ("call", True if all_blocking else r.random() < 0.5, ids[0], args, r.choice(["direct", "direct", "vmeth"]))


def gen_hargs(r, d, ids, all_blocking=False):
    n = r.choice([0, 0, 1, 1, 2, 2, 3, 4, 5])
    args = [gen_hexpr(r, d - 1, ids, all_blocking) for _ in range(n)]
    if n >= 2 and not all_blocking and r.random() < 0.6:
        # the shapes translateArgs exists for: operands with an inline (non-blocking) call before, BETWEEN and after
        # suspending operands — every operand has to be saved as soon as any later one suspends
        pat = r.choice(["nb", "bnb", "nbnb", "bnbn", "nbnbn", "xbnb"])
        for k, ch in enumerate(pat[:n]):
            if ch == "x":
                continue
            ids[0] += 1
            args[k] = ("call", ch == "b", ids[0], [], "direct")
    return args


def hexpr_go(e):
    if e[0] == "leaf":
        return "v"
    if e[0] == "bin":
        return "(%s + %s)" % (hexpr_go(e[1]), hexpr_go(e[2]))
    args = [str(e[2])] + [hexpr_go(a) for a in e[3]]
    if e[4] == "vmeth":
        return "rcv.v%s(%s)" % ("b" if e[1] else "n", ", ".join(args))
    return "%s%d(%s)" % ("b" if e[1] else "n", len(e[3]), ", ".join(args))


def hexpr_coq(e):
    if e[0] == "leaf":
        return "HLeaf"
    if e[0] == "bin":
        return "(HBin %s %s)" % (hexpr_coq(e[1]), hexpr_coq(e[2]))
    return "(HCall %s %d%%nat [%s])" % ("true" if e[1] else "false", e[2], "; ".join(hexpr_coq(a) for a in e[3]))


# ---- the hoisting model in Python (mirror of coq/Model/C02_Hoist.v), used only to decide whether a deviation from
#      Go's order falls into the recorded finding's input class or is a NEW violation
def h_marked(e):
    if e[0] == "leaf":
        return False
    if e[0] == "bin":
        return h_marked(e[1]) or h_marked(e[2])
    return e[1] or any(h_marked(a) for a in e[3])


def h_tr(e):
    if e[0] == "leaf":
        return [], []
    if e[0] == "bin":
        pa, ia = h_tr(e[1]); pb, ib = h_tr(e[2])
        return pa + pb, ia + ib
    trs = [h_tr(a) for a in e[3]]
    if any(h_marked(a) for a in e[3][1:]):
        p, i = [x for pi in trs for x in pi[0] + pi[1]], []
    else:
        p, i = [x for pi in trs for x in pi[0]], [x for pi in trs for x in pi[1]]
    if h_marked(e):
        return p + i + [e[2]], []
    return p, i + [e[2]]


def h_ordered(e):
    if e[0] == "leaf":
        return True
    if e[0] == "bin":
        return h_ordered(e[1]) and h_ordered(e[2]) and (not h_tr(e[1])[1] or not h_marked(e[2]))
    return all(h_ordered(a) for a in e[3])


def hstmt_in_finding_class(st):
    """True when the model itself predicts a deviation from Go's order for this statement (recorded findings)"""
    if st[0] == "assign":
        return not h_ordered(st[1])
    if st[0] == "index":
        return True
    return not all(h_ordered(a) for a in st[1])


def hoist_program(r, masks, nstmts):
    """-> dict(files, files_direct, stmts=[('assign', e) | ('index', idx, rhs) | ('defer', [args]) | ('go', [args])])"""
    ids = [0]
    stmts, body = [], []
    for _ in range(nstmts):
        c = r.random()
        if c < 0.2:
            idx = gen_hexpr(r, 2, ids, all_blocking=True)
            rhs = gen_hexpr(r, 2, ids, all_blocking=True)
            stmts.append(("index", idx, rhs))
            body.append("\t\tarr[(%s)*0] = %s" % (hexpr_go(idx), hexpr_go(rhs)))
        elif c < 0.4:
            kind = "defer" if c < 0.3 else "go"
            args = []
            while len(args) < 2:
                args = gen_hargs(r, 2, ids)
            stmts.append((kind, args))
            call = "sink(%s)" % ", ".join(hexpr_go(a) for a in args)
            if kind == "defer":
                body.append("\t\tfunc() {\n\t\t\tdefer %s\n\t\t}()" % call)
            else:
                body.append("\t\tgo %s" % call)
        else:
            e = gen_hexpr(r, 3, ids)
            stmts.append(("assign", e))
            body.append("\t\tv = %s" % hexpr_go(e))
        body.append("\t\tprintln(-5)")
    main = ["func main() {", "\tmasks := [...]int{%s}" % ", ".join(str(m) for m in masks), "\trcv := &R{1}", "\tfor _, m := range masks {",
            "\t\tmask = m", "\t\tvar arr [1]int", "\t\tv := 1", "\t\tprintln(-77777777)"] + body + \
           ["\t\tprintln(-77777777)", "\t\tprintln(v*0 + arr[0]*0 + rcv.k*0)", "\t}", "}"]
    src = HOIST_PRELUDE + "\n" + "\n".join(main) + "\n"
    return dict(files={"main.go": src.replace("@YIELD@", YIELD_BODY)}, files_direct={"main.go": src.replace("@YIELD@", "")}, stmts=stmts)


def hstmt_coq(st):
    if st[0] == "assign":
        return "(HAssign %s)" % hexpr_coq(st[1])
    if st[0] == "index":
        return "(HIndexAssign %s %s)" % (hexpr_coq(st[1]), hexpr_coq(st[2]))
    return "(HDelegated [%s])" % "; ".join(hexpr_coq(a) for a in st[1])
