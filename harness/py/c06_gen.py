"""C06 — regenerate coq/Gen/C06_Tables.v from /repo's CURRENT tree:
  * every (integer kind, operator) template as the real compiler emits it today: a Go program with one
    function per (kind, operator, operand shape) is compiled with the real gopherjs, the `return <expr>;`
    of each function is parsed (c06_jsgen) and written as a Gallina function over the JS-number model;
  * the kind -> fixNumber suffix table (regex over compiler/expressions.go fixNumber);
  * is64Bit (regex over compiler/utils.go);
  * probed variant flags: which of the known defects are repaired in this tree (decided on the emitted
    JavaScript / the constructor source, so the model follows whichever variant /repo has).
"""
import os, re
import common as C
import c06_jsgen as G

KINDS = ["Int8", "Int16", "Int32", "Int64", "Int", "Uint8", "Uint16", "Uint32", "Uint64", "Uint", "Uintptr"]
GOTYPE = {k: k.lower() for k in KINDS}
IS64 = {"Int64", "Uint64"}
SIGNED = {"Int8", "Int16", "Int32", "Int64", "Int"}
BITS = {"Int8": 8, "Uint8": 8, "Int16": 16, "Uint16": 16, "Int64": 64, "Uint64": 64}
BINOPS = [("Add", "+"), ("Sub", "-"), ("Mul", "*"), ("Quo", "/"), ("Rem", "%"), ("And", "&"), ("Or", "|"), ("Xor", "^"), ("AndNot", "&^")]
CMPOPS = [("Eql", "=="), ("Neq", "!="), ("Lss", "<"), ("Leq", "<="), ("Gtr", ">"), ("Geq", ">=")]
UNOPS = [("Neg", "-"), ("Not", "^")]
SHOPS = [("Shl", "<<"), ("Shr", ">>")]
CONST_COUNTS = [0, 1, 5, 7, 8, 15, 16, 31, 32, 33, 40, 63, 64, 70]


def bits(k):
    return BITS.get(k, 32)


def template_program():
    L = ["package main", ""]
    names = []

    def fn(name, sig, body):
        L.append("func %s%s { return %s }" % (name, sig, body))
        names.append(name)

    for k in KINDS:
        t = GOTYPE[k]
        for o, sym in BINOPS:
            fn("%s_%s" % (k, o), "(x, y %s) %s" % (t, t), "x %s y" % sym)
        for o, sym in CMPOPS:
            fn("%s_%s" % (k, o), "(x, y %s) bool" % t, "x %s y" % sym)
        for o, sym in UNOPS:
            fn("%s_%s" % (k, o), "(x %s) %s" % (t, t), "%sx" % sym)
        for o, sym in SHOPS:
            fn("%s_%sV" % (k, o), "(x %s, n uint) %s" % (t, t), "x %s n" % sym)
            for c in CONST_COUNTS:
                fn("%s_%sC%d" % (k, o, c), "(x %s) %s" % (t, t), "x %s %d" % (sym, c))
        for k2 in KINDS:
            if k2 != k:
                fn("Conv_%s_%s" % (k, k2), "(x %s) %s" % (t, GOTYPE[k2]), "%s(x)" % GOTYPE[k2])
    # phase 4: float64 -> 64-bit kinds (constructor path) and 64-bit kinds -> float64 ($flatten64)
    for k2 in KINDS:
        if k2 in IS64:
            fn("Conv_Float64_%s" % k2, "(x float64) %s" % GOTYPE[k2], "%s(x)" % GOTYPE[k2])
            fn("Conv_%s_Float64" % k2, "(x %s) float64" % GOTYPE[k2], "float64(x)")
    L.append("")
    L.append("var sink interface{}")
    L.append("")
    L.append("func main() {")
    L.append("\tsink = []interface{}{")
    for i in range(0, len(names), 8):
        L.append("\t\t" + ", ".join(names[i:i + 8]) + ",")
    L.append("\t}")
    L.append("}")
    return "\n".join(L) + "\n", names


FUNC_RE = re.compile(r"^[ \t]*([A-Za-z0-9_]+) = function [\w$]+\(([^)]*)\) \{\n((?:[ \t]*var [^\n]*\n)?)[ \t]*return (.*);\n[ \t]*\};", re.M)


def emitted_templates(workdir):
    """compile the template program with the real compiler; returns {name: (params, expr text)}"""
    src, names = template_program()
    d = os.path.join(workdir, "c06_templates")
    C.write_go_program(d, {"main.go": src}, module="verifc06t")
    rc, log = C.gopherjs_build(d)
    if rc != 0:
        raise C.BuildError("gopherjs build of the C06 template program failed:\n" + log[-1500:])
    js = open(os.path.join(d, "out.js")).read()
    found = {}
    for m in FUNC_RE.finditer(js):
        if m.group(1) in names:
            found[m.group(1)] = ([p.strip() for p in m.group(2).split(",") if p.strip()], m.group(4))
    return names, found


def ptype(k):
    return "obj" if k in IS64 else "num"


def signature(name):
    """-> (param types, result type, class key) for a template function name"""
    if name.startswith("Conv_"):
        _, k1, k2 = name.split("_")
        return [ptype(k1)], ptype(k2)
    k, o = name.split("_")
    if o in dict(BINOPS):
        return [ptype(k), ptype(k)], ptype(k)
    if o in dict(CMPOPS):
        return [ptype(k), ptype(k)], "bool"
    if o in dict(UNOPS):
        return [ptype(k)], ptype(k)
    if o.endswith("V"):
        return [ptype(k), "num"], ptype(k)
    return [ptype(k)], ptype(k)


COQT = {"num": "jsnum", "obj": "jso", "bool": "jb"}


def fix_table(repo):
    src = open(os.path.join(repo, "compiler", "expressions.go")).read()
    m = re.search(r"func \(fc \*funcContext\) fixNumber\(.*?\n\}\n", src, re.S)
    table = {}
    if m:
        for cm in re.finditer(r"case ([^:]+):\s*\n\s*return fc\.format(?:Paren)?Expr\(\"([^\"]*)\"", m.group(0)):
            fmt = cm.group(2).strip()
            mm = re.fullmatch(r"%s << (\d+) >> (\d+)", fmt)
            if mm and mm.group(1) == mm.group(2):
                sx = "SxShlShr %s" % mm.group(1)
            elif re.fullmatch(r"%s << (\d+) >>> \1", fmt):
                sx = "SxShlUshr %s" % re.fullmatch(r"%s << (\d+) >>> \1", fmt).group(1)
            elif fmt == "%s >> 0":
                sx = "SxShr0"
            elif fmt == "%s >>> 0":
                sx = "SxUshr0"
            else:
                sx = "SxNone"
            for kk in cm.group(1).split(","):
                kk = kk.strip().replace("types.", "")
                if kk in KINDS:
                    table[kk] = sx
    return table


def is64_list(repo):
    src = open(os.path.join(repo, "compiler", "utils.go")).read()
    m = re.search(r"func is64Bit\(t \*types\.Basic\) bool \{\s*return ([^\n]*)\n", src)
    ks = re.findall(r"t\.Kind\(\) == types\.(\w+)", m.group(1)) if m else []
    return [k for k in ks if k in KINDS], (m.group(1).strip() if m else "")


def ctor_variant(repo):
    src = open(os.path.join(repo, "compiler", "prelude", "types.js")).read()
    out = {}
    for kind, shift in (("Int64", ">>"), ("Uint64", ">>>")):
        m = re.search(r"case \$kind%s:\s*typ = function \(high, low\) \{\s*this\.\$high = \(high \+ Math\.floor\(Math\.(\w+)\(low\) / 4294967296\)\) (>>>?) 0;\s*this\.\$low = low >>> 0;" % kind, src)
        out[kind] = (m.group(1), m.group(2) == shift) if m else (None, False)
    return out


def generate(workdir, repo):
    names, found = emitted_templates(workdir)
    notes = []
    defs, ok = [], {}
    for name in names:
        ptypes, rtype = signature(name)
        params = found.get(name)
        coq_params = ["x", "y"][:len(ptypes)]
        binder = " ".join("(%s : %s)" % (p, COQT[t]) for p, t in zip(coq_params, ptypes))
        body = None
        if params is None:
            notes.append("%s: function not found in the emitted JavaScript" % name)
        else:
            pnames, text = params
            try:
                if len(pnames) != len(ptypes):
                    raise G.Untranslatable("parameter count")
                # rename the JS parameters to x / y
                ty, term = G.translate(text, list(zip(pnames, ptypes)))
                if ty != rtype:
                    raise G.Untranslatable("result type %s, expected %s" % (ty, rtype))
                lets = "".join("let %s := %s in " % (G.ident(pn), cp) for pn, cp in zip(pnames, coq_params) if G.ident(pn) != cp)
                body = lets + term
            except G.Untranslatable as e:
                notes.append("%s: cannot translate `%s`: %s" % (name, text[:100], e))
        ok[name] = body is not None
        comment = "(* %s *)" % (found[name][1].replace("(*", "( *").replace("*)", "* )") if name in found else "missing")
        defs.append("%s\nDefinition t_%s %s : res %s := %s." % (comment, name, binder, COQT[rtype], body if body else "RUnk"))

    def text_of(n):
        return found[n][1].strip() if n in found else ""

    def strip_parens(s):
        while s.startswith("(") and s.endswith(")"):
            depth, okp = 0, True
            for i, ch in enumerate(s):
                depth += ch == "("
                depth -= ch == ")"
                if depth == 0 and i < len(s) - 1:
                    okp = False
                    break
            if not okp:
                break
            s = s[1:-1].strip()
        return s

    # ---- probed variants
    quo_fix = strip_parens(text_of("Int8_Quo")).endswith("<< 24 >> 24") and strip_parens(text_of("Int16_Quo")).endswith("<< 16 >> 16")
    shrc_fix = strip_parens(text_of("Int32_ShrC40")) != "0"
    neg_fix = strip_parens(text_of("Int32_Neg")) != "-x"
    rem_fix = strip_parens(text_of("Int32_Rem")).endswith(">> 0")
    cv = ctor_variant(repo)
    ctor_known = all(v[0] in ("ceil", "trunc") and v[1] for v in cv.values()) and cv["Int64"][0] == cv["Uint64"][0]
    ctor_trunc = ctor_known and cv["Int64"][0] == "trunc"
    if not ctor_known:
        notes.append("64-bit constructors in types.js have an unrecognised shape: %r" % (cv,))
    fix = fix_table(repo)
    k64, k64src = is64_list(repo)

    def opt_table(name, typ, rows, keys):
        out = ["Definition %s %s : option (%s) :=" % (name, keys[0], typ), "  match %s with" % keys[1]]
        for pat, fnname in rows:
            out.append("  | %s => Some t_%s" % (pat, fnname))
        out.append("  | %s => None" % ", ".join("_" for _ in keys[1].split(",")))
        out.append("  end.")
        return "\n".join(out)

    k32 = [k for k in KINDS if k not in IS64]
    k64l = [k for k in KINDS if k in IS64]
    T = []
    T.append(opt_table("g_bin32", "jsnum -> jsnum -> res jsnum", [("%s, %s" % (k, o), "%s_%s" % (k, o)) for k in k32 for o, _ in BINOPS], ("(k : kind) (o : binop)", "k, o")))
    T.append(opt_table("g_bin64", "jso -> jso -> res jso", [("%s, %s" % (k, o), "%s_%s" % (k, o)) for k in k64l for o, _ in BINOPS], ("(k : kind) (o : binop)", "k, o")))
    T.append(opt_table("g_cmp32", "jsnum -> jsnum -> res jb", [("%s, %s" % (k, o), "%s_%s" % (k, o)) for k in k32 for o, _ in CMPOPS], ("(k : kind) (o : cmpop)", "k, o")))
    T.append(opt_table("g_cmp64", "jso -> jso -> res jb", [("%s, %s" % (k, o), "%s_%s" % (k, o)) for k in k64l for o, _ in CMPOPS], ("(k : kind) (o : cmpop)", "k, o")))
    T.append(opt_table("g_un32", "jsnum -> res jsnum", [("%s, %s" % (k, o), "%s_%s" % (k, o)) for k in k32 for o, _ in UNOPS], ("(k : kind) (o : unop)", "k, o")))
    T.append(opt_table("g_un64", "jso -> res jso", [("%s, %s" % (k, o), "%s_%s" % (k, o)) for k in k64l for o, _ in UNOPS], ("(k : kind) (o : unop)", "k, o")))
    T.append(opt_table("g_shv32", "jsnum -> jsnum -> res jsnum", [("%s, %s" % (k, o), "%s_%sV" % (k, o)) for k in k32 for o, _ in SHOPS], ("(k : kind) (o : shop)", "k, o")))
    T.append(opt_table("g_shv64", "jso -> jsnum -> res jso", [("%s, %s" % (k, o), "%s_%sV" % (k, o)) for k in k64l for o, _ in SHOPS], ("(k : kind) (o : shop)", "k, o")))
    for nm, ks, ty in (("g_shc32", k32, "jsnum -> res jsnum"), ("g_shc64", k64l, "jso -> res jso")):
        out = ["Definition %s (k : kind) (o : shop) : list (Z * (%s)) :=" % (nm, ty), "  match k, o with"]
        for k in ks:
            for o, _ in SHOPS:
                out.append("  | %s, %s => [%s]" % (k, o, "; ".join("(%d, t_%s_%sC%d)" % (c, k, o, c) for c in CONST_COUNTS)))
        out.append("  | _, _ => []\n  end.")
        T.append("\n".join(out))
    for nm, src, dst, ty in (("g_conv_nn", k32, k32, "jsnum -> res jsnum"), ("g_conv_no", k32, k64l, "jsnum -> res jso"),
                             ("g_conv_on", k64l, k32, "jso -> res jsnum"), ("g_conv_oo", k64l, k64l, "jso -> res jso")):
        T.append(opt_table(nm, ty, [("%s, %s" % (a, b), "Conv_%s_%s" % (a, b)) for a in src for b in dst if a != b], ("(k1 k2 : kind)", "k1, k2")))

    T.append(opt_table("g_conv_fo", "jsnum -> res jso", [(b, "Conv_Float64_%s" % b) for b in k64l], ("(k2 : kind)", "k2")))
    T.append(opt_table("g_conv_of", "jso -> res jsnum", [(a, "Conv_%s_Float64" % a) for a in k64l], ("(k1 : kind)", "k1")))

    hdr = """(* GENERATED by harness/py/c06_gen.py from the current tree of %s — do not edit, not committed.
   t_<Kind>_<Op>: the JavaScript expression the real compiler emits for `return x <op> y`
   (kept in the comment above each definition), translated into the JS-number model. *)
From Coq Require Import ZArith List.
From Verif Require Import Base.C06_JsNum Model.C06_Prelude64.
Import ListNotations.
Local Open Scope Z_scope.

(* probed variants: which known defects are repaired in this tree *)
Definition quo_small_fixed : bool := %s.     (* int8/int16 quotient passed through fixNumber *)
Definition shr_const_fixed : bool := %s.     (* signed >> by a constant >= 32 emitted as x >> 31 *)
Definition neg_fixed : bool := %s.           (* unary minus of signed kinds passed through fixNumber *)
Definition rem_fixed : bool := %s.           (* remainder passed through fixNumber *)
Definition ctor_known : bool := %s.          (* types.js 64-bit constructors have a recognised shape *)
Definition ctor_trunc : bool := %s.          (* ... and use Math.trunc(low) (false: Math.ceil(low)) *)

(* compiler/expressions.go fixNumber: kind -> suffix *)
Definition fix_suffix_table : list (kind * suffix) := [%s].
(* compiler/utils.go is64Bit: %s *)
Definition is64bit_kinds : list kind := [%s].

Definition gnew64 := new64v ctor_trunc.
Definition gmul64 := mul64 ctor_trunc.
Definition gdiv64 := div64 ctor_trunc.
Definition gshl64 := shl64 ctor_trunc.
Definition gshr64 := shr64 ctor_trunc.
Definition gushr64 := ushr64 ctor_trunc.

""" % (repo, *("true" if b else "false" for b in (quo_fix, shrc_fix, neg_fix, rem_fix, ctor_known, ctor_trunc)),
       "; ".join("(%s, %s)" % (k, fix[k]) for k in KINDS if k in fix), k64src, "; ".join(k64))
    text = hdr + "\n".join(defs) + "\n\n" + "\n\n".join(T) + "\n"
    if not ctor_known:
        # an unknown constructor: make every constructor call unknown so that no theorem silently survives
        text = text.replace("Definition gnew64 := new64v ctor_trunc.", "Definition gnew64 (sg : bool) (h l : jsnum) : jso := OUnk.")
    path = os.path.join(C.COQ, "Gen", "C06_Tables.v")
    C.write_if_changed(path, text)
    flags = dict(quo_small_fixed=quo_fix, shr_const_fixed=shrc_fix, neg_fixed=neg_fix, rem_fixed=rem_fix, ctor_known=ctor_known, ctor_trunc=ctor_trunc)
    return dict(flags=flags, notes=notes, templates=len(names), translated=sum(ok.values()), fix=fix, is64=k64,
                emitted={n: found[n][1] for n in found})
