"""C18 phase 4 — correspondence for the constraint LANGUAGE, the header scanner and the post-load tweaks.

 (3) constraint lines (valid //go:build expressions printed with random spacing / redundant parentheses, legacy // +build
     lines, and malformed ones: token soup, unbalanced parentheses, `!!`, single & or |, missing operands, wrong keywords)
     are handed to the REAL go/build/constraint (IsGoBuild, IsPlusBuild, Parse, Expr.String, PlusBuildLines, Expr.Eval under
     fixed tag sets) and to the model (Model/C18_Constraint.v: parse_line, print, plus_build_lines, eval); for lines printed
     from a known tree the real Eval is also compared with the evaluation of that tree in Python (independent oracle).
 (4) package directories given as raw TEXT (headers with placement variants: constraint after the package clause, inside
     /* */, after a block comment, duplicated //go:build, `//+build`, `// +buildx`, `//go:buildx`, CRLF, indentation, blank
     lines between +build lines, malformed //go:build) are imported with the REAL NewBuildContext(..).Import and compared
     with the documented rule evaluated in Python on the EFFECTIVE constraint of each variant and with import_text of the
     model (Model/C18_Text.v, which uses the suffix specification of the name rule and should_build_text).
 (5) packages of a fake GOROOT under the import paths of applyPostloadTweaks (runtime, runtime/pprof, sync, syscall/js) and
     under other paths, through the real context and through the real VIRTUAL context (embeddedCtx, what the natives overlay
     uses): GoFiles / TestGoFiles after the tweaks and Imports / TestImports / XTestImports after updateImports, against the
     documented tweaks written down here and against postload / update_imports of the model over the regenerated table.
"""
import json, os, re
import common as C

TAGSETS = [[], ["js"], ["js", "foo", "gopherjs"], ["linux", "amd64", "bar"], ["a", "b"], ["a", "c", "ignore", "go1.20"]]
LVOCAB = ["js", "wasm", "linux", "foo", "bar", "a", "b", "c", "go1.20", "go1.21", "ignore", "gopherjs", "x_y", "A.b", "_", "9", "cgo"]


def cs(s):
    return '"' + s.replace('"', '""') + '"'


def sl(xs):
    return "[" + "; ".join(cs(x) for x in (xs or [])) + "]"


# ---------------------------------------------------------------- (3) lines

def gen_tree(r, depth):
    if depth <= 0 or r.random() < 0.3:
        return ("tag", r.choice(LVOCAB))
    k = r.random()
    if k < 0.25:
        x = gen_tree(r, depth - 1)
        return x[1] if x[0] == "not" else ("not", x)
    return ("and" if k < 0.65 else "or", gen_tree(r, depth - 1), gen_tree(r, depth - 1))


def show_tree(r, e, prec=0):
    """Go syntax with the minimal parentheses needed to read back e as a tree of the same MEANING, plus random redundant
    parentheses and random blanks"""
    sp = lambda: r.choice(["", " ", " ", "  ", "\t"])
    if e[0] == "tag":
        s = e[1]
    elif e[0] == "not":
        s = "!" + sp() * (r.random() < 0.2) + show_tree(r, e[1], 3)
    else:
        p = 2 if e[0] == "and" else 1
        s = show_tree(r, e[1], p) + sp() + ("&&" if e[0] == "and" else "||") + sp() + show_tree(r, e[2], p)
        if p < prec:
            s = "(" + sp() + s + sp() + ")"
    if r.random() < 0.12:
        s = "(" + s + ")"
    return s


def tree_eval(e, sat):
    if e[0] == "tag":
        return e[1] in sat
    if e[0] == "not":
        return not tree_eval(e[1], sat)
    a, b = tree_eval(e[1], sat), tree_eval(e[2], sat)
    return (a and b) if e[0] == "and" else (a or b)


def gen_plus_text(r):
    lits = lambda: ",".join(r.choice(["", "", "", "", "!", "!", "!!"]) + r.choice(LVOCAB + ["", "a-b", "!"]) for _ in range(r.choice([1, 1, 2, 3])))
    return r.choice([" ", " ", "  ", "\t"]).join(lits() for _ in range(r.choice([0, 1, 1, 2, 3])))


def plus_text_eval(text, sat):
    """the documented reading of a +build line: space = OR, comma = AND, ! = NOT; a malformed term reads as the tag `ignore`"""
    opts = text.split()
    if not opts:
        return "ignore" in sat
    def term(t):
        if t.startswith("!!") or t == "!":
            return "ignore" in sat
        neg = t.startswith("!")
        w = t[1:] if neg else t
        ok = bool(w) and all(ch.isalnum() or ch in "_." for ch in w)
        v = (w in sat) if ok else ("ignore" in sat)
        return (not v) if neg else v
    return any(all(term(t) for t in o.split(",")) for o in opts)


SOUP = ["a", "b", "js", "foo", "&&", "||", "!", "(", ")", "&", "|", " ", " ", "\t", "!!", "a-b", "go1.20", "()", "&&&", "#", "x y", ","]


def gen_lines(r, n):
    out = []       # (line, tree or None, plus text or None)
    fixed = ["//go:build", "//go:build ", "//go:buildx a", "// go:build a", "//go:build a\n", "//go:build a\nb", "//go:build\ta", "// +build", "//+build a",
             "// +buildx", "//  +build  a,b  c ", "// +build a\n", "//+build", "// +build !", "// +build !!a", "// +build a,,b", "//go:build !!a", "//go:build !(!a)",
             "//go:build a && b || c", "//go:build a || b && c", "//go:build !(a && b)", "//go:build (a || b) && (c || d)", "//go:build ((a))", "//go:build a &&",
             "//go:build (a", "//go:build a)", "//go:build a b", "//go:build a & b", "//go:build a | b", "//go:build ! a", "//go:build !", "//go:build ()",
             "//go:build a&&!b", "package p", "", "//", "//go:build a && (b || (c && !(d || e)))", "//go:build !a && !b", "//go:build !(a || b) || c",
             "//go:build a && b && c && d", "//go:build a || b || c", "//go:build (a && b) && c", "//go:build a && (b && c)", "//go:build a || (b || c)",
             "//go:build a,b", "//go:build a-b", " //go:build a", "//go:build a ", "//go:build a\t", "//go:build a\r", "// +build a\r"]
    out += [(l, None, None) for l in fixed]
    while len(out) < n:
        k = r.random()
        if k < 0.45:
            t = gen_tree(r, r.choice([1, 2, 2, 3, 4]))
            out.append(("//go:build" + r.choice([" ", " ", "  ", "\t"]) + show_tree(r, t) + r.choice(["", "", " ", "\n"]), t, None))
        elif k < 0.70:
            p = gen_plus_text(r)
            out.append((r.choice(["// +build", "// +build", "//+build", "//  +build"]) + (" " + p if p or r.random() < 0.5 else ""), None, p))
        else:
            body = "".join(r.choice(SOUP) + r.choice(["", " "]) for _ in range(r.randint(1, 7)))
            out.append((r.choice(["//go:build ", "//go:build ", "// +build ", "//go:build", "//go:buil "]) + body, None, None))
    return out


def lcase_coq(line, res):
    parse = "None" if res["err"] else "Some " + cs(res["str"])
    plus = "None" if (res["err"] or res["plus_err"]) else "Some " + sl(res["plus_lines"])
    ev = "[" + "; ".join("(%s, %s)" % (sl(s), "true" if b else "false") for s, b in zip(TAGSETS, res["evals"] or [])) + "]"
    return "{| l_line := %s; l_isgo := %s; l_isplus := %s; l_parse := %s; l_plus := %s; l_evals := %s |}" % (
        cs(line), "true" if res["is_go_build"] else "false", "true" if res["is_plus_build"] else "false", parse, plus, ev)


# ---------------------------------------------------------------- (4) text directories

def go_expr(r, e):
    return show_tree(r, e)


def conv(e):
    """props/c18.py trees ("tag"/"not"/"and"/"or") are the same shape"""
    return e


def plus_line(l):
    return "// +build" + "".join(" " + ",".join(("!" if n else "") + t for n, t in opt) for opt in l)


BAD_EXPRS = ["(js", "js)", "js &&", "&& js", "!!js", "js & wasm", "js | wasm", "js wasm", "", "!", "()", "js || || wasm", "js, wasm", "js-x"]


def render_text(r, f, pkgname):
    """-> (content, effective) where effective = dict(gobuild, plus, detached) the documented reading of this text, or "bad"
    (the file must be reported as invalid), for a structured file f of props/c18.py"""
    gb, plus, det = f["gobuild"], f["plus"], f["detached"]
    pk = "package " + pkgname
    gbl = ["//go:build " + go_expr(r, gb)] if gb is not None else []
    pl = [plus_line(l) for l in plus]
    eff = dict(gobuild=gb, plus=plus, detached=det)
    none = dict(gobuild=None, plus=[], detached=True)
    v = r.choice(["plain"] * 6 + ["after_pkg", "in_block", "after_block", "dup", "nospace", "wrongkw", "crlf", "indent", "blank_between", "comment_between",
                                  "bad", "bad", "lead_doc", "no_final_nl", "plus_after_gb_blank"])
    tail = [pk] + (['', 'import "C"'] if f["cgo"] else []) + ['import %s' % json.dumps(i) for i in f.get("imports", [])]
    head = gbl + pl
    if v == "plain" or not head:
        L = head + ([""] if head and det else []) + tail
    elif v == "after_pkg":
        L = ["// doc", ""] + tail + [""] + head + [""]
        eff = none
    elif v == "in_block":
        L = ["/*"] + head + ["*/", ""] + tail
        eff = none
    elif v == "after_block":
        # a /* */ line ends the region of +build lines, but a //go:build line is still recognised before the package clause
        L = ["/* copyright */"] + head + [""] + tail
        eff = dict(gobuild=gb, plus=[], detached=True)
    elif v == "dup" and gbl:
        L = gbl + ["//go:build " + go_expr(r, gb)] + pl + [""] + tail
        eff = "bad"
    elif v == "nospace":
        L = gbl + [l.replace("// +build", "//+build", 1) for l in pl] + ([""] if det else []) + tail
    elif v == "wrongkw":
        L = [l.replace("//go:build ", r.choice(["//go:buildx ", "// go:build ", "//go:Build ", "//go :build "]), 1) for l in gbl] + \
            [l.replace("// +build", r.choice(["// +buildx", "// + build", "// +Build", "//-build"]), 1) for l in pl] + [""] + tail
        eff = none
    elif v == "crlf":
        L = [x + "\r" for x in head + ([""] if det else [])] + tail
    elif v == "indent":
        L = [r.choice([" ", "\t", "  "]) + x + r.choice(["", " ", "\t"]) for x in head] + ([" \t"] if det else []) + tail
    elif v == "blank_between" and len(head) > 1:
        L = [y for x in head for y in (x, "")] + tail
        eff = dict(gobuild=gb, plus=plus, detached=True)
    elif v == "comment_between" and det:
        L = head + ["// an ordinary comment"] + [""] + tail
    elif v == "bad":
        L = ["//go:build " + r.choice(BAD_EXPRS)] + pl + [""] + tail
        eff = "bad"
    elif v == "lead_doc":
        L = ["// Copyright.", "", "// more", ""] + head + ([""] if det else []) + tail
    elif v == "plus_after_gb_blank" and gbl and pl:
        L = gbl + [""] + pl + [""] + tail
        eff = dict(gobuild=gb, plus=plus, detached=True)
    else:
        L = head + ([""] if det else []) + tail
    content = "\n".join(L) + ("" if v == "no_final_nl" else "\n")
    return content, eff, v


IMPORT_POOL = ["unsafe", "io", "errors", "c18std/dep", "example.org/x", "sync/atomic"]
TWEAK_DOC = {"runtime": ("all", None), "runtime/pprof": ("all", None), "sync": (["pool.go"], None), "syscall/js": ("all", "all")}   # context.go comments
POST_PATHS = ["runtime", "runtime/pprof", "sync", "syscall/js", "sync/atomic", "syscall", "c18x/runtime", "runtimex", "Sync"]


def gen_text_case(P, r, idx, kind=None):
    """a props/c18.py structured case, then rendered to text with variants"""
    if kind is None:
        kind = r.choice(["user"] * 6 + ["std"] * 3 + ["gopath"])
    c = P.gen_case(r, idx, kind=kind)
    c["id"] = "t%d" % idx
    path = None
    if kind in ("stdpath", "overlay"):
        path = r.choice(POST_PATHS)
        names = {f["name"] for f in c["files"]}
        if path.lower().startswith("sync") and "pool.go" not in names and r.random() < 0.8:
            c["files"].append(P.plain_file("pool.go"))
        if "pool_test.go" not in names and r.random() < 0.5:
            c["files"].append(P.plain_file("pool_test.go"))
        c["files"].sort(key=lambda f: f["name"].encode())
        c["goos"] = c["goarch"] = ""
    c["path"] = path
    raw, effs = [], []
    pkgbase = "p"
    for f in c["files"]:
        f.pop("link", None)
        if f["name"].endswith(".go") and not f["dir"]:
            f["imports"] = [] if f["cgo"] else r.sample(IMPORT_POOL, r.choice([0, 0, 1, 1, 2]))
            pk = {"same": pkgbase, "doc": "documentation", "xtest": pkgbase + "_test"}[f["pkg"]]
            content, eff, v = render_text(r, f, pk)
        else:
            f["imports"] = []
            content, eff, v = P.render_file(f, False), dict(gobuild=f["gobuild"], plus=f["plus"], detached=f["detached"]), "plain"
        raw.append(dict(name=f["name"], dir=f["dir"], link=False, content="" if f["dir"] else content))
        effs.append(eff)
        f["variant"] = v
    c["raw"], c["effs"] = raw, effs
    return c


def case_json(c):
    return dict(id=c["id"], kind=c["kind"], tags=c["tags"], goos=c["goos"], goarch=c["goarch"], files=c["raw"], path=c.get("path") or "")


def expected_text(P, c, n_doc):
    """the documented outcome: ("bad",) | ("nogo",) | ("ok", go, test, xtest, js, imports, test_imports, xtest_imports)"""
    kindc = dict(c, kind="std" if c["kind"] in ("std", "stdpath", "overlay") else c["kind"])
    sat = P.spec_tags(kindc, n_doc)
    go, test, xtest, bad = [], [], [], False
    for f, eff in zip(c["files"], c["effs"]):
        n = f["name"]
        if f["dir"] or n[0] in "_." or not n.endswith(".go"):
            continue
        if not all(t in sat for t in P.spec_name_tags(n)):
            continue
        if eff == "bad":
            bad = True
            continue
        if not P.spec_constraint(dict(f, **eff), sat) or f["pkg"] == "doc":
            continue
        if f["cgo"]:
            if n.endswith("_test.go"):
                bad = True
            continue
        (xtest if f["pkg"] == "xtest" else test if n.endswith("_test.go") else go).append(n)
    if bad:
        return ("bad",)
    if not (go or test or xtest):
        return ("nogo",)
    if c["kind"] == "stdpath" and c["path"] in TWEAK_DOC:
        tg, tt = TWEAK_DOC[c["path"]]
        go = [] if tg == "all" else [x for x in go if x not in (tg or [])]
        test = [] if tt == "all" else [x for x in test if x not in (tt or [])]
    imps = lambda names: sorted({i for f in c["files"] if f["name"] in names for i in f.get("imports", [])})
    js = [f["name"] for f in c["files"] if not f["dir"] and f["name"].endswith(".inc.js") and f["name"][0] not in "_."]
    return ("ok", sorted(go), sorted(test), sorted(xtest), sorted(js), imps(go), imps(test), imps(xtest))


def real_outcome(res):
    if res["err"] == "nogo":
        return ("nogo",)
    if res["err"].startswith("other:") and any(k in res["err"] for k in ("parsing //go:build line", "multiple //go:build comments", "use of cgo in test")):
        return ("bad",)
    if res["err"]:
        return None
    g = lambda k: sorted(res[k] or [])
    return ("ok", g("go"), g("test"), g("xtest"), g("js"), g("imports"), g("test_imports"), g("xtest_imports"))


def tfile_coq(f, raw):
    return "{| t_name := %s; t_isdir := %s; t_content := %s; t_pkg := %s; t_cgo := %s; t_imports := %s |}" % (
        cs(f["name"]), "true" if f["dir"] else "false", cs(raw["content"] if f["name"].endswith(".go") else ""),
        {"same": "PkgSame", "doc": "PkgDoc", "xtest": "PkgXTest"}[f["pkg"]], "true" if f["cgo"] else "false", sl(f.get("imports", [])))


def tresult_coq(out, res):
    if out[0] == "bad":
        return "TBad"
    if out[0] == "nogo":
        return "TNoGo"
    return "TOk %s %s %s %s %s %s %s %s" % (sl(out[1]), sl(out[2]), sl(out[3]), sl(sorted(res["ignored"] or [])), sl(out[4]), sl(out[5]), sl(out[6]), sl(out[7]))


TPRELUDE = ("From Coq Require Import List String.\nFrom Verif Require Import Gen.C18_BuildEnv Model.C18_Build Model.C18_Constraint Model.C18_Text "
            "Corr.C18_Eval Corr.C18_P4_Eval.\nImport ListNotations.\nLocal Open Scope string_scope.\n")


def coq_list(P, path, body):
    with open(path, "w") as f:
        f.write(TPRELUDE + body + "Definition M := Eval vm_compute in R.\nPrint M.\n")
    rc, out = C.coq_run(path)
    m = re.search(r"M\s*=\s*(\[[^\]]*\])", out.replace("\n", " "))
    if rc == 124 or "[timeout after" in out or "Out of memory" in out:
        return None, "TIMEOUT"
    if rc != 0 or not m:
        return None, out[-800:]
    return [int(x) for x in re.findall(r"\d+", m.group(1))], ""


def run_raw(P, ctx, cases, lines, tag):
    root = os.path.join(ctx.work, "root_" + tag)
    os.makedirs(os.path.join(root, "goroot", "src"), exist_ok=True)
    os.makedirs(os.path.join(root, "gopath", "src"), exist_ok=True)
    env = C.goenv()
    env.update(GOPHERJS_GOROOT=os.path.join(root, "goroot"), GOPATH=os.path.join(root, "gopath"), GO111MODULE="off")
    env.pop("GOOS", None); env.pop("GOARCH", None); env.pop("GOFLAGS", None)
    rc, out, err = C.sh2([os.path.join(C.BIN, "h_c18")], env=env, timeout=900,
                         inp=json.dumps(dict(root=root, cases=[case_json(c) for c in cases], lines=lines, tag_sets=TAGSETS)).encode())
    if rc == 124:
        return None
    if rc != 0:
        raise C.BuildError("c18 harness (phase 4) failed: " + err[-800:])
    return json.loads(out)


def check_lines(P, ctx):
    r = ctx.rng("p4-lines")
    n = 360 if ctx.quick else 6000
    gen = gen_lines(r, n)
    per = max(60, (len(gen) + C.NCPU - 1) // C.NCPU)
    groups = [gen[i:i + per] for i in range(0, len(gen), per)]

    def one(k):
        out = run_raw(P, ctx, [], [g[0] for g in groups[k]], "l%d" % k)
        if out is None:
            return k, None, None, "TIMEOUT"
        body = "Definition cases : list lcase := [\n" + ";\n".join(lcase_coq(g[0], res) for g, res in zip(groups[k], out["lines"])) + "].\nDefinition R := lmismatches cases.\n"
        idxs, err = coq_list(P, os.path.join(ctx.work, "lcases_%d.v" % k), body)
        return k, out["lines"], idxs, err

    stats = dict(lines=0, parse_ok=0, parse_err=0, gobuild=0, plusbuild=0, not_constraint=0, plus_complex=0, model_mismatches=0)
    for k, res, idxs, err in C.parallel_map(one, range(len(groups))):
        if res is None:
            ctx.notes.append("constraint-line group %d timed out (machine load): skipped" % k)
            continue
        for (line, tree, ptext), x in zip(groups[k], res):
            stats["lines"] += 1
            stats["parse_ok" if not x["err"] else "parse_err"] += 1
            stats["gobuild"] += x["is_go_build"]; stats["plusbuild"] += x["is_plus_build"]
            stats["not_constraint"] += not (x["is_go_build"] or x["is_plus_build"])
            stats["plus_complex"] += bool(x["plus_err"])
            ctx.count(["line", line], nontrivial=bool(x["is_go_build"] or x["is_plus_build"]))
            rep = dict(kind="line", line=line, impl=x)
            want = None
            if tree is not None:
                want = [tree_eval(tree, set(s)) for s in TAGSETS]
            elif ptext is not None:
                want = [plus_text_eval(ptext, set(s)) for s in TAGSETS]
            if want is not None and (x["err"] or x["evals"] != want):
                ctx.violation("constraint-eval-differs", "go/build/constraint evaluates %r differently from the documented meaning of the "
                              "expression it was printed from" % line, dict(rep, expected=want, tag_sets=TAGSETS))
        if idxs is None and err == "TIMEOUT":
            ctx.notes.append("model evaluation of constraint-line group %d timed out (machine load)" % k)
        elif idxs is None:
            ctx.violation("model-eval-failed", "Coq evaluation of the constraint-line cases failed", dict(group=k, log=err), concrete=False)
        else:
            for i in idxs[:3]:
                stats["model_mismatches"] += 1
                ctx.violation("constraint-model-mismatch", "parse_line / print / plus_build_lines / eval of the model disagree with go/build/constraint on a line",
                              dict(kind="line", line=groups[k][i][0], impl=res[i]), concrete=False)
    ctx.cov["p4_lines"] = stats


def check_text_dirs(P, ctx, n_doc, toolchain):
    r = ctx.rng("p4-text")
    ntext, npost = (140, 40) if ctx.quick else (1500, 400)
    cases = [gen_text_case(P, r, i) for i in range(ntext)]
    cases += [gen_text_case(P, r, ntext + i, kind=r.choice(["stdpath", "stdpath", "overlay"])) for i in range(npost)]
    # fixed corners
    per = max(8, (len(cases) + C.NCPU - 1) // C.NCPU)
    groups = [cases[i:i + per] for i in range(0, len(cases), per)]
    stats = dict(dirs=0, variants={}, bad=0, nogo=0, ok=0, post_paths={}, tweaked=0, overlay=0, model_mismatches=0)

    def one(k):
        out = run_raw(P, ctx, groups[k], [], "t%d" % k)
        return k, out

    done = []
    for k, out in C.parallel_map(one, range(len(groups))):
        if out is None:
            ctx.notes.append("text-directory group %d timed out (machine load): skipped" % k)
            continue
        for c, res in zip(groups[k], out["results"]):
            stats["dirs"] += 1
            for f in c["files"]:
                stats["variants"][f.get("variant", "plain")] = stats["variants"].get(f.get("variant", "plain"), 0) + 1
            rep = dict(kind="textdir", case=case_json(c), impl={k2: res[k2] for k2 in ("err", "go", "test", "xtest", "ignored", "js", "imports", "test_imports", "xtest_imports")})
            real = real_outcome(res)
            ctx.count(["textdir", c["kind"], c.get("path"), c["tags"], [(x["name"], x["content"]) for x in c["raw"]]],
                      nontrivial=any(f.get("variant", "plain") != "plain" or f["gobuild"] is not None or f["plus"] for f in c["files"]))
            if real is None:
                ctx.violation("import-error", "the real Import failed unexpectedly: " + res["err"][:200], rep, concrete=False)
                continue
            stats[real[0]] += 1
            if c["kind"] == "overlay":
                stats["overlay"] += 1
            if c.get("path"):
                stats["post_paths"][c["path"]] = stats["post_paths"].get(c["path"], 0) + 1
            want = expected_text(P, c, n_doc)
            rep["expected"] = want
            if want != real:
                if want[0] == "bad" or real[0] == "bad":
                    sig = "header-malformed-constraint-" + ("accepted" if want[0] == "bad" else "rejected")
                elif c.get("path") and want[0] == real[0] == "ok" and (want[1], want[2]) != (real[1], real[2]):
                    sig = "%s-%s-files-differ" % ("overlay" if c["kind"] == "overlay" else "postload", c["path"].replace("/", "-"))
                    stats["tweaked"] += 1
                elif want[0] == real[0] == "ok" and want[1:5] == real[1:5]:
                    sig = "postload-imports-differ"
                else:
                    sig = "header-text-selection-differs"
                ctx.violation(sig, "directory given as text: real Import gives %r, the documented rule %r" % (real[:4], want[:4]), rep)
            done.append((c, res, real, rep))
    # the model
    shard = max(10, min(60, (len(done) + C.NCPU - 1) // C.NCPU))
    shards = [done[i:i + shard] for i in range(0, len(done), shard)]

    def tk(c, res, real):
        kind = c["kind"]
        ipath = c["path"] if c.get("path") else P.IMPORT_PATH[kind](c["id"])
        ing = True if c.get("path") else P.IN_GOROOT[kind]
        return "{| tk_cfg := %s; tk_virtual := %s; tk_import_path := %s; tk_in_goroot := %s; tk_files := [%s]; tk_expect := %s |}" % (
            P.cfg_coq(c, toolchain), "true" if kind == "overlay" else "false", cs(ipath), "true" if ing else "false",
            ";\n    ".join(tfile_coq(f, x) for f, x in zip(c["files"], c["raw"])), tresult_coq(real, res))

    def run_shard(k):
        body = "Definition cases : list tcase := [\n" + ";\n".join(tk(c, res, real) for c, res, real, _ in shards[k]) + "].\nDefinition R := tmismatches cases.\n"
        idxs, err = coq_list(P, os.path.join(ctx.work, "tcases_%d.v" % k), body)
        return k, idxs, err

    for k, idxs, err in C.parallel_map(run_shard, range(len(shards))):
        if idxs is None and err == "TIMEOUT":
            ctx.notes.append("model evaluation of text shard %d timed out (machine load)" % k)
        elif idxs is None:
            ctx.violation("model-eval-failed", "Coq evaluation of the text-directory cases failed", dict(shard=k, log=err), concrete=False)
        else:
            for i in idxs:
                stats["model_mismatches"] += 1
                rep = shards[k][i][3]
                if not any(v["replay"] is rep for v in ctx.violations):
                    ctx.violation("text-model-mismatch", "import_text of the model (header scanner + constraint parser + suffix name rule + post-load "
                                  "tweaks) and the real Import disagree on a directory given as text", rep, concrete=False)
    ctx.cov["p4_text_dirs"] = stats


def check_render(P, ctx, vcases_coq):
    """the structured directories of part (1), rendered and re-read by the model itself"""
    shard = 120
    shards = [vcases_coq[i:i + shard] for i in range(0, len(vcases_coq), shard)]

    def run_shard(k):
        body = "Definition cases : list case := [\n" + ";\n".join(shards[k]) + "].\nDefinition R := rmismatches cases.\n"
        return (k,) + coq_list(P, os.path.join(ctx.work, "rcases_%d.v" % k), body)

    bad = 0
    for k, idxs, err in C.parallel_map(run_shard, range(len(shards))):
        if idxs is None and err == "TIMEOUT":
            ctx.notes.append("render round-trip shard %d timed out (machine load)" % k)
        elif idxs is None:
            ctx.violation("model-eval-failed", "Coq evaluation of the render round trip failed", dict(shard=k, log=err), concrete=False)
        else:
            bad += len(idxs)
            for i in idxs[:2]:
                ctx.violation("render-roundtrip-mismatch", "classify_text (render_file f) differs from classify f inside the model", dict(case=shards[k][i][:2000]), concrete=False)
    ctx.cov["p4_render_roundtrip_dirs"] = len(vcases_coq)
    ctx.cov["p4_render_roundtrip_mismatches"] = bad
