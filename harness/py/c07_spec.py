"""C07 — Go's value/reference semantics written from scratch (independent of the Coq model and of the prelude):
the direct oracle for the op sequences that harness/js/c07_driver.js runs on the real prelude.

Arrays and structs are *storage*: a register owns its node tree; clone = deep copy; assignment = deep overwrite in
place; slices are windows (off, len, cap) onto a shared backing node; append writes in place iff len+n <= cap,
otherwise builds a fresh backing array holding *copies* of the elements; copy() is memmove."""


class Node:
    __slots__ = ("kind", "e")

    def __init__(self, kind, e):
        self.kind, self.e = kind, e


class Sl:
    __slots__ = ("arr", "off", "len", "cap")

    def __init__(self, arr, off, ln, cap):
        self.arr, self.off, self.len, self.cap = arr, off, ln, cap


def is_node(t):
    return t[0] in ("arr", "struct")


class Spec:
    """types: the case's type table (list of defs). cap_of(op_index) -> capacity the implementation chose (or None)."""

    def __init__(self, types, cap_of=None):
        self.types = types
        self.v = []     # (type def, value)
        self.s = []     # (elem type def, Sl | None)
        self.cap_of = cap_of or (lambda i: None)
        self.cap_violation = None

    # ---- values
    def T(self, ti):
        return self.types[ti]

    def zero(self, t):
        if t[0] == "arr":
            return Node("arr", [self.zero(self.T(t[2])) for _ in range(t[1])])
        if t[0] == "struct":
            return Node("struct", [self.zero(self.T(f)) for f in t[1]])
        return 0

    def deep(self, t, v):
        if not is_node(t):
            return v
        if t[0] == "arr":
            return Node("arr", [self.deep(self.T(t[2]), x) for x in v.e])
        return Node("struct", [self.deep(self.T(f), x) for f, x in zip(t[1], v.e)])

    def overwrite(self, t, dst, srcval):
        """dst node := srcval (a detached deep copy), keeping dst's identity"""
        if t[0] == "arr":
            et = self.T(t[2])
            for i in range(len(dst.e)):
                if is_node(et):
                    self.overwrite(et, dst.e[i], srcval.e[i])
                else:
                    dst.e[i] = srcval.e[i]
        else:
            for i, f in enumerate(t[1]):
                ft = self.T(f)
                if is_node(ft):
                    self.overwrite(ft, dst.e[i], srcval.e[i])
                else:
                    dst.e[i] = srcval.e[i]

    def place(self, t, getter, setter, path):
        for i in path:
            node = getter()
            t = self.T(t[2]) if t[0] == "arr" else self.T(t[1][i])
            getter = (lambda n, k: (lambda: n.e[k]))(node, i)
            setter = (lambda n, k: (lambda v: n.e.__setitem__(k, v)))(node, i)
        return t, getter, setter

    def vplace(self, r, path):
        t, _ = self.v[r]
        return self.place(t, lambda: self.v[r][1], lambda v: self.v.__setitem__(r, (self.v[r][0], v)), path)

    def assign(self, t, get, set_, srcval):
        """Go assignment `place = value`"""
        if is_node(t):
            self.overwrite(t, get(), self.deep(t, srcval))
        else:
            set_(srcval)

    def elem_place(self, et, sl, i):
        k = sl.off + i
        return et, (lambda: sl.arr.e[k]), (lambda v: sl.arr.e.__setitem__(k, v))

    # ---- ops
    def step(self, idx, op):
        k = op[0]
        if k == "zero":
            t = self.T(op[1]); self.v.append((t, self.zero(t))); return "ok"
        if k == "clone":
            t, g, _ = self.vplace(op[1], op[2]); self.v.append((t, self.deep(t, g()))); return "ok"
        if k == "copy":
            t, g, s = self.vplace(op[1], op[2]); _, sg, _ = self.vplace(op[3], op[4])
            self.assign(t, g, s, sg()); return "ok"
        if k == "write":
            t, g, s = self.vplace(op[1], op[2]); s(op[3]); return "ok"
        if k == "nil":
            self.s.append((self.T(op[1]), None)); return "ok"
        if k == "make":
            t, ln, cap = self.T(op[1]), op[2], op[3]
            if ln < 0 or cap < ln:
                self.s.append((t, None)); return "err"
            self.s.append((t, Sl(Node("arr", [self.zero(t) for _ in range(cap)]), 0, ln, cap))); return "ok"
        if k == "sliceof":
            t, g, _ = self.vplace(op[1], op[2]); n = g()
            self.s.append((self.T(t[2]), Sl(n, 0, len(n.e), len(n.e)))); return "ok"
        if k == "subslice":
            et, sl = self.s[op[1]]
            ln, cap = (sl.len, sl.cap) if sl else (0, 0)
            lo = op[2]; hi = ln if op[3] is None else op[3]; mx = cap if op[4] is None else op[4]
            if not (0 <= lo <= hi <= mx <= cap):
                self.s.append((et, None)); return "err"
            self.s.append((et, Sl(sl.arr, sl.off + lo, hi - lo, mx - lo) if sl else None)); return "ok"
        if k in ("append", "appendslice"):
            et, sl = self.s[op[1]]
            if k == "append":
                vals = []
                for it in op[2]:
                    if it[0] == "z":
                        vals.append(it[1])
                    else:
                        t, g, _ = self.vplace(it[1], it[2]); vals.append(self.deep(t, g()))
            else:
                _, src = self.s[op[2]]
                vals = [self.deep(et, src.arr.e[src.off + i]) for i in range(src.len)] if src else []
            if not vals:
                self.s.append((et, sl)); return "ok"
            ln, cap, off = (sl.len, sl.cap, sl.off) if sl else (0, 0, 0)
            need = ln + len(vals)
            if need <= cap:
                for i, v in enumerate(vals):
                    _, g, s = self.elem_place(et, sl, ln + i)
                    self.assign(et, g, s, v)
                self.s.append((et, Sl(sl.arr, off, need, cap))); return "ok"
            newcap = self.cap_of(idx)
            if newcap is None:
                newcap = max(need, cap * 2 if cap < 1024 else cap * 5 // 4)
            if newcap < need:
                self.cap_violation = (idx, need, newcap); newcap = need
            old = [self.deep(et, sl.arr.e[off + i]) for i in range(ln)] if sl else []
            arr = Node("arr", old + vals + [self.zero(et) for _ in range(newcap - need)])
            self.s.append((et, Sl(arr, 0, need, newcap))); return "ok"
        if k == "copyslice":
            et, d = self.s[op[1]]; _, s = self.s[op[2]]
            n = min(d.len if d else 0, s.len if s else 0)
            vals = [self.deep(et, s.arr.e[s.off + i]) for i in range(n)]
            for i, v in enumerate(vals):
                _, g, st = self.elem_place(et, d, i)
                self.assign(et, g, st, v)
            return ["n", n]
        if k in ("swrite", "sget", "sset"):
            et, sl = self.s[op[1]]
            if sl is None or sl.len == 0:
                if k == "sget":
                    self.v.append((et, self.zero(et)))
                return "skip"
            i = op[2] % sl.len
            t, g, s = self.elem_place(et, sl, i)
            if k == "swrite":
                t, g, s = self.place(t, g, s, op[3]); s(op[4]); return "ok"
            if k == "sget":
                self.v.append((et, self.deep(et, g()))); return "ok"
            _, sg, _ = self.vplace(op[3], op[4])
            self.assign(et, g, s, sg()); return "ok"
        if k == "arrfromslice":
            t, g, _ = self.vplace(op[1], op[2]); _, sl = self.s[op[3]]
            dst = g(); n = len(dst.e); et = self.T(t[2])
            if (sl.len if sl else 0) < n:
                return "err"
            vals = [self.deep(et, sl.arr.e[sl.off + i]) for i in range(n)]
            for i, v in enumerate(vals):
                if is_node(et):
                    self.overwrite(et, dst.e[i], v)
                else:
                    dst.e[i] = v
            return "ok"
        raise ValueError("unknown op %r" % (op,))

    # ---- canonical snapshot (same numbering rule as the driver; node kinds are representation, not compared)
    def snapshot(self):
        ids = {}

        def snap(t, v):
            if not is_node(t):
                return v
            if id(v) in ids:
                return {"seen": ids[id(v)]}
            i = len(ids); ids[id(v)] = i
            if t[0] == "arr":
                return {"id": i, "e": [snap(self.T(t[2]), x) for x in v.e]}
            return {"id": i, "e": [snap(self.T(f), x) for f, x in zip(t[1], v.e)]}

        def snap_arr(et, node):
            if id(node) in ids:
                return {"seen": ids[id(node)]}
            i = len(ids); ids[id(node)] = i
            return {"id": i, "e": [snap(et, x) for x in node.e]}

        vs = [snap(t, v) for t, v in self.v]
        ss = ["nil" if sl is None else {"arr": snap_arr(et, sl.arr), "off": sl.off, "len": sl.len, "cap": sl.cap} for et, sl in self.s]
        return {"vregs": vs, "sregs": ss}


def strip_kind(x):
    if isinstance(x, dict):
        return {k: strip_kind(v) for k, v in x.items() if k != "kind"}
    if isinstance(x, list):
        return [strip_kind(v) for v in x]
    return x


def values_only(x):
    """deep values without identity (ids / seen markers resolved): used to tell value divergence from pure aliasing divergence"""
    table = {}

    def walk(y):
        if isinstance(y, dict):
            if "seen" in y:
                return table.get(y["seen"])
            if "id" in y:
                r = [None] * len(y["e"])
                table[y["id"]] = r
                for i, z in enumerate(y["e"]):
                    r[i] = walk(z)
                return r
            return {k: walk(v) for k, v in y.items()}
        if isinstance(y, list):
            return [walk(v) for v in y]
        return y
    return walk(x)
