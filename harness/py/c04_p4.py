"""C04 phase 4 — names of instances, InstanceMap histories, Resolver.Substitute: generators, Python oracles and
Coq case printers for the overlay harness c04p4 and for the names found in compiled programs.

Type expressions are those of c04_gen (('base', n) ('con', c, [..]) ('named', o, [..]) ('own', i) ('nest', i) ('free', i)).
"""
import json, os, re
import common as C
import c04_gen as G

PKG = "verifc04p4"
# the fixed universe of objects of the harness source (ids = model object numbers)
OBJS = [("G0", 1), ("G1", 2), ("F0", 1), ("F1", 2), ("G0.M", 1), ("G0.P", 1), ("Host", 2), ("L0", 0), ("LG", 1)]
O_HOST, O_L0, O_LG = 6, 7, 8
BASES = {0: "int", 1: "string", 2: "int8", 7: "float64", 8: "bool", 10: PKG + ".N0", 11: PKG + ".N1"}
GOBASE = {0: "int", 1: "string", 2: "int8", 7: "float64", 8: "bool", 10: "N0", 11: "N1"}
# types.TypeString spelling of the constructors of c04_gen.CON
TS = {0: "[]%s", 1: "*%s", 2: "map[int]%s", 3: "chan %s", 4: "[2]%s", 5: "func(%s) %s", 6: "struct{F %s}", 7: "map[%s]%s"}


def cstr(s):
    return '"' + s.replace('"', '""') + '"'


# ------------------------------------------------------------------ independent renderings (Python oracle side)

def tstr(e, base, qual, pfx):
    """types.TypeString(t, nil) written from scratch; base: id->name, qual: objid->path-qualified name, pfx: (own, nest, free)"""
    k = e[0]
    if k == "base":
        return base[e[1]]
    if k == "con":
        return TS[e[1]] % tuple(tstr(a, base, qual, pfx) for a in e[2])
    if k == "named":
        s = qual[e[1]]
        if e[2]:
            s += "[" + ", ".join(tstr(a, base, qual, pfx) for a in e[2]) + "]"
        return s
    return {"own": pfx[0], "nest": pfx[1], "free": pfx[2]}[k] + str(e[1])


def params_str(targs, tnest, op, cl, f):
    if not targs and not tnest:
        return ""
    s = op
    if tnest:
        s += ", ".join(f(a) for a in tnest) + ";"
        if targs:
            s += " "
    if targs:
        s += ", ".join(f(a) for a in targs)
    return s + cl


def gosyn(e, pfx=("T", "T", "F")):
    k = e[0]
    if k == "base":
        return GOBASE[e[1]]
    if k == "con":
        return G.CON[e[1]][1] % tuple(gosyn(a, pfx) for a in e[2])
    if k == "named":
        s = OBJS[e[1]][0]
        if e[2]:
            s += "[" + ", ".join(gosyn(a, pfx) for a in e[2]) + "]"
        return s
    return {"own": pfx[0], "nest": pfx[1], "free": pfx[2]}[k] + str(e[1])


def coq_names(base, qual, short, sym, var, pfx):
    def tbl(d):
        return "[" + "; ".join("(%d%%N, %s)" % (k, cstr(v)) for k, v in sorted(d.items())) + "]"
    return "(mkNames %s %s %s %s %s %s %s %s)" % (tbl(base), tbl(qual), tbl(short), tbl(sym), tbl(var), cstr(pfx[0]), cstr(pfx[1]), cstr(pfx[2]))


def coq_inst(obj, targs, tnest):
    return "(mkInst %d [%s] [%s])" % (obj, "; ".join(G.coq_ty(a) for a in targs), "; ".join(G.coq_ty(a) for a in tnest))


# ------------------------------------------------------------------ generator of harness cases

def gen_closed(r, depth):
    if depth == 0 or r.random() < 0.35:
        return ("base", r.choice(sorted(BASES)))
    if r.random() < 0.25:
        o = r.choice([0, 1])
        return ("named", o, [gen_closed(r, depth - 1) for _ in range(OBJS[o][1])])
    c = r.choice(sorted(TS))
    if c == 7:
        return ("con", c, [("base", r.choice(sorted(BASES))), gen_closed(r, depth - 1)])
    return ("con", c, [gen_closed(r, depth - 1) for _ in range(G.CON[c][0])])


def gen_open(r, depth, leaves, lg=True):
    """a type over the given parameter leaves (at least one parameter with high probability)"""
    if depth == 0 or r.random() < 0.3:
        return r.choice(leaves) if r.random() < 0.8 else ("base", r.choice(sorted(BASES)))
    x = r.random()
    if x < 0.2:
        o = r.choice([0, 1])
        return ("named", o, [gen_open(r, depth - 1, leaves, lg) for _ in range(OBJS[o][1])])
    if x < 0.3 and lg:
        return ("named", O_LG, [gen_open(r, depth - 1, leaves, lg)])
    if x < 0.35:
        return ("named", O_L0, [])
    c = r.choice(sorted(TS))
    if c == 7:
        return ("con", c, [("base", r.choice(sorted(BASES))), gen_open(r, depth - 1, leaves, lg)])
    return ("con", c, [gen_open(r, depth - 1, leaves, lg) for _ in range(G.CON[c][0])])


def flip(e, m):
    """rename parameter leaves: m maps kind -> kind"""
    k = e[0]
    if k in ("own", "nest", "free"):
        return (m.get(k, k), e[1])
    if k == "base":
        return e
    return (k, e[1], [flip(a, m) for a in e[2]])


def gen_case(r):
    nclosed = r.randint(5, 8)
    closed = [gen_closed(r, 2) for _ in range(nclosed)]
    closed += [closed[r.randrange(nclosed)] for _ in range(3)]          # the same type written twice: identical, distinct fields
    # Holder fields: over Host's parameters (own from Host's point of view); LG fields: Host's and LG's own (free from Host)
    hold = [gen_open(r, 2, [("own", 0), ("own", 1)]) for _ in range(6)]
    lgf = [gen_open(r, 2, [("own", 0), ("own", 1), ("free", 0), ("free", 0)], lg=False) for _ in range(6)]
    src = ["package main", "", "type N0 int8", "type N1 string", "", "type G0[T0 any] struct{ f T0 }", "func (g G0[T0]) M()  {}",
           "func (g *G0[T0]) P() {}", "type G1[T0, T1 any] struct{}", "func F0[T0 any]()     {}", "func F1[T0, T1 any]() {}", "",
           "type Closed struct {"]
    src += ["\tC%d %s" % (k, gosyn(e)) for k, e in enumerate(closed)]
    src += ["}", "", "func Host[T0, T1 any]() {", "\ttype L0 struct{ x T0 }", "\ttype LG[F0 any] struct {"]
    src += ["\t\tY%d %s" % (k, gosyn(e)) for k, e in enumerate(lgf)]
    src += ["\t}", "\ttype Holder struct {"]
    src += ["\t\tX%d %s" % (k, gosyn(e)) for k, e in enumerate(hold)]
    src += ["\t}", "}", "", "func main() {}", ""]
    # instances: collision-prone families (typeHash xors the hashes of TNest and TArgs)
    insts = []
    for _ in range(2):
        o = r.randrange(len(OBJS))
        a, b, c = (r.randrange(len(closed)) for _ in range(3))
        fam = [([], [a, b]), ([], [b, a]), ([a], [b]), ([b], [a]), ([a, b], []), ([], [a, a]), ([], [b, b]), ([], []), ([], [a]), ([a], []),
               ([c], [a, b]), ([a], [c, b]), ([], [c, c])]
        r.shuffle(fam)
        for tn, ta in fam[:r.randint(7, 11)]:
            insts.append(dict(obj=OBJS[o][0], oid=o, targs=ta, tnest=tn))
        o2 = r.randrange(len(OBJS))
        insts.append(dict(obj=OBJS[o2][0], oid=o2, targs=[a, b], tnest=[]))       # same arguments, other object
    ops = []
    for _ in range(r.randint(50, 90)):
        x = r.random()
        k = r.randrange(len(insts)) if r.random() < 0.7 else r.randrange(min(6, len(insts)))
        if x < 0.4:
            ops.append(dict(op="set", inst=k, val=r.randint(1, 99)))
        elif x < 0.62:
            ops.append(dict(op="del", inst=k, val=0))
        elif x < 0.77:
            ops.append(dict(op="get", inst=k, val=0))
        elif x < 0.9:
            ops.append(dict(op="has", inst=k, val=0))
        else:
            ops.append(dict(op="len", inst=0, val=0))
    # substitutions: three kinds of roots, appended to insts
    ca, cb, cc = (r.randrange(len(closed)) for _ in range(3))
    roots = [dict(obj="Host", oid=O_HOST, targs=[ca, cb], tnest=[]), dict(obj="LG", oid=O_LG, targs=[cc], tnest=[ca, cb]),
             dict(obj="L0", oid=O_L0, targs=[], tnest=[cb, cc])]
    base = len(insts)
    insts += roots
    substs, smeta = [], []
    for k in range(6):
        # Host root on Holder (closed result) and on LG's fields (LG's own parameter stays)
        substs.append(dict(root=base, owner="Holder", field=k)); smeta.append((roots[0], hold[k], ("T", "N", "F")))
        substs.append(dict(root=base, owner="LG", field=k)); smeta.append((roots[0], lgf[k], ("T", "N", "F")))
        # LG root: its own parameter is F0 (own), Host's are the nesting ones
        substs.append(dict(root=base + 1, owner="LG", field=k))
        smeta.append((roots[1], flip(lgf[k], {"own": "nest", "free": "own"}), ("F", "T", "X")))
        # L0 root (no own parameters): Host's parameters are nesting parameters
        substs.append(dict(root=base + 2, owner="Holder", field=k)); smeta.append((roots[2], flip(hold[k], {"own": "nest"}), ("X", "T", "F")))
    return dict(src="\n".join(src), insts=insts, ops=ops, substs=substs, closed=closed, smeta=smeta)


def run_harness(cases, timeout=600):
    h = os.path.join(C.BIN, "h_c04p4")
    payload = [dict(src=c["src"], insts=[dict(obj=i["obj"], targs=i["targs"], tnest=i["tnest"]) for i in c["insts"]], ops=c["ops"],
                    substs=c["substs"]) for c in cases]
    rc, out, err = C.sh2([h], inp=json.dumps(payload).encode(), timeout=timeout)
    if rc == 124:
        return None
    if rc != 0:
        raise C.BuildError("c04p4 harness failed: " + (err or out)[-500:])
    return json.loads(out)


QUAL = {k: PKG + "." + n for k, (n, _) in enumerate(OBJS)}
SHORT = {k: "main." + n.split(".")[-1] for k, (n, _) in enumerate(OBJS)}
SYM = {k: PKG + "." + (n if n != "G0.P" else "(*G0).P") for k, (n, _) in enumerate(OBJS)}


def inst_terms(c, i):
    return [c["closed"][k] for k in i["targs"]], [c["closed"][k] for k in i["tnest"]]


def inst_key(c, i):
    ta, tn = inst_terms(c, i)
    return (i["oid"], tuple(G.freeze(a) for a in ta), tuple(G.freeze(a) for a in tn))


def coq_eval(ctx, tag, header, entry, items, shard, prelude=""):
    """items: list of Coq terms; returns (bad indices, failures)"""
    shards = [items[i:i + shard] for i in range(0, len(items), shard)]

    def one(k):
        p = os.path.join(ctx.work, "%s_%d.v" % (tag, k))
        with open(p, "w") as f:
            f.write("From Coq Require Import List NArith String.\nFrom Verif Require Import Model.C04_Inst Model.C04_P4_Map Model.C04_P4_Name "
                    "Corr.C04_Eval Corr.C04_P4_Eval.\nImport ListNotations.\nLocal Open Scope string_scope.\nLocal Open Scope N_scope.\n")
            f.write(prelude)
            f.write("Definition cases : list %s := [\n%s].\n" % (header, ";\n".join(shards[k])))
            f.write("Definition M := Eval vm_compute in %s cases.\nPrint M.\n" % entry)
        rc, out = C.coq_run(p)
        m = re.search(r"M\s*=\s*(\[[^\]]*\])", out.replace("\n", " "))
        if rc == 124 or "[timeout after" in out:
            return k, "timeout", ""
        if rc != 0 or not m:
            return k, None, out[-800:]
        return k, [int(x.replace("%N", "")) for x in re.findall(r"\d+(?:%N)?", m.group(1))], ""

    bad, failed = set(), []
    for k, idxs, err in C.parallel_map(one, range(len(shards))):
        if idxs == "timeout":
            ctx.notes.append("skipped Coq shard %s/%d: timed out" % (tag, k))
        elif idxs is None:
            failed.append((k, err))
        else:
            bad.update(k * shard + i for i in idxs)
    return bad, failed


def harness_stream(ctx, n):
    r = ctx.rng("p4-harness")
    cases = [gen_case(r) for _ in range(n)]
    nsh = max(1, min(C.NCPU, n // 4))
    chunks = [cases[i::nsh] for i in range(nsh)]
    res_chunks = C.parallel_map(run_harness, chunks)
    results = [None] * n
    for s, rc in enumerate(res_chunks):
        if rc is None:
            ctx.notes.append("skipped %d phase-4 harness cases: harness timed out" % len(chunks[s]))
            continue
        for j, x in enumerate(rc):
            results[s + j * nsh] = x
    dist = dict(cases=n, ops=0, max_bucket=0, colliding_pairs=0, holes_at_end=0, name_pairs=0, identical_pairs=0, substs=0,
                subst_left_param=0, deletes_hit=0, sets_overwrite=0)
    mcases, ncases, scases = [], [], []
    midx, nidx, sidx = [], [], []
    pfxH = ("T", "N", "F")
    for ci, (c, res) in enumerate(zip(cases, results)):
        if res is None:
            continue
        rep = dict(kind="p4", src=c["src"], insts=[dict(obj=i["obj"], targs=i["targs"], tnest=i["tnest"]) for i in c["insts"]],
                   ops=c["ops"], substs=c["substs"])
        ctx.count(["p4", c["src"], c["ops"]], nontrivial=res.get("same_bucket_pairs", 0) > 0)
        if res["error"]:
            ctx.violation("p4-harness-error", "the phase-4 harness failed on a generated case: " + res["error"][:200], dict(rep, error=res["error"]),
                          concrete=res["error"].startswith("panic"))
            continue
        f = lambda e: tstr(e, BASES, QUAL, pfxH)
        keys = [inst_key(c, i) for i in c["insts"]]
        # ---- (a) the map against a Python dict keyed by instance identity
        spec, exp = {}, []
        for o in c["ops"]:
            k = keys[o["inst"]]
            if o["op"] == "set":
                exp.append(spec.get(k, 0)); dist["sets_overwrite"] += k in spec; spec[k] = o["val"]
            elif o["op"] == "get":
                exp.append(spec.get(k, 0))
            elif o["op"] == "has":
                exp.append(int(k in spec))
            elif o["op"] == "del":
                exp.append(int(k in spec)); dist["deletes_hit"] += k in spec; spec.pop(k, None)
            else:
                exp.append(len(spec))
        real_keys = sorted(set(keys[k] for k in res["keys"] if k >= 0))
        if res["op_res"] != exp:
            j = next(i for i, (a, b) in enumerate(zip(res["op_res"], exp)) if a != b)
            ctx.violation("instancemap-history-differs", "InstanceMap does not behave as a finite map keyed by instance identity: op %d (%s) returned %d, "
                          "a map keyed by (object, identical TNest, identical TArgs) returns %d" % (j, c["ops"][j]["op"], res["op_res"][j], exp[j]),
                          dict(rep, real=res["op_res"], expected=exp, first_diff=j))
        elif real_keys != sorted(spec) or len(res["keys"]) != len(spec) or -1 in res["keys"]:
            ctx.violation("instancemap-keys-differ", "InstanceMap.Keys() is not the key set of the finite map", dict(rep, real=res["keys"], expected=len(spec)))
        dist["ops"] += len(exp)
        dist["max_bucket"] = max(dist["max_bucket"], res["max_bucket"])
        dist["colliding_pairs"] += res["same_bucket_pairs"]
        dist["holes_at_end"] += res["buckets"][2]

        def cop(o):
            i = c["insts"][o["inst"]]
            ta, tn = inst_terms(c, i)
            t = coq_inst(i["oid"], ta, tn)
            return {"set": "OSet %s %d" % (t, o["val"]), "get": "OGet " + t, "has": "OHas " + t, "del": "ODelete " + t, "len": "OLen"}[o["op"]]
        kinsts = []
        for k in res["keys"]:
            if k >= 0:
                ta, tn = inst_terms(c, c["insts"][k])
                kinsts.append(coq_inst(c["insts"][k]["oid"], ta, tn))
        mcases.append("{| mc_ops := [%s];\n mc_expect := [%s]; mc_keys := [%s] |}" % ("; ".join(cop(o) for o in c["ops"]),
                      "; ".join(str(x) for x in res["op_res"]), "; ".join(kinsts)))
        midx.append((ci, rep))
        # ---- (b) names: distinct instances <-> distinct strings; identical ones the same
        nm = "nmH"
        for a in range(len(keys)):
            for b in range(a + 1, len(keys)):
                na, nb = res["names"][a], res["names"][b]
                same = keys[a] == keys[b]
                dist["identical_pairs" if same else "name_pairs"] += 1
                if same and (na["string"] != nb["string"] or na["type_string"] != nb["type_string"]):
                    ctx.violation("identical-instances-named-differently", "two identical instances have different strings: %r / %r" % (na, nb),
                                  dict(rep, a=a, b=b, names=[na, nb]))
                elif not same and (na["string"] == nb["string"] or na["type_string"] == nb["type_string"]):
                    ctx.violation("instance-string-collision", "two different instances (no shadowed names involved) have the same String()/TypeString(): %r / %r"
                                  % (na, nb), dict(rep, a=a, b=b, names=[na, nb]))
        for k, i in enumerate(c["insts"]):
            ta, tn = inst_terms(c, i)
            want = dict(string=SYM[i["oid"]] + params_str(ta, tn, "<", ">", f), type_string=SHORT[i["oid"]] + params_str(ta, tn, "[", "]", f),
                        label=params_str(ta, tn, " /* ", " */", f), trivial=not ta and not tn)
            if want != res["names"][k]:
                ctx.violation("instance-name-rendering-differs", "Instance.String/TypeString/TypeParamsString differ from the documented format: real %r, expected %r"
                              % (res["names"][k], want), dict(rep, inst=k, real=res["names"][k], expected=want), concrete=False)
            n = res["names"][k]
            ncases.append("{| nc_names := %s; nc_inst := %s; nc_string := %s; nc_type_string := %s; nc_label := %s; nc_trivial := %s |}" % (
                nm, coq_inst(i["oid"], ta, tn), cstr(n["string"]), cstr(n["type_string"]), cstr(n["label"]), "true" if n["trivial"] else "false"))
            nidx.append((ci, rep, k))
        # ---- (c) Resolver.Substitute
        for k, (s, sr) in enumerate(zip(c["substs"], res["substs"])):
            root, term, pfx = c["smeta"][k]
            own, nest = inst_terms(c, root)
            want = G.subst(term, own, nest)
            dist["substs"] += 1
            dist["subst_left_param"] += G.has_params(want)
            if sr["error"]:
                ctx.violation("resolver-substitute-panics", "Resolver.Substitute panicked: " + sr["error"][:200], dict(rep, subst=k, error=sr["error"]))
                continue
            if sr["has_param"] and not G.has_params(want):
                ctx.violation("substituted-type-keeps-type-parameter", "a ground instance's Resolver left a type parameter in %s (root %s)" % (sr["str"], root["obj"]),
                              dict(rep, subst=k, real=sr, expected=tstr(want, BASES, QUAL, pfx)))
            elif sr["str"] != tstr(want, BASES, QUAL, pfx) or sr["has_param"] != G.has_params(want):
                ctx.violation("substitute-result-differs", "Resolver.Substitute gives %s, substitution of the type arguments gives %s" % (sr["str"], tstr(want, BASES, QUAL, pfx)),
                              dict(rep, subst=k, real=sr, expected=tstr(want, BASES, QUAL, pfx)))
            scases.append("{| sc_names := %s; sc_own := [%s]; sc_nest := [%s]; sc_ty := %s; sc_str := %s; sc_has_param := %s |}" % (
                "nm_" + "".join(pfx), "; ".join(G.coq_ty(a) for a in own), "; ".join(G.coq_ty(a) for a in nest), G.coq_ty(term),
                cstr(sr["str"]), "true" if sr["has_param"] else "false"))
            sidx.append((ci, rep, k))
        if ci < 1:
            ctx.sample(dict(kind="p4", names=res["names"][:4], op_res=res["op_res"][:12], buckets=res["buckets"], substs=res["substs"][:3]))
    var = {k: n.split(".")[-1] for k, (n, _) in enumerate(OBJS)}
    prelude = "Definition nmH := %s.\n" % coq_names(BASES, QUAL, SHORT, SYM, var, pfxH)
    for pfx in (("T", "N", "F"), ("F", "T", "X"), ("X", "T", "F")):
        prelude += "Definition nm_%s := %s.\n" % ("".join(pfx), coq_names(BASES, QUAL, SHORT, SYM, {}, pfx))
    for tag, header, entry, items, idx, shard, sig, what in (
            ("p4map", "mcase", "map_mismatches", mcases, midx, 12, "instancemap-model-mismatch", "model InstanceMap (both hash functions) / finite-map spec and the real InstanceMap disagree on a history"),
            ("p4name", "ncase", "name_mismatches", ncases, nidx, 150, "instance-name-model-mismatch", "model inst_string/type_string/params_string and the real Instance methods disagree"),
            ("p4subst", "scase", "subst_mismatches", scases, sidx, 150, "substitute-model-mismatch", "model subst + ty_str and the real Resolver.Substitute disagree")):
        bad, failed = coq_eval(ctx, tag, header, entry, items, shard, prelude)
        for k, err in failed:
            ctx.violation("model-eval-failed", "Coq evaluation of the phase-4 model failed (%s)" % tag, dict(shard=k, log=err), concrete=False)
        for b in sorted(bad)[:5]:
            ctx.violation(sig, what, dict(idx[b][1], which=idx[b][2:] if len(idx[b]) > 2 else None, coq_case=items[b][:3000]), concrete=False)
        dist[tag + "_cases"] = len(items)
        dist[tag + "_mismatches"] = len(bad)
    ctx.cov["p4_harness"] = dist


# ------------------------------------------------------------------ names in compiled programs

JS_DEF = re.compile(r'^\s*([A-Za-z_][\w$]*)\[(\d+)( /\* (.*?) \*/)\] = (function|\$newType\(\d+, \$kind\w+, "((?:[^"\\]|\\.)*)")', re.M)


def prog_tables(P):
    base = dict(G.BASE)
    for b, (pk, nm, _) in P.named_base.items():
        base[b] = P.pkg_path(pk) + "." + nm
    qual, short, sym = {}, {}, {}
    for o in P.objs:
        qual[o.id] = P.pkg_path(o.pkg) + "." + o.name
        short[o.id] = P.pkg_name(o.pkg) + "." + o.name
        sym[o.id] = G.obj_canon(P, o)
    return base, qual, short, sym


def coq_prog_compile_order(P):
    """the model program with the seed in the order the real build scans the packages: ascending import path
    (build.Session sorted sources): verifc04 (main) first, then verifc04/p0, verifc04/p1, ..."""
    seed = G.items_template(P, P.seed_items.get(P.npkg, []))
    for e in P.tag_cases:
        seed += G.refs_in_ty(P, e)
    for k in range(P.npkg):
        seed += G.items_template(P, P.seed_items.get(k, []))
    objs = []
    for o in P.objs:
        objs.append("mkObj %d %s [%s] %s %s [%s]" % (
            o.pkg, "KType" if o.kind in ("type", "ltype") else "KFunc", "; ".join(str(m) for m in o.methods),
            "(Some %d)" % o.nest if o.nest is not None else "None", "true" if o.lazy else "false",
            "; ".join(G.coq_item(i) for i in G.template(P, o))))
    return "mkProg %d%%nat [%s] [%s]" % (P.npkg + 1, ";\n  ".join(objs), "; ".join(G.coq_item(i) for i in seed))


def js_names_case(ctx, P, js, res, rep, dist):
    """returns a Coq jcase (or None). Direct oracles on the emitted names are evaluated here."""
    base, qual, short, sym = prog_tables(P)
    pfx = ("T", "N", "F")
    f = lambda e: tstr(G.thaw(e), base, qual, pfx)
    byname = {o.name: o for o in P.objs if o.kind in ("func", "type", "ltype")}
    labels = {}
    for i in P.expected:
        o = P.objs[i[0]]
        if o.kind in ("func", "type", "ltype"):
            labels[(o.id, params_str(list(i[1]), list(i[2]), " /* ", " */", f))] = i
    seen, var_of, entries = {}, {}, []
    for m in JS_DEF.finditer(js):
        var, n, label, kind, tstring = m.group(1), int(m.group(2)), m.group(3), m.group(5), m.group(6)
        o = byname.get(re.sub(r"\$\d+$", "", var))
        if o is None:
            continue                                   # generic code of the support packages
        i = labels.get((o.id, label))
        dist["js_definitions"] += 1
        if i is None:
            ctx.violation("instance-js-label-unknown", "the compiled program defines %s[%d%s], which is no instance of the predicted set" % (var, n, label),
                          dict(rep, line=m.group(0)[:200]), concrete=False)
            return None
        canon = G.inst_canon(P, i)
        prev = seen.get((o.pkg, var, n))
        if prev is not None and prev != canon:
            ctx.violation("instance-js-name-collision", "two different instances are emitted under the same JS reference %s[%d]: %s and %s" % (var, n, prev, canon),
                          dict(rep, a=prev, b=canon))
            return None
        seen[(o.pkg, var, n)] = canon
        if var_of.setdefault(o.id, var) != var:
            ctx.violation("instance-js-variable-differs", "instances of one object are emitted under two variables", dict(rep, a=var_of[o.id], b=var), concrete=False)
            return None
        if tstring is not None:
            dist["js_type_strings"] += 1
            if tstring != short[o.id] + params_str(list(i[1]), list(i[2]), "[", "]", f):
                ctx.violation("instance-type-string-differs", "$newType string %r is not Instance.TypeString of %s" % (tstring, canon), dict(rep, inst=canon), concrete=False)
                return None
        entries.append("{| je_inst := %s; je_js := %s; je_type_string := %s |}" % (G.coq_inst(i), cstr("%s[%d%s]" % (var, n, label)), cstr(tstring or "")))
    inv = {}
    for (pk, var, n), canon in seen.items():
        if inv.setdefault(canon, (var, n)) != (var, n):
            ctx.violation("identical-instance-two-js-names", "one instance is emitted under two JS references: %s" % canon, dict(rep, inst=canon))
            return None
    pkgvars = {}
    for oid, var in var_of.items():
        k = (P.objs[oid].pkg, var)
        if pkgvars.setdefault(k, oid) != oid:
            ctx.violation("object-js-variable-collision", "two generic objects of one package share the JS variable " + var, dict(rep, var=var))
            return None
    dist["js_instances_expected"] += sum(1 for i in P.expected if P.objs[i[0]].kind in ("func", "type", "ltype"))
    if not entries:
        return None
    var_tbl = {o.id: var_of.get(o.id, o.name) for o in P.objs}
    return "{| jc_prog := %s;\n jc_order := [%s]; jc_rounds := %d%%nat;\n jc_names := %s;\n jc_entries := [%s] |}" % (
        coq_prog_compile_order(P), "; ".join("%d%%nat" % k for k in P.sorted_order), 2 * res["rounds"] + 4, coq_names(base, qual, short, sym, var_tbl, pfx),
        ";\n  ".join(entries))


# ------------------------------------------------------------------ the shadowing witness (TypeString is not injective)

SHADOW_SRC = """package main

type G[T any] struct{ v T }

func f() (any, any) {
	type T int
	a := G[T]{}
	{
		type T string
		b := G[T]{}
		return a, b
	}
}

func main() {
	a, b := f()
	m := map[any]int{}
	m[a] = 1
	m[b] = 2
	println(a == b, len(m))
}
"""


def shadow_witness(ctx):
    """two instances G[T], G[T'] of shadowed local types: same TypeString (model: type_string_not_injective_lem), different JS references"""
    d = os.path.join(ctx.work, "p4_shadow")
    C.write_go_program(d, {"main.go": SHADOW_SRC}, module="verifc04")
    rc, log = C.gopherjs_build(d)
    st = dict(build=rc)
    ctx.count(["p4-shadow", SHADOW_SRC], nontrivial=True)
    if rc == 124:
        ctx.notes.append("skipped shadow witness: build timed out")
        return
    if rc != 0:
        ctx.violation("compiler-fails-on-shadowed-local-type-arguments", "gopherjs fails on the shadowing witness: " + log[:200], dict(kind="witness", files={"main.go": SHADOW_SRC}, log=log[-800:]))
        return
    js = open(os.path.join(d, "out.js")).read()
    defs = [(m.group(1), int(m.group(2)), m.group(6)) for m in JS_DEF.finditer(js) if m.group(1) == "G"]
    st["definitions"] = defs
    rcn, out, err = C.run_node(os.path.join(d, "out.js"))
    st["output"] = out.strip()
    st["type_strings_equal"] = len(defs) == 2 and defs[0][2] == defs[1][2]
    if len(defs) != 2 or defs[0][1] == defs[1][1]:
        ctx.violation("instance-js-name-collision", "G[T] and G[T'] (shadowed local types) are not emitted as two JS references: %r" % (defs,),
                      dict(kind="witness", files={"main.go": SHADOW_SRC}, defs=defs))
    elif out.strip() != "false 2":
        ctx.violation("shadowed-instances-conflated-at-run-time", "native Go prints 'false 2', gopherjs %r" % out.strip(),
                      dict(kind="witness", files={"main.go": SHADOW_SRC}, native="false 2", gopherjs=out.strip(), stderr=err[-500:]))
    ctx.cov["p4_shadow_witness"] = st
