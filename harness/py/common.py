"""Shared machinery for the /verif checks (see DESIGN.md section 2).

Everything a check needs is rebuilt here from /repo's *current working tree*:
the gopherjs binary, the overlay harness binaries (go build -tags verif -overlay),
the regenerated Coq tables (coq/Gen/*.v) and the Coq project (full .vo build).
"""
import fcntl, hashlib, json, os, random, re, shutil, subprocess, sys, time, glob

VERIF = os.path.dirname(os.path.dirname(os.path.dirname(os.path.abspath(__file__))))
REPO = os.path.abspath(os.environ.get("VERIF_REPO", "/repo"))
ALT = REPO != "/repo"
# Alternate-repository mode (VERIF_REPO=/some/worktree): used to try the checks against a mutated
# copy of gopherjs without touching /repo. Everything derived from the repository (binaries,
# regenerated tables, compiled Coq project, evidence, replays) then lives in a separate work dir.
WORK = os.path.join(VERIF, ".work") if not ALT else os.path.join(VERIF, ".work", "alt-" + hashlib.sha256(REPO.encode()).hexdigest()[:10])
BIN = os.path.join(WORK, "bin")
COQ_SRC = os.path.join(VERIF, "coq")
COQ = COQ_SRC if not ALT else os.path.join(WORK, "coq")
OVERLAY_SRC = os.path.join(VERIF, "harness", "go", "repo_overlay")
JS = os.path.join(VERIF, "harness", "js")
EVIDENCE = os.path.join(VERIF, "evidence") if not ALT else os.path.join(WORK, "evidence")
REPLAYS = os.path.join(VERIF, "replays") if not ALT else os.path.join(WORK, "replays")
KNOWN = os.path.join(VERIF, "known_findings.txt")
NCPU = os.cpu_count() or 4

FORBIDDEN = re.compile(
    r"(^|\s)(Admitted|Axiom|Axioms|Parameter|Parameters|Conjecture|Conjectures|Admit\s+Obligations)\b"
    r"|\badmit\b|\bgive_up\b|Unset\s+Guard\s+Checking|Unset\s+Positivity\s+Checking|Unset\s+Universe\s+Checking"
    r"|bypass_check|-type-in-type|-impredicative-set")
TOPLEVEL_HYP = re.compile(r"^(Variable|Variables|Hypothesis|Hypotheses|Context)\b")
THM = re.compile(r"^\s*(Theorem|Lemma|Corollary|Example|Fact|Remark|Proposition)\s+([A-Za-z0-9_']+)", re.M)


def goenv():
    e = dict(os.environ)
    e.update(GOFLAGS="-mod=mod", GOPROXY="off", GOSUMDB="off", GOTOOLCHAIN="local",
             GOPHERJS_SKIP_VERSION_CHECK="true", CGO_ENABLED="0")
    return e


def sh(cmd, cwd=None, timeout=600, env=None, inp=None):
    """run a command, return (rc, stdout+stderr)"""
    try:
        p = subprocess.run(cmd, cwd=cwd, env=env, input=inp, stdout=subprocess.PIPE, stderr=subprocess.STDOUT,
                           timeout=timeout, shell=isinstance(cmd, str))
        return p.returncode, p.stdout.decode("utf-8", "replace") if isinstance(p.stdout, bytes) else p.stdout
    except subprocess.TimeoutExpired as e:
        out = e.stdout.decode("utf-8", "replace") if e.stdout else ""
        return 124, out + "\n[timeout after %ss]" % timeout


def sh2(cmd, cwd=None, timeout=600, env=None, inp=None):
    """run a command, return (rc, stdout, stderr) as text"""
    try:
        p = subprocess.run(cmd, cwd=cwd, env=env, input=inp, stdout=subprocess.PIPE, stderr=subprocess.PIPE,
                           timeout=timeout, shell=isinstance(cmd, str))
        return p.returncode, p.stdout.decode("utf-8", "replace"), p.stderr.decode("utf-8", "replace")
    except subprocess.TimeoutExpired as e:
        return 124, (e.stdout or b"").decode("utf-8", "replace"), "[timeout after %ss]" % timeout


class Lock:
    def __init__(self, name):
        os.makedirs(WORK, exist_ok=True)
        self.path = os.path.join(WORK, name + ".lock")

    def __enter__(self):
        self.f = open(self.path, "w")
        fcntl.flock(self.f, fcntl.LOCK_EX)
        return self

    def __exit__(self, *a):
        fcntl.flock(self.f, fcntl.LOCK_UN)
        self.f.close()


# --------------------------------------------------------------------------
# building the implementation
# --------------------------------------------------------------------------

def ensure_gopherjs():
    """go build the compiler from /repo's working tree (Go's build cache makes this cheap)."""
    os.makedirs(BIN, exist_ok=True)
    out = os.path.join(BIN, "gopherjs")
    with Lock("gobuild"):
        rc, log = sh(["go", "build", "-o", out, "."], cwd=REPO, env=goenv(), timeout=900)
    if rc != 0:
        raise BuildError("go build of /repo failed:\n" + log)
    return out


def overlay_json(name=None):
    """map files under harness/go/repo_overlay/<rel> to the virtual path <REPO>/<rel>. With a harness
    name only that property's files are mapped (compiler/verifharness/<name>*/..., export_<name>_verif.go,
    *_<name>_*.go), so one property's overlay files can never break another property's build."""
    repl = {}
    for root, _, files in os.walk(OVERLAY_SRC):
        for f in files:
            src = os.path.join(root, f)
            rel = os.path.relpath(src, OVERLAY_SRC)
            if name is not None:
                pid = name[:3]   # harness names start with the property id: c13, c13prog, ...
                own = ("/verifharness/%s" % pid) in ("/" + rel) or ("_%s_" % pid) in f or f.startswith(pid + "_")
                if not own:
                    continue
            repl[os.path.join(REPO, rel)] = src
    os.makedirs(WORK, exist_ok=True)
    path = os.path.join(WORK, "overlay_%s.json" % (name or "all"))
    data = json.dumps({"Replace": repl}, indent=1, sort_keys=True)
    if not os.path.exists(path) or open(path).read() != data:
        with open(path + ".tmp", "w") as f:
            f.write(data)
        os.replace(path + ".tmp", path)
    return path


def ensure_go_harness(name, pkg=None):
    """build the overlay harness ./compiler/verifharness/<name> with -tags verif"""
    os.makedirs(BIN, exist_ok=True)
    out = os.path.join(BIN, "h_" + name)
    pkg = pkg or "./compiler/verifharness/" + name
    with Lock("gobuild"):
        ov = overlay_json(name)
        rc, log = sh(["go", "build", "-tags", "verif", "-overlay", ov, "-o", out, pkg], cwd=REPO, env=goenv(),
                     timeout=1800)
    if rc != 0:
        raise BuildError("go build of overlay harness %s failed:\n%s" % (name, log))
    return out


class BuildError(Exception):
    pass


def gopherjs_build(srcdir, out="out.js", minify=False, tags=None, timeout=600, extra=None):
    """compile the package in srcdir (needs a go.mod) with the real compiler; returns (rc, log)"""
    cmd = [os.path.join(BIN, "gopherjs"), "build", "-o", out]
    if minify:
        cmd.append("-m")
    if tags:
        cmd += ["--tags", tags]
    if extra:
        cmd += extra
    cmd.append(".")
    return sh(cmd, cwd=srcdir, env=goenv(), timeout=timeout)


def write_go_program(d, files, module="verifprog"):
    os.makedirs(d, exist_ok=True)
    with open(os.path.join(d, "go.mod"), "w") as f:
        f.write("module %s\n\ngo 1.20\n" % module)
    for name, text in files.items():
        p = os.path.join(d, name)
        os.makedirs(os.path.dirname(p), exist_ok=True)
        with open(p, "w") as f:
            f.write(text)


def run_node(jsfile, args=(), cwd=None, timeout=300, inp=None):
    return sh2(["node", "--stack-size=4000", jsfile] + list(args), cwd=cwd, timeout=timeout, inp=inp)


def parallel_map(fn, items, workers=None):
    from concurrent.futures import ThreadPoolExecutor
    with ThreadPoolExecutor(max_workers=workers or NCPU) as ex:
        return list(ex.map(fn, items))


# --------------------------------------------------------------------------
# Coq
# --------------------------------------------------------------------------

COQ_DIRS = ["Base", "Gen", "Model", "Proofs", "Props", "Lang", "Corr"]


def coq_sources():
    fs = []
    for d in COQ_DIRS:
        fs += sorted(glob.glob(os.path.join(COQ, d, "*.v")))
    return [os.path.relpath(f, COQ) for f in fs]


def write_if_changed(path, text):
    if os.path.exists(path) and open(path).read() == text:
        return False
    os.makedirs(os.path.dirname(path), exist_ok=True)
    with open(path + ".tmp", "w") as f:
        f.write(text)
    os.replace(path + ".tmp", path)
    return True


def sync_alt_coq():
    """alt mode: mirror /verif/coq into the alt work dir. The first sync copies sources AND compiled files
    (mtimes kept, so make is incremental); later syncs copy sources only, so that files rebuilt in the alt
    dir against its own regenerated Gen tables are never overwritten by the main tree's .vo files."""
    if ALT:
        os.makedirs(COQ, exist_ok=True)
        marker = os.path.join(COQ, ".synced")
        cmd = ["rsync", "-a", "--exclude", "Gen/", "--exclude", "_CoqProject", "--exclude", "Makefile*", "--exclude", ".Makefile.d",
               "--exclude", ".synced"]
        if os.path.exists(marker):
            cmd += ["--exclude", "*.vo", "--exclude", "*.vok", "--exclude", "*.vos", "--exclude", "*.glob", "--exclude", "*.aux"]
        sh(cmd + [COQ_SRC + "/", COQ + "/"])
        open(marker, "w").close()


def coq_project():
    sync_alt_coq()
    txt = "-Q . Verif\n-arg -w -arg -notation-overridden,-deprecated-hint-without-locality,-deprecated-instance-without-locality,-deprecated-hint-rewrite-without-locality,-ambiguous-paths\n" + "\n".join(coq_sources()) + "\n"
    changed = write_if_changed(os.path.join(COQ, "_CoqProject"), txt)
    if changed or not os.path.exists(os.path.join(COQ, "Makefile")):
        rc, log = sh(["coq_makefile", "-f", "_CoqProject", "-o", "Makefile"], cwd=COQ)
        if rc != 0:
            raise BuildError("coq_makefile failed: " + log)


def coq_make(targets=None, timeout=3000, jobs=None):
    """full .vo build (never -vos) of the given targets (default: everything). Returns (ok, log)."""
    with Lock("coq"):
        coq_project()
        cmd = ["make", "-j%d" % (jobs or NCPU)]
        if targets:
            cmd += targets
        rc, log = sh(["timeout", str(timeout)] + cmd, cwd=COQ, timeout=timeout + 30)
    return rc == 0, log


def coq_run(vfile, timeout=1200, mem_gb=12):
    """coqc a stand-alone file against the compiled project; returns (rc, output)"""
    cmd = "ulimit -s 4000000 2>/dev/null || ulimit -s unlimited 2>/dev/null; ulimit -v %d; exec coqc -Q %s Verif %s" % (mem_gb * 1024 * 1024, COQ, vfile)
    return sh(["bash", "-c", cmd], cwd=os.path.dirname(vfile), timeout=timeout)


def coq_list(xs, f=str, scope=""):
    return "[" + "; ".join(f(x) for x in xs) + "]" + scope


def scan_forbidden(files):
    """grep for forbidden constructs (outside comments) in the given .v files"""
    bad = []
    for f in files:
        txt = open(f).read()
        code = strip_coq_comments(txt)
        for i, line in enumerate(code.split("\n"), 1):
            if FORBIDDEN.search(line):
                bad.append("%s:%d: %s" % (os.path.relpath(f, VERIF), i, line.strip()[:100]))
        # Variable/Hypothesis outside a Section
        depth = 0
        for i, line in enumerate(code.split("\n"), 1):
            s = line.strip()
            if re.match(r"^Section\b", s):
                depth += 1
            elif re.match(r"^End\b", s) and depth > 0:
                depth -= 1
            elif depth == 0 and TOPLEVEL_HYP.match(s):
                bad.append("%s:%d: %s (outside a Section)" % (os.path.relpath(f, VERIF), i, s[:100]))
    return bad


def strip_coq_comments(txt):
    out = []
    depth = 0
    i = 0
    n = len(txt)
    instr = False
    while i < n:
        c = txt[i]
        if depth == 0 and c == '"':
            instr = not instr
            out.append(c)
            i += 1
            continue
        if not instr and txt.startswith("(*", i):
            depth += 1
            i += 2
            continue
        if not instr and depth > 0 and txt.startswith("*)", i):
            depth -= 1
            i += 2
            continue
        if depth == 0:
            out.append(c)
        elif c == "\n":
            out.append(c)
        i += 1
    return "".join(out)


def theorems_in(vfile):
    return [m.group(2) for m in THM.finditer(strip_coq_comments(open(vfile).read()))]


def coq_dep_files(prop_file):
    """transitive closure of `From Verif Require ... X.Y` dependencies, as .v paths"""
    seen, todo = [], [prop_file]
    while todo:
        f = todo.pop()
        if f in seen or not os.path.exists(f):
            continue
        seen.append(f)
        txt = strip_coq_comments(open(f).read())
        for m in re.finditer(r"From\s+Verif\s+Require\s+(?:Import\s+|Export\s+)?(.*?)\.(?=\s|$)", txt, re.S):
            for mod in m.group(1).split():
                todo.append(os.path.join(COQ, mod.replace(".", "/") + ".v"))
        for m in re.finditer(r"(?<!Verif\s)Require\s+(?:Import\s+|Export\s+)?((?:Verif\.[A-Za-z0-9_.']+\s*)+?)\.(?=\s|$)", txt, re.S):
            for mod in m.group(1).split():
                if mod.startswith("Verif."):
                    todo.append(os.path.join(COQ, mod[len("Verif."):].replace(".", "/") + ".v"))
    return seen


# --------------------------------------------------------------------------
# PRNG: every random choice derives from one seed
# --------------------------------------------------------------------------

def make_rng(seed, stream=""):
    h = hashlib.sha256(("%d/%s" % (seed, stream)).encode()).digest()
    return random.Random(int.from_bytes(h[:8], "big"))


# --------------------------------------------------------------------------
# Known findings
# --------------------------------------------------------------------------

def load_known():
    """lines:  finding: property=<ID> key=<signature> <text>     fixed: property=<ID> <commit> <text>"""
    res = []
    files = [KNOWN] + sorted(glob.glob(os.path.join(VERIF, "known_findings.d", "*.txt")))
    for fn in files:
        if not os.path.exists(fn):
            continue
        for line in open(fn):
            line = line.strip()
            m = re.match(r"finding:\s+property=(\S+)\s+key=(\S+)\s+(.*)", line)
            if m:
                res.append((m.group(1), m.group(2), m.group(3)))
    return res


def canon_json(x):
    return json.dumps(x, sort_keys=True, separators=(",", ":"))


def sha(x):
    return hashlib.sha256(x if isinstance(x, bytes) else x.encode()).hexdigest()
