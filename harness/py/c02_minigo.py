"""C02 — generator, printers and a reference interpreter for the MODELLED fragment (MiniGo of
coq/Model/C02_Flat.v).  One Python AST is printed both as Go source and as a Coq term.

expr : ('c', z) | ('v', i) | ('g', i) | ('b', op, a, b) | ('n', a)
stmt : ('assign', x, e) | ('gassign', g, e) | ('print', e) | ('yield', k)
     | ('call', dst|None, f, [e]) | ('if', c, [s]) | ('ifelse', c, [s], [s])
     | ('for', lbl|None, init_stmt|None, c, post_stmt|None, [s]) | ('break', l) | ('continue', l) | ('return', e)
function : dict(np=, nloc=, body=[s])       program : dict(fns=[...], nglob=, args=[...])
fns[0] is the entry function; the last two are fixed helpers  step(a) {yield; return a+1}  and  nstep(a) {return a+1}.
"""
import re

M = 997
INT_OPS = {"+": "OAdd", "-": "OSub", "*": "OMul", "%": "ORem"}
CMP_OPS = {"<": "OLt", "<=": "OLe", "==": "OEq", "!=": "ONe"}
LOG_OPS = {"&&": "OAnd", "||": "OOr"}
ALL_OPS = dict(INT_OPS, **CMP_OPS, **LOG_OPS)


# ------------------------------------------------------------------ generation

class Gen:
    def __init__(self, r, size):
        self.r = r
        self.size = size
        self.site = 0

    def program(self):
        r = self.r
        nf = r.randint(1, 4)
        self.nglob = r.randint(1, 3)
        self.nf = nf
        self.step, self.nstep = nf, nf + 1
        # which functions are meant to stay non-blocking (never yield, only call non-blocking ones)
        self.pure = [r.random() < 0.25 for _ in range(nf)]
        self.pure[0] = False
        for i in range(1, nf):          # purity is monotone along the forced chain f0 -> f1 -> ...
            if self.pure[i - 1]:
                self.pure[i] = True
        self.nps = [r.randint(1, 3) for _ in range(nf)]
        fns = [None] * nf
        for i in reversed(range(nf)):
            fns[i] = self.function(i)
        fns.append(dict(np=1, nloc=1, body=[("yield", self.newsite()), ("return", ("b", "+", ("v", 0), ("c", 1)))]))
        fns.append(dict(np=1, nloc=1, body=[("return", ("b", "+", ("v", 0), ("c", 1)))]))
        args = [r.randint(0, 2)] + [r.randint(-9, 9) for _ in range(self.nps[0] - 1)]
        return dict(fns=fns, nglob=self.nglob, args=args)

    def newsite(self):
        self.site += 1
        return (self.site - 1) % 30

    # ---- expressions
    def leaf(self):
        r = self.r
        k = r.random()
        if k < 0.35:
            return ("c", r.randint(-9, 9))
        if k < 0.85 and self.readable:
            return ("v", r.choice(self.readable))
        return ("g", r.randrange(self.nglob))

    def iexpr(self, d=2):
        r = self.r
        if d == 0 or r.random() < 0.3:
            return self.leaf()
        op = r.choice(["+", "-", "+", "-", "*"])
        if op == "*":
            return ("b", "*", self.leaf(), self.leaf())
        return ("b", op, self.iexpr(d - 1), self.iexpr(d - 1))

    def bounded(self, d=2):
        return ("b", "%", self.iexpr(d), ("c", M))

    def bexpr(self, d=1):
        r = self.r
        k = r.random()
        if d > 0 and k < 0.25:
            return ("b", r.choice(["&&", "||"]), self.bexpr(d - 1), self.bexpr(d - 1))
        if d > 0 and k < 0.35:
            return ("n", self.bexpr(d - 1))
        return ("b", r.choice(list(CMP_OPS)), self.iexpr(1), self.iexpr(1))

    # ---- statements
    def function(self, i):
        r = self.r
        self.fi = i
        self.np = self.nps[i]
        self.nloc = self.np
        self.assignable = list(range(1, self.np))
        self.readable = list(range(self.np))
        self.loops = []          # stack of dict(label=int|None, used=bool)
        self.nlabel = 0
        self.budget = self.size
        nl = r.randint(1, 3)
        for _ in range(nl):
            self.newlocal()
        body = self.block(0, top=True)
        # keep every function reachable from the entry (dead functions are eliminated from out.js)
        if i + 1 < self.nf and not (self.pure[i] and not self.pure[i + 1]):
            j = i + 1
            dst = r.choice(self.assignable) if self.assignable else None
            call = ("call", dst, j, [("v", 0)] + [self.bounded(1) for _ in range(self.nps[j] - 1)])
            body.insert(r.randint(0, len(body)), call)
        body.append(("return", self.bounded()))
        return dict(np=self.np, nloc=self.nloc, body=body)

    def newlocal(self, assignable=True):
        x = self.nloc
        self.nloc += 1
        if assignable:
            self.assignable.append(x)
        self.readable.append(x)
        return x

    def callstmt(self, depth):
        r = self.r
        i = self.fi
        cands = []
        for j in range(self.nf):
            if self.pure[i] and not self.pure[j]:
                continue
            cands.append(j)
        if not self.pure[i]:
            cands += [self.step, self.step]
        cands.append(self.nstep)
        j = r.choice(cands)
        dst = r.choice(self.assignable) if self.assignable and r.random() < 0.75 else None
        if j >= self.nf:
            return [("call", dst, j, [self.bounded(1)])]
        if j > i:
            args = [("v", 0)] + [self.bounded(1) for _ in range(self.nps[j] - 1)]
            return [("call", dst, j, args)]
        # back edge / self recursion: guarded, depth parameter decreases
        args = [("b", "-", ("v", 0), ("c", 1))] + [self.bounded(1) for _ in range(self.nps[j] - 1)]
        return [("if", ("b", "<", ("c", 0), ("v", 0)), [("call", dst, j, args)])]

    def block(self, depth, top=False):
        r = self.r
        n = r.randint(1, 4 if depth < 2 else 2)
        out = []
        for _ in range(n):
            out += self.stmt(depth)
            if self.budget <= 0:
                break
        return out

    def stmt(self, depth):
        r = self.r
        self.budget -= 1
        k = r.random()
        pure = self.pure[self.fi]
        if k < 0.16 and self.assignable:
            return [("assign", r.choice(self.assignable), self.bounded())]
        if k < 0.22:
            return [("gassign", r.randrange(self.nglob), self.bounded())]
        if k < 0.34:
            return [("print", self.iexpr(1))]
        if k < 0.50:
            if pure:
                return [("print", self.iexpr(1))]
            return [("yield", self.newsite())]
        if k < 0.66:
            return self.callstmt(depth)
        if k < 0.80 and depth < 3:
            c = self.bexpr()
            a = self.block(depth + 1)
            if r.random() < 0.5:
                return [("if", c, a)]
            return [("ifelse", c, a, self.block(depth + 1))]
        if k < 0.93 and depth < 3 and len(self.loops) < 2:
            return self.forstmt(depth)
        if self.loops and depth > 0:
            # break / continue, labelled or not; as the last statement of a block only half of the time
            tgt = r.randrange(len(self.loops))
            lp = self.loops[tgt]
            kind = r.choice(["break", "continue"])
            if tgt == len(self.loops) - 1 and r.random() < 0.6:
                br = [(kind, None)]
            else:
                lp["used"] = True
                br = [(kind, lp["label"])]
            if r.random() < 0.6:
                return [("if", self.bexpr(), br)]
            return br
        if depth > 0 and r.random() < 0.3:
            return [("if", self.bexpr(), [("return", self.bounded())])]
        return [("print", self.iexpr(1))]

    def forstmt(self, depth):
        r = self.r
        pure = self.pure[self.fi]
        x = self.newlocal(assignable=False)
        bound = r.randint(1, 3)
        k = r.random()
        if k < 0.25 and not pure:
            init = ("call", x, self.step, [("c", r.randint(-1, 0))])
        elif k < 0.35:
            init = None          # the variable is 0 already (declared at the top, fresh)
        else:
            init = ("assign", x, ("c", r.randint(0, 1)))
        k = r.random()
        if k < 0.4 and not pure:
            post = ("call", x, self.step, [("v", x)])
        elif k < 0.55:
            post = ("call", x, self.nstep, [("v", x)])
        else:
            post = ("assign", x, ("b", "+", ("v", x), ("c", r.randint(1, 2))))
        cond = ("b", "<", ("v", x), ("c", bound))
        if r.random() < 0.2:
            cond = ("b", "&&", cond, self.bexpr(0))
        self.nlabel += 1
        lp = dict(label=self.nlabel, used=False)
        self.loops.append(lp)
        body = self.block(depth + 1)
        if r.random() < 0.45:
            # a guarded branch statement in otherwise direct-form code: when the post statement is a blocking call
            # the analysis has to flatten this `if` (propagateContinueBlocking); a break leaves through `$s = end`
            tgt = r.randrange(len(self.loops))
            kind = r.choice(["continue", "continue", "break"])
            if tgt == len(self.loops) - 1 and r.random() < 0.6:
                br = (kind, None)
            else:
                self.loops[tgt]["used"] = True
                br = (kind, self.loops[tgt]["label"])
            body.insert(r.randint(0, len(body)), ("if", self.bexpr(0), [br]))
        self.loops.pop()
        if init is None:
            # a loop without init must not be re-entered with a stale counter: reset it right before
            pre = [("assign", x, ("c", 0))]
        else:
            pre = []
        return pre + [("for", lp["label"] if lp["used"] else None, init, cond, post, body)]


def generate(r, size=14):
    return Gen(r, size).program()


# ------------------------------------------------------------------ reference interpreter

class Budget(Exception):
    pass


def go_rem(a, b):
    q = abs(a) // abs(b)
    if (a < 0) != (b < 0):
        q = -q
    return a - b * q


def ev(e, loc, st):
    t = e[0]
    if t == "c":
        return e[1]
    if t == "v":
        return loc[e[1]]
    if t == "g":
        return st["g"][e[1]]
    if t == "n":
        return 0 if ev(e[1], loc, st) != 0 else 1
    a, b = ev(e[2], loc, st), ev(e[3], loc, st)
    op = e[1]
    if op == "+": return a + b
    if op == "-": return a - b
    if op == "*": return a * b
    if op == "%": return go_rem(a, b)
    if op == "<": return int(a < b)
    if op == "<=": return int(a <= b)
    if op == "==": return int(a == b)
    if op == "!=": return int(a != b)
    if op == "&&": return int(a != 0 and b != 0)
    if op == "||": return int(a != 0 or b != 0)
    raise ValueError(op)


def run_block(p, body, loc, st):
    for s in body:
        o = run_stmt(p, s, loc, st)
        if o is not None:
            return o
    return None


def targets(l, lbl):
    return l is None or l == lbl


def run_stmt(p, s, loc, st):
    st["steps"] += 1
    if st["steps"] > st["limit"]:
        raise Budget()
    t = s[0]
    if t == "assign":
        loc[s[1]] = ev(s[2], loc, st)
    elif t == "gassign":
        st["g"][s[1]] = ev(s[2], loc, st)
    elif t == "print":
        st["out"].append(ev(s[1], loc, st))
    elif t == "yield":
        st["yields"] += 1
    elif t == "call":
        v = call(p, s[2], [ev(a, loc, st) for a in s[3]], st)
        if s[1] is not None:
            loc[s[1]] = v
    elif t == "if":
        if ev(s[1], loc, st) != 0:
            return run_block(p, s[2], loc, st)
    elif t == "ifelse":
        return run_block(p, s[2] if ev(s[1], loc, st) != 0 else s[3], loc, st)
    elif t == "for":
        _, lbl, init, c, post, body = s
        if init is not None:
            run_stmt(p, init, loc, st)
        while ev(c, loc, st) != 0:
            o = run_block(p, body, loc, st)
            if o is not None:
                if o[0] == "break" and targets(o[1], lbl):
                    break
                if not (o[0] == "continue" and targets(o[1], lbl)):
                    return o
            if post is not None:
                run_stmt(p, post, loc, st)
    elif t == "range":
        # phase 4: for key = range <slice of length len> — Go's semantics: the length is evaluated once, the key is
        # assigned at the top of every iteration (the hidden slots ref/iv of the model are not program variables)
        _, lbl, key, _ref, _iv, ln, body = s
        n = ev(ln, loc, st)
        for k in range(max(n, 0)):
            if key is not None:
                loc[key] = k
            o = run_block(p, body, loc, st)
            if o is not None:
                if o[0] == "break" and targets(o[1], lbl):
                    break
                if not (o[0] == "continue" and targets(o[1], lbl)):
                    return o
    elif t in ("break", "continue"):
        return (t, s[1])
    elif t == "return":
        return ("return", ev(s[1], loc, st))
    return None


def call(p, f, args, st):
    fn = p["fns"][f]
    st["depth"] += 1
    if st["depth"] > 60:
        raise Budget()
    loc = list(args) + [0] * (fn["nloc"] - len(args))
    o = run_block(p, fn["body"], loc, st)
    st["depth"] -= 1
    return o[1] if o and o[0] == "return" else 0


def interpret(p, limit=2500):
    """-> (out, ret, globals, yields) or None when the step budget is exceeded"""
    st = dict(g=[0] * p["nglob"], out=[], steps=0, limit=limit, yields=0, depth=0)
    try:
        v = call(p, 0, p["args"], st)
    except Budget:
        return None
    return st["out"], v, st["g"], st["yields"]


# ------------------------------------------------------------------ Go printer

def vname(fn, i):
    return "p%d" % i if i < fn["np"] else "x%d" % i


def go_expr(fn, e):
    t = e[0]
    if t == "c":
        return str(e[1]) if e[1] >= 0 else "(%d)" % e[1]
    if t == "v":
        return vname(fn, e[1])
    if t == "g":
        return "g%d" % e[1]
    if t == "n":
        return "(!%s)" % go_expr(fn, e[1])
    return "(%s %s %s)" % (go_expr(fn, e[2]), e[1], go_expr(fn, e[3]))


def fname(p, f):
    n = len(p["fns"])
    if f == n - 2:
        return "step"
    if f == n - 1:
        return "nstep"
    return "f%d" % f


def go_simple(p, fn, s):
    t = s[0]
    if t == "assign":
        return "%s = %s" % (vname(fn, s[1]), go_expr(fn, s[2]))
    if t == "gassign":
        return "g%d = %s" % (s[1], go_expr(fn, s[2]))
    if t == "print":
        return "println(%s)" % go_expr(fn, s[1])
    if t == "yield":
        return "yield(%d)" % s[1]
    if t == "call":
        c = "%s(%s)" % (fname(p, s[2]), ", ".join(go_expr(fn, a) for a in s[3]))
        return c if s[1] is None else "%s = %s" % (vname(fn, s[1]), c)
    raise ValueError(t)


def go_block(p, fn, body, ind, L):
    for s in body:
        t = s[0]
        pad = "\t" * ind
        if t == "if" or t == "ifelse":
            L.append("%sif %s {" % (pad, go_expr(fn, s[1])))
            go_block(p, fn, s[2], ind + 1, L)
            if t == "ifelse":
                L.append(pad + "} else {")
                go_block(p, fn, s[3], ind + 1, L)
            L.append(pad + "}")
        elif t == "for":
            _, lbl, init, c, post, body2 = s
            if lbl is not None:
                L.append("%sL%d:" % (pad, lbl))
            L.append("%sfor %s; %s; %s {" % (pad, go_simple(p, fn, init) if init else "", go_expr(fn, c),
                                            go_simple(p, fn, post) if post else ""))
            go_block(p, fn, body2, ind + 1, L)
            L.append(pad + "}")
        elif t == "range":
            _, lbl, key, _ref, _iv, ln, body2 = s
            if lbl is not None:
                L.append("%sL%d:" % (pad, lbl))
            L.append("%sfor %srange make([]struct{}, %s) {" % (pad, "" if key is None else vname(fn, key) + " = ", go_expr(fn, ln)))
            go_block(p, fn, body2, ind + 1, L)
            L.append(pad + "}")
        elif t in ("break", "continue"):
            L.append("%s%s%s" % (pad, t, "" if s[1] is None else " L%d" % s[1]))
        elif t == "return":
            L.append("%sreturn %s" % (pad, go_expr(fn, s[1])))
        else:
            L.append(pad + go_simple(p, fn, s))


YIELD_BLOCKING = """func yield(k int) {
	if mask&(1<<uint(k)) != 0 {
		c := make(chan bool, 1)
		go func() { c <- true }()
		<-c
	}
}
"""
YIELD_DIRECT = """func yield(k int) {
}
"""
SEP = -77777777


def go_source(p, masks, blocking=True):
    L = ["package main", "", "var mask int", "var %s int" % ", ".join("g%d" % i for i in range(p["nglob"])), ""]
    L.append(YIELD_BLOCKING if blocking else YIELD_DIRECT)
    for fi, fn in enumerate(p["fns"]):
        L.append("func %s(%s) int {" % (fname(p, fi), ", ".join("p%d int" % i for i in range(fn["np"]))))
        locs = ["x%d" % i for i in range(fn["np"], fn["nloc"])]
        if locs:
            L.append("\tvar %s int" % ", ".join(locs))
            L.append("\t%s = %s" % (", ".join("_" for _ in locs), ", ".join(locs)))
        go_block(p, fn, fn["body"], 1, L)
        L.append("}")
        L.append("")
    L.append("func main() {")
    L.append("\tmasks := [...]int{%s}" % ", ".join(str(m) for m in masks))
    L.append("\tfor _, m := range masks {")
    L.append("\t\tmask = m")
    L.append("\t\t%s = %s" % (", ".join("g%d" % i for i in range(p["nglob"])), ", ".join("0" for _ in range(p["nglob"]))))
    L.append("\t\tprintln(%d)" % SEP)
    L.append("\t\tr := f0(%s)" % ", ".join(str(a) for a in p["args"]))
    L.append("\t\tprintln(%d)" % SEP)
    L.append("\t\tprintln(r)")
    L.append("\t}")
    L.append("}")
    return "\n".join(L) + "\n"


# ------------------------------------------------------------------ Coq printer

def zc(z):
    return "(%d)%%Z" % z


def nc(n):
    return "%d%%nat" % n


def coq_expr(e):
    t = e[0]
    if t == "c":
        return "(EConst %s)" % zc(e[1])
    if t == "v":
        return "(EVar %s)" % nc(e[1])
    if t == "g":
        return "(EGlob %s)" % nc(e[1])
    if t == "n":
        return "(ENot %s)" % coq_expr(e[1])
    return "(EBin %s %s %s)" % (ALL_OPS[e[1]], coq_expr(e[2]), coq_expr(e[3]))


def coq_opt(x):
    return "None" if x is None else "(Some %s)" % nc(x)


def coq_block(body):
    if not body:
        return "SSkip"
    if len(body) == 1:
        return coq_stmt(body[0])
    return "(SSeq %s %s)" % (coq_stmt(body[0]), coq_block(body[1:]))


def coq_stmt(s):
    t = s[0]
    if t == "assign":
        return "(SAssign %s %s)" % (nc(s[1]), coq_expr(s[2]))
    if t == "gassign":
        return "(SGAssign %s %s)" % (nc(s[1]), coq_expr(s[2]))
    if t == "print":
        return "(SPrint %s)" % coq_expr(s[1])
    if t == "yield":
        return "SYield"
    if t == "call":
        return "(SCall false %s %s [%s])" % (coq_opt(s[1]), nc(s[2]), "; ".join(coq_expr(a) for a in s[3]))
    if t == "if":
        return "(SIf false %s %s)" % (coq_expr(s[1]), coq_block(s[2]))
    if t == "ifelse":
        return "(SIfElse false %s %s %s)" % (coq_expr(s[1]), coq_block(s[2]), coq_block(s[3]))
    if t == "for":
        _, lbl, init, c, post, body = s
        return "(SFor false %s %s %s %s %s)" % (coq_opt(lbl), coq_stmt(init) if init else "SSkip", coq_expr(c),
                                                coq_stmt(post) if post else "SSkip", coq_block(body))
    if t == "break":
        return "(SBreak %s)" % coq_opt(s[1])
    if t == "continue":
        return "(SContinue %s)" % coq_opt(s[1])
    if t == "return":
        return "(SReturn %s)" % coq_expr(s[1])
    raise ValueError(t)


def coq_prog(p):
    return "[%s]" % ";\n   ".join("{| sf_nparams := %s; sf_body := %s |}" % (nc(fn["np"]), coq_block(fn["body"])) for fn in p["fns"])


def coq_toks(toks):
    return "[%s]" % "; ".join("T" + t[0] if t[0] in "RP" else "T%s %s" % (t[0], nc(t[1])) for t in toks)


# ------------------------------------------------------------------ reading the emitted JavaScript

FUNC_HEAD = re.compile(r"^\t\t([A-Za-z_][\w$]*) = function [^\s(]+\((.*)\) \{$")
TOK = re.compile(r"\$s = (\d+); case \1: if\(\$c\)|case (\d+):|\$s = (\d+); continue(?: s)?;|\$s = -1; return\b|\breturn\b")


def js_functions(js):
    """{go name: (body text, is_resumable)} of the package-level functions of the main package"""
    res = {}
    lines = js.split("\n")
    i = 0
    while i < len(lines):
        m = FUNC_HEAD.match(lines[i])
        if m:
            j = i + 1
            while j < len(lines) and lines[j] != "\t\t};":
                j += 1
            name = m.group(1)
            name = re.sub(r"\$\d+$", "", name)
            res[name] = lines[i + 1:j]
            i = j
        i += 1
    return res


def js_skeleton(body_lines):
    """token list of a resumable function body, None for a function in direct form"""
    text = "\n".join(body_lines)
    if "$restore(this" not in text:
        return None
    # cut the prologue up to `case 0:` and the epilogue `} return; } var $f = ...`
    a = text.find("switch ($s) { case 0:")
    b = text.rfind("/* */ } return; }")
    if a < 0 or b < 0:
        return [("X", 0)]
    core = text[a + len("switch ($s) { case 0:"):b]
    # closures inside would confuse the scan; the modelled fragment has none
    toks = []
    for m in TOK.finditer(core):
        if m.group(1) is not None:
            toks.append(("C", int(m.group(1))))
        elif m.group(2) is not None:
            toks.append(("L", int(m.group(2))))
        elif m.group(3) is not None:
            toks.append(("G", int(m.group(3))))
        elif m.group(0).startswith("$s"):
            toks.append(("R",))
        else:
            toks.append(("P",))          # a return that does not reset $s
    return toks


def js_frame_vars(body_lines):
    """(restored names, saved names) of a resumable function: `var {..} = $restore(..)` and `$f = {..}`"""
    text = "\n".join(body_lines)
    m1 = re.search(r"var \{([^}]*)\} = \$restore\(this, \{([^}]*)\}\);", text)
    m2 = re.search(r"var \$f = \{\$blk: [^,]+, \$c: true, ([^}]*)\};return \$f;", text)
    if not m1 or not m2:
        return None
    restored = set(x.strip() for x in m1.group(1).split(",") if x.strip())
    saved = set(x.strip() for x in m2.group(1).split(",") if x.strip())
    return restored, saved
