"""C14 (phase 4) — regenerate coq/Gen/C14_Templates.v from /repo's CURRENT tree.

A Go table program with one function per string operator / conversion is compiled by the REAL compiler;
the `return <expr>;` of every function is parsed by a small JavaScript expression parser (below) and written
as a term of the deep embedding Model/C14_Ops.jx.  coq/Proofs/C14_P4_Tie.v then proves, by conversion, that
every regenerated template equals the hand-written T_* the theorems are about — so a compiler that emits a
different template breaks the proof instead of silently changing the statement.  Also regenerated:
  * STRING_KEY_PREFIX — the prefix `$String.keyFor` puts in front of the string (regex over types.js),
  * B2S_CHUNK          — the chunk size of $bytesToString (regex over prelude.js),
  * the string switch of the table program (clauses of === tests).
The same compiled program exports its raw functions (js.InternalObject) and is what the correspondence in
props/c14.py calls in node (harness/js/c14_ops_driver.js).
"""
import os, re
import common as C

# name, Go signature + body, Coq parameter kinds
TEMPLATES = [
    ("Add", "(x, y string) string", "x + y"),
    ("Eql", "(x, y string) bool", "x == y"),
    ("Neq", "(x, y string) bool", "x != y"),
    ("Lss", "(x, y string) bool", "x < y"),
    ("Leq", "(x, y string) bool", "x <= y"),
    ("Gtr", "(x, y string) bool", "x > y"),
    ("Geq", "(x, y string) bool", "x >= y"),
    ("Len", "(x string) int", "len(x)"),
    ("Idx", "(x string, i int) byte", "x[i]"),
    ("Sl2", "(x string, i, j int) string", "x[i:j]"),
    ("SlLo", "(x string, i int) string", "x[i:]"),
    ("SlHi", "(x string, j int) string", "x[:j]"),
    ("ToBytes", "(x string) []byte", "[]byte(x)"),
    ("FromBytes", "(b []byte) string", "string(b)"),
    ("ToRunes", "(x string) []rune", "[]rune(x)"),
    ("FromRunes", "(b []rune) string", "string(b)"),
    ("FromRune", "(r rune) string", "string(r)"),
    ("FromI64", "(r int64) string", "string(r)"),
    ("MapGet", "(m map[string]int, k string) int", "m[k]"),
    # the same operators on a named string type: must be the same templates
    ("MyAdd", "(x, y myStr) myStr", "x + y"),
    ("MyLss", "(x, y myStr) bool", "x < y"),
    ("MyEql", "(x, y myStr) bool", "x == y"),
    ("MyLen", "(x myStr) int", "len(x)"),
    ("MyToBytes", "(x myStr) myBytes", "myBytes(x)"),
    ("MyFromBytes", "(b myBytes) myStr", "myStr(b)"),
]
# clauses of the table program's string switch (byte strings)
SWITCH_CLAUSES = [[b"a"], [b"b\xff", b"c"], [b""], [b"a\x00"], [b"\xc3\xa9", b"A", b"$"]]


def go_hex(bs):
    return '"' + "".join("\\x%02x" % b for b in bs) + '"'


def template_program():
    L = ["package main", "", 'import "github.com/gopherjs/gopherjs/js"', "", "type myStr string", "type myBytes []byte", ""]
    for name, sig, body in TEMPLATES:
        L.append("func Str_%s%s { return %s }" % (name, sig, body))
    L += ["",
          "func Str_MapGet2(m map[string]int, k string) (int, bool) { v, ok := m[k]; return v, ok }",
          "func Str_MapSet(m map[string]int, k string, v int)       { m[k] = v }",
          "func Str_MapDel(m map[string]int, k string)              { delete(m, k) }",
          "func Str_MapLen(m map[string]int) int                    { return len(m) }",
          "func Str_MapNew() map[string]int                         { return map[string]int{} }",
          "func Str_AddAssign(x, y string) string                   { x += y; return x }",
          "func Str_Switch(s string) int {", "\tswitch s {"]
    for i, cl in enumerate(SWITCH_CLAUSES):
        L.append("\tcase %s:\n\t\treturn %d" % (", ".join(go_hex(c) for c in cl), i))
    L += ["\t}", "\treturn -1", "}", "",
          "func main() {", "\to := js.Global.Get(\"Object\").New()"]
    extra = ["MapGet2", "MapSet", "MapDel", "MapLen", "MapNew", "AddAssign", "Switch"]
    for name in [t[0] for t in TEMPLATES] + extra:
        L.append("\to.Set(%s, js.InternalObject(Str_%s))" % ('"%s"' % name, name))
    L += ["\tjs.Global.Set(\"c14ops\", o)", "}", ""]
    return "\n".join(L)


def build_program(workdir):
    """compile the table program with the real compiler; returns the path of out.js"""
    d = os.path.join(workdir, "c14_templates")
    C.write_go_program(d, {"main.go": template_program()}, module="verifc14t")
    rc, log = C.gopherjs_build(d)
    if rc != 0:
        raise C.BuildError("gopherjs build of the C14 template program failed:\n" + log[-1500:])
    return os.path.join(d, "out.js")


# --------------------------------------------------------------------------- JS expression parser

class Untranslatable(Exception):
    pass


TOK = re.compile(r"""\s*(?:
    (?P<num>\d+(?:\.\d+)?) |
    (?P<id>[A-Za-z_$][A-Za-z0-9_$]*) |
    (?P<str>"(?:[^"\\]|\\.)*") |
    (?P<op>===|!==|<=|>=|\|\||&&|[-+<>!?:.,()=\[\]{}])
)""", re.X)


def tokenize(text):
    toks, pos = [], 0
    text = text.strip()
    while pos < len(text):
        m = TOK.match(text, pos)
        if not m or m.end() == pos:
            raise Untranslatable("cannot tokenize at %r" % text[pos:pos + 20])
        pos = m.end()
        for k in ("num", "id", "str", "op"):
            if m.group(k) is not None:
                toks.append((k, m.group(k)))
    return toks


def unescape_js(lit):
    """bytes (code units) of a double-quoted literal as encodeString writes it"""
    s, out, i = lit[1:-1], [], 0
    simple = {"b": 8, "f": 12, "n": 10, "r": 13, "t": 9, "v": 11, "\\": 92, '"': 34, "'": 39, "0": 0}
    while i < len(s):
        c = s[i]
        if c != "\\":
            if ord(c) > 0x7E or ord(c) < 0x20:
                raise Untranslatable("raw non-printable character in a literal")
            out.append(ord(c)); i += 1
        elif s[i + 1] == "x":
            out.append(int(s[i + 2:i + 4], 16)); i += 4
        elif s[i + 1] == "u":
            out.append(int(s[i + 2:i + 6], 16)); i += 6
        elif s[i + 1] in simple:
            out.append(simple[s[i + 1]]); i += 2
        else:
            raise Untranslatable("escape \\%s" % s[i + 1])
    return out


class Parser:
    """precedence climbing over: comma < assignment < ?: < || < && < === !== < relational < + < unary < postfix"""

    def __init__(self, toks):
        self.t, self.i = toks, 0

    def peek(self):
        return self.t[self.i] if self.i < len(self.t) else (None, None)

    def eat(self, v=None):
        k, x = self.peek()
        if k is None or (v is not None and x != v):
            raise Untranslatable("expected %r, found %r" % (v, x))
        self.i += 1
        return k, x

    def comma(self):
        e = self.assign()
        while self.peek()[1] == ",":
            self.eat()
            e = ("bin", ",", e, self.assign())
        return e

    def assign(self):
        e = self.cond()
        if self.peek()[1] == "=":
            self.eat()
            if e[0] != "id":
                raise Untranslatable("assignment to a non-identifier")
            return ("assign", e[1], self.assign())
        return e

    def cond(self):
        c = self.binary(0)
        if self.peek()[1] == "?":
            self.eat()
            a = self.assign()
            self.eat(":")
            return ("cond", c, a, self.assign())
        return c

    LEVELS = [["||"], ["&&"], ["===", "!=="], ["<", "<=", ">", ">="], ["+"]]

    def binary(self, lvl):
        if lvl == len(self.LEVELS):
            return self.unary()
        e = self.binary(lvl + 1)
        while self.peek()[0] == "op" and self.peek()[1] in self.LEVELS[lvl]:
            op = self.eat()[1]
            e = ("bin", op, e, self.binary(lvl + 1))
        return e

    def unary(self):
        k, x = self.peek()
        if x == "!":
            self.eat()
            return ("not", self.unary())
        if x == "-":
            self.eat()
            e = self.unary()
            if e[0] != "num":
                raise Untranslatable("unary minus on a non-literal")
            return ("num", -e[1])
        if k == "id" and x == "new":
            self.eat()
            k2, name = self.eat()
            self.eat("(")
            a = self.assign()
            self.eat(")")
            return self.postfix(("new", name, a))
        return self.postfix(self.primary())

    def primary(self):
        k, x = self.eat()
        if k == "num":
            if "." in x:
                raise Untranslatable("non-integer literal")
            return ("num", int(x))
        if k == "str":
            return ("str", unescape_js(x))
        if k == "id":
            return ("id", x)
        if x == "(":
            e = self.comma()
            self.eat(")")
            return e
        raise Untranslatable("unexpected token %r" % x)

    def postfix(self, e):
        while True:
            x = self.peek()[1]
            if x == ".":
                self.eat()
                e = ("member", e, self.eat()[1])
            elif x == "(":
                self.eat()
                args = []
                if self.peek()[1] != ")":
                    args.append(self.assign())
                    while self.peek()[1] == ",":
                        self.eat()
                        args.append(self.assign())
                self.eat(")")
                e = ("call", e, args)
            else:
                return e


def parse(text):
    p = Parser(tokenize(text))
    e = p.comma()
    if p.i != len(p.t):
        raise Untranslatable("trailing tokens")
    return e


PRIMS = {"$substring": "PSubstring", "$stringToBytes": "PStringToBytes", "$bytesToString": "PBytesToString",
         "$stringToRunes": "PStringToRunes", "$runesToString": "PRunesToString", "$encodeRune": "PEncodeRune",
         "$mapIndex": "PMapIndex", "$throwRuntimeError": "PThrow"}
BINOPS = {"+": "OAdd", "<": "OLt", "<=": "OLe", ">": "OGt", ">=": "OGe", "===": "OSeq", "!==": "OSne", "||": "OOr", "&&": "OAnd", ",": "OComma"}
FIELDS = {"length": "FLength", "$high": "FHigh", "$low": "FLow", "v": "FV"}


def coq_nlist(xs):
    return "[" + ";".join(str(x) for x in xs) + "]%N"


def to_coq(e, params, slice_types, tmp=None):
    """AST -> Gallina term of Model/C14_Ops.jx"""
    rec = lambda x, t=tmp: to_coq(x, params, slice_types, t)
    k = e[0]
    if k == "num":
        return "(XNum (%d)%%Z)" % e[1]
    if k == "str":
        return "(XStr %s)" % coq_nlist(e[1])
    if k == "id":
        if e[1] in params:
            return "(XVar %d)" % params.index(e[1])
        if e[1] == "undefined":
            return "XUndef"
        if tmp is not None and e[1] == tmp:
            return "XTmp"
        raise Untranslatable("free identifier %s" % e[1])
    if k == "not":
        return "(XNot %s)" % rec(e[1])
    if k == "cond":
        return "(XCond %s %s %s)" % (rec(e[1]), rec(e[2]), rec(e[3]))
    if k == "bin":
        if e[1] == "," and e[2][0] == "assign":
            if tmp is not None:
                raise Untranslatable("nested temporaries")
            return "(XLet %s %s)" % (rec(e[2][2]), rec(e[3], e[2][1]))
        return "(XBin %s %s %s)" % (BINOPS[e[1]], rec(e[2]), rec(e[3]))
    if k == "member":
        if e[2] in FIELDS:
            return "(XFld %s %s)" % (rec(e[1]), FIELDS[e[2]])
        raise Untranslatable("member .%s" % e[2])
    if k == "new":
        if e[1] in slice_types:
            return "(XNewSlice %s %s)" % (slice_types[e[1]], rec(e[2]))
        raise Untranslatable("new %s" % e[1])
    if k == "call":
        f, args = e[1], e[2]
        if f[0] == "member" and f[2] == "charCodeAt" and len(args) == 1:
            return "(XCharCodeAt %s %s)" % (rec(f[1]), rec(args[0]))
        if f == ("member", ("id", "$String"), "keyFor") and len(args) == 1:
            return "(XCall1 PKeyFor %s)" % rec(args[0])
        if f[0] == "id" and f[1] in PRIMS and 1 <= len(args) <= 3:
            return "(XCall%d %s %s)" % (len(args), PRIMS[f[1]], " ".join(rec(a) for a in args))
        raise Untranslatable("call of %r" % (f,))
    raise Untranslatable("node %s" % k)


FUNC_RE = re.compile(r"^[ \t]*Str_([A-Za-z0-9_]+) = function [\w$]+\(([^)]*)\) \{\n((?:[ \t]*var [^\n]*\n)?)[ \t]*return (.*);\n[ \t]*\};", re.M)
SLICE_RE = re.compile(r"^[ \t]*(sliceType(?:\$\d+)?|myBytes) = \$(?:sliceType|newType)\((?:\$(Uint8|Int32)\)|[^\n]*?\"main\.myBytes\")", re.M)


def switch_clauses(js):
    """the emitted if / else-if chain of Str_Switch: list of lists of byte strings; None when not recognised"""
    m = re.search(r"Str_Switch = function [\w$]+\(s\) \{\n(.*?)\n[ \t]*\};\n", js, re.S)
    if not m:
        return None
    body = m.group(1)
    tm = re.search(r"(_\d+) = s;", body)
    if not tm:
        return None
    tag = re.escape(tm.group(1))
    out = []
    for im in re.finditer(r"(?:^[ \t]*|\} else )if \((.*)\) \{\n[ \t]*return (\d+);", body, re.M):
        cl = []
        for part in im.group(1).split(" || "):
            pm = re.fullmatch(tag + r" === \((\"(?:[^\"\\]|\\.)*\")\)", part.strip())
            if not pm:
                return None
            cl.append(unescape_js(pm.group(1)))
        if int(im.group(2)) != len(out):
            return None
        out.append(cl)
    return out


def generate(workdir, repo):
    outjs = build_program(workdir)
    js = open(outjs).read()
    notes = []
    slice_types = {}
    for m in re.finditer(r"^[ \t]*(sliceType(?:\$\d+)?) = \$sliceType\(\$(Uint8|Int32)\);", js, re.M):
        slice_types[m.group(1)] = "EU8" if m.group(2) == "Uint8" else "EI32"
    if re.search(r"myBytes = \$newType\(12, \$kindSlice, \"main\.myBytes\"", js) and re.search(r"myBytes\.init\(\$Uint8\);", js):
        slice_types["myBytes"] = "EU8"
    found = {m.group(1): ([p.strip() for p in m.group(2).split(",") if p.strip()], m.group(4)) for m in FUNC_RE.finditer(js)}
    defs, texts = [], {}
    for name, sig, body in TEMPLATES:
        term = "XBad"
        if name not in found:
            notes.append("%s: function (single return) not found in the emitted JavaScript" % name)
        else:
            params, text = found[name]
            texts[name] = text
            try:
                term = to_coq(parse(text), params, slice_types)
            except (Untranslatable, IndexError, KeyError) as ex:
                notes.append("%s: %s   [%s]" % (name, ex, text))
        defs.append("(* Go: func%s { return %s }\n   JS: return %s; *)\nDefinition t_%s : jx := %s.\n" % (sig, body, texts.get(name, "?").replace("*)", "* )"), name, term))
    # $String.keyFor
    tj = open(os.path.join(repo, "compiler", "prelude", "types.js")).read()
    km = re.search(r"case \$kindString:\s*typ = function \(v\) \{ this\.\$val = v; \};\s*typ\.wrapped = true;\s*typ\.keyFor = x => \{ return (\"(?:[^\"\\]|\\.)*\") \+ x; \};", tj)
    if km:
        prefix = unescape_js(km.group(1))
    else:
        prefix = []
        notes.append("$String.keyFor is not `x => { return \"<prefix>\" + x; }` any more")
    pj = open(os.path.join(repo, "compiler", "prelude", "prelude.js")).read()
    bm = re.search(r"var \$bytesToString = slice => \{.*?\n\};\n", pj, re.S)
    chunks = sorted(set(re.findall(r"i \+= (\d+)|i \+ (\d+)\)", bm.group(0)))) if bm else []
    chunkvals = sorted(set(int(a or b) for a, b in chunks))
    if len(chunkvals) != 1:
        notes.append("$bytesToString: chunk constants %r" % chunkvals)
    chunk = chunkvals[0] if chunkvals else 0
    sw = switch_clauses(js)
    if sw is None:
        notes.append("string switch of the table program not recognised as an if / else-if chain of ===")
        sw = []
    txt = ("(* GENERATED by harness/py/c14_gen.py from the current /repo tree - do not edit, not committed *)\n"
           "From Coq Require Import List NArith ZArith.\nFrom Verif Require Import Model.C14_Utf8 Model.C14_Ops.\nImport ListNotations.\n\n"
           + "\n".join(defs) +
           "\n(* compiler/prelude/types.js: $String.keyFor = x => \"<prefix>\" + x *)\nDefinition STRING_KEY_PREFIX : list N := %s.\n" % coq_nlist(prefix) +
           "\n(* compiler/prelude/prelude.js: chunk size of $bytesToString *)\nDefinition B2S_CHUNK : N := %d%%N.\n" % chunk +
           "\n(* the string switch of the table program as emitted: clauses of `_1 === (c)` tests *)\nDefinition SWITCH_EMITTED : list (list (list N)) := [%s].\n"
           % ";\n  ".join("[" + ";".join(coq_nlist(c) for c in cl) + "]" for cl in sw) +
           "\n(* ... and as written in the Go source *)\nDefinition SWITCH_SOURCE : list (list (list N)) := [%s].\n"
           % ";\n  ".join("[" + ";".join(coq_nlist(list(c)) for c in cl) + "]" for cl in SWITCH_CLAUSES))
    C.write_if_changed(os.path.join(C.COQ, "Gen", "C14_Templates.v"), txt)
    return dict(outjs=outjs, notes=notes, templates=len(TEMPLATES), translated=sum(1 for d in defs if ":= XBad." not in d), texts=texts)
