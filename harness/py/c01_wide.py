"""C01 — 'compared, not proved' part: random Go programs beyond the proved fragment
(switch/fallthrough, goto, labels, arrays, structs, slices, maps, strings, closures, methods,
named results, multiple assignment, shadowing, constants), compared node vs native Go only.
Only fixed-width types are used for values (int only for small indices), so the same source is
built natively and with GopherJS.  No goroutines, channels, defer/recover, generics, interfaces.
"""
import re

T32 = ["int32", "uint32", "int16", "uint8", "int8", "uint16"]


def lit(r, t):
    b = {"int32": (-2**31, 2**31 - 1), "uint32": (0, 2**32 - 1), "int16": (-2**15, 2**15 - 1), "uint8": (0, 255), "int8": (-128, 127),
         "uint16": (0, 65535)}[t]
    c = r.random()
    if c < 0.4:
        z = r.choice([0, 1, 2, 3, 5, 7, 11, 100])
    elif c < 0.6:
        z = r.choice([b[0], b[1], b[1] - 1, b[0] + 1])
    else:
        z = r.randint(b[0], b[1])
    return str(min(max(z, b[0]), b[1]))


def ie(r, t, vs, d=2, need=True):
    """random expression of type t over variables vs (all of type t); contains a variable when need"""
    if d <= 0 or r.random() < 0.3:
        return r.choice(vs) if need or r.random() < 0.6 else "%s(%s)" % (t, lit(r, t))
    op = r.choice(["+", "-", "*", "&", "|", "^", "&^", "/", "%", "<<", ">>"])
    a = ie(r, t, vs, d - 1, True)
    if op in ("/", "%"):
        return "(%s %s %s)" % (a, op, r.choice(["3", "7", "2", "5"]))
    if op in ("<<", ">>"):
        return "(%s %s %d)" % (a, op, r.choice([1, 2, 3, 5, 7]))
    return "(%s %s %s)" % (a, op, ie(r, t, vs, d - 1, False))


def s_switch(r, n):
    t = r.choice(T32)
    k = r.randint(3, 7)
    ft = ["\t\t\tfallthrough\n" if r.random() < 0.5 else "" for _ in range(3)]
    brk = "\t\t\tif acc%2 == 0 {\n\t\t\t\tbreak\n\t\t\t}\n" if r.random() < 0.5 else ""
    return "switch", """func f%d() {
	var acc %s = %s
	for i := 0; i < %d; i++ {
		switch x := %s(i) %% 4; x {
		case 0:
			acc = %s
%s		case 1, 2:
%s			acc += %s
%s		case 3:
			acc ^= x
%s		default:
			acc = 0
		}
		switch {
		case acc > 10 && i > 1:
			println("big", acc)
		case acc == 0:
			println("zero")
			fallthrough
		default:
			println("d", i, acc)
		}
	}
}
""" % (n, t, lit(r, t), k, t, ie(r, t, ["acc", "x"]), ft[0], brk, ie(r, t, ["acc", "x"]), ft[1], ft[2])


def s_goto(r, n):
    t = r.choice(T32)
    return "goto", """func f%d() {
	var acc %s = %s
	i := 0
loop:
	if i < %d {
		acc = %s
		i++
		if acc == 77 {
			goto done
		}
		goto loop
	}
done:
	println("goto", i, acc)
}
""" % (n, t, lit(r, t), r.randint(1, 6), ie(r, t, ["acc"]))


def s_labels(r, n):
    a, b = r.randint(2, 5), r.randint(2, 5)
    return "labels", """func f%d() {
	var acc int32
outer:
	for i := 0; i < %d; i++ {
	inner:
		for j := 0; j < %d; j++ {
			switch {
			case (i+j)%%%d == 0:
				continue outer
			case i*j == %d:
				break outer
			case j == %d:
				break inner
			case j == 1:
				continue
			}
			acc += int32(i*10 + j)
			println(i, j, acc)
		}
		acc -= 3
	}
	println("labels", acc)
}
""" % (n, a, b, r.randint(2, 4), r.randint(2, 9), r.randint(1, 4))


def s_arrays(r, n):
    t = r.choice(T32)
    idx = r.randint(0, 5)
    return "arrays", """func g%d(a [4]%s) [4]%s {
	a[1] = %s
	return a
}

func f%d() {
	var a [4]%s
	for i := range a {
		a[i] = %s(i) * %s
	}
	b := a
	b[2] = %s
	c := g%d(a)
	println(a[0], a[1], a[2], a[3], b[2], c[1], a == b, a == g%d(c), len(a))
	var m [2][3]%s
	m[1][2] = a[3]
	mm := m
	mm[1][2]++
	println(m[1][2], mm[1][2], m == mm)
	k := %d
	println(a[k%%8])
}
""" % (n, t, t, lit(r, t), n, t, t, lit(r, t), ie(r, t, ["a[0]", "a[1]"]), n, n, t, idx)


def s_structs(r, n):
    t, u = r.choice(T32), r.choice(T32)
    return "structs", """type P%d struct {
	X, Y %s
	T    [2]%s
}

type Q%d struct {
	P P%d
	N *P%d
}

func f%d() {
	p := P%d{X: %s, Y: %s}
	q := p
	q.X = %s
	q.T[1] = %s
	pp := &p
	pp.Y += q.X
	w := Q%d{P: p, N: pp}
	w.P.X++
	w.N.X--
	z := w
	z.P.T[0] = 9
	println(p.X, p.Y, q.X, q.T[1], p.T[1], w.P.X, w.N.X, z.P.T[0], w.P.T[0], p == q, w.P == *w.N)
	arr := []P%d{p, q}
	for _, e := range arr {
		e.X = 0
	}
	for i := range arr {
		arr[i].Y++
	}
	println(arr[0].X, arr[1].Y)
}
""" % (n, t, u, n, n, n, n, n, lit(r, t), lit(r, t), ie(r, t, ["p.X", "p.Y"]), lit(r, u), n, n)


def s_slices(r, n):
    t = r.choice(T32)
    idx = r.choice([1, 2, 3, 9, -1]) if r.random() < 0.3 else r.randint(0, 3)
    return "slices", """func f%d() {
	s := make([]%s, 2, 4)
	s[0], s[1] = %s, %s
	a := append(s, %s)
	b := append(s, %s)
	println(len(a), cap(a), a[2], b[2], len(s))
	c := append(a, 1, 2, 3)
	c[0] = %s
	println(len(c), a[0], c[0], c[5])
	d := c[1:4]
	d[0] = 42
	e := c[2:3:4]
	println(c[1], len(d), cap(d), len(e), cap(e))
	n := copy(c, d)
	var sum %s
	for i, v := range c {
		sum += v * %s(i)
	}
	println(n, sum)
	var z []%s
	println(z == nil, len(z))
	z = append(z, c...)
	k := %d
	println(z[k+1])
}
""" % (n, t, lit(r, t), lit(r, t), lit(r, t), lit(r, t), lit(r, t), t, t, t, idx)


def s_maps(r, n):
    t = r.choice(T32)
    ks = [lit(r, "int32") for _ in range(5)]
    return "maps", """func f%d() {
	m := map[int32]%s{}
	keys := []int32{%s}
	for i, k := range keys {
		m[k] += %s(i) + %s
	}
	delete(m, keys[1])
	v, ok := m[keys[1]]
	w, ok2 := m[keys[0]]
	var sum, x %s
	for k, e := range m {
		sum += e
		x ^= %s(k)
	}
	println(len(m), v, ok, w, ok2, sum, x)
	sm := map[string]int32{"a": 1, "bb": 2}
	sm["a"+"b"]++
	sm["bb"] *= 7
	println(len(sm), sm["a"], sm["ab"], sm["bb"], sm["zz"])
	type key struct{ a, b int8 }
	km := map[key]int32{{1, 2}: 3}
	km[key{1, 2}]++
	km[key{2, 1}]--
	println(len(km), km[key{1, 2}], km[key{2, 1}])
}
""" % (n, t, ", ".join(ks), t, lit(r, t), t, t)


def s_strings(r, n):
    w = r.choice(["hello", "gopher", "abc", "x"])
    return "strings", """func f%d() {
	s := "%s" + "h\\xc3\\xa9llo, \\xe4\\xb8\\x96"
	println(len(s), s[0], s[len(s)-1], s[1:3] == "%s", s < "hz", s[:2]+s[len(s)-1:] != "")
	for i, c := range s {
		println(i, c)
	}
	b := []byte(s)
	b[0] = 'X'
	t := string(b[:3])
	println(t == "Xh\\xc3", len(t), len(b), s[0] == 'X')
	rs := []rune(s)
	println(len(rs), string(rs[1]) == "%s", string(rune(%d)))
	k := %d
	println(s[k])
}
""" % (n, w, w[1:3], w[1:2], r.choice([65, 97, 0x4e16 // 1000 + 70]), r.choice([0, 1, 2]))


def s_string_oob(r, n):
    return "string-index-out-of-range", """func f%d() {
	s := "%s"
	k := %d
	println(len(s))
	println(s[k])
}
""" % (n, r.choice(["abc", "", "hello"]), r.choice([5, 7, 50]))


def s_closures(r, n):
    t = r.choice(T32)
    return "closures", """func mk%d(start %s) (func() %s, func(%s)) {
	c := start
	return func() %s { c += %s; return c }, func(d %s) { c -= d }
}

func f%d() {
	inc, dec := mk%d(%s)
	inc()
	dec(%s)
	println(inc(), inc())
	var fs []func() int32
	for i := int32(0); i < 3; i++ {
		j := i * 2
		fs = append(fs, func() int32 { j++; return i*100 + j })
	}
	for _, f := range fs {
		println(f(), f())
	}
	x := %s(%s)
	add := func(y %s) %s { x += y; return x }
	add(3)
	func() { x *= 2 }()
	println(x, add(1))
}
""" % (n, t, t, t, t, lit(r, t), t, n, n, lit(r, t), lit(r, t), t, lit(r, t), t, t)


def s_methods(r, n):
    t = r.choice(T32)
    return "methods", """type A%d struct{ v %s }

func (a *A%d) Add(x %s) *A%d { a.v += x; return a }
func (a A%d) Get() %s      { a.v++; return a.v }

type M%d %s

func (m M%d) Twice() M%d { return m * 2 }

func f%d() {
	a := A%d{%s}
	a.Add(%s).Add(%s)
	g := a.Get
	a.Add(1)
	h := (*A%d).Add
	h(&a, 2)
	println(a.v, a.Get(), g(), a.v)
	var m M%d = %s
	println(m.Twice().Twice(), M%d.Twice(m))
}
""" % (n, t, n, t, n, n, t, n, t, n, n, n, n, lit(r, t), lit(r, t), lit(r, t), n, n, lit(r, t), n)


def s_named(r, n):
    t = r.choice(T32)
    return "named-results", """func h%d(a %s) (x, y %s) {
	x = %s
	if x > a {
		return
	}
	y = %s
	if y == 3 {
		return y, x
	}
	x, y = y, x
	return
}

func f%d() {
	for _, v := range []%s{%s, %s, %s} {
		p, q := h%d(v)
		println(p, q)
	}
}
""" % (n, t, t, ie(r, t, ["a"]), ie(r, t, ["a", "x"]), n, t, lit(r, t), lit(r, t), lit(r, t), n)


def s_multi(r, n):
    t = r.choice(T32)
    return "multi-assign", """func f%d() {
	var x, y %s = %s, %s
	for i := 0; i < %d; i++ {
		x, y = y, x+y
	}
	a := []%s{1, 2, 3, 4}
	i := 2
	a[i], a[i+1] = a[i+1], a[i]
	x, y, a[0] = a[0], x, y
	p, q := &x, &y
	*p, *q = *q, *p
	println(x, y, i, a[0], a[1], a[2], a[3])
}
""" % (n, t, lit(r, t), lit(r, t), r.randint(0, 40), t)


def s_multi_dep(r, n):
    """Go spec: index operands on the left are evaluated before any assignment is carried out"""
    t = r.choice(T32)
    return "tuple-assign-index-uses-assigned-var", """func f%d() {
	a := []%s{1, 2, 3, 4}
	i := 0
	i, a[i] = %d, 9
	println(i, a[0], a[1], a[2], a[3])
}
""" % (n, t, r.randint(1, 3))


def s_shadow(r, n):
    t, u = r.choice(T32), r.choice(T32)
    return "shadowing", """func f%d() {
	x := %s(%s)
	if x := %s(%s); x > 3 {
		x++
		println("in", x)
	} else if y := x + 1; y > 0 {
		x := y * 2
		println("elif", x, y)
	} else {
		println("else", x, y)
	}
	{
		x := x + 1
		x++
		println(x)
	}
	for x := 0; x < 2; x++ {
		x := x * 10
		println(x)
	}
	switch x := x * 2; {
	case x > 5:
		println("s", x)
	}
	println(x)
}
""" % (n, t, lit(r, t), u, lit(r, u))


def s_consts(r, n):
    return "constants", """const (
	A%d = iota * %d
	B%d
	C%d
	_
	E%d = 1 << (iota + %d)
)

const big%d = 1 << 40
const typed%d int16 = -%d

func f%d() {
	x := int32(big%d >> 35)
	var y uint8 = big%d / (1 << 33) %% 256
	z := typed%d / 7
	const f = 7.0 / 2
	println(A%d, B%d, C%d, E%d, x, y, z, int32(f*2), len("abc")*C%d, 'a'+1, big%d/1e9 > 1)
}
""" % (n, r.randint(1, 9), n, n, n, r.randint(0, 9), n, n, r.randint(1, 30000), n, n, n, n, n, n, n, n, n, n)



def fexpr(r, vs, d=2):
    """float64 expression over variables vs; all values are small dyadic rationals, so every result is exact"""
    if d <= 0 or r.random() < 0.3:
        return r.choice(vs) if r.random() < 0.7 else r.choice(["0.5", "1.25", "2", "3", "0.75", "4"])
    op = r.choice(["+", "-", "*", "-", "+"])
    return "%s %s %s" % (fexpr(r, vs, d - 1), op, fexpr(r, vs, d - 1)) if r.random() < 0.6 else "(%s %s %s)" % (fexpr(r, vs, d - 1), op, fexpr(r, vs, d - 1))


def s_floats(r, n):
    """float64 arithmetic incl. compound assignment whose right-hand side is itself a binary expression"""
    t = r.choice(["float64", "float64", "F%d" % n])
    ops = [r.choice(["-=", "*=", "+=", "/="]) for _ in range(4)]
    def rhs(op):
        if op == "/=":
            return r.choice(["a * 2", "2 * 2", "b - b + 4", "(a - a + 2) * 4"])
        return fexpr(r, ["a", "b"], 2)
    return "floats", """type F%d float64

func f%d() {
	var a, b %s = %s, %s
	x := a*2 - b
	x %s %s
	println(int32(x * 64))
	x %s %s
	println(int32(x*64), x < a, x == b)
	y := -a - -b
	y %s %s
	z := - -y
	z %s %s
	println(int32(y*64), int32(z*64), int32(-(-z) * 2))
	var f32 float32 = float32(a) / 4
	f32 -= f32 - 1
	println(int32(f32 * 16))
}
""" % (n, n, t, r.choice(["1.5", "2.25", "0.5", "3"]), r.choice(["0.75", "1", "2.5", "4"]),
       ops[0], rhs(ops[0]), ops[1], rhs(ops[1]), ops[2], rhs(ops[2]), ops[3], rhs(ops[3]))


def unparen(e):
    """drop one pair of parentheses when it encloses the whole expression"""
    if not (e.startswith("(") and e.endswith(")")):
        return e
    depth = 0
    for i, c in enumerate(e):
        depth += c == "("
        depth -= c == ")"
        if depth == 0 and i < len(e) - 1:
            return e
    return e[1:-1]


def s_opassign_ints(r, n):
    """compound assignments on integers whose right-hand side is a non-trivial expression"""
    t = r.choice(T32)
    lines = []
    for _ in range(5):
        op = r.choice(["-=", "*=", "+=", "/=", "%=", "&^=", "<<=", ">>=", "^=", "|=", "&="])
        if op in ("/=", "%="):
            e = "(%s | 1)" % ie(r, t, ["a", "b"], 1)
        elif op in ("<<=", ">>="):
            e = r.choice(["1", "3", "s", "s + 1", "s * 2", "33"])
        else:
            e = unparen(ie(r, t, ["a", "b", "x"], 2)) if r.random() < 0.7 else ie(r, t, ["a", "b"], 1)
        lines.append("\tx %s %s\n\tprintln(x)\n" % (op, e))
    return "opassign", """func f%d() {
	var a, b, x %s = %s, %s, %s
	var s uint8 = %d
%s	println(s, a, b)
}
""" % (n, t, lit(r, t), lit(r, t), lit(r, t), r.choice([0, 1, 2, 5, 9]), "".join(lines))


def s_typeswitch(r, n):
    """type switch inside a loop; unlabelled break in a random subset of the clauses (possibly only default);
    code after the switch shows whether the break left the switch or the loop"""
    def brk(p):
        return "\t\t\tif i%%%d == %d {\n\t\t\t\tbreak\n\t\t\t}\n" % (r.choice([1, 2, 3]), r.choice([0, 0, 1])) if r.random() < p else ""
    only_default = r.random() < 0.4
    p = 0.0 if only_default else 0.45
    lbl = r.random() < 0.3
    return "type-switch", """type S%d struct{ a int32 }

func f%d() {
	vals := []interface{}{int32(%s), "s", true, S%d{7}, uint8(3), nil, []int32{1}, int32(4)}
	var acc int32
%s	for i, v := range vals {
		switch x := v.(type) {
		case int32:
%s			acc += x
		case string, bool:
%s			acc += 100
		case S%d:
%s			acc += x.a
		case nil:
			acc -= 1
%s		default:
%s			acc += 1000
%s		}
		acc += int32(i)
		println(i, acc)
	}
	switch v := vals[%d].(type) {
	case uint8:
		println("u8", v)
	default:
		println("other")
	}
	println(acc)
}
""" % (n, n, lit(r, "int32"), n, "outer:\n" if lbl else "", brk(p), brk(p), n, brk(p),
       "\t\t\tif acc > 50 {\n\t\t\t\tcontinue outer\n\t\t\t}\n" if lbl else "",
       brk(0.9 if only_default else 0.4), "\t\t\tprintln(\"d\")\n" if r.random() < 0.5 else "", r.randint(0, 7))


def s_value_receivers(r, n):
    """methods with struct / array VALUE receivers that modify their receiver: the caller's variable must not change;
    called on variables, through pointers, via embedded fields and as method values"""
    t = r.choice(T32)
    return "value-receivers", """type O%d struct {
	level %s
	tags  [2]%s
}

func (o O%d) with(l %s) O%d { o.level = l; o.tags[0] += l; return o }
func (o O%d) bump() %s     { o.level++; return o.level }

type V%d [3]%s

func (v V%d) set(i int, x %s) V%d { v[i] = x; return v }
func (v V%d) sum() (s %s)      { v[0] = 0; for _, e := range v { s += e }; return }

type W%d struct {
	O%d
	n %s
}

func f%d() {
	o := O%d{level: %s}
	p := o.with(%s)
	q := &o
	r := q.with(%s)
	println(o.level, o.tags[0], p.level, p.tags[0], r.level, o.bump(), o.level, q.bump(), q.level)
	f := o.bump
	o.level = %s
	println(f(), o.level)
	w := W%d{O%d: o, n: 1}
	w2 := w.with(9)
	println(w.level, w2.level, w.bump(), w.level)
	v := V%d{1, 2, 3}
	v2 := v.set(1, %s)
	pv := &v
	println(v[1], v2[1], v.sum(), v[0], pv.sum(), pv.set(0, 5)[0], v[0])
	g := v.sum
	v[2] = %s
	println(g(), v.sum())
	arr := []O%d{o, p}
	println(arr[0].with(3).level, arr[0].level, arr[1].bump(), arr[1].level)
}
""" % (n, t, t, n, t, n, n, t, n, t, n, t, n, n, t, n, n, t, n, n, lit(r, t), lit(r, t), lit(r, t), lit(r, t), n, n, n, lit(r, t), lit(r, t), n)



def s_selector_effects(r, n):
    """operands of the form <call with side effects>.field (or method call / indexed call result) inside operations
    whose JavaScript pattern mentions the operand several times: 64-bit and complex arithmetic / comparison / negation /
    conversion, and run-time-checked indexing. An evaluation counter shows how often the base was evaluated."""
    ops = []
    pool = [
        ('a%d := nx%d().v %s %s\n\tprintln("i64", int32(a%d>>33), int32(a%d), calls%d)', lambda: (r.choice(["+", "-", "&", "|", "^"]), "int64(%d)" % r.randint(1, 1 << 34))),
        ('a%d := nx%d().u %s %s\n\tprintln("u64", uint32(a%d>>32), uint32(a%d), calls%d)', lambda: (r.choice(["+", "-", "&", "|", "^"]), "uint64(%d)" % r.randint(1, 1 << 34))),
        ('a%d := nx%d().v %s %s\n\tprintln("cmp64", a%d, a%d, calls%d)', lambda: (r.choice(["<", "<=", ">", ">=", "==", "!="]), "int64(%d)" % (r.randint(1, 6) << 33))),
        ('a%d := nx%d().u %s %s\n\tprintln("cmpu64", a%d, a%d, calls%d)', lambda: (r.choice(["<", "<=", ">", ">=", "==", "!="]), "uint64(%d)" % r.randint(1, 6))),
        ('a%d := nx%d().c %s %s\n\tprintln("cplx", int32(real(a%d)), int32(imag(a%d)), calls%d)', lambda: (r.choice(["+", "-", "*"]), "complex(%d, %d)" % (r.randint(1, 5), r.randint(0, 3)))),
        ('a%d := nx%d().c %s %s\n\tprintln("cplxeq", a%d, a%d, calls%d)', lambda: (r.choice(["==", "!="]), "complex(%d, 1)" % r.randint(1, 6))),
        ('a%d := -nx%d().v %s %s\n\tprintln("neg64", int32(a%d>>33), int32(a%d), calls%d)', lambda: ("+", "0")),
        ('a%d := uint64(nx%d().v) %s %s\n\tprintln("conv64", uint32(a%d>>33), uint32(a%d), calls%d)', lambda: ("+", "1")),
        ('a%d := nx%d().xs[k] %s %s\n\tprintln("index", a%d, a%d, calls%d)', lambda: (r.choice(["+", "-", "*"]), str(r.randint(1, 9)))),
        ('a%d := nx%d().arr[k%%3] %s %s\n\tprintln("aindex", a%d, a%d, calls%d)', lambda: (r.choice(["+", "-"]), str(r.randint(1, 9)))),
        ('a%d := nxv%d().v %s nx%d().v\n\tprintln("both64", int32(a%d>>33), int32(a%d), calls%d)', None),
        ('a%d := mk%d().get().u %s %s\n\tprintln("chain", uint32(a%d), uint32(a%d>>32), calls%d)', lambda: (r.choice(["+", "^", "-"]), "uint64(%d)" % r.randint(1, 99))),
    ]
    for j in range(r.randint(4, 7)):
        tpl, mk = r.choice(pool)
        if mk is None:
            ops.append("\t" + tpl % (j, n, r.choice(["+", "-", "^"]), n, j, j, n))
        else:
            o, c = mk()
            ops.append("\t" + tpl % (j, n, o, c, j, j, n))
    return "selector-side-effects", """type box%d struct {
	v   int64
	u   uint64
	c   complex128
	xs  []int32
	arr [3]int32
}

var calls%d int32

func nx%d() *box%d {
	calls%d++
	return &box%d{v: int64(calls%d) << 33, u: uint64(calls%d), c: complex(float64(calls%d), 1),
		xs: []int32{calls%d * 10, calls%d * 20, calls%d * 30}, arr: [3]int32{calls%d, calls%d + 1, calls%d + 2}}
}

func nxv%d() box%d { return *nx%d() }

type mk%dT struct{ b *box%d }

func (m mk%dT) get() *box%d { calls%d += 100; return m.b }
func mk%d() mk%dT           { return mk%dT{nx%d()} }

func f%d() {
	k := %d
%s
	println(k, calls%d)
}
""" % (n, n, n, n, n, n, n, n, n, n, n, n, n, n, n, n, n, n, n, n, n, n, n, n, n, n, n, n, r.randint(0, 2), "\n".join(ops), n)


def s_overlap_copy(r, n):
    """copy / append between overlapping ranges of ONE backing array whose elements are structs or arrays
    (insert, delete, shift idioms), in both directions, with scalar slices for reference"""
    ln = r.randint(5, 8)
    steps = []
    for j in range(r.randint(4, 7)):
        c = r.random()
        i, k = r.randint(0, ln - 2), r.randint(0, ln - 2)
        if c < 0.3:
            steps.append("\tprintln(copy(s[%d:], s[%d:]), copy(a[%d:], a[%d:]), copy(b[%d:], b[%d:]))" % (i, k, i, k, i, k))
        elif c < 0.5:
            m = r.randint(1, ln - 1)
            steps.append("\tprintln(copy(s[%d:], s[:%d]), copy(a[%d:], a[:%d]), copy(b[%d:], b[:%d]))" % (i, m, i, m, i, m))
        elif c < 0.7:
            steps.append("\ts = insP%d(s, %d, P%d{%d, %d})\n\ta = insA%d(a, %d, [2]int32{%d, %d})" % (n, i, n, 90 + j, j, n, i, 90 + j, j))
        elif c < 0.85:
            steps.append("\ts = append(s[:%d], s[%d:]...)\n\ta = append(a[:%d], a[%d:]...)\n\tb = append(b[:%d], b[%d:]...)" % (min(i, k), max(i, k), min(i, k), max(i, k), min(i, k), max(i, k)))
        else:
            lo, hi = min(i, k), max(i, k) + 1
            steps.append("\ts = append(s[:%d], s[%d:%d]...)\n\ta = append(a[:%d], a[%d:%d]...)\n\tb = append(b[:%d], b[%d:%d]...)" % (i, lo, hi, i, lo, hi, i, lo, hi))
        steps.append("\tshow%d(s, a, b)" % n)
    return "overlapping-copy", """type P%d struct{ x, y int32 }

func show%d(s []P%d, a [][2]int32, b []int32) {
	var h1, h2, h3 int32
	for i, e := range s {
		h1 = h1*31 + e.x*int32(i+1) + e.y
	}
	for i, e := range a {
		h2 = h2*31 + e[0]*int32(i+1) + e[1]
	}
	for i, e := range b {
		h3 = h3*31 + e*int32(i+1)
	}
	println(len(s), len(a), len(b), h1, h2, h3)
}

func insP%d(s []P%d, i int, p P%d) []P%d {
	s = append(s, P%d{})
	copy(s[i+1:], s[i:])
	s[i] = p
	return s
}

func insA%d(s [][2]int32, i int, p [2]int32) [][2]int32 {
	s = append(s, [2]int32{})
	copy(s[i+1:], s[i:])
	s[i] = p
	return s
}

func f%d() {
	s := make([]P%d, %d, %d)
	a := make([][2]int32, %d, %d)
	b := make([]int32, %d, %d)
	for i := range s {
		s[i] = P%d{int32(i + 1), int32(10 * i)}
		a[i] = [2]int32{int32(i + 1), int32(10 * i)}
		b[i] = int32(i + 1)
	}
	show%d(s, a, b)
%s
}
""" % (n, n, n, n, n, n, n, n, n, n, n, ln, ln + 6, ln, ln + 6, ln, ln + 6, n, n, "\n".join(steps))


def s_named_captured(r, n):
    """named results captured by a closure or a pointer that outlives the call; explicit `return x, y` (also swapped,
    also of expressions over the results), bare returns, with and without defer"""
    t = r.choice(T32)
    c1, c2, c3 = lit(r, t), lit(r, t), lit(r, t)
    swap_ret = r.choice(["b, a, read", "a + b, a, read", "b, b - a, read", "a, b, read"])
    defer_line = "\tdefer func() { n++ }()\n" if r.random() < 0.3 else ""
    return "named-results-captured", """func cnt%d() (n %s, get func() %s) {
%s	get = func() %s { return n }
	n = %s
	return %s, get
}

func adr%d() (x %s, p *%s) {
	p = &x
	x = %s
	return %s, p
}

func swp%d() (a, b %s, read func() (%s, %s)) {
	a, b = %s, %s
	read = func() (%s, %s) { return a, b }
	if a == b {
		return
	}
	return %s
}

type acc%d struct{ total %s }

func (m *acc%d) sum(xs ...%s) (total %s, report func() %s) {
	report = func() %s { return total + m.total }
	for _, x := range xs {
		m.total += x
	}
	if len(xs) == 0 {
		return
	}
	return m.total * 2, report
}

func f%d() {
	v, get := cnt%d()
	println(v, get())
	w, p := adr%d()
	println(w, *p)
	*p += 2
	println(*p)
	x, y, read := swp%d()
	rx, ry := read()
	println(x, y, rx, ry)
	m := &acc%d{}
	t, rep := m.sum(%s, %s)
	println(t, rep())
	_, rep0 := m.sum()
	println(rep0 == nil)
	fl := func() (q %s, g func() %s) {
		g = func() %s { q++; return q }
		return %s, g
	}
	q, g := fl()
	println(q, g(), g())
}
""" % (n, t, t, defer_line, t, c1, ie(r, t, ["n"], 1), n, t, t, c2, ie(r, t, ["x"], 1), n, t, t, t, c1, c3, t, t, swap_ret,
       n, t, n, t, t, t, t, n, n, n, n, n, lit(r, t), lit(r, t), t, t, t, c3)


SNIPPETS = [s_switch, s_goto, s_labels, s_arrays, s_structs, s_slices, s_maps, s_strings, s_closures, s_methods, s_named, s_multi, s_multi_dep, s_string_oob,
            s_shadow, s_consts, s_floats, s_opassign_ints, s_typeswitch, s_value_receivers, s_floats, s_value_receivers, s_selector_effects, s_overlap_copy, s_named_captured,
            s_selector_effects, s_overlap_copy, s_named_captured]


def generate_batch(r, ngroups):
    """one package with ngroups snippets; main runs the snippet function named by the first argument.
    returns (source for gopherjs, source for native go, [(function name, [feature], text of the snippet)])"""
    parts, groups = [], []
    for n in range(ngroups):
        f, text = r.choice(SNIPPETS)(r, n)
        parts.append(text)
        groups.append(("f%d" % n, [f], text))
    cases = "".join('\tcase "%s":\n\t\t%s()\n' % (g, g) for g, _, _ in groups)
    body = "\n".join(parts)
    js = ('package main\n\nimport "github.com/gopherjs/gopherjs/js"\n\nfunc main() {\n'
          '\tswitch js.Global.Get("process").Get("argv").Index(2).String() {\n' + cases + "\t}\n}\n\n" + body)
    nat = 'package main\n\nimport "os"\n\nfunc main() {\n\tswitch os.Args[1] {\n' + cases + "\t}\n}\n\n" + body
    return js, nat, groups


def to_native(src):
    return src.replace('import "github.com/gopherjs/gopherjs/js"', 'import "os"').replace(
        'js.Global.Get("process").Get("argv").Index(2).String()', "os.Args[1]")


PANICS = ["index out of range", "integer divide by zero", "slice bounds out of range", "nil map", "invalid memory address"]


def observe(rc, out, err, node):
    text = out if node else err
    lines = text.split("\n")
    if lines and lines[-1] == "":
        lines.pop()
    ending = "exit"
    if rc == 124 or "[timeout" in err:
        return [[], "infra"]
    if not node:
        for i, l in enumerate(lines):
            if l.startswith("panic: ") or l.startswith("fatal error: "):
                ending = next((p for p in PANICS if p in l), "other-panic: " + l[:80])
                lines = lines[:i]
                break
        if ending == "exit" and rc != 0:
            ending = "exit-status-%d" % rc
    else:
        if rc != 0:
            ending = next((p for p in PANICS if p in err), "other-error: " + err.strip().split("\n")[-1][:80] if err.strip() else "rc")
    lines = [re.sub(r"(?<![\w.])-0(?![\w.])", "0", l) for l in lines]
    return [lines, ending]


def classify(nd, nt, feats):
    return "-".join(feats) + ("-ending-differs" if nd[1] != nt[1] else "-output-differs")
