"""C18 — regenerate coq/Gen/C18_BuildEnv.v from the CURRENT sources.

Everything the C18 theorems say about concrete tags comes from here:
  /repo/build/context.go              default GOOS/GOARCH, defaultBuildTags, Compiler, CgoEnabled,
                                      shape of BuildTags, the ReleaseTags slice expression, js/wasm for std
  /repo/build/versionhack/versionhack.go   the slice expression used for go/build's default release tags, tool tags
  /repo/compiler/version_check.go     GoVersion, Version (documented Go release "+go1.N.p"), //go:build go1.N guard
  /repo/compiler/incjs/file.go        Ext and the hidden-file prefixes
  /repo/README.md                     documented supported Go release
  GOROOT/src/go/build/syslist.go      knownOS / knownArch / unixOS
  GOROOT/src/go/build/build.go        fileListForExt extensions

If a source no longer has the expected shape, extraction raises ExtractError (the check then
reports the theorems as no longer tied).
"""
import os, re, subprocess


class ExtractError(Exception):
    pass


def strip_go_comments(src):
    """remove // and /* */ comments outside string literals (good enough for the anchored files)"""
    out, i, n = [], 0, len(src)
    while i < n:
        c = src[i]
        if c == '"':
            j = i + 1
            while j < n and src[j] != '"':
                j += 2 if src[j] == "\\" else 1
            out.append(src[i:j + 1]); i = j + 1
        elif c == '`':
            j = src.index('`', i + 1)
            out.append(src[i:j + 1]); i = j + 1
        elif src.startswith("//", i):
            j = src.find("\n", i)
            i = n if j < 0 else j
        elif src.startswith("/*", i):
            j = src.find("*/", i + 2)
            i = n if j < 0 else j + 2
        else:
            out.append(c); i += 1
    return "".join(out)


def func_body(src, header_re, what):
    m = re.search(header_re, src)
    if not m:
        raise ExtractError("cannot find " + what)
    i = src.index("{", m.end() - 1) if src[m.end() - 1] != "{" else m.end() - 1
    depth, j = 0, i
    while j < len(src):
        if src[j] == "{":
            depth += 1
        elif src[j] == "}":
            depth -= 1
            if depth == 0:
                return src[i:j + 1]
        elif src[j] == '"':
            j += 1
            while src[j] != '"':
                j += 2 if src[j] == "\\" else 1
        j += 1
    raise ExtractError("unbalanced braces in " + what)


def one(rx, src, what, flags=0):
    ms = re.findall(rx, src, flags)
    if len(ms) != 1:
        raise ExtractError("expected exactly one match for %s, found %d" % (what, len(ms)))
    return ms[0]


def slice_bounds(expr, go_version, what):
    """`[lo:hi]` where lo is empty or an integer and hi is compiler.GoVersion [+-k] or an integer"""
    m = re.fullmatch(r"\[\s*(\d*)\s*:\s*(?:(compiler\.GoVersion)\s*(?:([+-])\s*(\d+))?|(\d+))\s*\]", expr.strip())
    if not m:
        raise ExtractError("unsupported slice expression for %s: %s" % (what, expr))
    lo = int(m.group(1)) if m.group(1) else 0
    if m.group(2):
        hi = go_version
        if m.group(3):
            hi = hi + int(m.group(4)) if m.group(3) == "+" else hi - int(m.group(4))
    else:
        hi = int(m.group(5))
    if hi < 0:
        raise ExtractError("negative slice bound for " + what)
    return lo, hi


def go_map_keys(src, var):
    body = func_body(src, r"var\s+%s\s*=\s*map\[string\]bool\s*\{" % var, var)
    return re.findall(r'"([^"]+)"\s*:\s*true', body)


def extract(repo):
    rd = lambda *p: open(os.path.join(repo, *p)).read()
    ctx = strip_go_comments(rd("build", "context.go"))
    vh = strip_go_comments(rd("build", "versionhack", "versionhack.go"))
    vc_raw = rd("compiler", "version_check.go")
    vc = strip_go_comments(vc_raw)
    inc = strip_go_comments(rd("compiler", "incjs", "file.go"))
    readme = rd("README.md")
    T = {}

    # --- compiler/version_check.go
    T["go_version"] = int(one(r"const\s+GoVersion\s*=\s*(\d+)", vc, "const GoVersion"))
    T["version_string"] = one(r'const\s+Version\s*=\s*"([^"]+)"', vc, "const Version")
    m = re.search(r"\+go1\.(\d+)(?:\.\d+)?$", T["version_string"])
    if not m:
        raise ExtractError("compiler.Version %r does not name a Go release (+go1.N.p)" % T["version_string"])
    T["doc_version_minor"] = int(m.group(1))
    m = re.search(r"^//go:build\s+go1\.(\d+)\s*$", vc_raw, re.M)
    T["guard_minor"] = int(m.group(1)) if m else 0
    ms = set(re.findall(r"contains a Go 1\.(\d+) distribution", readme)) | set(re.findall(r"requires Go 1\.(\d+) or newer", readme))
    if len(ms) != 1:
        raise ExtractError("README.md does not name exactly one supported Go release: %r" % sorted(ms))
    T["doc_readme_minor"] = int(ms.pop())

    # --- build/context.go: DefaultEnv
    de = func_body(ctx, r"func\s+DefaultEnv\s*\(\s*\)\s*Env\s*\{", "DefaultEnv")
    for k in ("GOOS", "GOARCH"):
        m = re.search(r'if\s+val\s*:=\s*os\.Getenv\("%s"\)\s*;\s*val\s*!=\s*""\s*\{\s*e\.%s\s*=\s*val\s*\}\s*else\s*\{\s*e\.%s\s*=\s*"([^"]*)"\s*\}' % (k, k, k), de)
        if not m:
            raise ExtractError("DefaultEnv: unexpected shape of the %s default" % k)
        T["default_" + k.lower()] = m.group(1)
    # --- defaultBuildTags
    body = func_body(ctx, r"var\s+defaultBuildTags\s*=\s*\[\]string\s*\{", "defaultBuildTags")
    T["default_build_tags"] = re.findall(r'"([^"]*)"', body)
    # --- goCtx
    gc = func_body(ctx, r"func\s+goCtx\s*\(\s*e\s+Env\s*\)\s*\*simpleCtx\s*\{", "goCtx")
    lit = func_body(gc, r"bctx\s*:\s*build\.Context\s*\{", "goCtx build.Context literal")
    fields = {}
    depth, cur, key = 0, "", None
    for part in re.split(r"\n", lit[1:-1]):
        m = re.match(r"\s*([A-Za-z]+)\s*:\s*(.*?),?\s*$", part)
        if m:
            fields[m.group(1)] = m.group(2).rstrip(",").strip()
    want = {"GOROOT": "e.GOROOT", "GOPATH": "e.GOPATH", "GOOS": "e.GOOS", "GOARCH": "e.GOARCH", "InstallSuffix": "e.InstallSuffix"}
    for k, v in want.items():
        if fields.get(k) != v:
            raise ExtractError("goCtx: field %s is %r, expected %s" % (k, fields.get(k), v))
    extra = set(fields) - set(want) - {"Compiler", "BuildTags", "CgoEnabled", "ReleaseTags"}
    if extra:
        raise ExtractError("goCtx: build.Context literal sets fields the model does not know: %s" % sorted(extra))
    m = re.fullmatch(r'"([^"]*)"', fields.get("Compiler", ""))
    if not m:
        raise ExtractError("goCtx: Compiler is not a string literal")
    T["compiler"] = m.group(1)
    if fields.get("CgoEnabled") not in ("true", "false"):
        raise ExtractError("goCtx: CgoEnabled is not a boolean literal")
    T["cgo_enabled"] = fields["CgoEnabled"] == "true"
    bt = re.sub(r"\s+", "", fields.get("BuildTags", ""))
    if bt == "append(append([]string{},e.BuildTags...),defaultBuildTags...)":
        T["user_tags_used"], T["default_tags_used"] = True, True
    elif bt == "append(append([]string{},defaultBuildTags...),e.BuildTags...)":
        T["user_tags_used"], T["default_tags_used"] = True, True
    elif bt in ("append([]string{},defaultBuildTags...)", "defaultBuildTags"):
        T["user_tags_used"], T["default_tags_used"] = False, True
    elif bt in ("append([]string{},e.BuildTags...)", "e.BuildTags"):
        T["user_tags_used"], T["default_tags_used"] = True, False
    else:
        raise ExtractError("goCtx: unexpected BuildTags expression: " + bt)
    m = re.fullmatch(r"build\.Default\.ReleaseTags(\[.*\])?", fields.get("ReleaseTags", ""))
    if not m:
        raise ExtractError("goCtx: unexpected ReleaseTags expression: %r" % fields.get("ReleaseTags"))
    T["release_truncated"] = m.group(1) is not None          # no slice expression = the toolchain's full list
    T["release_lo"], T["release_hi"] = slice_bounds(m.group(1), T["go_version"], "goCtx ReleaseTags") if m.group(1) else (0, 0)
    # --- applyPreloadTweaks
    pt = func_body(ctx, r"func\s*\(sc\s+simpleCtx\)\s*applyPreloadTweaks\s*\(", "applyPreloadTweaks")
    m = re.search(r'if\s+sc\.isStd\(importPath,\s*srcDir\)\s*\{((?:\s*bctx\.(?:GOOS|GOARCH)\s*=\s*"[^"]*")*)\s*\}', pt)
    if not m:
        raise ExtractError("applyPreloadTweaks: unexpected shape of the std-package branch")
    asg = dict(re.findall(r'bctx\.(GOOS|GOARCH)\s*=\s*"([^"]*)"', m.group(1)))
    T["std_goos"], T["std_goarch"] = asg.get("GOOS"), asg.get("GOARCH")      # None = not forced for std packages
    if len(re.findall(r"bctx\.[A-Za-z]+\s*=", pt)) != len(asg):
        raise ExtractError("applyPreloadTweaks assigns context fields the model does not know")
    # --- isStd / isGopherJSImportPath / isDefinitelyNotStdImportPath
    gp = func_body(ctx, r"func\s+isGopherJSImportPath\s*\(", "isGopherJSImportPath")
    T["gopherjs_paths"] = re.findall(r'"([^"]+)"', gp)
    # --- versionhack
    m = re.search(r"releaseTags\s*=\s*build\.Default\.ReleaseTags(\[[^\]]*\])?\s*\n", vh)
    if not m:
        raise ExtractError("versionhack: unexpected releaseTags assignment")
    T["hack_truncated"] = m.group(1) is not None
    T["hack_lo"], T["hack_hi"] = slice_bounds(m.group(1), T["go_version"], "versionhack releaseTags") if m.group(1) else (0, 0)
    if not re.search(r"toolTags\s*=\s*\[\]string\{\}", vh) or not re.search(r"build\.Default\.ToolTags\s*=\s*\[\]string\{\}", vh):
        raise ExtractError("versionhack: tool tags are no longer cleared")
    # --- incjs
    T["incjs_ext"] = one(r'const\s+Ext\s*=\s*"([^"]+)"', inc, "incjs.Ext")
    ff = func_body(inc, r"func\s+fromFileInfo\s*\(", "incjs.fromFileInfo")
    if not re.search(r"if\s*!isIncJS\(file\.Name\(\)\)\s*\|\|\s*file\.IsDir\(\)\s*\{\s*return nil, nil\s*\}", ff):
        raise ExtractError("incjs.fromFileInfo: unexpected first test")
    m = re.search(r"if\s+((?:file\.Name\(\)\[0\]\s*==\s*'.'\s*(?:\|\|)?\s*)+)\{\s*return nil, nil", ff)
    T["incjs_hidden"] = re.findall(r"'(.)'", m.group(1)) if m else []
    if not re.search(r"func\s+isIncJS\(filename string\)\s*bool\s*\{\s*return strings\.HasSuffix\(filename,\s*Ext\)\s*\}", inc):
        raise ExtractError("incjs.isIncJS: unexpected shape")

    # --- go/build of the toolchain that builds gopherjs
    goroot = subprocess.run(["go", "env", "GOROOT"], stdout=subprocess.PIPE, env=dict(os.environ, GOTOOLCHAIN="local")).stdout.decode().strip()
    sysl = strip_go_comments(open(os.path.join(goroot, "src", "go", "build", "syslist.go")).read())
    T["known_os"], T["known_arch"], T["unix_os"] = go_map_keys(sysl, "knownOS"), go_map_keys(sysl, "knownArch"), go_map_keys(sysl, "unixOS")
    bsrc = strip_go_comments(open(os.path.join(goroot, "src", "go", "build", "build.go")).read())
    fl = func_body(bsrc, r"func\s+fileListForExt\s*\(", "fileListForExt")
    T["other_exts"] = re.findall(r'"(\.[A-Za-z0-9]+)"', fl)
    m = re.search(r"go(\d+)\.(\d+)", subprocess.run(["go", "version"], stdout=subprocess.PIPE, env=dict(os.environ, GOTOOLCHAIN="local")).stdout.decode())
    T["toolchain_minor"] = int(m.group(2))
    if not T["known_os"] or not T["known_arch"] or not T["other_exts"]:
        raise ExtractError("go/build tables are empty")
    return T


def coq_str(s):
    if not all(32 <= ord(c) < 127 for c in s):
        raise ExtractError("non-printable character in %r" % s)
    return '"' + s.replace('"', '""') + '"'


def coq_strs(xs):
    return "[" + "; ".join(coq_str(x) for x in xs) + "]"


def render(T):
    b = lambda x: "true" if x else "false"
    L = ["(* GENERATED by harness/py/c18_gen.py from the current sources on every run. Do not edit. *)",
         "From Coq Require Import List String.", "Import ListNotations.", "Local Open Scope string_scope.", ""]
    d = lambda n, ty, v, c="": L.append("Definition %s : %s := %s.%s" % (n, ty, v, ("  (* %s *)" % c) if c else ""))
    d("default_goos", "string", coq_str(T["default_goos"]), "build/context.go DefaultEnv")
    d("default_goarch", "string", coq_str(T["default_goarch"]))
    opt = lambda v: "None" if v is None else "Some " + coq_str(v)
    d("std_goos", "option string", opt(T["std_goos"]), "applyPreloadTweaks, isStd branch: value forced for std packages (None = not forced)")
    d("std_goarch", "option string", opt(T["std_goarch"]))
    d("compiler", "string", coq_str(T["compiler"]), "goCtx")
    d("cgo_enabled", "bool", b(T["cgo_enabled"]))
    d("default_build_tags", "list string", coq_strs(T["default_build_tags"]), "var defaultBuildTags")
    d("user_tags_used", "bool", b(T["user_tags_used"]), "BuildTags expression of goCtx mentions e.BuildTags")
    d("default_tags_used", "bool", b(T["default_tags_used"]), "... and defaultBuildTags")
    d("go_version", "nat", str(T["go_version"]), "compiler.GoVersion")
    d("release_truncated", "bool", b(T["release_truncated"]), "goCtx slices build.Default.ReleaseTags at all")
    d("hack_truncated", "bool", b(T["hack_truncated"]), "... and so does versionhack")
    d("release_lo", "nat", str(T["release_lo"]), "ReleaseTags: build.Default.ReleaseTags[lo:hi] in goCtx")
    d("release_hi", "nat", str(T["release_hi"]))
    d("hack_lo", "nat", str(T["hack_lo"]), "versionhack: go/build.defaultReleaseTags = build.Default.ReleaseTags[lo:hi]")
    d("hack_hi", "nat", str(T["hack_hi"]))
    d("guard_minor", "nat", str(T["guard_minor"]), "//go:build go1.N line of compiler/version_check.go (0 = absent)")
    d("tool_tags", "list string", "[]", "goCtx sets no ToolTags")
    d("version_string", "string", coq_str(T["version_string"]), "compiler.Version")
    d("doc_version_minor", "nat", str(T["doc_version_minor"]), "N of the +go1.N.p suffix of compiler.Version")
    d("doc_readme_minor", "nat", str(T["doc_readme_minor"]), "README.md: supported Go release")
    d("gopherjs_paths", "list string", coq_strs(T["gopherjs_paths"]), "isGopherJSImportPath")
    d("incjs_ext", "string", coq_str(T["incjs_ext"]), "compiler/incjs/file.go Ext")
    d("incjs_hidden", "list string", coq_strs(T["incjs_hidden"]), "first characters of names skipped by fromFileInfo")
    d("known_os", "list string", coq_strs(T["known_os"]), "GOROOT/src/go/build/syslist.go")
    d("known_arch", "list string", coq_strs(T["known_arch"]))
    d("unix_os", "list string", coq_strs(T["unix_os"]))
    d("other_exts", "list string", coq_strs(T["other_exts"]), "go/build fileListForExt")
    return "\n".join(L) + "\n"


# ---- phase 4: the post-load tweak table (build/context.go applyPostloadTweaks) -----------------

def extract_post(repo):
    """[(import path, (clear GoFiles?, excluded GoFiles), (clear TestGoFiles?, excluded TestGoFiles))] from the
    `switch pkg.ImportPath` of applyPostloadTweaks; only the statement shapes
        pkg.X = []string{} | pkg.X = nil | pkg.X = exclude(pkg.X, "a", ...)          (X = GoFiles | TestGoFiles)
    are understood, anything else raises ExtractError"""
    src = strip_go_comments(open(os.path.join(repo, "build", "context.go")).read())
    body = func_body(src, r"func\s*\(sc\s+simpleCtx\)\s*applyPostloadTweaks\s*\(", "applyPostloadTweaks")
    m = re.search(r"switch\s+pkg\.ImportPath\s*\{", body)
    if not m:
        raise ExtractError("applyPostloadTweaks: no switch on pkg.ImportPath")
    sw = func_body(body[m.start():], r"switch\s+pkg\.ImportPath\s*\{", "switch pkg.ImportPath")
    parts = re.split(r"\bcase\b", sw[1:-1])
    if parts[0].strip():
        raise ExtractError("applyPostloadTweaks: statements before the first case: %r" % parts[0].strip()[:60])
    table = []
    for part in parts[1:]:
        head, _, stmts = part.partition(":")
        paths = re.findall(r'"([^"]*)"', head)
        if not paths or re.sub(r'"[^"]*"|[,\s]', "", head):
            raise ExtractError("applyPostloadTweaks: unexpected case label %r" % head.strip())
        tw = {"GoFiles": [False, []], "TestGoFiles": [False, []]}
        for st in [s.strip() for s in stmts.strip().split("\n") if s.strip()]:
            m1 = re.fullmatch(r"pkg\.(GoFiles|TestGoFiles)\s*=\s*(\[\]string\{\}|nil)", st)
            m2 = re.fullmatch(r"pkg\.(GoFiles|TestGoFiles)\s*=\s*exclude\(pkg\.(GoFiles|TestGoFiles)((?:\s*,\s*\"[^\"]*\")+)\s*\)", st)
            if m1:
                tw[m1.group(1)] = [True, []]
            elif m2 and m2.group(1) == m2.group(2):
                tw[m2.group(1)][1] += re.findall(r'"([^"]*)"', m2.group(3))
            else:
                raise ExtractError("applyPostloadTweaks: statement not understood: %r" % st[:80])
        for p in paths:
            table.append((p, tuple(tw["GoFiles"]), tuple(tw["TestGoFiles"])))
    rest = body[body.index(sw) + len(sw):]
    upd = re.findall(r"pkg\.(\w+)\s*,\s*pkg\.(\w+)\s*=\s*updateImports\(pkg\.(\w+)\s*,\s*pkg\.(\w+)\)", rest)
    if sorted(upd) != sorted([("Imports", "ImportPos", "GoFiles", "ImportPos"), ("TestImports", "TestImportPos", "TestGoFiles", "TestImportPos"),
                              ("XTestImports", "XTestImportPos", "XTestGoFiles", "XTestImportPos")]):
        raise ExtractError("applyPostloadTweaks: the updateImports calls changed: %r" % (upd,))
    guards = re.findall(r"if\s+sc\.(isVirtual|noPostTweaks)\s*\{\s*return\s+pkg\s*\}", body[:body.index(sw)])
    if sorted(guards) != ["isVirtual", "noPostTweaks"]:
        raise ExtractError("applyPostloadTweaks: the isVirtual / noPostTweaks guards changed: %r" % (guards,))
    return table


def fallback_post():
    return [("runtime", (True, []), (False, [])), ("runtime/pprof", (True, []), (False, [])), ("sync", (False, ["pool.go"]), (False, [])),
            ("syscall/js", (True, []), (True, []))]


def render_post(table):
    b = lambda x: "true" if x else "false"
    ent = "; ".join("(%s, ((%s, %s), (%s, %s)))" % (coq_str(p), b(g[0]), coq_strs(g[1]), b(t[0]), coq_strs(t[1])) for p, g, t in table)
    return ("(* GENERATED by harness/py/c18_gen.py from build/context.go applyPostloadTweaks on every run. Do not edit. *)\n"
            "From Coq Require Import List String.\nImport ListNotations.\nLocal Open Scope string_scope.\n\n"
            "(* import path |-> ((GoFiles cleared?, GoFiles excluded), (TestGoFiles cleared?, TestGoFiles excluded)) *)\n"
            "Definition post_tweaks : list (string * ((bool * list string) * (bool * list string))) :=\n  [%s].\n" % ent)
