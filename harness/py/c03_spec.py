"""C03 — an independent reference for Go's channel semantics, written from the language
specification (NOT from the GopherJS runtime and not from the Coq model): the textbook labelled
transition system.  Used as the direct property oracle: "is what each goroutine observed on the real
runtime a behaviour Go allows, and is the final outcome (exit / deadlock report) the right one?"

scripts/ops are the JSON forms used by harness/js/c03_driver.js.  Events (per goroutine):
  ('send',) ('recv',v,ok) ('close',) ('sel',i) ('sel',i,v,ok) ('panic',kind) ('print',v) ('go',k)
  ('sched',) ('goexit',)

LTS: buffered channel = bounded FIFO (send pushes when not full, receive pops when not empty);
unbuffered channel = one joint step of a sender and a receiver; receive on a closed drained channel
gives (0,false); send on a closed channel panics (also as a select case); close of nil / closed
panics; nil channels never communicate; a select may take any enabled case, its default only when no
case is enabled.  Every goroutine has a deferred recover at its top: a panic ends the goroutine.
"""
import sys

RUN, DONE, GOEXIT = 0, 1, 2


class Spec:
    def __init__(self, case, events_by_g, child_of, relaxed=False):
        self.caps = [0] + list(case["caps"])
        self.scripts = case["scripts"]
        self.ev = events_by_g              # gid -> list of event tuples
        self.child_of = child_of           # (parent gid, n-th go of the parent) -> child gid
        self.relaxed = relaxed             # prefix mode: a goroutine may be one event ahead of what was observed
        self.seen = set()
        self.nodes = 0
        self.free = False                  # ignore the observed events (used for enabledness)

    # ---- state: (gs, bufs, closed) ; gs = tuple of (gid, script, pc, evidx, status, ngo, waiting)
    # waiting = the goroutine has reached its operation, found it not possible and is parked on it.
    # A rendezvous is a joint step of an ARRIVING goroutine with a WAITING partner.
    def init(self):
        return ((self._norm((0, 0, 0, 0, RUN, 0, False)),), tuple(() for _ in self.caps), tuple(False for _ in self.caps))

    def _norm(self, g):
        gid, sc, pc, ei, stt, ngo, w = g
        if stt == RUN and pc >= len(self.scripts[sc]):
            stt = DONE
        return (gid, sc, pc, ei, stt, ngo, w)

    def _expect(self, g, ev):
        """can goroutine g emit ev next?  returns new evidx or None"""
        if self.free:
            return g[3]
        gid, ei = g[0], g[3]
        lst = self.ev.get(gid, [])
        if ei < len(lst):
            return ei + 1 if lst[ei] == ev else None
        if self.relaxed and ei == len(lst):
            return ei + 1
        return None

    def _adv(self, g, ev, keep_pc=False, status=None, go=False):
        ne = self._expect(g, ev)
        if ne is None:
            return None
        gid, sc, pc, ei, stt, ngo, w = g
        return self._norm((gid, sc, pc if keep_pc else pc + 1, ne, stt if status is None else status, ngo + (1 if go else 0), False))

    def _recv_forms(self, g, c):
        """receive views of g's next op on channel c: list of (event builder, keep_pc_if_ok)"""
        op = self.scripts[g[1]][g[2]]
        out = []
        if op[0] == "recv" and op[1] == c:
            out.append((lambda v, ok: ("recv", v, ok), False))
        elif op[0] == "range" and op[1] == c:
            out.append((lambda v, ok: ("recv", v, ok), True))
        elif op[0] == "select":
            for i, cm in enumerate(op[1]):
                if cm[0] == "recv" and cm[1] == c:
                    out.append(((lambda i: lambda v, ok: ("sel", i, v, ok))(i), False))
        return out

    def _send_forms(self, g):
        """list of (channel, value, event) for the send views of g's next op"""
        op = self.scripts[g[1]][g[2]]
        if op[0] == "send":
            return [(op[1], op[2], ("send",))]
        if op[0] == "select":
            return [(cm[1], cm[2], ("sel", i)) for i, cm in enumerate(op[1]) if cm[0] == "send"]
        return []

    def g_moves(self, st, idx, all_waiting=False):
        """moves in which goroutine idx acts (alone, or arriving at a rendezvous with a waiting partner).
        returns (list of successor states, possible) where possible = some communication/step of its op can happen now
        (judged without looking at the observed events)"""
        gs, bufs, closed = st
        g = gs[idx]
        op = self.scripts[g[1]][g[2]]
        k = op[0]
        res = []
        possible = [False]

        def put(ng, nb=bufs, ncl=closed, extra=None, also=None):
            possible[0] = True
            if ng is None or (also is not None and also[1] is None):
                return
            l = list(gs)
            l[idx] = ng
            if also is not None:
                l[also[0]] = also[1]
            if extra is not None:
                l.append(extra)
            res.append((tuple(l), nb, ncl))

        def setbuf(c, nb):
            l = list(bufs); l[c] = nb; return tuple(l)

        def panic(kind):
            ne = self._expect(g, ("panic", kind))
            put(None if ne is None else (g[0], g[1], g[2], ne, DONE, g[5], False))

        if k == "print":
            put(self._adv(g, ("print", op[1])))
        elif k == "gosched":
            put(self._adv(g, ("sched",)))
        elif k == "goexit":
            put(self._adv(g, ("goexit",), keep_pc=True, status=GOEXIT))
        elif k == "go":
            ng = self._adv(g, ("go", op[1]), go=True)
            cg = self.child_of.get((g[0], g[5]), -1000 - len(gs))
            put(ng, extra=self._norm((cg, op[1], 0, 0, RUN, 0, False)))
        elif k == "close":
            c = op[1]
            if c == 0:
                panic("close-nil")
            elif closed[c]:
                panic("close-closed")
            else:
                ncl = list(closed); ncl[c] = True
                put(self._adv(g, ("close",)), ncl=tuple(ncl))
        # ---- receive views
        if k in ("recv", "range", "select"):
            chs = [op[1]] if k != "select" else sorted(set(cm[1] for cm in op[1] if cm[0] == "recv"))
            for c in chs:
                if c == 0:
                    continue
                for mk, keep in self._recv_forms(g, c):
                    if bufs[c]:
                        put(self._adv(g, mk(bufs[c][0], True), keep_pc=keep), nb=setbuf(c, bufs[c][1:]))
                    elif closed[c]:
                        put(self._adv(g, mk(0, False)))
                    elif self.caps[c] == 0 and (all_waiting or not g[6]):
                        for j, h in enumerate(gs):          # rendezvous with a waiting sender
                            if j == idx or h[4] != RUN or not (h[6] or all_waiting):
                                continue
                            for c2, v, ev in self._send_forms(h):
                                if c2 == c:
                                    put(self._adv(g, mk(v, True), keep_pc=keep), also=(j, self._adv(h, ev)))
        # ---- send views
        for c, v, ev in self._send_forms(g):
            if c == 0:
                continue
            if closed[c]:
                panic("send-closed")
            elif len(bufs[c]) < self.caps[c]:
                put(self._adv(g, ev), nb=setbuf(c, bufs[c] + (v,)))
            elif self.caps[c] == 0 and (all_waiting or not g[6]):
                for j, h in enumerate(gs):                  # rendezvous with a waiting receiver
                    if j == idx or h[4] != RUN or not (h[6] or all_waiting):
                        continue
                    for mk, keep in self._recv_forms(h, c):
                        put(self._adv(g, ev), also=(j, self._adv(h, mk(v, True), keep_pc=keep)))
        # ---- default / parking
        if k == "select" and not possible[0]:
            di = [i for i, cm in enumerate(op[1]) if cm[0] == "default"]
            if di:
                put(self._adv(g, ("sel", di[-1])))
        if k in ("send", "recv", "range", "select") and not possible[0] and not g[6]:
            l = list(gs)
            l[idx] = g[:6] + (True,)
            res.append((tuple(l), bufs, closed))
            return res, False
        return res, possible[0]

    def moves(self, st):
        out = []
        for idx, g in enumerate(st[0]):
            if g[4] == RUN:
                out += self.g_moves(st, idx)[0]
        return out

    def enabled(self, st, idx):
        """could goroutine idx proceed if everybody else who is unfinished were parked on their operation?"""
        saved = self.free
        self.free = True
        try:
            return self.g_moves(st, idx, all_waiting=True)[1]
        finally:
            self.free = saved

    def consumed(self, st):
        have = set(g[0] for g in st[0])
        return all(g[3] >= len(self.ev.get(g[0], [])) for g in st[0]) and all(k in have or not v for k, v in self.ev.items())

    def search(self, accept, limit=300000):
        """DFS for a reachable state satisfying accept"""
        stack = [self.init()]
        self.seen = {stack[0]}
        while stack:
            st = stack.pop()
            self.nodes += 1
            if self.nodes > limit:
                return None
            if accept(st):
                return st
            for nx in self.moves(st):
                if nx not in self.seen:
                    self.seen.add(nx)
                    stack.append(nx)
        return False


def split_trace(trace):
    """global impl trace [[gid, kind, ...]] -> (events_by_g, child_of)"""
    ev, child_of, ngo, nxt = {0: []}, {}, {}, 1
    for t in trace:
        g = t[0]
        ev.setdefault(g, []).append(tuple(t[1:]))
        if t[1] == "go":
            child_of[(g, ngo.get(g, 0))] = nxt
            ngo[g] = ngo.get(g, 0) + 1
            ev.setdefault(nxt, [])
            nxt += 1
    return ev, child_of


def final_ok(sp, st, outcome, main_finished):
    """all observed events explained exactly; nobody who could move is left behind; the report is right"""
    if not sp.consumed(st):
        return False
    gs = st[0]
    for i, g in enumerate(gs):
        if g[4] == RUN and sp.enabled(st, i):
            return False                      # the runtime stopped although this goroutine can proceed
    main_done = gs[0][4] == DONE
    if main_done != bool(main_finished):
        return False
    want = "exit" if main_done else "deadlock"
    return outcome == want


def check(case, res):
    """returns None if the observed behaviour is allowed by Go's channel semantics, else (signature, text)"""
    trace = res["trace"]
    if res["outcome"] not in ("exit", "deadlock"):
        return ("runtime-crash-" + res["outcome"], "the runtime ended with %s: %s" % (res["outcome"], res.get("crash", "")[:200]))
    ev, child_of = split_trace(trace)
    sp = Spec(case, ev, child_of)
    r = sp.search(lambda st: final_ok(sp, st, res["outcome"], res["mainFinished"]))
    if r is None:
        return ("spec-search-limit", "reference search exceeded its node limit")
    if r:
        return None
    # classify: the shortest prefix of the global trace that no Go execution can produce
    culprit = None
    for n in range(1, len(trace) + 1):
        evp, ch = split_trace(trace[:n])
        spp = Spec(case, evp, ch, relaxed=True)
        ok = spp.search(spp.consumed)
        if not ok:
            culprit = n - 1
            break
    if culprit is None:
        return ("final-state-not-allowed-" + res["outcome"],
                "every step is allowed, but the run ended (%s, mainFinished=%s) in a state where a goroutine could still proceed, "
                "or the deadlock report is wrong" % (res["outcome"], res["mainFinished"]))
    t = trace[culprit]
    g = t[0]
    # which op was goroutine g executing?  replay its events over its script
    op = op_at(case, trace, culprit)
    kind = t[1] + ("-" + str(t[2]) if t[1] == "panic" else "")
    sig = "unexpected-%s-at-%s" % (kind, op[0] if op else "?")
    if op and op[0] == "close" and op[1] == 0 and t[1] == "close":
        sig = "close-nil-chan-no-panic"
    elif op and op[0] == "close" and t[1] == "panic" and t[2] == "send-closed":
        sig = "close-with-select-sender-asleep"
    return (sig, "event #%d %r of goroutine %d (executing %r) cannot happen in any Go execution that explains the earlier events" % (culprit, t[1:], g, op))


def op_at(case, trace, n):
    """the op goroutine trace[n][0] was executing when it logged event n"""
    g = trace[n][0]
    # script of g: main = 0, else the k of the go event that created it
    sc, nxt = 0, 1
    for t in trace:
        if t[1] == "go":
            if nxt == g:
                sc = t[2]
            nxt += 1
    pc = 0
    script = case["scripts"][sc]
    for t in trace[:n]:
        if t[0] != g:
            continue
        if pc < len(script) and script[pc][0] == "range" and t[1] == "recv" and t[3]:
            continue
        pc += 1
    return script[pc] if pc < len(script) else None
