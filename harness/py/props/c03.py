"""C03 — channels, select and the goroutine scheduler.
Model: coq/Model/C03_Chan.v (impl_step mirrors compiler/prelude/goroutines.js); theorems: coq/Props/C03.v.

Correspondence (every run, on /repo's current tree):
 (0) probe: the two witnesses of findings F6 (close(nil chan)) and F7 (close while a goroutine sleeps in a
     select send) are run on the REAL prelude to learn which variant of the code is present
     (as_is / repaired, one flag per repair); the model is evaluated in that variant.
 (1) scripts: goroutine scripts are interpreted against the real prelude by harness/js/c03_driver.js
     (compiled calling convention, deterministic timers, seeded Math.random = the model's pick oracle,
     controlled Date.now = the model's time-slice oracle).  Observed: the global event trace, outcome
     (exit / deadlock report), final channel contents and queue lengths, $awakeGoroutines,
     $totalGoroutines, $mainFinished.
       - direct oracle (harness/py/c03_spec.py, written from the Go spec): is there an execution of the
         textbook LTS of Go channels in which every goroutine observes exactly what it observed here, ending in
         a state where no unfinished goroutine can proceed, with the right exit/deadlock report?  plus the
         queue invariants on the runtime's final state.  -> concrete violations.
       - model: Coq evaluates the same scripts with the same oracles; everything observed must be equal.
 (2) programs: the same scripts printed as Go programs, compiled by the real compiler, run under node
     with the oracles injected (harness/js/c03_preload.js) -> same trace as the model (covers the
     translation of <-, select, range ch, go, close, runtime.Gosched/Goexit, defer/recover around them);
     deterministic-by-construction programs are also run by native Go and compared per goroutine.
"""
import json, os, re, itertools
from concurrent.futures import ProcessPoolExecutor
import common as C
import c03_spec as S

ID = "C03"
PROPS_FILE = "Props/C03.v"
MODEL_TARGETS = ["Corr/C03_Eval.v", "Corr/C03_SpecEval.v"]
ALLOWED_AXIOMS = []
RULE = ("scripts over {send,recv,close,select(send/recv/default cases, nil channel cases),range,go,Gosched,Goexit,print}; "
        "exhaustive domains, fixed-seed samples of them per run (quick 2.2k+2.2k, thorough 40k+40k): ex2 = main=[go 1]+<=2 ops x goroutine 1 <=2 ops; "
        "ex3 = main=[go 1, go 2, optional Gosched so that both goroutines park first]+<=1 op (thorough <=2) x two goroutines x 1 op; over a 10-op "
        "(thorough 13-op) alphabet on one channel x caps {0,1,2} x pick oracle {all-first, all-last} x slice oracle {never, always, alternating}; "
        "random: 2-5 goroutines (nested go), 1-3 channels caps 0..3 + nil, 1-8 ops each, random pick/slice oracles; all sent values distinct. "
        "non-trivial = at least two goroutines communicate or block; distinct by (caps, scripts, oracles). "
        "programs: random scripts and Kahn-style (single producer/consumer per channel) deterministic programs, channel element type "
        "int / struct / array (senders overwrite the sent variable right after the send); the size argument of every make(chan T, n) is written in "
        "one of 20 ways (literal, variable / typed constant / conversion / function result / named type over int, int8..int64, uint, uint8..uint64, "
        "uintptr) and cap()/len() of the new channel are observed")
TRUSTED = ["model of goroutines.js/types.js written by hand (coq/Model/C03_Chan.v), tied by this correspondence",
           "harness/js/c03_driver.js: interpreter of scripts in the compiled calling convention; FIFO timer queue standing for node's "
           "same-delay timer order; runtime.Gosched/Goexit re-written by hand from natives/src/runtime/runtime.go (the compiled-program "
           "tie runs the real ones)",
           "coq/Model/C03_Spec.v: reference LTS of Go channels written from the language spec (capacity + FIFO buffer + closed flag; "
           "unbuffered rendezvous with a parked partner; select = any case that can proceed, default only if none can; panics); tied on every run: "
           "Coq evaluates it on explored histories (Corr/C03_SpecEval.spec_verdict), it must accept what the independent Python reference accepts and "
           "must reject the two historic defective behaviours (negative controls)",
           "coq/Model/C03_Abs.v: abstraction function and the witness actions_of (which spec steps one implementation step stands for): checked by "
           "Coq per explored history for every step kind, proved only for the step kinds of C03_impl_refines_spec_partial",
           "harness/py/c03_spec.py: second, independent reference LTS of Go channels (search-based) used as the direct oracle on the REAL runtime's "
           "observations; validated against native Go on deterministic programs",
           "defer/recover machinery ($callDeferred/$panic) is exercised by the compiled programs but not modelled (C08)"]
ASSUMPTIONS = ["no Go function handed to JavaScript ($checkForDeadlock stays true, $exportedFunctions = 0)",
               "timers: only delay-0 timers created by runtime.Gosched; same-delay timers fire in insertion order",
               "every goroutine recovers its own panics at its top (a panic ends the goroutine, not the program)",
               "no JavaScript exception other than the modelled panics escapes $runScheduled"]
TECHNIQUE = ("Coq proof (invariants by induction over all histories and oracle streams; step-wise refinement of a reference LTS of Go channels, "
             "partly proved and evaluated by Coq on every explored history) + differential correspondence with the real prelude and compiled programs")
LEVEL_TEXT = ("Machine-checked theorems about an executable model of $send/$recv/$close/$select/$go/$schedule/$runScheduled/$block/$setTimeout, "
              "for every program, every pick oracle and every time-slice oracle (induction over all histories), proved for the current (repaired) code: "
              "the queue/buffer invariants incl. conservation accepted = received ++ buffered; registration of every sleeping goroutine in the queues of "
              "its pending operation AND its converse (no stale or duplicate queue entries; exact run-queue invariant); no lost wake-up; the "
              "whole-scheduler counting invariant $awakeGoroutines = #goroutines not asleep + #pending Gosched timers; and the deadlock report as a full "
              "iff (reported exactly when main has not finished, nothing is scheduled or pending and every goroutine sleeps on an operation that cannot "
              "proceed). A reference LTS of Go channels is now a Coq definition (Model/C03_Spec.v) with an abstraction function; refinement "
              "(each implementation step = the named spec steps with the same events) is proved for scheduler steps, goroutine return, resumption after "
              "any wake-up, print, Goexit, Gosched, and evaluated by Coq for every step of explored histories. The runtime is probed on every run for the "
              "variant it implements; the model is tied to the real prelude and to compiled programs on every run; a second, independent Python LTS "
              "judges every observed history of the real runtime directly.")
LEVEL_NOTE = ("Proved in Coq for the current code: C03_chan_invariants, C03_registration, C03_no_lost_wakeup, C03_no_stale_entries, "
              "C03_entries_invariant, C03_scheduled_awake, C03_running_wf, C03_counting_invariant, C03_deadlock_report_iff (full statement; "
              "C03_deadlock_report_sound_partial kept), C03_impl_refines_spec_partial. NOT proved: C03_impl_refines_spec_full_statement for the step in "
              "which a goroutine itself executes send / receive / range / close / select / go and for the Gosched timer callback (needs the invariant "
              "'a blocked goroutine's code head is the operation it is registered for', not yet threaded through the operations) - these step kinds are "
              "only compared: Coq evaluates the refinement check on a fixed stride of the explored histories (quick: every 8th exhaustive / 4th random "
              "case and all program scripts; thorough: every 4th) and the Python reference judges all of them. Not modelled: defer/recover machinery, "
              "$exportedFunctions/$checkForDeadlock=false, timers with non-zero delays, wall-clock.")

DRIVER = os.path.join(C.JS, "c03_driver.js")
PRELOAD = os.path.join(C.JS, "c03_preload.js")

W_F7 = dict(caps=[0], scripts=[[["go", 1], ["gosched"], ["close", 1], ["print", 9]], [["select", [["send", 1, 5]]], ["print", 3]]], picks=[], breaks=[])
W_F6 = dict(caps=[0], scripts=[[["close", 0], ["print", 1]]], picks=[], breaks=[])


def prepare(ctx):
    C.ensure_gopherjs()


# ---------------------------------------------------------------- running the real prelude

def run_driver(ctx, cases, tag):
    shard = max(50, min(1500, -(-len(cases) // C.NCPU)))
    shards = [cases[i:i + shard] for i in range(0, len(cases), shard)]

    def one(k):
        p = os.path.join(ctx.work, "req_%s_%d.json" % (tag, k))
        with open(p, "w") as f:
            json.dump(dict(cases=shards[k]), f)
        rc, out, err = C.sh2(["node", "--stack-size=4000", DRIVER, C.REPO, p], timeout=900)
        if rc == 124:
            ctx.notes.append("driver shard %s/%d timed out: %d cases skipped" % (tag, k, len(shards[k])))
            return [None] * len(shards[k])
        if rc != 0:
            raise C.BuildError("c03 driver failed: " + (err or out)[-600:])
        return json.loads(out)["results"]

    res = []
    for part in C.parallel_map(one, range(len(shards))):
        res += part
    return res


def probe(ctx):
    r7, r6 = run_driver(ctx, [W_F7, W_F6], "probe")
    fix7 = not any(t[0] == 0 and t[1] == "panic" for t in r7["trace"])
    fix6 = any(t[1] == "panic" and t[2] == "close-nil" for t in r6["trace"])
    return dict(fix_close_nil=fix6, fix_select_send=fix7)


# ---------------------------------------------------------------- Coq printing

def coq_comm(c):
    return "CDefault" if c[0] == "default" else ("CRecv %d" % c[1] if c[0] == "recv" else "CSend %d %d%%N" % (c[1], c[2]))


def coq_op(o):
    k = o[0]
    if k == "send": return "Send %d %d%%N" % (o[1], o[2])
    if k == "recv": return "Recv %d" % o[1]
    if k == "close": return "Close %d" % o[1]
    if k == "select": return "Select [%s]" % "; ".join(coq_comm(c) for c in o[1])
    if k == "range": return "Range %d" % o[1]
    if k == "go": return "Go %d" % o[1]
    if k == "gosched": return "Gosched"
    if k == "goexit": return "Goexit"
    if k == "print": return "Print %d%%N" % o[1]
    raise ValueError(o)


PK = {"send-closed": "PSendClosed", "close-closed": "PCloseClosed", "close-nil": "PCloseNil", "js-error": "PJsError"}


def coq_event(t):
    g, k = t[0], t[1]
    if k == "send": e = "EvSend"
    elif k == "recv": e = "EvRecv %d%%N %s" % (t[2], "true" if t[3] else "false")
    elif k == "close": e = "EvClose"
    elif k == "sel": e = "EvSel %d None" % t[2] if len(t) == 3 else "EvSel %d (Some (%d%%N, %s))" % (t[2], t[3], "true" if t[4] else "false")
    elif k == "panic": e = "EvPanic %s" % PK.get(t[2], "PJsError")
    elif k == "print": e = "EvPrint %d%%N" % t[2]
    elif k == "go": e = "EvGo %d" % t[2]
    elif k == "sched": e = "EvSched"
    elif k == "goexit": e = "EvGoexit"
    else: e = "EvOdd"
    return "(%d, %s)" % (g, e)


def coq_bool(b):
    return "true" if b else "false"


def coq_case(case, res, variant, fuel):
    prog = "{| p_caps := [%s]; p_scripts := [%s] |}" % (
        "; ".join(str(c) for c in case["caps"]), "; ".join("[" + "; ".join(coq_op(o) for o in s) + "]" for s in case["scripts"]))
    oc = {"exit": "OExit", "deadlock": "ODeadlock"}.get(res["outcome"], "OFuel")
    chans = "; ".join("([%s], %s, %d, %d)" % ("; ".join("%d%%N" % v for v in c["buf"]), coq_bool(c["closed"]), c["sq"], c["rq"]) for c in res["chans"])
    obs = "{| o_trace := [%s]; o_outcome := %s; o_chans := [%s]; o_awake := (%d)%%Z; o_total := (%d)%%Z; o_main_finished := %s; o_picks_used := %d |}" % (
        "; ".join(coq_event(t) for t in res["trace"]), oc, chans, res["awake"], res["total"], coq_bool(res["mainFinished"]),
        min(res["picksUsed"], len(case["picks"])))
    return "{| k_fx := {| fix_close_nil := %s; fix_select_send := %s |}; k_prog := %s; k_picks := [%s]; k_breaks := [%s]; k_fuel := %d; k_expect := %s |}" % (
        coq_bool(variant["fix_close_nil"]), coq_bool(variant["fix_select_send"]), prog,
        "; ".join(str(p) for p in case["picks"]), "; ".join(coq_bool(b) for b in case["breaks"]), fuel, obs)


HEADER = ("From Coq Require Import List NArith ZArith.\nFrom Verif Require Import Model.C03_Chan Corr.C03_Eval Corr.C03_SpecEval.\n"
          "Import ListNotations.\n")


def coq_mismatches(ctx, vcases, tag, spec_pick=()):
    """evaluate case_ok in Coq; returns (list of mismatching indices, list of error texts, spec rows).
    spec_pick: indices of the cases which the Coq reference LTS judges as well, in the same coqc process (phase 4):
    spec rows = [(index, init_ok, verdict code)] for the picked cases (see coq_spec_rejected)"""
    shard = max(100, min(400, -(-len(vcases) // C.NCPU)))      # one round on all cores when possible
    shards = [vcases[i:i + shard] for i in range(0, len(vcases), shard)]
    picks = [[i for i in spec_pick if k * shard <= i < (k + 1) * shard] for k in range(len(shards))]

    def run_shard(k):
        p = os.path.join(ctx.work, "cases_%s_%d.v" % (tag, k))
        with open(p, "w") as f:
            f.write(HEADER)
            f.write("Definition cases : list case := [\n" + ";\n".join(shards[k]) + "].\n")
            f.write("Definition M := Eval vm_compute in mismatches cases.\nPrint M.\n")
            if picks[k]:
                f.write("Definition scases : list case := [\n" + ";\n".join(vcases[i] for i in picks[k]) + "].\n")
                f.write("Definition R := Eval vm_compute in map (fun c => (init_ok c, spec_verdict c)) scases.\nPrint R.\n")
        rc, out = C.coq_run(p)
        flat = out.replace("\n", " ")
        m = re.search(r"M\s*=\s*(\[[^\]]*\])", flat)
        if rc == 124:
            ctx.notes.append("model evaluation shard %s/%d timed out: skipped" % (tag, k))
            return k, [], "", []
        if rc != 0 or not m:
            return k, None, out[-800:], []
        rows = []
        if picks[k]:
            prs = re.findall(r"\(\s*(true|false),\s*(\d+)%N\)", flat[flat.index("R ="):] if "R =" in flat else "")
            if len(prs) != len(picks[k]):
                return k, None, "spec rows missing: " + out[-600:], []
            rows = [(i, ini == "true", int(v)) for i, (ini, v) in zip(picks[k], prs)]
        return k, [int(x.replace("%N", "")) for x in re.findall(r"\d+(?:%N)?", m.group(1))], "", rows

    bad, errs, srows = [], [], []
    for k, idxs, err, rows in C.parallel_map(run_shard, range(len(shards))):
        if idxs is None:
            errs.append("shard %d: %s" % (k, err))
        else:
            bad += [k * shard + i for i in idxs]
            srows += rows
    return bad, errs, srows


def model_obs_text(ctx, case, res, variant):
    p = os.path.join(ctx.work, "one_case.v")
    with open(p, "w") as f:
        f.write(HEADER + "Definition c := %s.\nEval vm_compute in model_obs c.\n" % coq_case(case, res, variant, fuel_for(case)))
    rc, out = C.coq_run(p)
    return re.sub(r"\s+", " ", out)[-1500:]


def coq_spec_rejected(ctx, vcases, tag):
    """phase 4: the Coq reference LTS (Model/C03_Spec.v) judges the histories: for every case Coq walks the model's run (which
    is the real prelude's run whenever case_ok holds) and checks with the spec's own step function that each step is the
    spec-step sequence Model/C03_Abs.actions_of between the abstractions of the two states, emitting the same events, and that the
    final state is quiescent in the spec with the right report.  returns (rejected indices, verdict codes, errors)"""
    shard = max(60, min(250, -(-len(vcases) // C.NCPU)))
    shards = [vcases[i:i + shard] for i in range(0, len(vcases), shard)]

    def run_shard(k):
        p = os.path.join(ctx.work, "spec_%s_%d.v" % (tag, k))
        with open(p, "w") as f:
            f.write(HEADER)
            f.write("Definition cases : list case := [\n" + ";\n".join(shards[k]) + "].\n")
            f.write("Definition R := Eval vm_compute in map (fun c => (init_ok c, spec_verdict c)) cases.\nPrint R.\n")
        rc, out = C.coq_run(p)
        if rc == 124:
            ctx.notes.append("Coq spec evaluation shard %s/%d timed out: skipped" % (tag, k))
            return k, [], ""
        prs = re.findall(r"\(\s*(true|false),\s*(\d+)%N\)", out)
        if rc != 0 or len(prs) != len(shards[k]):
            return k, None, out[-800:]
        return k, [(i, ini == "true", int(v)) for i, (ini, v) in enumerate(prs)], ""

    bad, errs = [], []
    for k, rows, err in C.parallel_map(run_shard, range(len(shards))):
        if rows is None:
            errs.append("shard %d: %s" % (k, err))
        else:
            bad += [(k * shard + i, ini, v) for i, ini, v in rows if not ini or v != 0]
    return bad, errs


def spec_stride(ctx, tag):
    """which of the explored histories the Coq spec judges (the walk costs ~6x a model run)"""
    if tag in ("wit", "prog", "replay"):
        return 1
    return (8 if tag == "ex" else 4) if ctx.quick else 4


_DUMMY = dict(outcome="exit", trace=[], chans=[], awake=0, total=0, mainFinished=True, picksUsed=0)


def spec_controls(ctx):
    """the Coq spec must REJECT what Go forbids: the model of the historic (as_is) runtime on the two witnesses
    (close(nil) returns normally; close panics the closer while a select-sender sleeps) is not a path of the LTS,
    the repaired one is"""
    rows = []
    for w in (W_F7, W_F6):
        for v in (dict(fix_close_nil=False, fix_select_send=False), dict(fix_close_nil=True, fix_select_send=True)):
            rows.append(coq_case(w, _DUMMY, v, fuel_for(w)))
    bad, errs = coq_spec_rejected(ctx, rows, "ctl")
    got = sorted(i for i, _, _ in bad)
    ctx.cov["coq_spec_negative_controls"] = dict(rejected=got, expected=[0, 2])
    ctx.count(["coq-spec-controls"], nontrivial=True)
    if errs or got != [0, 2]:
        ctx.violation("coq-spec-control-failed", "the Coq reference LTS does not separate the historic defective behaviours (must be rejected) "
                      "from the repaired ones (must be accepted): rejected=%r errors=%r" % (bad, errs[:1]), dict(kind="spec-control"), concrete=False)


def fuel_for(case):
    n = sum(len(s) for s in case["scripts"])
    return 400 + 60 * n


# ---------------------------------------------------------------- generators

def renumber_values(case):
    """make every sent value distinct (and non-zero) so loss/duplication/reordering is visible"""
    v = [10]
    def fix_op(o):
        if o[0] == "send":
            v[0] += 1; return ["send", o[1], v[0]]
        if o[0] == "select":
            cs = []
            for c in o[1]:
                if c[0] == "send":
                    v[0] += 1; cs.append(["send", c[1], v[0]])
                else:
                    cs.append(list(c))
            return ["select", cs]
        return list(o)
    case["scripts"] = [[fix_op(o) for o in s] for s in case["scripts"]]
    return case


ALPHA = [["send", 1, 0], ["recv", 1], ["close", 1], ["select", [["send", 1, 0]]], ["select", [["recv", 1]]],
         ["select", [["send", 1, 0], ["recv", 1]]], ["select", [["recv", 1], ["default"]]], ["select", [["default"], ["send", 1, 0]]],
         ["gosched"], ["range", 1], ["select", [["recv", 0], ["send", 1, 0]]], ["select", [["recv", 1], ["recv", 1]]], ["goexit"]]


def seqs(alpha, maxlen):
    out = [[]]
    for n in range(1, maxlen + 1):
        out += [list(t) for t in itertools.product(alpha, repeat=n)]
    return out


def oracle_variants(case):
    has_multi = any(o[0] == "select" and len([c for c in o[1] if c[0] != "default"]) >= 2 for s in case["scripts"] for o in s)
    has_sched = any(o[0] == "gosched" for s in case["scripts"] for o in s)
    nslices = 4 + 2 * sum(len(s) for s in case["scripts"])
    pk = [[], [59] * 6] if has_multi else [[]]
    bk = [[], [1] * nslices] if has_sched else [[]]
    if has_sched and has_multi:
        bk.append([1, 0] * (nslices // 2))
    return [(p, b) for p in pk for b in bk]


def gen_exhaustive(ctx):
    na = 10 if ctx.quick else 13
    alpha = ALPHA[:na]
    cases = []
    two = seqs(alpha, 2)
    for cap in (0, 1, 2):
        for m in two:
            for g1 in two:
                if not m and not g1:
                    continue
                base = dict(caps=[cap], scripts=[[["go", 1]] + m, g1])
                for p, b in oracle_variants(base):
                    cases.append(renumber_values(dict(caps=[cap], scripts=[[["go", 1]] + [list(o) for o in m], [list(o) for o in g1]], picks=p, breaks=b, fam="ex2")))
    one = seqs(alpha, 1)
    maxmain = 1 if ctx.quick else 2
    for cap in (0, 1, 2):
        for m in seqs(alpha, maxmain):
            for g1 in one[1:]:
                for g2 in one[1:]:
                    # "park": main yields first, so both goroutines have run (and possibly parked on the channel,
                    # in this order) before main operates on it
                    for park in ([], [["gosched"]]):
                        main = [["go", 1], ["go", 2]] + park + [list(o) for o in m]
                        base = dict(caps=[cap], scripts=[main, g1, g2])
                        for p, b in oracle_variants(base):
                            cases.append(renumber_values(dict(caps=[cap], scripts=[[list(o) for o in main], [list(o) for o in g1], [list(o) for o in g2]],
                                                              picks=p, breaks=b, fam="ex3")))
    return cases


def gen_random_case(r, big=False):
    nch = r.randint(1, 3)
    caps = [r.choice([0, 0, 1, 1, 2, 3]) for _ in range(nch)]
    nscripts = r.randint(2, 5 if big else 4)
    chan = lambda: r.choice([0] + list(range(1, nch + 1)) * 4)

    def comm():
        k = r.random()
        return ["recv", chan()] if k < 0.5 else ["send", chan(), 0]

    def op(si, depth):
        k = r.random()
        if k < 0.24: return ["send", chan(), 0]
        if k < 0.46: return ["recv", chan()]
        if k < 0.54: return ["close", chan()]
        if k < 0.76:
            cs = [comm() for _ in range(r.choice([0, 1, 1, 2, 2, 3]))]
            if r.random() < 0.3:
                cs.insert(r.randint(0, len(cs)), ["default"])
            return ["select", cs]
        if k < 0.82: return ["range", chan()]
        if k < 0.89: return ["gosched"]
        if k < 0.93 and si + 1 < nscripts: return ["go", r.randint(si + 1, nscripts - 1)]
        if k < 0.95: return ["goexit"]
        return ["print", r.randint(1, 9)]

    scripts = []
    for si in range(nscripts):
        n = r.randint(1, 8 if big else 5)
        scripts.append([op(si, 0) for _ in range(n)])
    # main starts some of the others first
    starts = [["go", k] for k in range(1, nscripts) if r.random() < 0.8]
    scripts[0] = starts + scripts[0]
    case = dict(caps=caps, scripts=scripts, picks=[r.randint(0, 59) for _ in range(r.choice([0, 3, 8]))],
                breaks=[r.random() < 0.4 for _ in range(r.choice([0, 0, 10, 40]))], fam="rnd")
    case["breaks"] = [1 if b else 0 for b in case["breaks"]]
    return renumber_values(case)


# ---------------------------------------------------------------- direct oracle

def final_invariants(case, res):
    caps = [0] + case["caps"]
    for i, c in enumerate(res["chans"]):
        if len(c["buf"]) > caps[i]:
            return "buffer of channel %d longer than its capacity" % i
        if c["rq"] and c["buf"]:
            return "channel %d has waiting receivers and buffered values" % i
        if c["sq"] and len(c["buf"]) < caps[i] and not (c["rq"]):
            return "channel %d has waiting senders and free buffer space" % i
        if c["closed"] and (c["sq"] or c["rq"]):
            return "closed channel %d still has queued goroutines" % i
    if res["awake"] != 0:
        return "$awakeGoroutines = %d at quiescence" % res["awake"]
    if res["scheduled"] != 0:
        return "$scheduled not empty at quiescence"
    return None


def oracle_one(args):
    case, res = args
    try:
        v = S.check(case, res)
    except Exception as e:          # a crash of the reference is an infrastructure problem, not a verdict
        return ("spec-checker-crashed", repr(e)[:300], False)
    if v and v[0] == "spec-search-limit":
        return (v[0], v[1], None)       # not a verdict: the case is skipped with a note
    if v:
        return (v[0], v[1], True)
    inv = final_invariants(case, res)
    if inv:
        return ("final-invariant-" + re.sub(r"[^a-z]+", "-", inv.lower())[:40], inv, True)
    return None


def nontrivial(case, res):
    gs = set(t[0] for t in res["trace"] if t[1] in ("send", "recv", "sel", "close", "panic"))
    return len(gs) >= 2 or res["outcome"] == "deadlock" or res["total"] > 0


def check_cases(ctx, cases, variant, tag, pool):
    results = run_driver(ctx, [dict(caps=c["caps"], scripts=c["scripts"], picks=c["picks"], breaks=c["breaks"]) for c in cases], tag)
    keep = [i for i, x in enumerate(results) if x is not None]
    cases, results = [cases[i] for i in keep], [results[i] for i in keep]
    ctx.log("%s: %d cases run on the real prelude" % (tag, len(cases)))
    verdicts = list(pool.map(oracle_one, list(zip(cases, results)), chunksize=200))
    dist = ctx.cov.setdefault("distribution", dict(outcomes={}, events={}, families={}, oracle_violations={}, max_goroutines=0, picks_used=0))
    for c, res, v in zip(cases, results, verdicts):
        ctx.count([c["caps"], c["scripts"], c["picks"], c["breaks"]], nontrivial=nontrivial(c, res))
        dist["outcomes"][res["outcome"]] = dist["outcomes"].get(res["outcome"], 0) + 1
        dist["families"][c["fam"]] = dist["families"].get(c["fam"], 0) + 1
        dist["max_goroutines"] = max(dist["max_goroutines"], res.get("ngor", 0))
        dist["picks_used"] += res.get("picksUsed", 0)
        for t in res["trace"]:
            key = t[1] + ("-" + t[2] if t[1] == "panic" else "")
            dist["events"][key] = dist["events"].get(key, 0) + 1
        if v and v[2] is None:
            ctx.notes.append("reference search gave up on one case (%s): skipped" % v[0])
            v = None
        if v:
            sig, what, concrete = v
            dist["oracle_violations"][sig] = dist["oracle_violations"].get(sig, 0) + 1
            if dist["oracle_violations"][sig] <= 3:
                ctx.violation(sig, what, dict(kind="script", case=strip(c), impl=res, variant=variant), concrete=concrete)
    ctx.log("%s: direct oracle done" % tag)
    vc = [coq_case(c, res, variant, fuel_for(c)) for c, res in zip(cases, results)]
    # phase 4: the Coq reference LTS judges (a fixed stride of) the histories which the Python reference accepted
    stride = spec_stride(ctx, tag)
    pick = [i for i in range(len(cases)) if i % stride == 0 and not verdicts[i]]
    bad, errs, srows = coq_mismatches(ctx, vc, tag, spec_pick=pick)
    for e in errs[:2]:
        ctx.violation("model-eval-failed", "Coq evaluation of the model failed", dict(log=e), concrete=False)
    for i in bad[:3]:
        ctx.violation("model-mismatch", "model (variant %r) and the real runtime disagree on a script" % (variant,),
                      dict(kind="script", case=strip(cases[i]), impl=results[i], variant=variant,
                           model=model_obs_text(ctx, cases[i], results[i], variant),
                           correspondence="Corr/C03_Eval.case_ok vs compiler/prelude/goroutines.js"), concrete=False)
    dist["model_mismatches"] = dist.get("model_mismatches", 0) + len(bad)
    badset = set(bad)
    sbad = [(i, ini, code) for i, ini, code in srows if i not in badset and (not ini or code != 0)]
    for i, ini, code in sbad[:3]:
        ctx.violation("coq-spec-rejects-history", "the Coq reference LTS (Model/C03_Spec.v) rejects a history of the real runtime that the model reproduces "
                      "and the Python reference accepts: %s" % ("initial states differ" if not ini else
                      ("final state not quiescent / wrong report" if code == 1000000 else "step %d of the model run is not the spec-step sequence actions_of" % code)),
                      dict(kind="script", case=strip(cases[i]), impl=results[i], variant=variant,
                           correspondence="Corr/C03_SpecEval.spec_verdict (impl_refines_spec, per history)"), concrete=False)
    dist["coq_spec_rejected"] = dist.get("coq_spec_rejected", 0) + len(sbad)
    ctx.cov["histories_judged_by_coq_spec"] = ctx.cov.get("histories_judged_by_coq_spec", 0) + len(srows)
    ctx.log("%s: Coq spec judged %d histories (%d rejected)" % (tag, len(srows), len(sbad)))
    ctx.cov["traces_validated_against_impl"] = ctx.cov.get("traces_validated_against_impl", 0) + len(vc)
    ctx.log("%s: model comparison done (%d mismatches)" % (tag, len(bad)))
    return results


def strip(c):
    return dict(caps=c["caps"], scripts=c["scripts"], picks=c["picks"], breaks=c["breaks"])


# ---------------------------------------------------------------- compiled programs

PANIC_TEXT = {"runtime error: send on closed channel": "send-closed", "send on closed channel": "send-closed",
              "runtime error: close of closed channel": "close-closed", "close of closed channel": "close-closed",
              "runtime error: close of nil channel": "close-nil", "close of nil channel": "close-nil"}


# how the size argument of make(chan T, n) is written: the spec allows any integer type, constant or not
CAP_STYLES = ["lit", "var int64", "var uint64", "conv int64", "var int8", "const uint64", "var uint8", "named int64", "var int16", "call int64",
              "var uint16", "const int64", "var int32", "call uint64", "var uint32", "var int", "named uint64", "var uint", "var uintptr", "conv uint64"]


def cap_decl(i, T, cap, style):
    kind, _, typ = style.partition(" ")
    if kind == "lit":
        return ["var ch%d = make(chan %s, %d)" % (i, T, cap)]
    if kind == "var":
        return ["var cap%d %s = %d" % (i, typ, cap), "var ch%d = make(chan %s, cap%d)" % (i, T, i)]
    if kind == "const":
        return ["const cap%d %s = %d" % (i, typ, cap), "var ch%d = make(chan %s, cap%d)" % (i, T, i)]
    if kind == "conv":
        return ["var ch%d = make(chan %s, %s(%d))" % (i, T, typ, cap)]
    if kind == "named":
        return ["type size%d %s" % (i, typ), "var cap%d size%d = %d" % (i, i, cap), "var ch%d = make(chan %s, cap%d)" % (i, T, i)]
    if kind == "call":
        return ["func capf%d(n int) %s { return %s(n) }" % (i, typ, typ), "var ch%d = make(chan %s, capf%d(%d))" % (i, T, i, cap)]
    raise ValueError(style)


def go_program(case, elem="int", style0=0):
    """elem: element type of every channel. "int", or a value type that the translation has to clone on send
    ("struct" = struct{a int}, "array" = [1]int): the sender then sends from addressable variables which it
    overwrites right after the send completed, so a value that was not copied shows up altered at the receiver."""
    T = {"int": "int", "struct": "T", "array": "T"}[elem]
    fld = {"int": "", "struct": ".a", "array": "[0]"}[elem]
    L = ["package main", "", 'import "runtime"', ""]
    if elem == "struct":
        L.append("type T struct{ a int }")
    elif elem == "array":
        L.append("type T [1]int")
    L.append("var _ = runtime.Gosched")
    L.append("var ch0 chan %s" % T)
    for i, cap in enumerate(case["caps"], 1):
        L += cap_decl(i, T, cap, CAP_STYLES[(style0 + i) % len(CAP_STYLES)])
    L += ["var nextID = 1", "", "func report(id int) {", "\tif r := recover(); r != nil {", '\t\tprintln(id, "panic", r.(error).Error())', "\t}", "}", ""]

    def operand(i, v, pre):
        if elem == "int":
            return str(v)
        pre.append("\tx[%d]%s = %d" % (i, fld, v))
        return "x[%d]" % i

    for k, s in enumerate(case["scripts"]):
        L.append("func s%d(id int) {" % k)
        L.append("\tdefer report(id)")
        if elem != "int":
            L += ["\tvar x [8]T", "\t_ = x"]
        poison = ["\tfor i := range x {", "\t\tx[i]%s = -1" % fld, "\t}"] if elem != "int" else []
        for o in s:
            t = o[0]
            if t == "send":
                pre = []
                opnd = operand(0, o[2], pre)
                L += pre + ["\tch%d <- %s" % (o[1], opnd)] + poison + ['\tprintln(id, "send")']
            elif t == "recv":
                L += ["\t{", "\t\tv, ok := <-ch%d" % o[1], '\t\tprintln(id, "recv", v%s, ok)' % fld, "\t}"]
            elif t == "close":
                L += ["\tclose(ch%d)" % o[1], '\tprintln(id, "close")']
            elif t == "range":
                L += ["\tfor v := range ch%d {" % o[1], '\t\tprintln(id, "recv", v%s, true)' % fld, "\t}", '\tprintln(id, "recv", 0, false)']
            elif t == "go":
                L += ['\tprintln(id, "go", %d)' % o[1], "\t{", "\t\tn := nextID", "\t\tnextID++", "\t\tgo s%d(n)" % o[1], "\t}"]
            elif t == "gosched":
                L += ["\truntime.Gosched()", '\tprintln(id, "sched")']
            elif t == "goexit":
                L += ['\tprintln(id, "goexit")', "\truntime.Goexit()"]
            elif t == "print":
                L += ['\tprintln(id, "print", %d)' % o[1]]
            elif t == "select":
                pre, body = [], ["\tselect {"]
                for i, c in enumerate(o[1]):
                    if c[0] == "default":
                        body += ["\tdefault:"] + ["\t" + p for p in poison] + ['\t\tprintln(id, "sel", %d)' % i]
                    elif c[0] == "recv":
                        body += ["\tcase v, ok := <-ch%d:" % c[1]] + ["\t" + p for p in poison] + ['\t\tprintln(id, "sel", %d, v%s, ok)' % (i, fld)]
                    else:
                        body += ["\tcase ch%d <- %s:" % (c[1], operand(i % 8, c[2], pre))] + ["\t" + p for p in poison] + ['\t\tprintln(id, "sel", %d)' % i]
                body.append("\t}")
                L += pre + body
        L += ["}", ""]
    L += ["func main() {"] + ['\tprintln("cap", %d, cap(ch%d), len(ch%d))' % (i, i, i) for i in range(1, len(case["caps"]) + 1)] + ["\ts0(0)", "}", ""]
    return "\n".join(L)


def parse_program_output(text):
    trace = []
    for line in text.split("\n"):
        m = re.match(r"^(\d+) (send|recv|close|sel|panic|print|go|sched|goexit)\b ?(.*)$", line.strip())
        if not m:
            continue
        g, k, rest = int(m.group(1)), m.group(2), m.group(3)
        if k == "panic":
            trace.append([g, "panic", PANIC_TEXT.get(rest.strip(), "other:" + rest.strip()[:40])])
        elif k in ("recv",):
            a = rest.split()
            trace.append([g, k, int(a[0]), a[1] == "true"])
        elif k == "sel":
            a = rest.split()
            trace.append([g, k, int(a[0])] + ([int(a[1]), a[2] == "true"] if len(a) == 3 else []))
        elif k in ("print", "go"):
            trace.append([g, k, int(rest.split()[0])])
        else:
            trace.append([g, k])
    return trace


def gen_kahn(r):
    """deterministic by construction: only main spawns, every channel has one producer and one consumer, no default,
    selects have one live case (others on the nil channel), close only by the producer after its sends"""
    nw = r.randint(1, 3)
    names = list(range(nw + 1))            # script ids; 0 = main
    nch = r.randint(1, 3)
    caps = [r.choice([0, 1, 2]) for _ in range(nch)] + [0] * nw     # + one done channel per worker
    todo = {g: [] for g in names}
    for c in range(1, nch + 1):
        p, q = r.sample(names, 2) if len(names) >= 2 else (0, 0)
        m = r.randint(0, 3)
        closes = r.random() < 0.6
        prod = []
        for _ in range(m):
            prod.append(["send", c, 0] if r.random() < 0.7 else ["select", [["recv", 0], ["send", c, 0]]])
        if closes:
            prod.append(["close", c])
        if closes and r.random() < 0.5:
            cons = [["range", c]]
        else:
            cons = [(["recv", c] if r.random() < 0.7 else ["select", [["recv", c], ["send", 0, 0]]]) for _ in range(r.choice([m, m, max(0, m - 1), m + 1]))]
        todo[p].append(prod)
        todo[q].append(cons)
    scripts = []
    for g in names:
        seqs_ = [list(s) for s in todo[g] if s]
        out = []
        while seqs_:
            s = r.choice(seqs_)
            out.append(s.pop(0))
            if r.random() < 0.15:
                out.append(["gosched"])
            if not s:
                seqs_.remove(s)
        scripts.append(out)
    for w in range(1, nw + 1):
        scripts[w].append(["send", nch + w, 0])
    scripts[0] = [["go", w] for w in range(1, nw + 1)] + scripts[0] + [["recv", nch + w] for w in range(1, nw + 1)]
    return renumber_values(dict(caps=caps, scripts=scripts, picks=[], breaks=[], fam="kahn"))


def native_agrees(nat, gjs, n_out, g_out):
    """native Go exits when main returns: goroutines other than main may have been cut short (their
    observations are then a prefix of what GopherJS, which runs on until nothing is runnable, shows)"""
    if n_out != g_out:
        return False
    a, b = per_goroutine(nat), per_goroutine(gjs)
    if a.get(0, []) != b.get(0, []):
        return False
    for g in set(a) | set(b):
        x, y = a.get(g, []), b.get(g, [])
        if g_out == "deadlock":
            if x != y:
                return False
        elif x != y[:len(x)]:
            return False
    return True


def per_goroutine(trace):
    d = {}
    for t in trace:
        d.setdefault(t[0], []).append(t[1:])
    return d


ELEMS = ["struct", "int", "array"]


def programs(ctx, variant, pool):
    r = ctx.rng("programs")
    n_rnd = 20 if ctx.quick else 400
    n_kahn = 10 if ctx.quick else 250
    cases = []
    while len(cases) < n_rnd:
        c = gen_random_case(r)
        # a goroutine started from a goroutine other than main gets its id at the go statement in both worlds: fine
        cases.append(c)
    kahn = [gen_kahn(r) for _ in range(n_kahn)]
    allc = cases + kahn
    results = run_driver(ctx, [strip(c) for c in allc], "prog")

    def one(i):
        c = allc[i]
        d = os.path.join(ctx.work, "p%d" % i)
        src = go_program(c, ELEMS[i % len(ELEMS)], style0=i * 7)
        C.write_go_program(d, {"main.go": src}, module="verifc03")
        rc, log = C.gopherjs_build(d, timeout=900)
        if rc == 124:
            return dict(i=i, skip="gopherjs build timed out", src=src)
        if rc != 0:
            return dict(i=i, err="build: " + log[-400:], src=src)
        env = dict(os.environ, C03_PICKS=",".join(str(p) for p in c["picks"]), C03_BREAKS=",".join(str(b) for b in c["breaks"]))
        rc, out, err = C.sh2(["node", "-r", PRELOAD, "out.js"], cwd=d, timeout=600, env=env)
        res = dict(i=i, rc=rc, trace=parse_program_output(out + "\n" + err), deadlock="all goroutines are asleep" in err, src=src, stderr=err[-300:],
                   caps=re.findall(r"^cap (\S+) (\S+) (\S+)\s*$", out + "\n" + err, re.M))
        if c["fam"] == "kahn":
            rc2, out2, err2 = C.sh2(["go", "run", "main.go"], cwd=d, timeout=900, env=C.goenv())
            res["native"] = dict(rc=rc2, trace=parse_program_output(out2 + "\n" + err2), deadlock="all goroutines are asleep" in err2)
        return res

    outs = C.parallel_map(one, range(len(allc)))
    infra = lambda rc: rc < 0 or rc in (124, 137, 143)
    goexit_witness(ctx)
    nat = 0
    for o in outs:
        c, drv = allc[o["i"]], results[o["i"]]
        ctx.count(["program", c["caps"], c["scripts"], c["picks"], c["breaks"]], nontrivial=True)
        rep = dict(kind="program", case=strip(c), source=o.get("src"), driver=drv, variant=variant)
        if "skip" in o or drv is None:
            ctx.notes.append("program %d skipped: %s" % (o["i"], o.get("skip", "driver timed out")))
            continue
        if "err" in o:
            ctx.violation("program-build-failed", "gopherjs build failed on a generated program", dict(rep, log=o["err"]), concrete=False)
            continue
        outcome = "deadlock" if o["deadlock"] else ("exit" if o["rc"] == 0 else "exit-code-%d" % o["rc"])
        # (0) make(chan T, n): cap() is n and the new channel is empty, whatever integer type n has
        want_caps = [(str(k), str(cp), "0") for k, cp in enumerate(c["caps"], 1)]
        if not infra(o["rc"]) and [tuple(x) for x in o["caps"]] != want_caps:
            ctx.violation("make-chan-capacity-wrong", "cap()/len() of a freshly made channel are not (size argument, 0): got %r, want %r" % (o["caps"], want_caps),
                          dict(rep, compiled=dict(caps=o["caps"], trace=o["trace"], outcome=outcome, stderr=o["stderr"])))
            continue
        if infra(o["rc"]) or ("native" in o and infra(o["native"]["rc"])):
            ctx.notes.append("program %d skipped: run timed out or was killed" % o["i"])
            continue
        if "native" in o and o["native"]["rc"] != 0 and not o["native"]["deadlock"] and not o["native"]["trace"]:
            ctx.notes.append("program %d: native go run failed without output (rc %d): native comparison skipped" % (o["i"], o["native"]["rc"]))
            del o["native"]
        # (a) the compiled program observes what the script interpreter observed on the same prelude (= the model, by (1))
        if o["trace"] != drv["trace"] or outcome != drv["outcome"]:
            v = S.check(c, dict(trace=o["trace"], outcome=outcome, mainFinished=outcome == "exit" and main_done(c, o["trace"])))
            if v and v[0] == "spec-search-limit":
                ctx.notes.append("reference search gave up on program %d: skipped" % o["i"])
                continue
            if v and outcome == "exit" and any(t[0] == 0 and t[1] == "goexit" for t in o["trace"]):
                ctx.violation("goexit-swallowed-by-deferring-frame",
                              "runtime.Goexit() in main's callee (which has a deferred call) only ended that function: main returned normally, "
                              "$mainFinished was set and no deadlock was reported although every goroutine is asleep (Go: fatal error ... deadlock)",
                              dict(rep, compiled=dict(trace=o["trace"], outcome=outcome, stderr=o["stderr"])))
            elif v:
                ctx.violation(v[0], "compiled program: " + v[1], dict(rep, compiled=dict(trace=o["trace"], outcome=outcome, stderr=o["stderr"])))
            else:
                ctx.violation("program-differs-from-script-run", "a compiled program and the script interpreter (same prelude, same oracles) observe different traces",
                              dict(rep, compiled=dict(trace=o["trace"], outcome=outcome, stderr=o["stderr"])), concrete=False)
            continue
        # (b) deterministic programs: native Go observes the same thing per goroutine
        if "native" in o:
            nat += 1
            n = o["native"]
            n_out = "deadlock" if n["deadlock"] else ("exit" if n["rc"] == 0 else "exit-code-%d" % n["rc"])
            if not native_agrees(n["trace"], o["trace"], n_out, outcome):
                ctx.violation("program-differs-from-native-go", "a deterministic-by-construction program behaves differently under GopherJS and native Go",
                              dict(rep, compiled=dict(trace=o["trace"], outcome=outcome), native=dict(trace=n["trace"], outcome=n_out)))
    ctx.cov["programs_compiled"] = len(allc)
    ctx.cov["programs_compared_with_native_go"] = nat
    ctx.sample(dict(kind="program", source=outs[0].get("src", "")[:1500]))
    # the random program scripts also go through the model comparison
    pairs = [(c, res) for c, res in zip(allc, results) if res is not None]
    vc = [coq_case(c, res, variant, fuel_for(c)) for c, res in pairs]
    bad, errs, srows = coq_mismatches(ctx, vc, "prog", spec_pick=list(range(len(vc))))
    for i in bad[:2]:
        ctx.violation("model-mismatch", "model and the real runtime disagree on a script", dict(kind="script", case=strip(pairs[i][0]), impl=pairs[i][1], variant=variant,
                      model=model_obs_text(ctx, pairs[i][0], pairs[i][1], variant)), concrete=False)
    for e in errs[:1]:
        ctx.violation("model-eval-failed", "Coq evaluation of the model failed", dict(log=e), concrete=False)
    badset = set(bad)
    nrep = 0
    for i, ini, code in srows:
        if i in badset or (ini and code == 0) or nrep >= 2:
            continue
        if S.check(pairs[i][0], pairs[i][1]):
            continue            # the Python reference rejects it as well: that is reported through the direct oracle
        nrep += 1
        ctx.violation("coq-spec-rejects-history", "the Coq reference LTS rejects a history the model reproduces and the Python reference accepts (verdict %d)" % code,
                      dict(kind="script", case=strip(pairs[i][0]), impl=pairs[i][1], variant=variant), concrete=False)
    ctx.cov["histories_judged_by_coq_spec"] = ctx.cov.get("histories_judged_by_coq_spec", 0) + len(srows)


GOEXIT_WITNESS = """package main

import "runtime"

func f() {
	defer println("deferred in f")
	runtime.Goexit()
	println("BUG: after Goexit in f")
}

func main() {
	done := make(chan int)
	go func() {
		defer func() { done <- 1 }()
		f()
		println("BUG: caller of f continues after Goexit")
	}()
	<-done
	println("main done")
}
"""


def goexit_witness(ctx):
    """runtime.Goexit must unwind the whole goroutine, running deferred calls on the way (natives Goexit + $callDeferred)"""
    d = os.path.join(ctx.work, "goexit_witness")
    C.write_go_program(d, {"main.go": GOEXIT_WITNESS}, module="verifc03w")
    rc, log = C.gopherjs_build(d, timeout=900)
    if rc == 124:
        ctx.notes.append("Goexit witness skipped: build timed out")
        return
    if rc != 0:
        ctx.violation("program-build-failed", "gopherjs build failed on the Goexit witness", dict(kind="program", source=GOEXIT_WITNESS, log=log[-400:]), concrete=False)
        return
    rc, out, err = C.sh2(["node", "out.js"], cwd=d, timeout=600)
    if rc == 124:
        ctx.notes.append("Goexit witness skipped: run timed out")
        return
    text = out + err
    ctx.count(["goexit-witness"], nontrivial=True)
    if "BUG" in text or "deferred in f" not in text or "main done" not in text:
        ctx.violation("goexit-swallowed-by-deferring-frame",
                      "runtime.Goexit() inside a function that has a deferred call ends only that function: its caller continues "
                      "(Go: the goroutine terminates after running the deferred calls)",
                      dict(kind="program", source=GOEXIT_WITNESS, output=text[-600:], expected="deferred in f\nmain done\n"))


def main_done(case, trace):
    evs = [t for t in trace if t[0] == 0]
    if any(t[1] == "panic" for t in evs):
        return True
    if any(t[1] == "goexit" for t in evs):
        return False
    return True


# ---------------------------------------------------------------- entry points

def correspond(ctx):
    variant = probe(ctx)
    ctx.cov["variant_detected"] = variant
    if not (variant["fix_close_nil"] and variant["fix_select_send"]):
        ctx.notes.append("the runtime is NOT the repaired variant the theorems of Props/C03.v speak about: %r" % (variant,))
    ctx.log("variant of the runtime: %r" % (variant,))
    with ProcessPoolExecutor(max_workers=C.NCPU) as pool:
        # the two witnesses first: they decide which theorem speaks about the tree
        w = [dict(W_F7, fam="witness"), dict(W_F6, fam="witness")]
        check_cases(ctx, w, variant, "wit", pool)
        spec_controls(ctx)
        ex = gen_exhaustive(ctx)
        if ctx.quick:
            # keep the quick tier near a minute: fixed-seed samples of both exhaustive families
            r0 = ctx.rng("sample")
            ex2 = [c for c in ex if c["fam"] == "ex2"]
            ex3 = [c for c in ex if c["fam"] == "ex3"]
            ex = r0.sample(ex2, min(len(ex2), 2200)) + r0.sample(ex3, min(len(ex3), 2200))
        else:
            # thorough: the 13-op alphabet domains have ~0.5 M members; explore a fixed-seed sample of 80 k
            r0 = ctx.rng("sample")
            ex2 = [c for c in ex if c["fam"] == "ex2"]
            ex3 = [c for c in ex if c["fam"] == "ex3"]
            ex = r0.sample(ex2, min(len(ex2), 40000)) + r0.sample(ex3, min(len(ex3), 40000))
        check_cases(ctx, ex, variant, "ex", pool)
        r = ctx.rng("random")
        n = 1000 if ctx.quick else 20000
        rnd = [gen_random_case(r, big=(i % 5 == 0)) for i in range(n)]
        res = check_cases(ctx, rnd, variant, "rnd", pool)
        for c, x in list(zip(rnd, res))[:3]:
            ctx.sample(dict(kind="script", case=strip(c), impl_trace=x["trace"][:12], outcome=x["outcome"]))
        programs(ctx, variant, pool)
    ctx.log("programs done")


def search(ctx, proof_state):
    """a proof broke: the correspondence has already run the direct oracle on every generated history"""
    return any(v["concrete"] for v in ctx.violations)


def replay(ctx, data):
    rp = data["replay"]
    case = rp.get("case")
    if not case:
        print(json.dumps(data, indent=1)); return 0
    variant = probe(ctx)
    res = run_driver(ctx, [case], "replay")[0]
    print("variant of the runtime now:", variant)
    print("implementation now:", json.dumps(res))
    print("recorded:", json.dumps(rp.get("impl") or rp.get("compiled")))
    print("reference verdict:", S.check(case, res))
    print("model:", model_obs_text(ctx, case, res, variant))
    print("Coq reference LTS (rejected list, empty = accepted):", coq_spec_rejected(ctx, [coq_case(case, res, variant, fuel_for(case))], "replay"))
    if rp.get("source"):
        print("Go program:\n" + rp["source"])
    return 0
