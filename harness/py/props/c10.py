"""C10 — packages are linked and initialised in Go order; linknames resolve.
Model: coq/Model/C10_Order.v, coq/Model/C10_Linkname.v; theorems: coq/Props/C10.v.

Correspondence:
 (1) overlay harness c10 calls the REAL compiler.ImportDependencies (fake importPackage callback over
     random DAGs), the REAL readLinknameFromComment / ParseGoLinknames on random directive strings and
     generated files, the REAL GoLinknameSet on random Add sequences and the REAL sources.Sort on shuffled
     file lists; the same inputs are evaluated by the Coq model.  Independently the property predicate is
     evaluated on the implementation's output (topological order, exactly once, root last; spec of the
     directive syntax; functional resolution / conflicts reported; order a function of the names only).
 (2) generated multi-package programs (<= 8 packages, random DAG, 1-3 files per package, 0-2 init functions
     per file, package variables with cross-variable / cross-file dependencies through functions, blocking
     initialisers, go:linkname edges in both directions onto functions and value/pointer methods) are
     compiled with the real compiler and run; the trace is compared with (a) the property evaluated from
     scratch in Python, (b) native Go (`go run`, per package segment, file names normalised), (c) the Coq
     model run_program and the flattened machine run_machine.  The main package is built a second time
     with its files given in shuffled order on the command line: the trace must not change.
     Rejected uses (directive on a variable, without unsafe, with a local body, conflicting duplicates)
     must fail at build time; the real WriteProgramCode is also run (overlay harness) over archives that
     carry random directive lists: it must fail exactly when a reference is given two implementations.
"""
import json, os, re, shutil
import common as C

ID = "C10"
PROPS_FILE = "Props/C10.v"
MODEL_TARGETS = ["Corr/C10_Eval.v"]
ALLOWED_AXIOMS = []
RULE = ("deps: random DAGs of 2-12 packages over a pool of paths (always with runtime, random import list order, diamonds), "
        "some with a missing package; directives: random ASCII strings biased to the //go:linkname syntax (0-4 fields, dots, "
        "slashes, (*T).M forms, tabs) and generated Go files (unsafe import yes/no, local symbol missing / var / type / func "
        "with body / bodyless, mitigated names); GoLinknameSet: Add sequences over a small symbol pool so conflicts occur; "
        "sort: shuffled distinct file names; programs: see module docstring. non-trivial = deps case with >= 4 packages, "
        "directive with >= 3 fields, Add sequence with >= 2 entries, program with >= 3 packages; distinct by full input")
TRUSTED = ["hand-written model of ImportDependencies / $init / Sources.Sort / linkname.go (coq/Model/C10_*.v), tied by this correspondence",
           "go/types' InitOrder is an input of the model (hypothesis of the variable-order theorem); the check feeds it the order "
           "computed by a from-scratch Python implementation of the Go spec rule, validated against native Go on every program",
           "goroutine scheduler, channels and the translation of blocking calls (C02/C03): only their effect on the trace is observed",
           "harness/go/repo_overlay/compiler/verifharness/c10 + compiler/linkname/export_c10_verif.go",
           "dead-code elimination, .inc.js evaluation order, $synthesizeMethods: not modelled"]
ASSUMPTIONS = ["the import graph is acyclic and closed (go/types and the build loader reject anything else)",
               "go:linkname directive text is ASCII (strings.Fields is modelled on ASCII white space)",
               "file names within a package are pairwise distinct",
               "the model's pseudo package `runtime` has no observable initialisers"]
TECHNIQUE = ("Coq proof (induction over fuel/graph rank for every acyclic closed import graph; uniqueness of sorted permutations) "
             "+ differential correspondence with the real ImportDependencies / linkname parser / GoLinknameSet / Sources.Sort and compiled multi-package programs")
LEVEL_TEXT = ("Machine-checked theorems over an executable model: for every acyclic closed import graph ImportDependencies returns every "
              "reachable package exactly once, after its imports, root last; the run-time $init recursion produces exactly the concatenation "
              "of the packages' own initialisation sequences in that order (so once, after imports, main.main last); the order of files "
              "depends only on their names; the directive parser meets its syntax spec; reference resolution is functional and complete "
              "when no reference is given twice, and the aggregation loop of WriteProgramCode rejects every program in which one is (fix cecde06).")
LEVEL_NOTE = ("Proof is about the hand-written model; the tie to /repo is differential. Variable order is relative to go/types' InitOrder "
              "(hypothesis). The equality machine = recursion for blocking initialisers is checked by evaluation on every generated program, "
              "not proved. No axioms.")

H = lambda: os.path.join(C.BIN, "h_c10")


# ------------------------------------------------------------------ Coq printing

def cs(s):
    """Coq term of type str for a Python str (latin-1 bytes)"""
    if all(32 <= ord(ch) <= 126 and ch != '"' for ch in s):
        return '(b "%s")' % s
    return "[" + ";".join(str(ord(ch)) for ch in s) + "]%N"


def clist(xs, f=lambda x: x):
    return "[" + "; ".join(f(x) for x in xs) + "]"


def cbool(x):
    return "true" if x else "false"


def csym(p, n):
    return "(%s, %s)" % (cs(p), cs(n))


def clink(l):
    return "{| l_ref := %s; l_impl := %s |}" % (csym(l["rp"], l["rn"]), csym(l["ip"], l["in"]))


def copt(x, f):
    return "None" if x is None else "(Some %s)" % f(x)


# ------------------------------------------------------------------ tables

def gen_tables():
    src = open(os.path.join(C.REPO, "compiler", "linkname", "linkname.go")).read()

    def table(func, var):
        m = re.search(r"func %s\(.*?\n}\n" % func, src, re.S)
        if not m:
            raise C.BuildError("C10 table extraction: function %s not found in linkname.go" % func)
        mm = re.search(r"%s := map\[string\]bool\{(.*?)\n\t\}" % var, m.group(0), re.S)
        if not mm:
            raise C.BuildError("C10 table extraction: table %s not found in %s" % (var, func))
        return re.findall(r"`([^`]*)`:\s*true", mm.group(1))

    t = dict(mitigated_var_links=table("isMitigatedVarLinkname", "mitigatedLinks"),
             mitigated_insert_pkgs=table("isMitigatedInsertLinkname", "mitigatedPkg"),
             mitigated_insert_links=table("isMitigatedInsertLinkname", "mitigatedLinks"))
    out = ["(* GENERATED by harness/py/props/c10.py from compiler/linkname/linkname.go — do not edit *)",
           "From Coq Require Import List NArith.", "Import ListNotations."]
    for k, v in t.items():
        out.append("Definition %s : list (list N) := [%s]." % (
            k, "; ".join("[" + ";".join(str(ord(c)) for c in s) + "]%N" for s in v)))
    C.write_if_changed(os.path.join(C.COQ, "Gen", "C10_Tables.v"), "\n".join(out) + "\n")
    return t


def prepare(ctx):
    C.ensure_gopherjs()
    C.ensure_go_harness("c10")
    C.sync_alt_coq()
    ctx.tables = gen_tables()


def harness(inp):
    rc, out, err = C.sh2([H()], inp=json.dumps(inp).encode(), timeout=600)
    if rc != 0:
        raise C.BuildError("c10 harness failed: " + err[-800:])
    return json.loads(out)


def eval_cases(ctx, vcases, origin, on_mismatch, shard=300):
    """evaluate Corr/C10_Eval.mismatches on Coq case terms, sharded over cores"""
    shards = [vcases[i:i + shard] for i in range(0, len(vcases), shard)]
    stamp = origin

    def run_shard(k):
        p = os.path.join(ctx.work, "cases_%s_%d.v" % (stamp, k))
        with open(p, "w") as f:
            f.write("From Coq Require Import List NArith String.\nFrom Verif Require Import Model.C10_Order Model.C10_Linkname Corr.C10_Eval.\n"
                    "Import ListNotations.\nLocal Open Scope string_scope.\n")
            f.write("Definition cases : list case := [\n" + ";\n".join(shards[k]) + "].\n")
            f.write("Definition M := Eval vm_compute in mismatches cases.\nPrint M.\n")
        rc, out = C.coq_run(p)
        m = re.search(r"M\s*=\s*(\[[^\]]*\])", out.replace("\n", " "))
        if rc != 0 or not m:
            return k, None, "rc=%d " % rc + out[-1200:]
        return k, [int(x.replace("%N", "")) for x in re.findall(r"\d+(?:%N)?", m.group(1))], ""

    n = 0
    for k, idxs, err in C.parallel_map(run_shard, range(len(shards))):
        if idxs is None and err.startswith("rc=124"):
            ctx.notes.append("skipped: Coq evaluation of shard %d (%s) timed out" % (k, origin))
            continue
        if idxs is None:
            ctx.violation("model-eval-failed", "Coq evaluation of the C10 model failed (%s)" % origin, dict(shard=k, origin=origin, log=err), concrete=False)
            continue
        for i in idxs:
            n += 1
            on_mismatch(k * shard + i)
    return n


# ------------------------------------------------------------------ (1a) ImportDependencies

POOL = ["runtime", "a", "b", "a/b", "a/c", "ab", "B", "x/y/z", "x/y", "z", "m.n/o", "internal/q", "k_1", "k-2", "main0"]


def gen_deps(r, missing=False):
    n = r.choice([1, 2, 3, 4, 5, 6, 8, 10, 12])
    names = ["runtime"] + r.sample(POOL[1:], min(n, len(POOL) - 1))
    r.shuffle(names)
    # acyclic: a package may import only packages later in `names`
    graph = {}
    dens = r.choice([0.15, 0.3, 0.5, 0.8])
    for i, p in enumerate(names):
        imps = [q for q in names[i + 1:] if r.random() < dens]
        r.shuffle(imps)
        graph[p] = imps
    root = r.choice(["main", "vp", "cmd/x"])
    ri = [q for q in names if r.random() < 0.4]
    r.shuffle(ri)
    if missing:
        victim = r.choice(names + ["nosuch"])
        if victim in graph and victim != "runtime" or victim == "nosuch":
            graph.pop(victim, None)
            if not any(victim in v for v in graph.values()) and victim not in ri:
                ri.append(victim)
    return dict(graph=graph, root=root, root_imports=ri)


def deps_oracle(c, res):
    """the property itself on the implementation's answer; returns None or a description"""
    g, order = c["graph"], res["order"]
    # reachable set
    reach, todo = set(), ["runtime"] + list(c["root_imports"])
    closed = True
    while todo:
        p = todo.pop()
        if p in reach:
            continue
        if p not in g:
            closed = False
            continue
        reach.add(p)
        todo += g[p]
    if not closed:
        return None if res["err"] else "a package that cannot be imported was silently accepted"
    if res["err"]:
        return "error on a closed acyclic graph: " + res["err"]
    if not order or order[-1] != c["root"]:
        return "the root package is not last"
    body = order[:-1]
    if len(set(body)) != len(body) or c["root"] in body:
        return "a package occurs more than once"
    if set(body) != reach:
        return "the set of linked packages is not the set of reachable packages"
    pos = {p: i for i, p in enumerate(order)}
    for p in body:
        for q in g[p]:
            if pos[q] > pos[p]:
                return "package %s is placed before its import %s" % (p, q)
    if len(res["calls"]) != len(set(res["calls"])):
        return "a package was loaded twice through importPkg"
    return None


# ------------------------------------------------------------------ (1b) directives

ERRMAP = [("usage requires 2 arguments", "EUsage"), ('only allowed in Go files that import "unsafe"', "ENoUnsafe"),
          ("is not found in the current source file", "ENotFound"), ("is only supported for functions", "ENotFunc"),
          ("can not insert local implementation", "EInsert")]


def errkind(s):
    for k, v in ERRMAP:
        if k in s:
            return v
    return "EOther(%s)" % s[:60]


WORDS = ["f", "g", "localName", "a.b", "a/b.c", "a/b.c.d", "x.y/z.T.M", "x/y.(*T).M", "(*T).M", "T.M", "nodot", "a/b", ".", "/", "a.", ".a",
         "a/.b", "a/b/", "vp/q.tgt1", "runtime.x", "..", "a..b", "*", "()", "(a).b",
         "vp/a/x.tgt1", "a/b/c.d", "x.y/z/w.T.M", "github.com/u/r/p.(*T).M", "a/b/c", "a.b/c/d.e.f", "//x.y", "a//b.c",
         "a/b.c/d.e", "x/y.v2/z.T.M", "vp/m.n/o.tgt", "a/b.c/d", "k/gopkg.in/yaml.(*T).M"]
SEPS = [" ", " ", " ", "  ", "\t", " \t ", "\v", "\f", "\r"]


def gen_read(r):
    k = r.random()
    if k < 0.08:
        pre = r.choice(["// go:linkname ", "//go:linknamex ", "//go:linkname", "/*go:linkname ", "//go:linkname\t", "//go:Linkname ", "", "//"])
    else:
        pre = "//go:linkname "
    nf = r.choice([0, 1, 2, 2, 2, 2, 3, 4])
    ws = []
    for i in range(nf):
        if r.random() < 0.75:
            ws.append(r.choice(WORDS))
        else:
            ws.append("".join(r.choice("abT./()*_1") for _ in range(r.randint(1, 7))))
    if nf == 2 and r.random() < 0.1:
        ws[1] = ws[0]
    text = pre + r.choice(["", "", " "]) + "".join(w + r.choice(SEPS) for w in ws)
    if r.random() < 0.5:
        text = text.rstrip(" \t\v\f\r") if r.random() < 0.7 else text
    return dict(pkg=r.choice(["p", "vp/a", "runtime", "main"]), text=text)


def read_spec(pkg, text):
    """the directive syntax from the documentation, written from scratch: (kind, link)"""
    if not text.startswith("//go:linkname "):
        return ("none", None)
    fs = text.split()                       # ASCII white space
    if len(fs) == 2:
        return ("none", None)
    if len(fs) != 3:
        return ("err", None)
    local, ext = fs[1], fs[2]
    if local == ext:
        return ("none", None)
    slash = ext.rfind("/")
    dot = ext.find(".", slash + 1)
    if dot < 0:
        return ("link", dict(rp=pkg, rn=local, ip="", **{"in": ext}))
    return ("link", dict(rp=pkg, rn=local, ip=ext[:dot], **{"in": ext[dot + 1:]}))


def gen_file(r, tables):
    """a Go file with declarations and directive comments; returns (case, decls, comments, expected verdicts from the property)"""
    pkg = r.choice(["p", "vp/a", "runtime", "reflect", "math/bits", "internal/fuzz", "os", "internal/bytealg"])
    unsafe = r.random() < 0.8
    lines = ["package x", ""]
    if unsafe:
        lines.append(r.choice(['import _ "unsafe"', 'import "unsafe"', 'import (\n\t_ "unsafe"\n)']))
        if 'import "unsafe"' in lines[-1]:
            lines.append("var _ unsafe.Pointer")
    else:
        if r.random() < 0.3:
            lines.append('import _ "math"')
    decls, comments, expect = [], [], []
    names = ["f", "g", "h", "v", "w", "T", "zeroVal", "overflowError", "runtime_cmpstring", "net_newUnixFile", "k"]
    r.shuffle(names)
    for nm in names[:r.randint(1, 7)]:
        kind = r.choice(["bodyless", "bodyless", "bodyless", "body", "var", "var2", "type", "method", "absent"])
        target = r.choice(["vp/q.tgt", "a/b.T.M", "a/b.(*T).M", "runtime.x", "nodot"])
        directive = "//go:linkname %s %s" % (nm, target) if r.random() < 0.85 else r.choice(
            ["//go:linkname %s" % nm, "//go:linkname %s %s extra" % (nm, target), "// plain comment", "//go:linkname %s %s" % (nm, nm)])
        dpos = r.choice(["before", "after"])
        chunk = []
        if kind == "bodyless":
            chunk.append("func %s(x int) int" % nm); decls.append((nm, "NodeFunc false"))
        elif kind == "body":
            chunk.append("func %s(x int) int { return x }" % nm); decls.append((nm, "NodeFunc true"))
        elif kind == "var":
            chunk.append("var %s int" % nm); decls.append((nm, "NodeOther"))
        elif kind == "var2":
            chunk.append("var (\n\tq_%s, %s = 1, 2\n)" % (nm, nm)); decls.append(("q_" + nm, "NodeOther")); decls.append((nm, "NodeOther"))
        elif kind == "type":
            chunk.append("type %s struct{}" % nm); decls.append((nm, "NodeOther"))
        elif kind == "method":
            chunk.append("type R_%s int\nfunc (R_%s) %s() {}" % (nm, nm, nm)); decls.append(("R_" + nm, "NodeOther")); decls.append((nm, "NodeFunc true"))
        if dpos == "before":
            lines.append(directive); lines += chunk
        else:
            lines += chunk; lines.append(directive)
        lines.append("")
        comments.append(directive)
        # expected verdict straight from the property text
        kindp, lk = read_spec(pkg, directive)
        if kindp == "none":
            expect.append(("skip", None))
        elif kindp == "err":
            expect.append(("err", "EUsage"))
        elif not unsafe:
            expect.append(("err", "ENoUnsafe"))
        else:
            expect.append(("defer", (lk, nm)))
    # resolve deferred expectations now that all declarations are known (lookup is by whole file)
    final = []
    for e in expect:
        if e[0] != "defer":
            final.append(e)
            continue
        lk, nm = e[1]
        d = next((d for (n, d) in decls if n == nm), None)
        symstr = pkg + "." + nm
        if d is None:
            final.append(("err", "ENotFound"))
        elif d == "NodeOther":
            final.append(("skip", None) if symstr in tables["mitigated_var_links"] else ("err", "ENotFunc"))
        elif d == "NodeFunc true":
            mit = pkg in tables["mitigated_insert_pkgs"] or symstr in tables["mitigated_insert_links"]
            final.append(("skip", None) if mit else ("err", "EInsert"))
        else:
            final.append(("link", lk))
    return dict(pkg=pkg, src="\n".join(lines) + "\n"), unsafe, decls, comments, final


# ------------------------------------------------------------------ (1c) GoLinknameSet

def gen_gls(r):
    syms = [("p", "f"), ("p", "g"), ("q", "f"), ("a/b", "T.M"), ("a/b", "(*T).M"), ("a/b", "(T).M"), ("a", "one"), ("a", "two"), ("", "x"), ("p", "()"), ("p", "(a).b.c")]
    adds = []
    for _ in range(r.randint(1, 4)):
        es = []
        for _ in range(r.randint(0, 4)):
            ref, impl = r.choice(syms[:5] if r.random() < 0.7 else syms), r.choice(syms)
            es.append(dict(rp=ref[0], rn=ref[1], ip=impl[0], **{"in": impl[1]}))
        adds.append(es)
    return dict(adds=adds, queries=[dict(rp=p, rn=n) for (p, n) in syms])


def gls_oracle(c, res):
    """functional resolution: a reference resolves to the implementation of its (only) directive;
    Add reports a conflict exactly when a reference is given twice"""
    seen, broken = {}, False
    for es, err in zip(c["adds"], res["add_err"]):
        conflict = False
        for e in es:
            k = (e["rp"], e["rn"])
            if k in seen:
                conflict = True
                break
            seen[k] = (e["ip"], e["in"])
        if conflict != err:
            return "Add reported conflict=%s, but the directives %s a duplicate reference" % (err, "contain" if conflict else "do not contain")
        broken = broken or conflict
    if bool(res["link_err"]) != broken:
        return ("NOTREJECTED " if broken else "") + "WriteProgramCode %s although the directives %s a reference with two implementations" % (
            "fails (%s)" % res["link_err"][:80] if res["link_err"] else "succeeds", "contain" if broken else "do not contain")
    if broken:
        return None      # rejected: the contents of the set do not matter
    impls = set(seen.values())
    for q, found, impl, isimpl in zip(c["queries"], res["found"], res["impl"], res["is_impl"]):
        k = (q["rp"], q["rn"])
        want = seen.get(k)
        got = tuple(impl.split("\x00")) if found else None
        if got != want:
            return "reference %s.%s resolves to %r, its directive names %r" % (k[0], k[1], got, want)
        if isimpl != (k in impls):
            return "IsImplementation(%s.%s) = %s" % (k[0], k[1], isimpl)
    return None


# ------------------------------------------------------------------ (1d) file sort

FNAMES = ["a.go", "b.go", "c.go", "B.go", "ab.go", "a_b.go", "z.go", "m1.go", "m10.go", "m2.go", "_.go", "a-b.go", "Z9.go", "aa.go", "a.b.go"]


def unit_cases(ctx):
    r = ctx.rng("unit")
    q = ctx.quick
    n_deps, n_bad, n_read, n_file, n_gls, n_sort = (400, 60, 700, 150, 200, 100) if q else (8000, 1000, 14000, 3000, 4000, 2000)
    deps = [gen_deps(r) for _ in range(n_deps)] + [gen_deps(r, missing=True) for _ in range(n_bad)]
    reads = [gen_read(r) for _ in range(n_read)]
    files = [gen_file(r, ctx.tables) for _ in range(n_file)]
    glss = [gen_gls(r) for _ in range(n_gls)]
    sorts = []
    for _ in range(n_sort):
        names = r.sample(FNAMES, r.randint(1, 7))
        d = r.choice(["/w/p/", "", "/tmp/x y/"])
        names = [d + x for x in names]
        sh = names[:]
        r.shuffle(sh)
        sorts.append((names, sh))
    mitig = [dict(rp=p, rn=n) for p in ["reflect", "math/bits", "runtime", "internal/fuzz", "internal/bytealg", "os", "p", ""]
             for n in ["zeroVal", "overflowError", "divideError", "runtime_cmpstring", "net_newUnixFile", "x", ""]]
    res = harness(dict(deps=deps, read=reads, files=[f[0] for f in files], gls=glss,
                       sort=[dict(names=a) for a, _ in sorts] + [dict(names=b2) for _, b2 in sorts], mitig=mitig))
    vc, meta = [], []
    dist = dict(deps=len(deps), deps_errors=0, deps_max_pkgs=0, read=len(reads), read_kinds={}, files=len(files), file_verdicts={},
                gls=len(glss), gls_conflicts=0, sort=len(sorts))

    # --- deps
    for c, rs in zip(deps, res["deps"]):
        ctx.count(["deps", c], nontrivial=len(c["graph"]) >= 4)
        dist["deps_errors"] += bool(rs["err"])
        dist["deps_max_pkgs"] = max(dist["deps_max_pkgs"], len(rs["order"]))
        bad = deps_oracle(c, rs)
        if bad:
            ctx.violation("deps-" + re.sub(r"[^a-z]+", "-", bad[:36].lower()).strip("-"), "ImportDependencies: " + bad,
                          dict(kind="deps", case=c, impl=rs))
        g = clist(c["graph"].items(), lambda kv: "(%s, %s)" % (cs(kv[0]), clist(kv[1], cs)))
        vc.append("CDeps %s %s %s %s" % (g, cs(c["root"]), clist(c["root_imports"], cs),
                                        "None" if rs["err"] else "(Some %s)" % clist(rs["order"], cs)))
        meta.append(("deps", c, rs))
    ctx.sample(dict(kind="deps", case=deps[0], impl=res["deps"][0]))

    # --- read
    for c, rs in zip(reads, res["read"]):
        nf = len(c["text"].split())
        ctx.count(["read", c], nontrivial=nf >= 3)
        dist["read_kinds"][rs["kind"]] = dist["read_kinds"].get(rs["kind"], 0) + 1
        kind, lk = read_spec(c["pkg"], c["text"])
        if (kind, lk) != (rs["kind"], rs.get("link")):
            ctx.violation("linkname-directive-parse", "readLinknameFromComment(%r) = %s %r, the directive syntax says %s %r" % (
                c["text"], rs["kind"], rs.get("link"), kind, lk), dict(kind="read", case=c, impl=rs, expected=[kind, lk]))
        exp = dict(none="PNone", err="PErr").get(rs["kind"]) or ("(PLink %s)" % clink(rs["link"]) if rs["kind"] == "link" else "PErr")
        vc.append("CRead %s %s %s" % (cs(c["pkg"]), cs(c["text"]), exp))
        meta.append(("read", c, rs))
    ctx.sample(dict(kind="read", case=reads[1], impl=res["read"][1]))

    # --- files (validation)
    for (fc, unsafe, decls, comments, expect), rs in zip(files, res["files"]):
        ctx.count(["file", fc], nontrivial=len(comments) >= 2)
        if rs["parse_err"]:
            ctx.violation("harness-generated-file-does-not-parse", rs["parse_err"], dict(kind="file", case=fc), concrete=False)
            continue
        kinds = [errkind(re.sub(r"^f\.go:\d+:\d+: ", "", e)) for e in rs["errs"]]
        want_links = [e[1] for e in expect if e[0] == "link"]
        want_errs = [e[1] for e in expect if e[0] == "err"]
        for e in expect:
            key = e[0] if e[0] != "err" else e[1]
            dist["file_verdicts"][key] = dist["file_verdicts"].get(key, 0) + 1
        if rs["links"] != want_links or kinds != want_errs:
            cls = "rejected-use-accepted" if len(kinds) < len(want_errs) else "validation"
            ctx.violation("linkname-" + cls, "ParseGoLinknames gives links %r errors %r; the property demands links %r errors %r" % (
                rs["links"], kinds, want_links, want_errs), dict(kind="file", case=fc, impl=rs, expected=dict(links=want_links, errs=want_errs)))
        ok_kinds = all(k in dict(ERRMAP).values() for k in kinds)
        vc.append("CFile %s %s %s %s %s %s" % (cs(fc["pkg"]), cbool(unsafe), clist(decls, lambda d: "(%s, %s)" % (cs(d[0]), d[1])),
                                              clist(comments, cs), clist(rs["links"], clink), clist(kinds if ok_kinds else ["EUsage"] * 99)))
        meta.append(("file", fc, rs))
    ctx.sample(dict(kind="file", case=files[0][0], impl=res["files"][0]))

    # --- gls
    for c, rs in zip(glss, res["gls"]):
        ctx.count(["gls", c], nontrivial=sum(len(a) for a in c["adds"]) >= 2)
        dist["gls_conflicts"] += any(rs["add_err"])
        bad = gls_oracle(c, rs)
        if bad:
            sig = "linkname-conflict-not-rejected" if bad.startswith("NOTREJECTED ") else "linkname-resolution"
            ctx.violation(sig, "GoLinknameSet: " + bad.replace("NOTREJECTED ", ""), dict(kind="gls", case=c, impl=rs))
        efind = [tuple(i.split("\x00")) if f else None for f, i in zip(rs["found"], rs["impl"])]
        emeth = [tuple(m.split("\x00")) if m else None for m in rs["is_meth"]]
        vc.append("CGls %s %s %s %s %s %s %s" % (
            clist(c["adds"], lambda a: clist(a, clink)), clist(c["queries"], lambda s: csym(s["rp"], s["rn"])), cbool(bool(rs["link_err"])),
            clist(rs["add_err"], cbool), clist(rs["is_impl"], cbool),
            clist(efind, lambda x: copt(x, lambda t: csym(*t))), clist(emeth, lambda x: copt(x, lambda t: csym(*t)))))
        meta.append(("gls", c, rs))

    # --- sort
    ns = len(sorts)
    for i, (a, sh) in enumerate(sorts):
        ra, rb = res["sort"][i], res["sort"][ns + i]
        ctx.count(["sort", a], nontrivial=len(a) >= 2)
        if ra != rb or sorted(ra) != sorted(a):
            ctx.violation("file-order-depends-on-presentation", "Sources.Sort gives %r for %r but %r for %r" % (ra, a, rb, sh),
                          dict(kind="sort", names=a, shuffled=sh, impl=[ra, rb]))
        vc.append("CSort %s %s" % (clist(a, cs), clist(ra, cs)))
        meta.append(("sort", a, ra))
        vc.append("CSort %s %s" % (clist(sh, cs), clist(rb, cs)))
        meta.append(("sort", sh, rb))

    # --- mitigation tables (Gen file vs the real predicates)
    for c, rs in zip(mitig, res["mitig"]):
        vc.append("CMitig %s %s %s" % (csym(c["rp"], c["rn"]), cbool(rs[0]), cbool(rs[1])))
        meta.append(("mitig", c, rs))

    def mism(i):
        kind, c, rs = meta[i]
        ctx.violation("model-mismatch-" + kind, "model and implementation disagree (%s): correspondence Corr/C10_Eval.case_ok broken" % kind,
                      dict(kind=kind, case=c, impl=rs, coq_case=vc[i][:2000]), concrete=False)

    dist["model_mismatches"] = eval_cases(ctx, vc, "unit", mism)
    ctx.cov["unit_distribution"] = dist
    ctx.cov["unit_cases_validated_against_impl"] = len(vc)


# ------------------------------------------------------------------ (2) programs

DIRS = ["a", "b", "a/x", "ab", "Bz", "c/d", "m.n/o", "c", "z", "a/b", "m_1", "lib/k", "q"]
FILEN = ["a.go", "b.go", "z.go", "B.go", "m1.go", "m10.go", "m2.go", "ab.go", "x_y.go", "A0.go", "k.go"]


def gen_program(r, idx, small=False):
    npk = r.randint(2, 4) if small else r.randint(2, 8)
    dirs = r.sample(DIRS, npk - 1)
    pk = [dict(idx=0, dir="", path="vp", name="main")]
    for i, d in enumerate(dirs):
        pk.append(dict(idx=i + 1, dir=d, path="vp/" + d, name="p%d" % (i + 1)))
    # DAG: i may import j > i ; everything reachable from main
    dens = r.choice([0.2, 0.4, 0.7])
    for p in pk:
        p["imports"] = [q["idx"] for q in pk[p["idx"] + 1:] if r.random() < dens]
    for j in range(1, npk):
        if not any(j in p["imports"] for p in pk[:j]):
            pk[r.randrange(0, j)]["imports"].append(j)
    for p in pk:
        nf = r.randint(1, 3)
        names = r.sample(FILEN, nf)
        if p["idx"] == 0 and r.random() < 0.5:
            names[0] = "main.go"
        p["files"] = [dict(id=i, name=n, vars=[], inits=[], helpers=[], links=[], imports=set(), blank=set(), unsafe=False) for i, n in enumerate(names)]
        # variables
        nv = r.randint(1, 6)
        rank = list(range(nv))
        r.shuffle(rank)               # rank[k]: position in the dependency order (may depend only on smaller ranks)
        p["vars"] = []
        nh = 0
        for k in range(nv):
            f = r.randrange(nf)
            zero = k > 0 and r.random() < 0.15     # v0 always has an initialiser: every package leaves a trace
            v = dict(k=k, file=f, zero=zero, blocking=(not zero and r.random() < 0.2), deps=[], direct=[], helpers=[], xpkg=[])
            if not zero:
                for j in range(nv):
                    if rank[j] < rank[k] and r.random() < 0.45:
                        v["deps"].append(j)
                        if r.random() < 0.5:
                            v["direct"].append(j)
                        else:
                            # through a helper function (possibly a chain of two), placed in any file
                            hid = nh; nh += 1
                            hf = r.randrange(nf)
                            if r.random() < 0.4:
                                hid2 = nh; nh += 1
                                p["files"][r.randrange(nf)]["helpers"].append((hid2, "v%d" % j))
                                p["files"][hf]["helpers"].append((hid, "h%d()" % hid2))
                            else:
                                p["files"][hf]["helpers"].append((hid, "v%d" % j))
                            v["helpers"].append(hid)
            p["vars"].append(v)
            p["files"][f]["vars"].append(v)
        # init functions
        for fl in p["files"]:
            for k in range(r.choice([0, 1, 1, 2])):
                fl["inits"].append(dict(k=k, blocking=r.random() < 0.2, calls=[]))
        # imports: each edge is realised in one file, used or blank
        for q in p["imports"]:
            fl = r.choice(p["files"])
            if r.random() < 0.3:
                fl["blank"].add(q)
            else:
                fl["imports"].add(q)
                users = [v for v in fl["vars"] if not v["zero"]]
                if users and r.random() < 0.7:
                    r.choice(users)["xpkg"].append(q)
                else:
                    if not fl["inits"]:
                        fl["inits"].append(dict(k=0, blocking=False, calls=[]))
                    r.choice(fl["inits"])["calls"].append(("val", q))
    # linkname edges
    nl = r.randint(0, 4) if npk > 2 else r.randint(0, 2)
    links = []
    forced = []
    if npk > 2 and idx % 2 == 0:
        # systematic coverage: a method link whose reference cannot import the implementation (mirror receiver type)
        forced = [r.choice(["pmeth", "pmeth", "vmeth"])]
        nl = max(nl, 1)
    for l in range(nl):
        a = r.randrange(npk)
        cand = [j for j in range(1, npk) if j != a]            # never onto package main (native symbol prefix is "main.")
        if not cand:
            continue
        b2 = r.choice(cand)
        kind = r.choice(["func", "func", "vmeth", "pmeth"])
        if l < len(forced):
            kind = forced[l]
            b2 = r.randrange(1, npk - 1)
            a = r.randrange(b2 + 1, npk)                          # a > b2: a never imports b2
        ref, impl = pk[a], pk[b2]
        mirror = kind != "func" and (b2 not in ref["imports"])
        fl = r.choice(ref["files"])
        fl["unsafe"] = True
        if kind != "func" and not mirror:
            # the file must import impl by name
            for g in ref["files"]:
                if b2 in g["blank"] and g is fl:
                    g["blank"].discard(b2)
            fl["imports"].add(b2)
            fl["blank"].discard(b2)
        lk = dict(id=l, kind=kind, ref=a, impl=b2, mirror=mirror, arg=r.randint(1, 9), n0=r.randint(0, 9))
        fl["links"].append(lk)
        impl["files"][r.randrange(len(impl["files"]))].setdefault("targets", []).append(lk)
        if not fl["inits"]:
            fl["inits"].append(dict(k=0, blocking=False, calls=[]))
        r.choice(fl["inits"])["calls"].append(("link", lk))
        links.append(lk)
    return dict(idx=idx, pkgs=pk, links=links)


def link_expected(lk):
    x, n0, l = lk["arg"], lk["n0"], lk["id"]
    if lk["kind"] == "func":
        return [x * 7 + l]
    if lk["kind"] == "vmeth":
        return [(n0 + x) * 10 + l, n0]          # value receiver: the caller's copy is untouched
    return [(n0 + x) * 100 + l, n0 + x]         # pointer receiver: the caller sees the update


def render(prog, file_names=None):
    """Go sources {relative path: text}. file_names: optional {(pkg idx, file id): name} override."""
    out = {}
    for p in prog["pkgs"]:
        for fl in p["files"]:
            L = ["package %s" % p["name"], ""]
            imps = []
            if fl["unsafe"]:
                imps.append('_ "unsafe"')
            for q in sorted(fl["imports"]):
                imps.append('q%d "%s"' % (q, prog["pkgs"][q]["path"]))
            for q in sorted(fl["blank"] - fl["imports"]):
                imps.append('_ "%s"' % prog["pkgs"][q]["path"])
            if imps:
                L.append("import (\n" + "\n".join("\t" + i for i in imps) + "\n)\n")
            pi = p["idx"]
            if fl["id"] == 0:
                L.append("func tr(s string) int { println(s); return 1 }\n")
                L.append("func blk(s string) int {\n\tprintln(s)\n\tc := make(chan int)\n\tgo func() { println(\"G\" + s[1:]); c <- 1 }()\n"
                         "\tx := <-c\n\tprintln(\"W\" + s[1:])\n\treturn x\n}\n")
                tot = " + ".join(["v%d" % v["k"] for v in p["vars"]] or ["0"])
                L.append("func Val() int { return %s }\n" % tot)
            for q in sorted(fl["imports"]):
                L.append("var _ = q%d.Val" % q)
            for v in fl["vars"]:
                if v["zero"]:
                    L.append("var v%d int" % v["k"])
                    continue
                terms = ['%s("V %d %d")' % ("blk" if v["blocking"] else "tr", pi, v["k"])]
                terms += ["v%d" % j for j in v["direct"]] + ["h%d()" % h for h in v["helpers"]] + ["q%d.Val()" % q for q in v["xpkg"]]
                L.append("var v%d = %s" % (v["k"], " + ".join(terms)))
            for hid, body in fl["helpers"]:
                L.append("func h%d() int { return %s }" % (hid, body))
            for lk in fl.get("targets", []):
                l = lk["id"]
                if lk["kind"] == "func":
                    L.append("func tgt%d(x int) int { return x*7 + %d }" % (l, l))
                elif lk["kind"] == "vmeth":
                    L.append("type T%d struct{ N int }\n\nfunc (t T%d) Vm(x int) int { t.N += x; return t.N*10 + %d }" % (l, l, l))
                else:
                    L.append("type T%d struct{ N int }\n\nfunc (t *T%d) Pm(x int) int { t.N += x; return t.N*100 + %d }" % (l, l, l))
            for lk in fl["links"]:
                l, ip = lk["id"], prog["pkgs"][lk["impl"]]["path"]
                ty = ("mir%d" % l) if lk["mirror"] else ("q%d.T%d" % (lk["impl"], l))
                if lk["mirror"]:
                    L.append("type mir%d struct{ N int }" % l)
                if lk["kind"] == "func":
                    L.append("//go:linkname loc%d %s.tgt%d\nfunc loc%d(x int) int" % (l, ip, l, l))
                elif lk["kind"] == "vmeth":
                    L.append("//go:linkname loc%d %s.T%d.Vm\nfunc loc%d(t %s, x int) int" % (l, ip, l, l, ty))
                else:
                    L.append("//go:linkname loc%d %s.(*T%d).Pm\nfunc loc%d(t *%s, x int) int" % (l, ip, l, l, ty))
            for fn in fl["inits"]:
                body = ['\t%s("I %d %d %d")' % ("blk" if fn["blocking"] else "tr", pi, fl["id"], fn["k"])]
                for c in fn["calls"]:
                    if c[0] == "val":
                        body.append('\tprintln("C %d %d", q%d.Val())' % (pi, c[1], c[1]))
                    else:
                        lk = c[1]
                        l = lk["id"]
                        ty = ("mir%d" % l) if lk["mirror"] else ("q%d.T%d" % (lk["impl"], l))
                        if lk["kind"] == "func":
                            body.append('\tprintln("L %d %d", loc%d(%d))' % (pi, l, l, lk["arg"]))
                        elif lk["kind"] == "vmeth":
                            body.append('\t{\n\t\tt := %s{N: %d}\n\t\tr := loc%d(t, %d)\n\t\tprintln("L %d %d", r, t.N)\n\t}' % (ty, lk["n0"], l, lk["arg"], pi, l))
                        else:
                            body.append('\t{\n\t\tt := &%s{N: %d}\n\t\tr := loc%d(t, %d)\n\t\tprintln("L %d %d", r, t.N)\n\t}' % (ty, lk["n0"], l, lk["arg"], pi, l))
                L.append("func init() {\n" + "\n".join(body) + "\n}")
            if pi == 0 and fl["id"] == 0:
                L.append('func main() {\n\tprintln("M")\n\tprintln("S", Val())\n}')
            name = (file_names or {}).get((pi, fl["id"]), fl["name"])
            out[os.path.join(p["dir"], name)] = "\n\n".join(L).replace("\n\n\n", "\n\n") + "\n"
    return out


def spec_segments(prog, forder):
    """per package: the trace lines the Go spec demands, given the order of the package's files.
    Also returns the InitOrder handed to the model.  forder[pidx] = list of file ids."""
    seg, initorder = {}, {}
    for p in prog["pkgs"]:
        pi = p["idx"]
        decl = [v for fid in forder[pi] for v in p["files"][fid]["vars"]]
        # Go spec, "Package initialization": repeatedly take the earliest variable in declaration order that is
        # ready; a variable WITHOUT initialisation expression takes part too (it is ready at once, but a variable
        # depending on it has to wait for its turn)
        pending = list(decl)
        done = set()
        lines, order = [], []
        while pending:
            nxt = next((v for v in pending if all(d in done for d in v["deps"])), None)
            if nxt is None:
                raise RuntimeError("generator produced an initialisation cycle")
            pending.remove(nxt)
            done.add(nxt["k"])
            if nxt["zero"]:
                continue
            order.append(nxt)
            tag = "%d %d" % (pi, nxt["k"])
            lines.append("V " + tag)
            if nxt["blocking"]:
                lines += ["G " + tag, "W " + tag]
        for fid in forder[pi]:
            for fn in p["files"][fid]["inits"]:
                tag = "%d %d %d" % (pi, fid, fn["k"])
                lines.append("I " + tag)
                if fn["blocking"]:
                    lines += ["G " + tag, "W " + tag]
                for c in fn["calls"]:
                    if c[0] == "val":
                        lines.append("C %d %d %d" % (pi, c[1], pkg_val(prog, c[1])))
                    else:
                        lines.append("L %d %d %s" % (pi, c[1]["id"], " ".join(str(x) for x in link_expected(c[1]))))
        seg[pi], initorder[pi] = lines, order
    return seg, initorder


def pkg_val(prog, qi, memo=None):
    """value of q.Val() = sum of q's variables; a variable is 1 + its dependencies"""
    memo = {} if memo is None else memo

    def var(pi, k):
        if (pi, k) in memo:
            return memo[(pi, k)]
        v = prog["pkgs"][pi]["vars"][k]
        if v["zero"]:
            x = 0
        else:
            x = 1 + sum(var(pi, j) for j in v["deps"]) + sum(pkg_val(prog, q, memo) for q in v["xpkg"])
        memo[(pi, k)] = x
        return x
    return sum(var(qi, v["k"]) for v in prog["pkgs"][qi]["vars"])


def line_pkg(line):
    m = re.match(r"[VGWICL] (\d+)", line)
    if m:
        return int(m.group(1))
    if line == "M" or line.startswith("S "):
        return 0
    return None


def trace_oracle(prog, lines, seg):
    """the property on a trace: returns None or (signature, text)"""
    # segments
    order, cur = [], None
    got = {}
    for ln in lines:
        pi = line_pkg(ln)
        if pi is None:
            return ("trace-unknown-line", "unexpected output line %r" % ln)
        if pi != cur:
            if pi in got:
                return ("init-interleaved-or-repeated", "package %d (%s) runs initialisation code in two separate stretches: something overtook a "
                        "suspended initialiser, or the package was initialised twice" % (pi, prog["pkgs"][pi]["path"]))
            got[pi] = []
            order.append(pi)
            cur = pi
        got[pi].append(ln)
    for p in prog["pkgs"]:
        pi = p["idx"]
        want = list(seg[pi])
        if pi == 0:
            want += ["M", "S %d" % pkg_val(prog, 0)]
        have = got.get(pi, [])
        if have != want:
            if sorted(have) == sorted(want):
                kinds = "init-order-within-package"
                if [x for x in have if x[0] in "VGW"] == [x for x in want if x[0] in "VGW"]:
                    kinds = "init-function-order"
                elif [x for x in have if x[0] == "V"] != [x for x in want if x[0] == "V"]:
                    kinds = "variable-init-order"
                else:
                    kinds = "suspended-initialiser-overtaken"
                return (kinds, "package %s: initialisation sequence %r, Go demands %r" % (p["path"], have, want))
            lw = [x for x in want if x.startswith("L")]
            lh = [x for x in have if x.startswith("L")]
            if lw != lh and [x for x in have if not x.startswith("L")] == [x for x in want if not x.startswith("L")]:
                return ("linkname-calls-wrong-implementation", "package %s: linknamed calls print %r, the named implementations give %r" % (p["path"], lh, lw))
            if len(have) == 0:
                return ("package-not-initialised", "package %s was never initialised" % p["path"])
            return ("init-sequence-wrong", "package %s: initialisation sequence %r, Go demands %r" % (p["path"], have, want))
    pos = {pi: i for i, pi in enumerate(order)}
    for p in prog["pkgs"]:
        for q in p["imports"]:
            if pos[q] > pos[p["idx"]]:
                return ("package-initialised-before-its-import", "package %s is initialised before its import %s" % (p["path"], prog["pkgs"][q]["path"]))
    if order[-1] != 0 or lines[-2] != "M":
        return ("main-not-last", "main.main does not run last")
    return None


def events_of(prog, lines):
    """observable model events for the implementation's trace"""
    ev = []
    for ln in lines:
        t = ln.split()
        if t[0] in "VW" and len(t) == 3:
            p = prog["pkgs"][int(t[1])]
            ev.append("%s %s (IVar %s)" % ("EStart" if t[0] == "V" else "EWake", cs(p["path"]), cs("v" + t[2])))
        elif t[0] in "IW" and len(t) == 4:
            p = prog["pkgs"][int(t[1])]
            ev.append("%s %s (IFn %s %s)" % ("EStart" if t[0] == "I" else "EWake", cs(p["path"]), cs(p["files"][int(t[2])]["name"]), t[3]))
        elif t[0] == "M":
            ev.append("EMain %s" % cs("vp"))
    return ev


def coq_program(prog, initorder, r):
    pks = ["{| pk_path := %s; pk_is_main := false; pk_imports := []; pk_zero := []; pk_initorder := []; pk_files := [] |}" % cs("runtime")]
    for p in prog["pkgs"]:
        imps = [prog["pkgs"][q]["path"] for q in p["imports"]]
        r.shuffle(imps)
        files = list(p["files"])
        r.shuffle(files)                   # the model sorts the files itself
        zero = [v for fl in p["files"] for v in fl["vars"] if v["zero"]]
        pks.append("{| pk_path := %s; pk_is_main := %s; pk_imports := %s; pk_zero := %s; pk_initorder := %s; pk_files := %s |}" % (
            cs(p["path"]), cbool(p["idx"] == 0), clist(imps, cs), clist(zero, lambda v: cs("v%d" % v["k"])),
            clist(initorder[p["idx"]], lambda v: "(%s, %s)" % (cs("v%d" % v["k"]), cbool(v["blocking"]))),
            clist(files, lambda fl: "(%s, %s)" % (cs(fl["name"]), clist(fl["inits"], lambda fn: "(%d, %s)" % (fn["k"], cbool(fn["blocking"])))))))
    r.shuffle(pks)
    return clist(pks)


def run_trace(cmd, d, native=False):
    rc, out, err = C.sh2(cmd, cwd=d, env=C.goenv(), timeout=900)
    text = err if native else out
    return rc, [l for l in text.split("\n") if l.strip()], (out + err)[-1500:]


def programs(ctx):
    r = ctx.rng("programs")
    n = int(os.environ.get("C10_DEV_PROGRAMS", "0")) or (24 if ctx.quick else 400)
    progs = [gen_program(r, i, small=(i % 4 == 0)) for i in range(n)]
    # the order in which the REAL Sources.Sort puts each package's files
    keys = [(pi, p["idx"]) for pi, pr in enumerate(progs) for p in pr["pkgs"]]
    sres = harness(dict(sort=[dict(names=["/w/" + f["name"] for f in progs[a]["pkgs"][b2]["files"]]) for a, b2 in keys]))["sort"]
    forders = [dict() for _ in progs]
    for (a, b2), names in zip(keys, sres):
        by = {"/w/" + f["name"]: f["id"] for f in progs[a]["pkgs"][b2]["files"]}
        forders[a][b2] = [by[x] for x in names]
    shuf = [ctx.rng("shuffle%d" % i) for i in range(n)]
    results = [None] * n

    def one(i):
        prog = progs[i]
        d = os.path.join(ctx.work, "prog%d" % i)
        srcs = render(prog)
        C.write_go_program(d, srcs, module="vp")
        res = dict(srcs=srcs)
        rc, log = C.gopherjs_build(d, out="out.js", timeout=900)
        res["build_rc"], res["build_log"] = rc, log[-1500:]
        if rc == 0:
            res["rc"], res["lines"], res["raw"] = run_trace(["node", "out.js"], d)
            # second build: the main package's files in shuffled order on the command line
            mf = [f["name"] for f in prog["pkgs"][0]["files"]]
            shuf[i].shuffle(mf)
            res["cmdline"] = mf
            rc2, log2 = C.sh([os.path.join(C.BIN, "gopherjs"), "build", "-o", "out2.js"] + mf, cwd=d, env=C.goenv(), timeout=900)
            res["build2_rc"], res["build2_log"] = rc2, log2[-800:]
            if rc2 == 0:
                res["rc2"], res["lines2"], _ = run_trace(["node", "out2.js"], d)
        # native Go on a copy whose file names sort (ascending) in the order the implementation uses
        dn = os.path.join(ctx.work, "nat%d" % i)
        ren = {}
        for p in prog["pkgs"]:
            for rank, fid in enumerate(forders[i][p["idx"]]):
                ren[(p["idx"], fid)] = "f%02d.go" % rank
        C.write_go_program(dn, render(prog, ren), module="vp")
        res["nrc"], res["nlines"], res["nraw"] = run_trace(["go", "run", "."], dn, native=True)
        results[i] = res
        return i

    C.parallel_map(one, range(n))
    vc, meta = [], []
    dist = dict(programs=n, packages=0, files=0, vars=0, blocking=0, init_funcs=0, links=dict(func=0, vmeth=0, pmeth=0, mirror=0, reverse=0),
                native_agree=0, cmdline_shuffles=0)
    mr = ctx.rng("modelshuffle")
    for i, (prog, res) in enumerate(zip(progs, results)):
        ctx.count(["program", sorted(res["srcs"].items())], nontrivial=len(prog["pkgs"]) >= 3)
        dist["packages"] += len(prog["pkgs"])
        for p in prog["pkgs"]:
            dist["files"] += len(p["files"])
            dist["vars"] += len(p["vars"])
            dist["blocking"] += sum(v["blocking"] for v in p["vars"]) + sum(fn["blocking"] for f in p["files"] for fn in f["inits"])
            dist["init_funcs"] += sum(len(f["inits"]) for f in p["files"])
        for lk in prog["links"]:
            dist["links"][lk["kind"]] += 1
            dist["links"]["mirror"] += lk["mirror"]
            dist["links"]["reverse"] += lk["ref"] in prog["pkgs"][lk["impl"]]["imports"]
        rep = dict(kind="program", sources=res["srcs"], file_order={str(k): v for k, v in forders[i].items()})
        seg, initorder = spec_segments(prog, forders[i])
        if 124 in (res["build_rc"], res.get("rc"), res.get("build2_rc"), res.get("rc2"), res["nrc"]):
            ctx.notes.append("skipped: a build or run of generated program %d timed out" % i)
            dist["skipped_timeouts"] = dist.get("skipped_timeouts", 0) + 1
            continue
        if res["build_rc"] != 0:
            ctx.violation("program-build-failed", "gopherjs build failed on a valid generated program: " + res["build_log"][-300:], dict(rep, log=res["build_log"]))
            continue
        if res["rc"] != 0:
            sig = "linknamed-function-unresolved" if ("not a function" in res["raw"] or "native function not implemented" in res["raw"]) else "program-crashed"
            ctx.violation(sig, "the compiled program failed: " + res["raw"][-300:], dict(rep, output=res["raw"]))
            continue
        bad = trace_oracle(prog, res["lines"], seg)
        if bad:
            ctx.violation(bad[0], bad[1], dict(rep, trace=res["lines"], native=res["nlines"]))
        # native Go, per package segment
        if res["nrc"] != 0:
            ctx.violation("native-reference-failed", "go run failed on the generated program (generator problem): " + res["nraw"][-300:], dict(rep, log=res["nraw"]), concrete=False)
        else:
            def bypkg(ls):
                d2 = {}
                for ln in ls:
                    d2.setdefault(line_pkg(ln), []).append(ln)
                return d2
            a, b2 = bypkg(res["lines"]), bypkg(res["nlines"])
            if a != b2:
                if not bad:
                    diff = [k for k in set(a) | set(b2) if a.get(k) != b2.get(k)]
                    ctx.violation("trace-differs-from-native-go", "per-package initialisation sequences differ from native Go for package(s) %r" % diff,
                                  dict(rep, trace=res["lines"], native=res["nlines"]))
            else:
                dist["native_agree"] += 1
        # renaming / presentation invariance
        if res.get("build2_rc") != 0:
            ctx.violation("program-build-failed-file-list", "gopherjs build <files> failed: " + res.get("build2_log", "")[-300:], dict(rep, cmdline=res.get("cmdline")), concrete=False)
        else:
            dist["cmdline_shuffles"] += 1
            if res["lines2"] != res["lines"]:
                ctx.violation("file-order-depends-on-presentation", "presenting the main package's files as %r changes the trace" % res["cmdline"],
                              dict(rep, cmdline=res["cmdline"], trace=res["lines"], trace2=res["lines2"]))
        ev = events_of(prog, res["lines"])
        vc.append("CProg %s %s (Some %s)" % (coq_program(prog, initorder, mr), cs("vp"), clist(ev)))
        meta.append(i)
        if i < 2:
            ctx.sample(dict(kind="program", files=sorted(res["srcs"].keys()), trace=res["lines"][:40]))

    def mism(j):
        i = meta[j]
        ctx.violation("model-mismatch-program", "run_program / run_machine and the compiled program disagree on the initialisation trace",
                      dict(kind="program", sources=results[i]["srcs"], trace=results[i]["lines"], coq_case=vc[j][:3000]), concrete=False)

    dist["model_mismatches"] = eval_cases(ctx, vc, "prog", mism, shard=max(4, len(vc) // C.NCPU + 1))
    ctx.cov["program_distribution"] = dist
    ctx.cov["traces_validated_against_impl"] = len(vc)


# ------------------------------------------------------------------ rejected uses

NEG = {
    "on-a-variable": ('package main\n\nimport (\n\t_ "unsafe"\n\t_ "vp/q"\n)\n\n//go:linkname v vp/q.V\nvar v int\n\nfunc main() { println(v) }\n',
                      "is only supported for functions"),
    "without-unsafe": ('package main\n\nimport _ "vp/q"\n\n//go:linkname f vp/q.tgt\nfunc f(x int) int\n\nfunc main() { println(f(1)) }\n',
                       'import "unsafe"'),
    "pushing-a-local-body": ('package main\n\nimport (\n\t_ "unsafe"\n\t_ "vp/q"\n)\n\n//go:linkname f vp/q.tgt\nfunc f(x int) int { return x }\n\nfunc main() { println(f(1)) }\n',
                             "can not insert local implementation"),
    "usage": ('package main\n\nimport (\n\t_ "unsafe"\n\t_ "vp/q"\n)\n\n//go:linkname f vp/q.tgt extra\nfunc f(x int) int\n\nfunc main() { println(f(1)) }\n',
              "usage requires 2 arguments"),
}
QSRC = "package q\n\nvar V = 7\n\nfunc tgt(x int) int { return x + 1 }\n\nfunc two(x int) int { return x + 2 }\n\nfunc three(x int) int { return x + 3 }\n\nfunc Keep() int { return tgt(V) + two(1) + three(1) }\n"
CONFLICT = ('package main\n\nimport (\n\t_ "unsafe"\n\t"vp/q"\n)\n\n//go:linkname f vp/q.tgt\n//go:linkname f vp/q.two\nfunc f(x int) int\n\n'
            '//go:linkname g vp/q.three\nfunc g(x int) int\n\nfunc main() {\n\tprintln(q.Keep())\n\tprintln(f(10))\n\tprintln(g(10))\n}\n')


def negatives(ctx):
    def one(item):
        name, (src, want) = item
        d = os.path.join(ctx.work, "neg-" + name)
        C.write_go_program(d, {"main.go": src, "q/q.go": QSRC}, module="vp")
        rc, log = C.gopherjs_build(d, timeout=900)
        return name, src, want, rc, log
    for name, src, want, rc, log in C.parallel_map(one, list(NEG.items())):
        ctx.count(["neg", name, src])
        if rc == 124:
            ctx.notes.append("skipped: build of the negative program `%s` timed out" % name)
        elif rc == 0 or want not in log:
            ctx.violation("linkname-rejected-use-accepted-" + name, "a go:linkname directive %s was not rejected at build time (rc=%d, log %r)" % (name, rc, log[-200:]),
                          dict(kind="negative", name=name, source=src, q=QSRC, rc=rc, log=log[-800:]))
    # conflicting directives for one reference: must be rejected at build time
    d = os.path.join(ctx.work, "neg-conflict")
    C.write_go_program(d, {"main.go": CONFLICT, "q/q.go": QSRC}, module="vp")
    rc, log = C.gopherjs_build(d, timeout=900)
    ctx.count(["neg", "conflict", CONFLICT])
    if rc == 124:
        ctx.notes.append("skipped: build of the negative program `conflict` timed out")
    elif rc == 0 or "conflicting go:linkname" not in log:
        out, err = "", ""
        if rc == 0:
            rc2, out, err = C.run_node(os.path.join(d, "out.js"), cwd=d)
        ctx.violation("linkname-conflict-not-rejected",
                      "two go:linkname directives give one function two implementations and the build is not rejected for that reason "
                      "(rc=%d, log %r); program prints %r %r" % (rc, log[-200:], out.split(), re.findall(r"Error: [^\n]*", err)[:1]),
                      dict(kind="negative", name="conflict", source=CONFLICT, q=QSRC, rc=rc, log=log[-800:], stdout=out, stderr=err[-600:],
                           native_go="./main.go: duplicate //go:linkname for f"))
    ctx.cov["negative_programs"] = len(NEG) + 1


def correspond(ctx):
    unit_cases(ctx)
    ctx.log("unit cases done")
    negatives(ctx)
    ctx.log("negative programs done")
    programs(ctx)
    ctx.log("programs done")


def replay(ctx, data):
    rp = data["replay"]
    k = rp.get("kind")
    if k in ("deps", "read", "gls"):
        key = {"deps": "deps", "read": "read", "gls": "gls"}[k]
        print("implementation now:", json.dumps(harness({key: [rp["case"]]})[key][0]))
        print("recorded:", json.dumps(rp.get("impl")))
        print("expected:", json.dumps(rp.get("expected")))
    elif k == "file":
        print("implementation now:", json.dumps(harness(dict(files=[rp["case"]]))["files"][0]))
        print("recorded:", json.dumps(rp.get("impl")), "\nexpected:", json.dumps(rp.get("expected")))
    elif k == "sort":
        print("implementation now:", json.dumps(harness(dict(sort=[dict(names=rp["names"]), dict(names=rp["shuffled"])]))["sort"]))
    elif k == "program" or k == "negative":
        d = os.path.join(ctx.work, "replay")
        srcs = rp.get("sources") or {"main.go": rp["source"], "q/q.go": rp["q"]}
        C.write_go_program(d, srcs, module="vp")
        rc, log = C.gopherjs_build(d)
        print("build rc=%d %s" % (rc, log))
        if rc == 0:
            rc, out, err = C.run_node(os.path.join(d, "out.js"), cwd=d)
            print(out, err[-800:])
        print("recorded trace:", rp.get("trace"), "\nnative:", rp.get("native"))
    else:
        print(json.dumps(data, indent=1))
    return 0
