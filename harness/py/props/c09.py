"""C09 - dynamic types: identity, assertions, method sets, dispatch, interface equality.
Model: coq/Model/C09_Types.v ; theorems: coq/Props/C09.v ; evaluation: coq/Corr/C09_Eval.v.

Correspondence (every run, against the CURRENT tree of the repository):
 (0) tables: the $kind numbering and the order of the predeclared types are regenerated from types.js into
     coq/Gen/C09_Kinds.v;
 (1) witnesses: one minimal family per known defect class is replayed on the REAL run-time (node driver) and as a
     compiled Go program (gopherjs vs native go). The node answers select, per class, which variant of the model
     (flag false = code as found, true = repaired) the run-time is compared against; a class still present is a
     concrete violation with that class's signature;
 (2) node families: random families built with the REAL constructors ($newType/init/.methods, $structType, ...),
     every (dynamic type, interface) pair asserted in random order through the REAL $assertType, identity of
     composite types, $methodSet with owners, $interfaceIsEqual - compared (a) with a from-scratch Python
     transcription of Go's rules (direct oracle; a difference is a concrete violation, attributed to a class by
     evaluating the model with exactly one class left unrepaired) and (b) with the Coq model of the variant found;
 (3) compiled families: the same families printed as Go programs (two packages, local types, type switches,
     calls through interfaces, method values and method expressions with mutating receivers), built with the real
     compiler, run with node, and compared line by line with native `go run` (direct oracle); the Coq SPEC is
     compared with native Go on the same probes (validation of the spec side);
 (4) deep families (phase 4): type terms of constructor depth 4-7 over all eight constructors with hostile struct tags
     ('$', '\\', ',' and forged key fragments), exact copies, one-mutation near copies and sibling sets (chan-of-chan
     directions, package / order / embedded bit of later struct fields), and embedding graphs of 9-14 structs (chain, fan,
     dag, deep diamond), built with the REAL constructors and probed through the REAL $methodSet/$assertType, vs the Coq
     model, the Coq SPEC and the Python transcription; the hypothesis [wfb] of the unbounded identity theorem is
     evaluated in Coq on every generated term and compared with an independent Python check.
"""
import json, os, re, sys
import common as C
import c09_fam as F
import c09_prog as G
import c09_deep as D

ID = "C09"
PROPS_FILE = "Props/C09.v"
MODEL_TARGETS = ["Corr/C09_Eval.v"]
ALLOWED_AXIOMS = []
RULE = ("families: <= 8 declared types in two packages (structs with value/pointer embedding incl. pointer cycles and forward "
        "references, int-based types, interfaces with exported/unexported methods and copied (embedded) method sets, local types "
        "that print alike), methods M/N/m/n with 3 signatures and value/pointer receivers, fields named like methods; universe = "
        "declared types, their pointers, 3-8 composite types over them, unexported-field structs of both packages, tag variants, "
        "literal interfaces, duplicates; probes = every (dynamic type, interface) pair, identity of ~65 composite pairs, method "
        "sets with owners, 14 interface comparisons, in random order. non-trivial = the family has an embedded field and an "
        "assertion that succeeds and one that fails; distinct by the whole family. deep families: 6 (thorough 160) families of "
        "14-18 type terms of depth 4-7 + copies + one-mutation copies + 2 sibling sets of 17 types each (~700 identity probes per "
        "family; non-trivial = an identical and a non-identical pair of different universe positions), 8 (thorough 240) embedding "
        "graphs of 9-14 structs with methods M/N/P on value/pointer receivers (method sets of 8 types + 24 assertions)")
TRUSTED = ["the well-formedness hypothesis wfb of C09_canon_iff_identical (Model/C09_P4_Wf.v) describes what the compiler emits "
           "(arities, identifiers and import paths without , $ \\, exported = ASCII upper-case initial, struct pkgPath \"\" iff no "
           "unexported field as in compiler/utils.go); it is evaluated on every generated deep term, not derived from the compiler",
           "model of types.js/prelude.js written by hand (coq/Model/C09_Types.v), tied by this correspondence",
           "harness/js/c09_driver.js emulates the compiler's emission order ($newType for all declarations, then per declaration "
           "component types, method signatures, .methods, .init, then $synthesizeMethods) - compiled families check the real order",
           "typ.methodSetCache is modelled as a pure memo (.methods are assigned before the first $methodSet call)",
           "struct/array types pre-create their pointer type; the model creates it on first use (only numeric ids differ)",
           "Object.keys(base).sort() ordering of $methodSet is not modelled (unobservable: the interface's method order decides)",
           "native Go 1.23 as oracle for compiled families; Python transcription of Go's selector/identity rules for node families",
           "reflect metadata consumers and TypeAssertionError text beyond the missing-method name are not modelled"]
ASSUMPTIONS = ["package paths and identifiers contain no ',' '$' '\\' (go command's import path rules; hypothesis wfb of the identity theorem; tags are arbitrary)",
               "exported-ness of a field is determined by its name (ASCII upper-case initial) - non-ASCII upper-case identifiers are outside wfb",
               "embedded fields are type names or pointers to type names (no aliases of literals)",
               "values compared through interfaces are projected to trees of atoms (ints, pointer identities)"]
TECHNIQUE = ("Coq proof about an executable model with one boolean per defect class (identity: structural induction over arbitrary type "
             "terms and canonicalisation sequences, hash-consing invariant + injectivity of the typeKey strings) + differential "
             "correspondence (node driver on the real prelude incl. deep terms and large embedding graphs, compiled programs vs native Go)")
LEVEL_TEXT = ("Machine-checked theorems over a model of the run-time type constructors (typeKey strings and caches), $methodSet, $assertType "
              "(memo tables as state) and interface equality; each known defect is refuted by a witness and the positive theorem is proved "
              "for the repaired variant / outside the defect classes. The model is tied to the code on every run. "
              "UNBOUNDED (phase 4): C09_canon_iff_identical - for every environment and every sequence of well-formed type terms of any "
              "depth, two terms get the same run-time object iff identical by Go's rules (C09_canon_hashcons_invariant, "
              "C09_typekey_injective for all eight constructors with arbitrary tags, C09_tag_escape_prefix_free, "
              "C09_representative_unique, C09_canon_stable_later); $assertType memo soundness for every history. "
              "STILL BOUNDED: $methodSet = Go's method set only over the 19683 four-struct families (larger graphs are compared on "
              "every run, not proved).")
LEVEL_NOTE = ("The unhypothesised C09_canon_full_statement is refuted only by junk terms (declaration index out of range: "
              "C09_canon_full_statement_junk_refuted); the proved statement carries the computable hypothesis wfb. The BFS-with-seen "
              "vs shallowest-unique-depth induction for arbitrary embedding graphs is not done. "
              "Proof is about the hand-written model; the tie to the repository is differential. Dispatch (which method runs, copied or shared "
              "receiver) is checked on compiled programs against native Go, not proved.")

FLAGS = ["emb", "pkg", "tag", "memo", "ambig", "field", "mpkg", "pshadow", "diamond", "ifdup"]
SIG = dict(emb="struct-embedded-flag-not-in-key", pkg="struct-unexported-field-pkg-not-in-key", tag="struct-tag-dollar-key-collision",
           memo="assert-memo-keyed-by-type-string", ambig="methodset-same-depth-ambiguity-kept", field="methodset-field-shadowing-ignored",
           mpkg="methodset-unexported-name-pkg-ignored", pshadow="methodset-ptr-receiver-shadow-ignored",
           diamond="methodset-diamond-embedding-not-ambiguous", ifdup="methodset-embedded-named-interface-counted-twice")
WHAT = dict(
    emb="struct{T} and struct{T T} get the same run-time type ($structType key omits `embedded`)",
    pkg="struct{a int} of package q and of main get the same run-time type (key omits the package of unexported names)",
    tag="struct{A int \"t$B,1,\"} and struct{A int \"t\"; B int} get the same run-time type ('$' in a tag is not escaped in the key)",
    memo="two different types printed alike share implementedBy/missingMethodFor/seen entries (keyed by type string)",
    ambig="a method promoted twice at the same depth stays in the method set (Go: ambiguous selector, not in the method set)",
    field="a field hides a deeper (or equally deep) promoted method in Go, $methodSet ignores fields",
    mpkg="unexported methods with the same name from different packages hide each other (base[] keyed by name only)",
    pshadow="a pointer-receiver method reached without indirection hides deeper methods in Go, $methodSet skips it",
    diamond="a type embedded twice at the same depth through two paths is visited once (`seen`), its methods stay in the method set (Go: ambiguous)",
    ifdup="the methods of an embedded NAMED interface are added twice to a level and then counted as ambiguous")


# ------------------------------------------------------------------ prepare

def prepare(ctx):
    C.ensure_gopherjs()
    src = open(os.path.join(C.REPO, "compiler", "prelude", "types.js")).read()
    kinds = re.findall(r"^var \$kind(\w+) = (\d+);", src, re.M)
    pre = re.findall(r"^var \$\w+ = \$newType\(\d+, \$kind(\w+), \"([^\"]+)\", true,", src, re.M)
    pre = [p for p in pre if p[1] != "error"]
    if len(kinds) < 26 or len(pre) < 18:
        raise C.BuildError("C09: cannot extract the kind table / predeclared types from types.js (source shape changed)")
    kd = dict(kinds)
    txt = "(* GENERATED by harness/py/props/c09.py from compiler/prelude/types.js - do not edit *)\n"
    txt += "From Coq Require Import NArith String List.\nImport ListNotations.\nLocal Open Scope N_scope.\n"
    for k, n in kinds:
        txt += "Definition kind%s := %s.\n" % (k, n)
    txt += "(* predeclared types in allocation order: (type string, kind) ; id = position *)\n"
    txt += "Definition predeclared : list (string * N) := [%s].\n" % "; ".join('("%s"%%string, %s)' % (s, kd[k]) for k, s in pre)
    C.write_if_changed(os.path.join(C.COQ, "Gen", "C09_Kinds.v"), txt)
    if C.ALT:
        C.sync_alt_coq()


# ------------------------------------------------------------------ witnesses (one per defect class)

def _decl(name, under, meths=(), pkg="main", pkgname="main", local=False, fn=None):
    d = dict(str=pkgname + "." + name, pkg=pkg, name=name, exported=True, local=local, under=under, meths=list(meths))
    if fn: d["fn"] = fn
    return d


def _m(name, ptr=False, pkg="main"):
    return dict(name=name, pkg=("" if name[:1].isupper() else pkg), sig=F.SIGS[0], ptr=ptr)


def witnesses():
    """flag -> (family, index of the deciding probe)"""
    T = _decl("T", F.struct([]))
    I = F.iface([F.imeth("M", F.SIGS[0])])
    Im = F.iface([F.imeth("m", F.SIGS[0])])
    A = _decl("A", F.struct([]), [_m("M")])
    B = _decl("B", F.struct([]), [_m("M")])
    w = {}
    w["emb"] = (dict(decls=[T], univ=[F.struct([F.field("T", F.named(0), emb=True)]), F.struct([F.field("T", F.named(0))])],
                     probes=[["ident", 0, 1]]), 0)
    w["pkg"] = (dict(decls=[], univ=[F.struct([F.field("a", F.basic(1))], "main"), F.struct([F.field("a", F.basic(1))], F.QPKG)],
                     probes=[["ident", 0, 1]]), 0)
    # the colliding tag depends on the key format (today "name,id,tag"; with the embedded bit "name,id,tag,0")
    w["tag"] = (dict(decls=[], univ=[F.struct([F.field("A", F.basic(1), tag="t"), F.field("B", F.basic(1))]),
                                      F.struct([F.field("A", F.basic(1), tag="t$B,1,")]),
                                      F.struct([F.field("A", F.basic(1), tag="t,0$B,1,")])], probes=[["ident", 0, 1], ["ident", 0, 2]]), (0, 1))
    C_ = _decl("C", F.struct([F.field("A", F.named(0), emb=True)]))
    D_ = _decl("D", F.struct([F.field("A", F.named(0), emb=True)]))
    w["diamond"] = (dict(decls=[A, C_, D_, _decl("CD", F.struct([F.field("C", F.named(1), emb=True), F.field("D", F.named(2), emb=True)]))],
                         univ=[F.named(3), I], probes=[["assert", 0, 1]]), 0)
    w["ifdup"] = (dict(decls=[_decl("I", I), _decl("S", F.struct([F.field("I", F.named(0), emb=True)]))],
                       univ=[F.named(1), F.named(0)], probes=[["assert", 0, 1]]), 0)
    w["memo"] = (dict(decls=[_decl("L1", F.struct([]), [_m("M")]),
                             _decl("L", F.struct([F.field("L1", F.named(0), emb=True)]), local=True, fn="loc0"),
                             _decl("L", F.struct([F.field("x", F.basic(1))]), local=True, fn="loc1")],
                      univ=[F.named(1), F.named(2), I], probes=[["assert", 0, 2], ["assert", 1, 2]]), 1)
    w["ambig"] = (dict(decls=[A, B, _decl("S", F.struct([F.field("A", F.named(0), emb=True), F.field("B", F.named(1), emb=True)]))],
                       univ=[F.named(2), I], probes=[["assert", 0, 1]]), 0)
    w["field"] = (dict(decls=[A, _decl("FS", F.struct([F.field("A", F.named(0), emb=True), F.field("M", F.basic(1))]))],
                       univ=[F.named(1), I], probes=[["assert", 0, 1]]), 0)
    w["mpkg"] = (dict(decls=[_decl("Q", F.struct([]), [_m("m", pkg=F.QPKG)], pkg=F.QPKG, pkgname="q"),
                             _decl("A", F.struct([]), [_m("m")]),
                             _decl("B", F.struct([F.field("A", F.named(1), emb=True)])),
                             _decl("S", F.struct([F.field("Q", F.named(0), emb=True), F.field("B", F.named(2), emb=True)]))],
                      univ=[F.named(3), Im], probes=[["assert", 0, 1]]), 0)
    w["pshadow"] = (dict(decls=[_decl("A", F.struct([]), [_m("M", ptr=True)]), B,
                                _decl("C", F.struct([F.field("B", F.named(1), emb=True)])),
                                _decl("S", F.struct([F.field("A", F.named(0), emb=True), F.field("C", F.named(2), emb=True)]))],
                         univ=[F.named(3), I], probes=[["assert", 0, 1]]), 0)
    return w


def run_driver(ctx, fams, tag):
    drv = os.path.join(C.JS, "c09_driver.js")
    chunks = [fams[i::C.NCPU] for i in range(C.NCPU)] if len(fams) > 8 else [fams]

    def one(ch):
        if not ch:
            return []
        rc, out, err = C.sh2(["node", "--stack-size=4000", drv, C.REPO], inp=json.dumps(ch).encode(), timeout=900)
        if rc == 124:                  # infrastructure: skip these families, never a violation
            ctx.notes.append("node driver timed out (%s): %d families skipped" % (tag, len(ch)))
            return [[["skip"] for _ in f["probes"]] for f in ch]
        if rc != 0:
            raise C.BuildError("c09 node driver failed (%s): %s" % (tag, err[-600:]))
        return json.loads(out)
    res = C.parallel_map(one, chunks)
    if len(chunks) == 1:
        return res[0]
    out = [None] * len(fams)
    for k, rr in enumerate(res):
        for j, a in enumerate(rr):
            out[k + j * C.NCPU] = a
    return out


def detect_flags(ctx):
    w = witnesses()
    fams = [w[f][0] for f in FLAGS]
    res = run_driver(ctx, fams, "witnesses")
    cur = {}
    for f, fam, ans in zip(FLAGS, fams, res):
        ks = w[f][1] if isinstance(w[f][1], tuple) else (w[f][1],)
        specs = F.spec_answers(fam)
        if any(ans[k][0] == "skip" for k in ks):
            cur[f] = f not in ("field", "mpkg", "pshadow", "diamond")      # could not probe: assume the variant of the current tree
            continue
        if any(ans[k][0] in ("error", "fatal") for k in ks):
            raise C.BuildError("c09 witness %s crashed in the driver: %s" % (f, ans))
        bad = [k for k in ks if not F.ans_eq(ans[k], specs[k])]
        cur[f] = not bad
        k = bad[0] if bad else ks[0]
        spec = specs[k]
        if not cur[f]:
            ctx.violation(SIG[f], WHAT[f] + " [node driver on the real prelude]",
                          dict(kind="witness", flag=f, family=fam, probe=fam["probes"][k], impl=ans[k], go_rules=spec))
    return cur


# ------------------------------------------------------------------ Coq evaluation

def coq_eval(ctx, cases, tag, shard=12):
    """cases: list of dict(fam, variants(list of flag lists), obs(list of answers), ref(list or None)).
    returns per case (per-variant [(vs obs, vs spec)], spec vs obs, spec vs ref) or None on failure"""
    shards = [cases[i:i + shard] for i in range(0, len(cases), shard)]
    texts = []
    for sh_ in shards:
        body = []
        for c in sh_:
            body.append("{| c_fam := %s;\n c_variants := [%s];\n c_obs := [%s];\n c_ref := [%s] |}" % (
                F.coq_family(c["fam"]),
                "; ".join("[" + "; ".join("true" if b else "false" for b in v) + "]" for v in c["variants"]),
                "; ".join(F.coq_ans(a) for a in c["obs"]),
                "; ".join(F.coq_ans(a) for a in (c.get("ref") or []))))
        texts.append(body)
    STRDEFS = F.coq_strtab()

    def run(k):
        p = os.path.join(ctx.work, "cases_%s_%d.v" % (tag, k))
        with open(p, "w") as f:
            f.write("From Coq Require Import List NArith String.\nFrom Verif Require Import Model.C09_Types Corr.C09_Eval.\nImport ListNotations.\nLocal Open Scope N_scope.\n")
            f.write(STRDEFS)
            body = texts[k]
            f.write("Definition cases : list case := [\n" + ";\n".join(body) + "].\n")
            f.write("Definition M := Eval vm_compute in eval_cases cases.\nPrint M.\n")
        rc, out = C.coq_run(p)
        m = re.search(r"M\s*=\s*(.*?)\s*:\s*list", out, re.S)
        if rc == 124 or "[timeout" in out:
            return "INFRA", "coqc timed out"
        if rc != 0 or not m:
            return None, out[-1500:]
        txt = m.group(1).replace("%N", "").replace(";", ",").replace("(", "[").replace(")", "]")
        try:
            return json.loads(txt), ""
        except ValueError:
            return None, "cannot parse: " + txt[:500]
    out = []
    for k, (res, err) in enumerate(C.parallel_map(run, range(len(shards)))):
        if res == "INFRA":
            ctx.notes.append("Coq evaluation shard %d (%s) timed out: %d families skipped" % (k, tag, len(shards[k])))
            out += [None] * len(shards[k])
        elif res is None:
            ctx.violation("model-eval-failed", "Coq evaluation of the model failed", dict(shard=k, tag=tag, log=err), concrete=False)
            out += [None] * len(shards[k])
        else:
            out += res
    return out


def variants_for(cur, attribution=True):
    """[current variant] + per unrepaired class: (everything repaired except that class), (current + that class repaired)"""
    unfixed = [f for f in FLAGS if not cur[f]]
    vs = [[cur[f] for f in FLAGS]]
    if attribution:
        for u in unfixed:
            vs.append([f != u for f in FLAGS])
        for u in unfixed:
            vs.append([cur[f] or f == u for f in FLAGS])
    return vs, unfixed


def attribute(unfixed, res, p):
    """which class explains the difference between run-time and Go at probe p"""
    per_variant = res[0]
    n = len(unfixed)
    for k, u in enumerate(unfixed):           # the class alone reproduces the run-time's answer
        vs_obs, vs_spec = per_variant[1 + k]
        if p not in vs_obs and p in vs_spec:
            return u
    for k, u in enumerate(unfixed):           # repairing the class alone removes the difference
        if p not in per_variant[1 + n + k][1] and p in per_variant[0][1]:
            return u
    for k, u in enumerate(unfixed):
        if p in per_variant[1 + k][1]:
            return u
    return None


# ------------------------------------------------------------------ node families

def node_families(ctx, cur, fams=None, tag="node", covkey="node_family_distribution", nontriv=None):
    if fams is None:
        r = ctx.rng("families")
        n = 48 if ctx.quick else 800
        fams = [F.gen_family(r) for _ in range(n)]
    n = len(fams)
    res = run_driver(ctx, fams, "families-" + tag)
    vs, unfixed = variants_for(cur)
    cases, specs = [], []
    dist = dict(families=n, probes=0, asserts=0, assert_ok=0, idents=0, ident_true=0, msets=0, eqs=0, eq_panic=0,
                decls=0, embedded_fields=0, local_types=0, q_types=0, go_vs_runtime_differences=0)
    for fam, obs in zip(fams, res):
        bad = [a for a in obs if a[0] in ("error", "fatal")]
        if bad:
            ctx.violation("driver-error", "the node driver raised on a generated family: %s" % bad[0][1][:200],
                          dict(kind="family", family=fam, impl=obs), concrete=False)
            obs = [a if a[0] not in ("error", "fatal") else ["skip"] for a in obs]
            if len(obs) != len(fam["probes"]):
                obs = [["skip"]] * len(fam["probes"])
        sp = F.spec_answers(fam)
        specs.append(sp)
        cases.append(dict(fam=fam, variants=vs, obs=obs))
        emb = sum(1 for d in fam["decls"] if d["under"]["k"] == "struct" for f in d["under"]["fs"] if f["emb"])
        oks = [a[1] for a in obs if a[0] == "assert"]
        ctx.count(fam, nontrivial=(nontriv(fam, obs) if nontriv else (emb > 0 and any(oks) and not all(oks))))
        dist["probes"] += len(obs); dist["asserts"] += len(oks); dist["assert_ok"] += sum(oks)
        dist["idents"] += sum(1 for a in obs if a[0] == "ident"); dist["ident_true"] += sum(1 for a in obs if a[0] == "ident" and a[1])
        dist["msets"] += sum(1 for a in obs if a[0] == "mset"); dist["eqs"] += sum(1 for a in obs if a[0] == "eq")
        dist["eq_panic"] += sum(1 for a in obs if a[0] == "eq" and a[1] == "panic")
        dist["decls"] += len(fam["decls"]); dist["embedded_fields"] += emb
        dist["local_types"] += sum(1 for d in fam["decls"] if d.get("local")); dist["q_types"] += sum(1 for d in fam["decls"] if d["pkg"] == F.QPKG)
    ctx.log("%s families run: %d probes" % (tag, dist["probes"]))
    vs1, _ = variants_for(cur, attribution=False)
    for c in cases:
        c["variants"] = vs1
    ev = coq_eval(ctx, cases, tag, shard=(12 if tag == "node" else 3))
    mism = 0
    per_class = {}
    todo = []
    for k, (fam, c, sp, e) in enumerate(zip(fams, cases, specs, ev)):
        if e is None:
            continue
        obs = c["obs"]
        pyexact = [i for i, (a, b) in enumerate(zip(obs, sp)) if a[0] != "skip" and not F.ans_eq(a, b)]
        # which of several missing methods a failed assertion names is an implementation detail: any of them is accepted
        pydiff = [i for i in pyexact if not F.ans_eq_loose(obs[i], sp[i], sp[i])]
        if sorted(pydiff) != sorted(e[1]):
            ctx.violation("spec-python-vs-coq", "the Python transcription of Go's rules and the Coq SPEC disagree on a family",
                          dict(kind="family", family=fam, python_diff=pydiff, coq_diff=e[1]), concrete=False)
        dist["go_vs_runtime_differences"] += len(pydiff)
        modeldiff = e[0][0][0]
        # (b) model of the current variant vs the real run-time
        for p in modeldiff:
            mism += 1
            if mism <= 2:
                ctx.violation("model-mismatch", "model (variant %s) and the real run-time disagree on probe %s: run-time %s" % (
                    "".join("1" if b else "0" for b in vs1[0]), json.dumps(fam["probes"][p])[:80], json.dumps(obs[p])[:120]),
                    dict(kind="family", family=fam, probe_index=p, probe=fam["probes"][p], impl=obs[p], variant=vs1[0],
                         correspondence="Corr/C09_Eval.run_impl vs types.js through harness/js/c09_driver.js"), concrete=False)
        # (a) direct oracle: Go's rules vs the real run-time. A difference that the model (which contains exactly the
        # known classes) reproduces belongs to a known class; one that it does not reproduce is new.
        for p in pydiff:
            if p in modeldiff:
                per_class["unclassified"] = per_class.get("unclassified", 0) + 1
                if per_class["unclassified"] <= 2:
                    ctx.violation("unclassified-" + obs[p][0], "run-time answer differs from Go's rules and no known class explains it" +
                                  " [probe %s: run-time %s, Go %s]" % (json.dumps(fam["probes"][p])[:80], json.dumps(obs[p])[:80], json.dumps(sp[p])[:80]),
                                  dict(kind="family", family=fam, probe_index=p, probe=fam["probes"][p], impl=obs[p], go_rules=sp[p]))
        if [p for p in pydiff if p not in modeldiff]:
            todo.append(k)
    # attribution (which class) for the first families with explained differences
    natt = 4 if ctx.quick else 40
    acases = [dict(fam=fams[k], variants=vs, obs=cases[k]["obs"]) for k in todo[:natt]]
    aev = coq_eval(ctx, acases, "attr" + tag, shard=2) if acases else []
    for k, e in zip(todo[:natt], aev):
        if e is None:
            continue
        fam, obs, sp = fams[k], cases[k]["obs"], specs[k]
        for p in e[1]:
            if p in e[0][0][0] or F.ans_eq_loose(obs[p], sp[p], sp[p]):
                continue
            cls = attribute(unfixed, e, p)
            sig = SIG[cls] if cls else "known-classes-combined"
            per_class[sig] = per_class.get(sig, 0) + 1
            if cls and per_class[sig] <= 2:
                ctx.violation(sig, WHAT[cls] + " [probe %s: run-time %s, Go %s]" % (json.dumps(fam["probes"][p])[:80], json.dumps(obs[p])[:80], json.dumps(sp[p])[:80]),
                              dict(kind="family", family=fam, probe_index=p, probe=fam["probes"][p], impl=obs[p], go_rules=sp[p]))
    dist["families_with_explained_differences"] = len(todo)
    dist["families_attributed"] = len(acases)
    dist["model_mismatches"] = mism
    dist["differences_by_class"] = per_class
    ctx.cov[covkey] = dist
    ctx.sample(dict(kind="family", decls=[dict(str=d["str"], under=d["under"], meths=[(m["name"], m["ptr"]) for m in d["meths"]]) for d in fams[0]["decls"]][:4],
                    probes=fams[0]["probes"][:5], impl=res[0][:5]))


def coq_wf(ctx, fams, tag):
    """evaluate Model/C09_P4_Wf.wf_univ (the hypothesis of C09_canon_iff_identical) on every family; None on failure"""
    shards = [fams[i:i + 6] for i in range(0, len(fams), 6)]
    texts = ["[" + ";\n".join(F.coq_family(dict(f, probes=[])) for f in sh_) + "]" for sh_ in shards]
    STRDEFS = F.coq_strtab()

    def run(k):
        p = os.path.join(ctx.work, "wf_%s_%d.v" % (tag, k))
        with open(p, "w") as f:
            f.write("From Coq Require Import List NArith String.\nFrom Verif Require Import Model.C09_Types Corr.C09_Eval Model.C09_P4_Wf.\n"
                    "Import ListNotations.\nLocal Open Scope N_scope.\n" + STRDEFS)
            f.write("Definition fams : list family := %s.\n" % texts[k])
            f.write("Definition M := Eval vm_compute in map wf_univ fams.\nPrint M.\n")
        rc, out = C.coq_run(p)
        m = re.search(r"M\s*=\s*(.*?)\s*:\s*list", out, re.S)
        if rc != 0 or not m:
            return None
        try:
            return json.loads(m.group(1).replace(";", ","))
        except ValueError:
            return None
    out = []
    for k, res in enumerate(C.parallel_map(run, range(len(shards)))):
        out += res if res is not None and len(res) == len(shards[k]) else [None] * len(shards[k])
    return out


def add_siblings(r, fam):
    """around two of the deep terms x of the family: every direction pair of chan(chan x), and multi-field structs over x that
    differ only in the package of a NON-FIRST unexported field / the field order / the embedded bit of a later field;
    all pairs inside each sibling set are probed for identity"""
    U, probes = fam["univ"], fam["probes"]
    nb = len(U)
    for x in r.sample(range(nb), 2):
        sibs = []
        dirs = [(False, False), (True, False), (False, True)]
        for di in dirs:
            for do in dirs:
                sibs.append(F.chan(F.chan(json.loads(json.dumps(U[x])), di[0], di[1]), do[0], do[1]))
        cp = lambda: json.loads(json.dumps(U[x]))
        for pkg in ("main", F.QPKG):
            sibs.append(F.ptr(F.struct([F.field("A", cp()), F.field("b", F.basic(F.B_INT))], pkg)))
            sibs.append(F.ptr(F.struct([F.field("b", F.basic(F.B_INT)), F.field("A", cp())], pkg)))
            sibs.append(F.slice_(F.struct([F.field("A", cp(), tag="a$b"), F.field("L", F.named(0), emb=True), F.field("c", F.basic(F.B_INT), tag="\\")], pkg)))
            sibs.append(F.slice_(F.struct([F.field("A", cp(), tag="a$b"), F.field("L", F.named(0), emb=False), F.field("c", F.basic(F.B_INT), tag="\\")], pkg)))
        base = len(U)
        U.extend(sibs)
        probes.extend(["ident", base + i, base + j] for i in range(len(sibs)) for j in range(i, len(sibs)))
    return fam


def deep_families(ctx, cur):
    """phase 4 tie: type terms of constructor depth 4-7 with hostile tags and one-mutation near copies (beyond the depth<=2
    domain of the bounded theorem), and embedding graphs of 9-14 structs (beyond the four-struct families), built with the
    REAL constructors, vs the Coq model, the Coq SPEC and the Python transcription of Go's rules; the hypothesis [wfb] of the
    unbounded identity theorem is evaluated (Coq) on every generated term and compared with an independent Python check."""
    r = ctx.rng("deep-terms")
    nt = 6 if ctx.quick else 160
    terms = [add_siblings(r, D.gen_deep_terms(r, quick=ctx.quick)) for _ in range(nt)]
    r2 = ctx.rng("deep-graphs")
    ng = 8 if ctx.quick else 240
    graphs = [D.gen_graph(r2, quick=ctx.quick) for _ in range(ng)]
    wf = coq_wf(ctx, terms + graphs, "deep")
    nwf = 0
    for fam, w in zip(terms + graphs, wf):
        pw = D.py_wf(fam)
        if w is None:
            ctx.notes.append("Coq evaluation of wf_univ failed or timed out on a deep family (skipped)")
            continue
        nwf += sum(1 for x in w if x)
        if w != pw or not all(w):
            ctx.violation("wf-hypothesis-mismatch", "a generated type term is outside the well-formedness hypothesis of C09_canon_iff_identical, "
                          "or the Coq predicate and the Python check disagree", dict(kind="family", family=fam, coq_wf=w, python_wf=pw), concrete=False)
    depths = [D.max_depth(t) for f in terms for t in f["univ"]]
    ctx.cov["deep_terms"] = dict(families=nt, terms=len(depths), max_depth=max(depths), min_depth=min(depths),
                                 mean_depth=round(sum(depths) / float(len(depths)), 2), wf_true=nwf,
                                 graph_families=ng, graph_sizes=sorted(set(len(g["decls"]) for g in graphs)),
                                 graph_shapes=sorted(set(g.get("shape", "?") for g in graphs)))

    def nt_terms(fam, obs):
        ids = [a[1] for a, p in zip(obs, fam["probes"]) if a[0] == "ident" and p[1] != p[2]]
        return any(ids) and not all(ids)
    node_families(ctx, cur, fams=terms, tag="deept", covkey="deep_term_distribution", nontriv=nt_terms)

    def nt_graph(fam, obs):
        oks = [a[1] for a in obs if a[0] == "assert"]
        return any(oks) and not all(oks)
    node_families(ctx, cur, fams=graphs, tag="deepg", covkey="deep_graph_distribution", nontriv=nt_graph)


def correspond(ctx):
    cur = detect_flags(ctx)
    ctx.cov["variant_compared_against"] = {f: ("repaired" if cur[f] else "as-found") for f in FLAGS}
    ctx.log("variant: " + " ".join("%s=%d" % (f, cur[f]) for f in FLAGS))
    node_families(ctx, cur)
    ctx.log("node families done")
    deep_families(ctx, cur)
    ctx.log("deep families done")
    G.witness_program(ctx, cur, SIG, WHAT)
    ctx.log("witness program done")
    G.compiled_families(ctx, cur, coq_eval, variants_for, attribute, SIG, WHAT)
    ctx.log("compiled families done")


def replay(ctx, data):
    rp = data["replay"]
    if rp.get("kind") in ("family", "witness"):
        fam = rp["family"]
        print("run-time now :", json.dumps(run_driver(ctx, [fam], "replay")[0]))
        print("Go's rules   :", json.dumps(F.spec_answers(fam)))
        print("recorded     :", json.dumps(rp.get("impl")), "expected", json.dumps(rp.get("go_rules")))
    elif rp.get("kind") == "program":
        G.replay_program(ctx, rp)
    else:
        print(json.dumps(data, indent=1))
    return 0
